#!/bin/bash
# confirm_seed.sh <worktree> <prop id> <seed name>: re-verify a sub-agent's seeded change in its scratch
# worktree (suite passes with it, demo fails with it and passes without), then keep it under seeded/.
set -u
WT=$1; PID=$2; NAME=$3
cd "$WT" || exit 2
DEMO=$(ls demo_*.py | head -1)
git diff -- indi > /tmp/seed_$NAME.diff
[ -s /tmp/seed_$NAME.diff ] || { echo "no change in worktree"; exit 2; }
PYTHONPATH="$WT" /venv/bin/python "$DEMO" > /tmp/seed_$NAME.with 2>&1; RC_WITH=$?
# (git stash is shared between worktrees of one repository: use apply -R instead)
git apply -R /tmp/seed_$NAME.diff
PYTHONPATH="$WT" PYTHONPATH="$WT" /venv/bin/python "$DEMO" > /tmp/seed_$NAME.without 2>&1; RC_WITHOUT=$?
git apply /tmp/seed_$NAME.diff
SUITE=$(PYTHONPATH="$WT" /venv/bin/python -m pytest -q -p no:cacheprovider -n 8 2>&1 | tail -1)
echo "demo with change: rc=$RC_WITH; without: rc=$RC_WITHOUT; suite: $SUITE"
if [ $RC_WITH -ne 0 ] && [ $RC_WITHOUT -eq 0 ] && echo "$SUITE" | grep -q "333 passed"; then
  D=/verif/seeded/$NAME; mkdir -p $D
  cp /tmp/seed_$NAME.diff $D/patch.diff; cp "$DEMO" $D/
  tail -3 /tmp/seed_$NAME.with > $D/demo_output_with_change.txt
  echo "CONFIRMED -> $D"
else
  echo "NOT CONFIRMED"
fi
rm -f /tmp/seed_$NAME.*
