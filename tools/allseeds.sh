#!/bin/bash
# allseeds.sh: apply every seeded change in turn, run the quick check of its property (or the checks its meta.json
# names under "caught_by"), undo it.  Prints one line per seed; "MISSED" if no check alarms.
cd /verif
for D in seeded/*/; do
  N=$(basename $D)
  PS=$(python3 -c "import json;m=json.load(open('$D/meta.json'));print(' '.join(m.get('caught_by',[m['property']])))")
  OUT=$(bash tools/seedtest.sh $N $PS 2>&1 | grep -c "VIOLATION")
  if [ "$OUT" -ge 1 ]; then echo "$N $PS caught"; else echo "$N $PS MISSED"; fi
done
