#!/bin/bash
# allseeds.sh: apply every seeded change in turn, run the quick check of its property, undo it.
# Prints one line per seed; "MISSED" if the check does not alarm.
cd /verif
for D in seeded/*/; do
  N=$(basename $D)
  P=$(python3 -c "import json;print(json.load(open('$D/meta.json'))['property'])")
  OUT=$(bash tools/seedtest.sh $N $P 2>&1 | grep -c "VIOLATION")
  if [ "$OUT" -ge 1 ]; then echo "$N $P caught"; else echo "$N $P MISSED"; fi
done
