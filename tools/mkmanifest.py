#!/usr/bin/env python3
"""Writes MANIFEST.json from the table below (kept here so the manifest stays consistent)."""
import json, os
V = os.path.dirname(os.path.dirname(os.path.abspath(__file__)))
NOTE_BASE = ("Trusted: Coq 8.16.1 kernel (+vm_compute); no axioms (Print Assumptions re-run on every check); "
             "registry_gen.py translator; ExtrOcamlBasic extraction + runner/driver.ml (cross-checked against vm_compute on a sample each run); "
             "the correspondence harness. ")
CHECKS = {
    "C20": dict(
        text="Theorems equality_is_structural (+7 perturbation corollaries) over a Gallina model of to_dict/__eq__, for all messages, "
             "any number of children; tied to the code by the regenerated message registry (reg_ok_c20 proved by vm_compute each run) and by a "
             "correspondence running msg_eqb and the real ==/!= on generated pairs (every single-point perturbation, rebuilt copies).",
        note=NOTE_BASE + "Modelled: str() of attribute values, dict equality.",
        technique="Coq proof (structural induction) + regenerated registry + model/impl correspondence",
        design="4/C20"),
}
CHECKS["C04"] = dict(
    text="Theorems over the router model for EVERY state, message and sender: to_device_exactly_the_addressed (iff), each_delivery_once (NoDup), "
         "never_handed_back_to_sender, device_bound_never_relayed, histories_keep_clients_unique (induction over histories); direction flags of the live "
         "classes proved equal to the protocol table (reg_ok_router by vm_compute on the regenerated registry). Correspondence: real Router with real "
         "Driver.accepts / catch-all device, exhaustive bounded universe + random histories.",
    note=NOTE_BASE + "Modelled: endpoint identity (==), list/dict semantics of the router.",
    technique="Coq proof (iff-characterisation + history induction) + regenerated registry + exhaustive small-universe correspondence",
    design="4/C04")
CHECKS["C05"] = dict(
    text="Theorems: to_client_per_policy (iff, every state), policy_matrix, policy_is_most_recent_setting (for every well-formed history the table equals the "
         "specification function last_enable_rev), settings_are_independent, unregister_forgets_policy, reconnect_starts_from_default. Correspondence: real "
         "Router over exhaustive policy assignments for <=3 clients x 2 devices and random histories with re-registration.",
    note=NOTE_BASE + "Modelled: dict-of-dict policy table; BLOB payload = setBLOBVector.",
    technique="Coq proof (refinement of the policy table to a history specification) + correspondence",
    design="4/C05")
CHECKS["C09"] = dict(
    text="Theorems over all operation sequences and any number of switches: rule_holds_along_every_history (state and every published update), "
         "oneofmany_keeps_exactly_one, turning_on_leaves_it_on, anyofmany_changes_only_the_named. Correspondence: exhaustive transitions "
         "(3 rules x 1..4 switches x all initial configurations x all single operations) on a real Driver + random sequences.",
    note=NOTE_BASE + "Modelled: all elements enabled.",
    technique="Coq proof (invariant by induction over operations) + exhaustive transition correspondence",
    design="4/C09")
CHECKS["C13"] = dict(
    text="Theorem accepted_messages_are_conformant: for EVERY XML element tree, from_xml (an interpreter of Python keyword binding + checks over the "
         "regenerated registry) either fails or yields a message satisfying the protocol table written from the INDI DTD (vocabularies, required "
         "attributes, child kinds, number syntax); reg_ok_c13 and probes_ok (every recorded constructor decision matches the field's classification) are "
         "proved by vm_compute on the regenerated registry each run. Correspondence: IndiMessage.from_xml on ElementTree elements with systematic "
         "perturbations and random trees, accept/reject and parsed object compared.",
    note=NOTE_BASE + "Modelled: Python keyword binding (required/optional/**junk/self), str.strip, the shared number regex (check_number).",
    technique="Coq proof (generic over registry, instantiated with the regenerated live registry) + correspondence",
    design="4/C13")
CHECKS["C03"] = dict(
    text="Theorems element_roundtrip (from_xml (to_xml m) = norm m for every constructible message, any kind / attribute subset / number of children / "
         "text), reserialisation_is_identical, xml_print_then_parse_is_identity (Xml/RoundTrip.v: lexing the printed text of ANY printable tree - "
         "names, attributes with every escape and character reference, text, nested children, empty elements, declaration - yields its tokens and "
         "the builder rebuilds the tree; 600 lines, induction over the tree) and hence string_roundtrip at the byte level: from_string (to_string m) "
         "= norm m and the re-serialised bytes are identical, for every constructible message whose names and characters XML can carry (a decidable "
         "condition, 'printable', evaluated on every generated message; a carriage return in text is outside it: an XML parser reads it as a line "
         "feed). That the XML model is expat / ElementTree.tostring is the correspondence: the model parser on the implementation's bytes, the "
         "implementation's parser on the model's bytes and on 3 foreign spellings, and the model lexer against expat on valid/mutated/junk documents "
         "incl. a Latin-1 sweep.",
    note=NOTE_BASE + "The XML text layer is a model of expat / ElementTree.tostring, validated by correspondence; within the model the byte-level round trip is proved.",
    technique="Coq proof at element level and at byte level (XML print-then-parse identity by induction over trees) + correspondence of the XML model with expat/ElementTree",
    design="4/C03")
CHECKS["C10"] = dict(
    text="Theorems over exact integers, for every format of the family and every finite value (no range bound): rendered_text_is_valid, "
         "rendered_text_parses_to_what_it_denotes, sexagesimal_denotes_nearest_unit (|units/U - p/q| <= 1/(2U)), sexagesimal_fields_in_range (no 1:60), "
         "sexagesimal_sign_on_whole_magnitude, fixed_point_denotes_nearest (round-half-even), integer_format_truncates, "
         "every_indi_number_text_is_parsed (1-3 fields, ':' ';' blank, sign, fraction; independent of the property's format), "
         "validator_and_parser_share_the_grammar (iff). Correspondence: num_to_str/str_to_num/checks.number vs the model, strings byte-identical, "
         "on enumerated boundary classes, random values, all strings up to length 4 (5 thorough) over a 14-symbol alphabet; thorough adds full "
         "resolution grids on [-360,360].",
    note=NOTE_BASE + "Outside the theorem: float->exact rational and exact rational->nearest float conversions; CPython %-formatting being correctly rounded (modelled as round-half-even).",
    technique="Coq proof (exact integer arithmetic, lia/nia; string-level lemmas for the shared grammar) + correspondence",
    design="4/C10")
CHECKS["C11"] = dict(
    text="Theorems for ANY parser, ANY input text and ANY fragmentation: process_terminates_bounded_genuine, any_pieces_terminate_and_deliver_only_genuine, "
         "retained_at_most_threshold; benign_junk_is_transparent (junk without a known-tag opener changes neither deliveries nor retained data), "
         "benign_junk_alone_is_silent, corrupt_front_is_abandoned (recovery once more than the threshold has arrived), with 'corrupt' decidable and evaluated "
         "by the model on generated truncations. Correspondence: the real Buffer vs the model with the parser instantiated by the recorded answers of "
         "ElementTree.fromstring / from_string, on soups, benign junk, truncation at every position, thresholds {16,128,2048,None}.",
    note=NOTE_BASE + "The one parser fact used by the junk theorems (an accepted text contains a known-tag opener) is a hypothesis of the generic theorems, checked on every recorded answer of the real parser, and a THEOREM for the concrete parser model (…_for_the_concrete_parser).",
    technique="Coq proof (generic in the parser; invariants by induction on fuel/length) + control-flow correspondence with recorded parser answers",
    design="4/C11")
CHECKS["C02"] = dict(
    text="Theorems framing_lossless_ordered_prompt and each_message_delivered_by_the_call_that_completes_it: for every stream "
         "junk/message/junk/... (any number of messages, junk free of known-tag openers), EVERY partition into pieces, threshold disabled or not "
         "smaller than the messages: all calls terminate, deliveries are exactly the messages in order, each once, and nothing is overdue after any "
         "call (structural induction over the stream, then over the pieces). Generic in the parser; the premise parse_needs_opener is PROVED of the "
         "concrete parser (the_concrete_parser_needs_an_opener: lexer invariant over all modes, root = first start tag, registered tag = buffer tag), "
         "giving concrete_framing_lossless_ordered_prompt; the premise Framing.spelling per message spelling (parsed whole, no proper prefix parses, "
         "opener at 0, single final '>', fits) is PROVED of EVERY text the concrete parser accepts as a message that begins with a registered opener and "
         "ends with '>' (accepted_text_is_a_spelling: no proper prefix of a complete document ending in a non-blank is complete - after the root has "
         "closed the lexer accepts blanks only -, and a complete document never ends in two '>'), whatever quotes, blanks, entity forms or attribute "
         "order it uses - and the tag itself follows from the text beginning with '<' (accepted_element_text_is_a_spelling, via Xml/FirstTag.v: a complete document that begins with '<' begins with '<' + its root tag); the canonical text to_string writes is an instance (printed_message_is_a_spelling). End-to-end theorems with nothing assumed "
         "of the parser: any_accepted_stream_is_framed(_promptly) for streams of any accepted spellings and opener-free junk, "
         "every_stream_of_written_messages_is_read_back / written_messages_are_delivered_promptly for what the library writes - ANY cut into pieces, "
         "exactly the messages in order, each as soon as its last byte arrived; the only hypothesis left is that each message fits the threshold (K1). Several connections in one process: each is framed as if it were alone, whatever reaches the others (connections_do_not_disturb_each_other, each_connection_is_framed_whatever_the_others_receive). "
         "Correspondence: real "
         "Buffer and the three real receive loops vs the model with the concrete XML+message parser; every 1-cut, every 2-cut of short streams, "
         "per-character, random cuts, three thresholds.",
    note=NOTE_BASE + "The XML layer is a model of expat validated by correspondence (C03); within the model nothing is assumed of the parser.",
    technique="Coq proof (structural induction over segmented streams; generic parser with decidable premises) + correspondence incl. real receive loops",
    design="4/C02")
CHECKS["C07"] = dict(
    text="Theorems for every device state: unnamed_request_elicits_every_definition, named_request_elicits_only_that_definition (state untouched), "
         "definition_lists_enabled_elements_and_metadata, disabled_property_gets_no_definition; constructible_emitted_message_reads_back (C03 applied). "
         "the_answer_for_a_disabled_property_reads_back: the delProperty answering for a disabled property is constructible and is read back "
         "unchanged by the parser, for every device and property and whatever their names (no hypothesis on the message). "
         "the_definition_of_a_switch_property_reads_back: the definition of an enabled switch property (elements hold switch values; state, "
         "permission, rule are protocol words) is constructible and read back, whatever names, labels, group and timeout are. "
         "PARTIAL: that every emitted DEFINITION of the other kinds is constructible (wfb over the live registry) is evaluated by the model for every emitted message on "
         "every run, not yet proved for all reachable states. Correspondence: generated Driver class hierarchies (inheritance depth <= 3) on a real "
         "Router with a recording client, histories of driver operations and client writes, then getProperties for existing / disabled / unknown / "
         "absent names and devices; traces and final states compared, every emitted message round-tripped through the library's own parser.",
    note=NOTE_BASE + "Modelled: driver property tree, number rendering (C10 model), nearest-double rounding of parsed numbers, base64.",
    technique="Coq proof (equational characterisation of getProperties over the driver model) + correspondence on real Router deployments",
    design="4/C07")
CHECKS["C14"] = dict(
    text="Theorems over the driver model for every element, handler list and value: write_then_default (every Write handler once, in order, plain "
         "before anything changes, coroutines spawned; veto => state and wire untouched; otherwise exactly an assignment), "
         "vetoed_write_changes_and_publishes_nothing, assignment_publishes_once_then_change (one update iff enabled; Change once each with (old,new) "
         "iff the value changed), read_handlers_run_before_publication, reading_never_publishes. Correspondence: generated drivers with real @on(...) "
         "handlers (0-2 per kind, plain/coroutine, vetoing, refreshing, shared), traces of calls/publications and coroutine runs compared with the model.",
    note=NOTE_BASE + "Modelled: coroutine handlers as 'spawned, run after the operation'; asyncio task scheduling itself is not modelled.",
    technique="Coq proof (trace equations of the driver model) + trace correspondence with real handlers",
    design="4/C14")
CHECKS["C12"] = dict(
    text="Theorems over the (total) driver model for every device state and message: unknown_property_is_ignored, wrong_kind_is_ignored, "
         "unexpected_kinds_are_ignored, inapplicable_children_are_skipped, only_the_named_property_can_change (frame). That the implementation "
         "raises nothing and keeps serving is established by the correspondence: a fault catalogue (unknown device/property/element, kind mismatch "
         "for every pair of kinds, writes to lights, invalid switch/number/base64 text, wrong/non-numeric/missing BLOB size, no/duplicate children, "
         "def/set/del/message from a client, unknown getProperties/enableBLOB targets, non-message elements) at every position of a valid session, "
         "through the real TCP handler, the real TTY handler and direct router calls; per step: raised?, connection alive?, device state, what the "
         "second client received, compared with the model fed with what the model's own parser accepts.",
    note=NOTE_BASE + "The asyncio receive loop itself is exercised, not modelled (its termination behaviour is C18's model).",
    technique="Coq proof (frame / ignore theorems over the driver model) + fault-catalogue correspondence through real transports",
    design="4/C12")
CHECKS["C15"] = dict(
    text="Theorems over the (total) client model, for every mirror and every message: definition_creates_or_replaces_the_property, "
         "definition_touches_nothing_else, update_of_unknown_target_or_other_kind_is_ignored, update_touches_no_other_property, "
         "update_keeps_the_element_set, deletion_removes_the_named_property, nameless_deletion_removes_the_device, everything_else_is_ignored. "
         "Correspondence: BaseClient fed directly, from re-parsed serialisations, through the real client connection handler in foreign spellings "
         "and random pieces, and a SnoopingClient behind a router; public view compared with the model and with an independent Python reference "
         "interpreter of the INDI client rules; no exception, receive loop alive.",
    note=NOTE_BASE + "Modelled: Python dict ordering (replace in place / append), base64 laxity.",
    technique="Coq proof (effect/frame theorems of the mirror) + correspondence + independent reference interpreter",
    design="4/C15")
CHECKS["C16"] = dict(
    text="Theorems: each_callback_sees_exactly_its_matching_events (per-callback log = filter of the raised events, in order), "
         "removed_callback_is_gone, unregistered_callback_is_never_invoked; value_events_form_unbroken_chains: for EVERY stream of server messages "
         "from an empty client, the mirror holds for every element exactly the new value of the latest value event about it, each value event's old "
         "value is the previous event's new value (nothing at a definition) and update events are raised only for real changes (invariant by "
         "induction over the stream, one_message_keeps_the_chains). Correspondence: BaseClient with callbacks of every filter combination, plain / "
         "coroutine / raising, registered and removed by id or criteria between messages; deliveries per operation compared; internal-consistency "
         "oracle via a catch-all callback. state_events_form_unbroken_chains: the same invariant for property states (the mirror's state is the "
         "latest state event's new state, an update's old state is the previous event's new state and differs from the new one; "
         "one_message_keeps_the_state_chains).",
    note=NOTE_BASE + "Modelled: callbacks registered/removed between messages; coroutine callbacks as 'run afterwards'.",
    technique="Coq proof (invariant over message streams; log filtering lemmas) + correspondence",
    design="4/C16")
CHECKS["C19"] = dict(
    text="Theorems over a model of the asyncio runtime as the transports use it (one send task per routed message, FIFO ready queue, FIFO-fair "
         "Lock, adversarial I/O completion incl. never): stream_is_ordered_prefix_of_routed for EVERY schedule, any number of connections and "
         "messages, TCP and TTY style (a 9-clause invariant proved preserved by every move), everything_routed_is_eventually_out, and the "
         "isolation theorems (a task touches and depends on only its own connection; completions are local). The runtime model is VALIDATED, not "
         "verified: the real TCP-server, TCP-client and TTY handlers run on a real event loop stepped one iteration at a time with fake writers "
         "whose awaitables the schedule releases; all schedules up to a depth are enumerated and outputs, ready-queue length and pending I/O are "
         "compared with the model after every move.",
    note=NOTE_BASE + "Proof over a modelled runtime: asyncio scheduling, Lock fairness and future wake-ups are modelled and validated by exhaustive bounded schedule correspondence.",
    technique="Coq proof (scheduler invariant over all schedules) over a runtime model validated by exhaustive schedule exploration of the real event loop",
    design="4/C19")
CHECKS["C18"] = dict(
    text="Theorems over the router model under the connection-lifecycle translation (Async/Lifecycle.v: opening is registration, a peer message is a "
         "send, and EVERY way a connection ends - EOF, read error, EOF inside a message, junk, handler exception - is an unregistration): "
         "ended_connection_forgotten, no_further_delivery_to_it, others_keep_registration_and_settings, others_are_served_per_policy, "
         "reconnect_starts_from_defaults, for every history of any length. That every ending really is an unregistration is the modelled part, "
         "VALIDATED by fault injection: real TCP and TTY connection handlers on fake streams in a running event loop, each fault kind injected at "
         "every step index of a session script, compared step by step (deliveries, router.clients, blob_routing) with the extracted model.",
    note=NOTE_BASE + "Proof over a modelled runtime: the translation of connection endings to unregistration is validated by fault-injection correspondence, not verified.",
    technique="Coq proof (router lifecycle theorems for every history) + fault-injection correspondence of the real connection handlers with the extracted model",
    design="4/C18")
CHECKS["C17"] = dict(
    text="Theorems over a model of the mechanism of BaseClient.waitforevent (asyncio.Event flag, result holder, temporary callback, one timeout "
         "timer, a chain of polling timers) on a clock of instants where the environment orders everything that is due within an instant: a "
         "10-clause core invariant and a 10-clause polling invariant are preserved by every move, for any number of concurrent waits and any "
         "schedule. wait_outcome: with no matching event exactly at the timeout instant the outcome and its instant are a function of the history "
         "(first matching event before the deadline, else timeout at the deadline instant, else pending); completed_by_exactly_one_cause (ties "
         "included: never both, never neither); polling_at_delay_and_interval_until_completion; callback_registered_iff_still_waiting; "
         "concurrent waits independent. The runtime (timers, wake-up in the same instant) is VALIDATED, not verified: the real waitforevent runs on "
         "a virtual-clock asyncio loop; per wait the observed outcome/instant/poll instants must equal the model's under one of the admissible "
         "orders of a tied instant.",
    note=NOTE_BASE + "Proof over a modelled runtime: asyncio timers and wake-ups are modelled and validated on a virtual-clock loop.",
    technique="Coq proof (wait invariants for every schedule and every number of concurrent waits) over a runtime model validated against the real event loop on a virtual clock",
    design="4/C17")
CHECKS["C06"] = dict(
    text="Theorems: write_changes_exactly_the_named_elements (for text/number/BLOB properties whose handlers neither veto nor refresh, after the "
         "whole new*Vector every element holds the last value a child gave it and is untouched when no child names it; state, flags, metadata "
         "and order untouched), element_named_takes_the_value_sent / element_not_named_is_unchanged, text_verbatim, number_by_the_common_reader "
         "(the reader C10 proves correct), blob_byte_for_byte (base64 + size check on exactly what the client library sends), "
         "switch_write_follows_the_rule (states pushed through the rule child by child), no_other_property_changes, no_other_device_is_reached "
         "(router), submit_sends_exactly_the_assigned_elements (client), and a_submitted_write_end_to_end: in the composed system model a connected "
         "network client's submitted write reaches the driver of the named device, what the driver publishes reaches the client, nothing stays in "
         "flight and the writer's view is in sync with the device again; a_submitted_write_keeps_the_connection: the same for every write, uploads to BLOB "
         "properties included, with the whole connection invariant re-established so that any history of writes and driver operations can follow. That the system "
         "model (System/Model.v) is the real stack client -> serializer -> fragmented stream -> server connection handler -> framing -> router -> "
         "driver -> back is VALIDATED by running the real stack "
         "(byte pipes with fragmentation between the library's client and server connection handlers) and comparing every device state and client "
         "view after every operation; a model-free oracle judges each write (values, siblings, other properties, other devices, writer's view).",
    note=NOTE_BASE + "Known finding K1-C06: a write whose newBLOBVector exceeds the 2048-character threshold of the server's receive buffer is lost.",
    technique="Coq proof (write effect and frame theorems over driver, router and client models) + system-level correspondence of the composed model with the real client/transport/router/driver stack",
    design="4/C06")
CHECKS["C01"] = dict(
    text="Proof (System/Converge.v, System/Ops.v, Client/Update.v) + system-level correspondence. Proved: the handshake answer brings a mirror that "
         "knows nothing of the device in sync (the_handshake_brings_a_fresh_mirror_in_sync); EVERY driver-side operation of the property's list "
         "(assign, set_value, selected values, state, enabling a property or a group) and every client write, on ANY device definition without "
         "event handlers, publishes a stream that takes a mirror in sync with the device before to a mirror in sync with the device after "
         "(every_operation_keeps_the_mirror_in_sync), hence every history does (every_history_keeps_the_mirror_in_sync); in sync = per property "
         "name, the entry is what a definition of the property as it now is creates (name, kind, group, label, state, enabled elements with "
         "labels and wire values), absent when not exposed, and no other entries (what_in_sync_means). In the composed system model "
         "(System/Deliver.v, Client/Norm.v): what a driver publishes in one operation reaches the connected network client exactly "
         "(what_a_driver_publishes_is_delivered), processing commutes with the wire's normalisation, and through every operation the client's mirror "
         "stays the normalisation of a mirror in sync with the device (the_connected_client_stays_in_sync; for operations that publish BLOB "
         "updates as well: the_connected_client_stays_in_sync_on_both_connections - System/Reorder.v proves that taking an operation's ordinary "
         "messages first and its BLOB updates afterwards gives the same view as the order of publication, because a message about one property "
         "acts on that entry alone and as a function of that entry alone, order_across_the_two_connections_does_not_matter; condition: within one "
         "operation no ordinary message about a property follows a BLOB update about it - PROVED of every operation of the property's list on "
         "every device definition, every_operation_is_orderly, System/Orderly.v). "
         "The network client's handshake is proved in the system model as well (the_handshake_connects_and_syncs: policies control Never / BLOB "
         "connection Only, nothing in flight, mirror in sync) and so is every later history of operations "
         "(every_typed_history_keeps_the_connected_client_in_sync: any history of typed operations, BLOB publications included, nothing assumed "
         "about the order of messages). "
         "Driver operations AND client writes in any order (System/Mixed.v): the connection invariant (one client with the library's policies, one "
         "driver, nothing in flight, mirror in sync) is kept by every driver-side operation and by every write the client submits "
         "(a_driver_operation_keeps_the_connection, a_client_write_keeps_the_connection), hence from the moment the client has connected through "
         "ANY history of both (connect_then_any_history_stays_in_sync; MixedExamples.v instantiates it). "
         "Several drivers at once: a client's view of one device depends on the messages naming that device alone, in their order "
         "(a_device_view_is_its_own_stream), so under ANY interleaving of the streams of several drivers the client ends in sync with every one "
         "(several_drivers_at_once, System/Interleave.v). "
         "PARTIAL: the composed system model holds one driver and one client and settles after each operation; two operations on the same "
         "device overlapping in time with each other's delivery across the two connections, and the routing of several drivers and clients through one server, "
         "are composed in the system model and VALIDATED by running the real stack (every device state and every client view after every operation, "
         "generated definitions incl. inheritance; schedules family: connect while the device keeps changing) plus a model-free oracle, not proved. "
         "REFUTED for BLOB payloads (known finding K2).",
    note=NOTE_BASE + "Partial: operations on one device overlapping with each other's delivery across the two connections, and routing of several drivers/clients through one server, are validated by correspondence, not proved end to end. Known findings K2 (BLOB payload after a definition) and K1-C01 (messages above the 2048-character threshold).",
    technique="Coq proof (handshake, every operation and every history keep the mirror in sync, for every handler-free device definition) + system-level correspondence of the composed model with the real driver/router/transport/client stack",
    design="4/C01")
CHECKS["C08"] = dict(
    text="Theorems: payload_survives_the_text_encoding (base64, every byte string), published_blob_is_received_identically (client-side decode and "
         "size check of exactly what the driver publishes), uploaded_blob_arrives_identically (driver-side decode of exactly what the client "
         "library uploads), an_unset_blob_is_left_out, no_payload_without_enabling / a_blob_only_connection_carries_nothing_else (router policy), "
         "blob_connection_frames_messages_of_any_length (framing theorem at threshold = None, any fragmentation), processing_always_ends (every "
         "processing call terminates on any text, any threshold). End to end in the composed system model: a_published_payload_is_shown_identically "
         "(driver assigns -> setBLOBVector -> BLOB connection -> the connected client shows identical bytes and format), "
         "a_submitted_write_reaches_the_driver and an_uploaded_payload_is_held_identically (client -> driver). REFUTED on threshold-enabled links: "
         "long_message_is_destroyed_refuted (known finding K1). That the system model is the real stack - driver, router, server connection "
         "handlers, fragmented byte pipes, control and BLOB connection, client - is VALIDATED per operation, plus a model-free oracle (identical bytes/format/length at every "
         "client that enabled BLOBs, nothing at the others, uploads identical at the driver, following traffic flows, no stall under a watchdog).",
    note=NOTE_BASE + "Known finding K1: messages longer than the 2048-character threshold on threshold-enabled links (uploads above ~1.4 KB, BLOB updates to a control connection with Also) are destroyed.",
    technique="Coq proof (payload codec, policy, framing without threshold, termination) + system-level correspondence and watchdog on the real BLOB paths in both directions",
    design="4/C08")
PENDING = {}
props = [json.loads(l) for l in open(os.path.join(V, "properties.jsonl"))]
checks, na = [], []
for p in props:
    pid = p["id"]
    if pid in CHECKS:
        c = CHECKS[pid]
        checks.append({
            "property_id": pid,
            "quick_cmd": "./check %s --tier quick" % pid,
            "thorough_cmd": "./check %s --tier thorough" % pid,
            "evidence_file": "evidence/%s.json" % pid,
            "replay_cmd_template": "./check %s --replay {path}" % pid,
            "engine": "coq-proof+correspondence",
            "level_claimed": {"category": "proof", "text": c["text"], "design_ref": c["design"]},
            "level_note": c["note"],
            "technique": c["technique"],
        })
    else:
        na.append({"property_id": pid, "reason": PENDING.get(pid, "check not built yet in this session (planned: see DESIGN.md section 4); not claimed until it runs")})
m = {
    "version": 1,
    "setup_cmd": "./setup.sh",
    "hooks": {"guard": "INDIPY_VERIF", "enable": "no hooks are compiled into /repo; the harness drives the public constructors with fake streams (INDIPY_VERIF=1 is exported for symmetry only)",
              "baseline_off_cmd": "cd /repo && /venv/bin/python -m pytest -ra -q -p no:cacheprovider --timeout=900 --continue-on-collection-errors",
              "source_commits": [], "add_only": True},
    "engines": [{"name": "coq-proof+correspondence", "path": "check", "serves_properties": [c["property_id"] for c in checks],
                 "kind_free_text": "Coq 8.16.1 development (coq/theories) + extracted OCaml runner + Python correspondence harness"}],
    "checks": checks,
    "not_applicable": na,
    "notes": "See DESIGN.md. known_findings.json lists fixed and open findings.",
}
json.dump(m, open(os.path.join(V, "MANIFEST.json"), "w"), indent=1)
print("checks:", len(checks), "not claimed:", len(na))
