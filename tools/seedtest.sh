#!/bin/bash
# seedtest.sh <seed name> <prop ids...>: apply a seeded change to /repo, run the quick checks, undo it.
# The evidence files describe the unchanged tree: they are put back afterwards.
set -u
NAME=$1; shift
cd /verif
git -C /repo diff --quiet || { echo "/repo is dirty"; exit 2; }
SAVE=$(mktemp -d /root/.seedtest.XXXXXX)
cp -a evidence/. "$SAVE"/
git -C /repo apply /verif/seeded/$NAME/patch.diff || { rm -rf "$SAVE"; exit 2; }
for P in "$@"; do
  OUT=$(./check $P --tier quick 2>&1 | grep -E "VIOLATION|KNOWN-FINDING" | head -3)
  echo "[$NAME] $P: ${OUT:-no alarm}"
done
git -C /repo checkout -- .
cp -a "$SAVE"/. evidence/
rm -rf "$SAVE"
