#!/bin/bash
# seedtest.sh <seed name> <prop ids...>: apply a seeded change to /repo, run the quick checks, undo it.
set -u
NAME=$1; shift
cd /verif
git -C /repo diff --quiet || { echo "/repo is dirty"; exit 2; }
git -C /repo apply /verif/seeded/$NAME/patch.diff || exit 2
for P in "$@"; do
  OUT=$(./check $P --tier quick 2>&1 | grep -E "VIOLATION|KNOWN-FINDING" | head -3)
  echo "[$NAME] $P: ${OUT:-no alarm}"
done
git -C /repo checkout -- .
