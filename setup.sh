#!/bin/sh
# Builds the framework from files on disk only: Coq development (full .vo), extraction, OCaml runner.
set -e
cd "$(dirname "$0")"
mkdir -p .work evidence replays
PYTHONPATH=/repo PYTHONHASHSEED=0 /venv/bin/python harness/registry_gen.py coq/theories/Generated/RegistryData.v || true
cd coq
coq_makefile -f _CoqProject $(find theories -name '*.v' | sort) -o Makefile
timeout 3000 make -j16
cd ..
runner/build.sh
echo "setup done"
