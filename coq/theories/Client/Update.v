(* What an update message does to the elements of a mirrored property: each child
   rewrites the value of the element it names (if it is of the right tag and its
   value can be taken) and nothing else - stated as a map over the elements. *)
From Coq Require Import List NArith Bool String.
Import ListNotations.
From Indi Require Import Base.Sx Msg.Equality Driver.Model Client.Model Client.Props.

Definition with_cvalue (c : celem) (x : cval) : celem := {| ce_name := ce_name c; ce_label := ce_label c; ce_value := x |}.

Definition upd_celem (k : vkind) (p : part) (c : celem) : celem :=
  if str_eqb (pk p) (one_kind k) && str_eqb (ce_name c) (part_name p)
  then match new_cval k p with Some x => with_cvalue c x | None => c end
  else c.

Lemma list_eqb_N_eq a : forall b, list_eqb N.eqb a b = true -> a = b.
Proof.
  induction a as [|x a IH]; intros [|y b] H; try discriminate; [reflexivity|].
  cbn in H. apply andb_prop in H as [H1 H2]. apply N.eqb_eq in H1. f_equal; auto.
Qed.

Lemma cval_eqb_eq a b : cval_eqb a b = true -> a = b.
Proof.
  destruct a as [x|b1 f1], b as [y|b2 f2]; cbn; try discriminate.
  - destruct x as [x|], y as [y|]; cbn; try discriminate; [|reflexivity]. intro H. apply str_eqb_spec in H. now subst.
  - intro H. apply andb_prop in H as [H1 H2]. apply list_eqb_N_eq in H1. apply str_eqb_spec in H2. now subst.
Qed.

Lemma with_cvalue_same c : with_cvalue c (ce_value c) = c.
Proof. destruct c; reflexivity. Qed.

Lemma dget_none_names k (es : list celem) : dget ce_name k es = None -> forall c, In c es -> str_eqb (ce_name c) k = false.
Proof.
  induction es as [|e r IH]; intros H c Hin; [destruct Hin|]. cbn [dget] in H.
  destruct (str_eqb (ce_name e) k) eqn:E; [discriminate|]. destruct Hin as [<-|Hin]; [exact E|exact (IH H c Hin)].
Qed.

(* replacing the element of a name by one of the same name is a map, when names are distinct *)
Lemma dset_map (es : list celem) : forall el x,
  NoDup (map ce_name es) -> dget ce_name (ce_name el) es = Some el ->
  dset ce_name (with_cvalue el x) es = map (fun c => if str_eqb (ce_name c) (ce_name el) then with_cvalue c x else c) es.
Proof.
  induction es as [|e r IH]; intros el x Hnd Hg; [discriminate|]. cbn [dget] in Hg. cbn [dset map with_cvalue ce_name].
  destruct (str_eqb (ce_name e) (ce_name el)) eqn:E.
  - injection Hg as ->. f_equal. inversion Hnd as [|? ? Hnot _]; subst.
    transitivity (map (fun c : celem => c) r); [symmetry; apply map_id|]. apply map_ext_in. intros c Hc.
    destruct (str_eqb (ce_name c) (ce_name el)) eqn:E2; [|reflexivity]. apply str_eqb_spec in E2.
    exfalso. apply Hnot. rewrite <- E2. apply in_map. exact Hc.
  - f_equal. inversion Hnd; subst. apply IH; assumption.
Qed.

Definition upd_step (dn vn : str) (k : vkind) (acc : list celem * list cevent) (p : part) : list celem * list cevent :=
  let '(es', evs) := acc in
  if str_eqb (pk p) (one_kind k) then
    match dget ce_name (part_name p) es' with
    | Some el =>
        match new_cval k p with
        | Some x =>
            if cval_eqb x (ce_value el) then acc
            else (dset ce_name {| ce_name := ce_name el; ce_label := ce_label el; ce_value := x |} es',
                  evs ++ [EvValue dn vn (ce_name el) (ce_value el) x])
        | None => acc
        end
    | None => acc
    end
  else acc.

Lemma upd_elems_fold dn vn k ch es : upd_elems dn vn k ch es = fold_left (upd_step dn vn k) ch (es, []).
Proof. reflexivity. Qed.

Lemma upd_step_map dn vn k es evs p :
  NoDup (map ce_name es) -> fst (upd_step dn vn k (es, evs) p) = map (upd_celem k p) es.
Proof.
  intro Hnd. unfold upd_step, upd_celem.
  destruct (str_eqb (pk p) (one_kind k)); cbn [andb fst]; [|symmetry; apply map_id].
  destruct (dget ce_name (part_name p) es) as [el|] eqn:Eg.
  - pose proof (dget_key ce_name _ _ _ Eg) as Hn.
    destruct (new_cval k p) as [x|]; cbn [fst].
    + destruct (cval_eqb x (ce_value el)) eqn:Ec; cbn [fst].
      * apply cval_eqb_eq in Ec. subst x.
        transitivity (map (fun c : celem => c) es); [symmetry; apply map_id|]. apply map_ext_in. intros c Hc.
        destruct (str_eqb (ce_name c) (part_name p)) eqn:E2; [|reflexivity].
        (* c is el: names are distinct *)
        assert (c = el) as ->.
        { clear -Hnd Eg Hc E2. induction es as [|e r IH]; [destruct Hc|]. cbn [dget] in Eg. inversion Hnd as [|? ? Hnot Hr]; subst.
          destruct (str_eqb (ce_name e) (part_name p)) eqn:E.
          - injection Eg as <-. destruct Hc as [->|Hc]; [reflexivity|]. exfalso. apply Hnot.
            apply str_eqb_spec in E. apply str_eqb_spec in E2. rewrite E, <- E2. apply in_map. exact Hc.
          - destruct Hc as [<-|Hc]; [congruence|]. apply IH; assumption. }
        symmetry. apply with_cvalue_same.
      * change {| ce_name := ce_name el; ce_label := ce_label el; ce_value := x |} with (with_cvalue el x).
        rewrite <- Hn in Eg. rewrite (dset_map es el x Hnd Eg). rewrite Hn. reflexivity.
    + transitivity (map (fun c : celem => c) es); [symmetry; apply map_id|]. apply map_ext. intro c.
      destruct (str_eqb (ce_name c) (part_name p)); reflexivity.
  - cbn [fst]. transitivity (map (fun c : celem => c) es); [symmetry; apply map_id|]. apply map_ext_in. intros c Hc.
    rewrite (dget_none_names _ _ Eg c Hc). reflexivity.
Qed.

Lemma upd_celem_name k p c : ce_name (upd_celem k p c) = ce_name c.
Proof. unfold upd_celem. destruct (_ && _); [destruct (new_cval k p)|]; reflexivity. Qed.
Lemma upd_celem_label k p c : ce_label (upd_celem k p c) = ce_label c.
Proof. unfold upd_celem. destruct (_ && _); [destruct (new_cval k p)|]; reflexivity. Qed.

(* an update is a sequence of element-wise rewrites *)
Theorem upd_elems_maps dn vn k ch : forall es evs,
  NoDup (map ce_name es) ->
  fst (fold_left (upd_step dn vn k) ch (es, evs)) = fold_left (fun es p => map (upd_celem k p) es) ch es.
Proof.
  induction ch as [|p ch IH]; intros es evs Hnd; [reflexivity|]. cbn [fold_left].
  pose proof (upd_step_map dn vn k es evs p Hnd) as S. destruct (upd_step dn vn k (es, evs) p) as [es1 evs1]. cbn [fst] in S. subst es1.
  apply IH. rewrite map_map. erewrite map_ext; [exact Hnd|]. intro c. apply upd_celem_name.
Qed.

(* names and labels of the elements never change by updates *)
Lemma upd_maps_shape k ch : forall es,
  map ce_name (fold_left (fun es p => map (upd_celem k p) es) ch es) = map ce_name es /\
  map ce_label (fold_left (fun es p => map (upd_celem k p) es) ch es) = map ce_label es.
Proof.
  induction ch as [|p ch IH]; intro es; [split; reflexivity|]. cbn [fold_left]. destruct (IH (map (upd_celem k p) es)) as [A B].
  rewrite A, B, !map_map. split; apply map_ext; intro c; [apply upd_celem_name|apply upd_celem_label].
Qed.

(* the property an update names, after the update: new state, elements rewritten child by child *)
Theorem update_effect mi mg k dn vn v :
  def_kind (mk mg) = None -> set_kind (mk mg) = Some k ->
  attr_of "device" (ma mg) = Some dn -> attr_of "name" (ma mg) = Some vn ->
  get_vec mi dn vn = Some v -> vkind_eqb k (cv_kind v) = true -> NoDup (map ce_name (cv_elems v)) ->
  get_vec (mirror_of (apply mi mg)) dn vn =
  Some (with_celems v (match attr_of "state" (ma mg) with Some s => s | None => [] end)
                    (fold_left (fun es p => map (upd_celem k p) es) (match mc mg with Some l => l | None => [] end) (cv_elems v))).
Proof.
  intros Hd Hs Hdev Hname Hg Hk Hnd. unfold get_vec in Hg.
  destruct (dget cd_name dn mi) as [d|] eqn:Ed; [|discriminate].
  unfold apply, mirror_of. rewrite Hdev, Hd, Hs, Ed, Hname, Hg, Hk.
  pose proof (upd_elems_maps dn vn k (match mc mg with Some l => l | None => [] end) (cv_elems v) [] Hnd) as U.
  rewrite <- upd_elems_fold in U.
  destruct (upd_elems dn vn k _ (cv_elems v)) as [es ev2]. cbn [fst] in *. subst es.
  unfold get_vec. pose proof (dget_key cd_name _ _ _ Ed) as Hn. pose proof (dget_key cv_name _ _ _ Hg) as Hvn.
  rewrite (dget_dset_eq cd_name) by (simpl; exact Hn). cbn [cd_vecs Client.Model.with_vecs].
  apply (dget_dset_eq cv_name). exact Hvn.
Qed.
