(* Model of the client side: indi/client/{client,device,vectors,elements}.py.
   The mirror is ordered dictionaries device -> property -> element, as Python
   dicts are; processing a message yields the new mirror, the events raised (in
   order) and the messages the client itself sends (BLOB handshake). *)
From Coq Require Import List NArith ZArith Bool Arith Lia String.
Import ListNotations.
From Indi Require Import Base.Sx Msg.Equality Msg.Model Num.Model B64.Model Driver.Model.
Local Open Scope N_scope.

Inductive cval := CRaw (s : option str) | CBlob (b : list N) (f : str).

Record celem := { ce_name : str; ce_label : option str; ce_value : cval }.
Record cvec := {
  cv_name : str; cv_kind : vkind; cv_group : option str; cv_label : option str; cv_message : option str;
  cv_state : str; cv_elems : list celem
}.
Record cdev := { cd_name : str; cd_vecs : list cvec }.
Definition mirror := list cdev.

Inductive cevent :=
| EvValue (d v e : str) (old new : cval)       (* ValueUpdate; old = CRaw None at definition *)
| EvState (d v : str) (old : option str) (new : str)
| EvDef (d v : str).

Definition cval_eqb (a b : cval) : bool :=
  match a, b with
  | CRaw x, CRaw y => opt_eqb str_eqb x y
  | CBlob b1 f1, CBlob b2 f2 => list_eqb N.eqb b1 b2 && str_eqb f1 f2
  | _, _ => false
  end.

(* ---------- ordered dictionaries ---------- *)
Section Dict.
Context {A : Type} (key : A -> str).
Fixpoint dget (k : str) (l : list A) : option A :=
  match l with
  | [] => None
  | x :: r => if str_eqb (key x) k then Some x else dget k r
  end.
(* d[k] = x : replace in place, or append *)
Fixpoint dset (x : A) (l : list A) : list A :=
  match l with
  | [] => [x]
  | y :: r => if str_eqb (key y) (key x) then x :: r else y :: dset x r
  end.
Fixpoint ddel (k : str) (l : list A) : list A :=
  match l with
  | [] => []
  | y :: r => if str_eqb (key y) k then r else y :: ddel k r
  end.
End Dict.

(* ---------- message classification ---------- *)
Definition def_kind (k : str) : option vkind :=
  if str_eqb k (s2l "defTextVector") then Some KText else if str_eqb k (s2l "defNumberVector") then Some KNumber
  else if str_eqb k (s2l "defSwitchVector") then Some KSwitch else if str_eqb k (s2l "defLightVector") then Some KLight
  else if str_eqb k (s2l "defBLOBVector") then Some KBlob else None.
Definition set_kind (k : str) : option vkind :=
  if str_eqb k (s2l "setTextVector") then Some KText else if str_eqb k (s2l "setNumberVector") then Some KNumber
  else if str_eqb k (s2l "setSwitchVector") then Some KSwitch else if str_eqb k (s2l "setLightVector") then Some KLight
  else if str_eqb k (s2l "setBLOBVector") then Some KBlob else None.

Definition attr_of (k : string) (a : dict) : option str := lookup (s2l k) a.
Definition part_name (p : part) : str := match attr_of "name" (pa p) with Some n => n | None => [] end.

(* ---------- definitions ---------- *)
Definition elem_of_def (p : part) : celem :=
  {| ce_name := part_name p; ce_label := attr_of "label" (pa p); ce_value := CRaw (pv p) |}.

(* {ch.name: ch for ch in children}: first position, last value *)
Definition elems_of_def (ch : list part) : list celem :=
  fold_left (fun acc p => dset ce_name (elem_of_def p) acc) ch [].

Definition vec_of_def (k : vkind) (m : msg) : cvec :=
  {| cv_name := match attr_of "name" (ma m) with Some n => n | None => [] end;
     cv_kind := k; cv_group := attr_of "group" (ma m); cv_label := attr_of "label" (ma m);
     cv_message := attr_of "message" (ma m);
     cv_state := match attr_of "state" (ma m) with Some s => s | None => [] end;
     cv_elems := elems_of_def (match mc m with Some l => l | None => [] end) |}.

(* ---------- updates ---------- *)
(* the value a one* child gives an element of kind k; None = the child is ignored *)
Definition new_cval (k : vkind) (p : part) : option cval :=
  match k with
  | KBlob =>
      match decode (match pv p with Some s => s | None => [] end), attr_of "size" (pa p) with
      | Some b, Some sz =>
          match digits_val sz with
          | Some n => if negb (match sz with [] => true | _ => false end) && (n =? N.of_nat (List.length b))
                      then Some (CBlob b (match attr_of "format" (pa p) with Some f => f | None => [] end))
                      else None
          | None => None
          end
      | _, _ => None
      end
  | _ => Some (CRaw (pv p))
  end.

Definition one_kind (k : vkind) : str := s2l ("one" ++ kind_name k).

Definition upd_elems (dn vn : str) (k : vkind) (ch : list part) (es : list celem) : list celem * list cevent :=
  fold_left (fun acc p =>
               let '(es', evs) := acc in
               if str_eqb (pk p) (one_kind k) then
                 match dget ce_name (part_name p) es' with
                 | Some el =>
                     match new_cval k p with
                     | Some x =>
                         if cval_eqb x (ce_value el) then acc
                         else (dset ce_name {| ce_name := ce_name el; ce_label := ce_label el; ce_value := x |} es',
                               evs ++ [EvValue dn vn (ce_name el) (ce_value el) x])
                     | None => acc
                     end
                 | None => acc
                 end
               else acc) ch (es, []).

Definition with_celems (v : cvec) (st : str) (es : list celem) : cvec :=
  {| cv_name := cv_name v; cv_kind := cv_kind v; cv_group := cv_group v; cv_label := cv_label v;
     cv_message := cv_message v; cv_state := st; cv_elems := es |}.

(* ---------- BaseClient.process_message ---------- *)
Definition with_vecs (d : cdev) (vs : list cvec) : cdev := {| cd_name := cd_name d; cd_vecs := vs |}.

Definition enable_never (dn : str) : msg :=
  {| mk := s2l "enableBLOB"; ma := [(s2l "device", dn)]; mv := Some (s2l "Never"); mc := None |}.

Definition apply (m : mirror) (mg : msg) : mirror * list cevent * list msg :=
  match attr_of "device" (ma mg) with
  | None =>
      (* every message the client reacts to carries a device; DelProperty(device=None, name=None) pops nothing *)
      (m, [], [])
  | Some dn =>
      match def_kind (mk mg) with
      | Some k =>
          let (d, sent) := match dget cd_name dn m with
                           | Some d => (d, [])
                           | None => ({| cd_name := dn; cd_vecs := [] |}, [enable_never dn])
                           end in
          let v := vec_of_def k mg in
          let ch := match mc mg with Some l => l | None => [] end in
          let evs := map (fun p => EvValue dn (cv_name v) (part_name p) (CRaw None) (CRaw (pv p))) ch ++
                     [EvState dn (cv_name v) None (cv_state v); EvDef dn (cv_name v)] in
          (dset cd_name (with_vecs d (dset cv_name v (cd_vecs d))) m, evs, sent)
      | None =>
          match set_kind (mk mg) with
          | Some k =>
              match dget cd_name dn m with
              | Some d =>
                  match attr_of "name" (ma mg) with
                  | Some vn =>
                      match dget cv_name vn (cd_vecs d) with
                      | Some v =>
                          if vkind_eqb k (cv_kind v) then
                            let st := match attr_of "state" (ma mg) with Some s => s | None => [] end in
                            let ev1 := if str_eqb st (cv_state v) then [] else [EvState dn vn (Some (cv_state v)) st] in
                            let (es, ev2) := upd_elems dn vn k (match mc mg with Some l => l | None => [] end) (cv_elems v) in
                            (dset cd_name (with_vecs d (dset cv_name (with_celems v st es) (cd_vecs d))) m, ev1 ++ ev2, [])
                          else (m, [], [])
                      | None => (m, [], [])
                      end
                  | None => (m, [], [])
                  end
              | None => (m, [], [])
              end
          | None =>
              if str_eqb (mk mg) (s2l "delProperty") then
                match attr_of "name" (ma mg) with
                | None => (ddel cd_name dn m, [], [])
                | Some vn =>
                    match dget cd_name dn m with
                    | Some d => (dset cd_name (with_vecs d (ddel cv_name vn (cd_vecs d))) m, [], [])
                    | None => (m, [], [])
                    end
                end
              else (m, [], [])
          end
      end
  end.

(* ---------- callbacks (C16) ---------- *)
Inductive etype := TAny | TDef | TValue | TState.
Record callback := { cb_id : N; cb_dev : option str; cb_vec : option str; cb_elem : option str; cb_type : etype }.

Definition ev_dev (e : cevent) : str := match e with EvValue d _ _ _ _ | EvState d _ _ _ | EvDef d _ => d end.
Definition ev_vec (e : cevent) : str := match e with EvValue _ v _ _ _ | EvState _ v _ _ | EvDef _ v => v end.
Definition ev_elem (e : cevent) : option str := match e with EvValue _ _ el _ _ => Some el | _ => None end.

Definition opt_matches (f : option str) (x : option str) : bool :=
  match f with None => true | Some s => opt_eqb str_eqb (Some s) x end.

Definition accepts (cb : callback) (e : cevent) : bool :=
  opt_matches (cb_dev cb) (Some (ev_dev e)) && opt_matches (cb_vec cb) (Some (ev_vec e)) &&
  opt_matches (cb_elem cb) (ev_elem e) &&
  match cb_type cb, e with
  | TAny, _ | TDef, EvDef _ _ | TValue, EvValue _ _ _ _ _ | TState, EvState _ _ _ _ => true
  | _, _ => false
  end.

(* trigger_event for each event in order: every registered callback that accepts it, in registration order *)
Definition deliver (cbs : list callback) (evs : list cevent) : list (N * cevent) :=
  flat_map (fun e => map (fun cb => (cb_id cb, e)) (filter (fun cb => accepts cb e) cbs)) evs.

Record client := { c_mirror : mirror; c_cbs : list callback }.

Inductive cop :=
| Recv (m : msg)
| On (cb : callback)
| RmId (i : N)
| RmCrit (d v e : option str) (t : option etype).

Definition etype_eqb (a b : etype) : bool :=
  match a, b with TAny, TAny | TDef, TDef | TValue, TValue | TState, TState => true | _, _ => false end.

(* rmonevent: a criterion that is given must equal the callback's own setting *)
Definition crit_eq (c : option str) (x : option str) : bool :=
  match c with None => true | Some s => opt_eqb str_eqb (Some s) x end.

Definition cstep (c : client) (o : cop) : client * list (N * cevent) * list msg :=
  match o with
  | Recv m => let '(mi, evs, sent) := apply (c_mirror c) m in
              ({| c_mirror := mi; c_cbs := c_cbs c |}, deliver (c_cbs c) evs, sent)
  | On cb => ({| c_mirror := c_mirror c; c_cbs := c_cbs c ++ [cb] |}, [], [])
  | RmId i => ({| c_mirror := c_mirror c; c_cbs := filter (fun cb => negb (N.eqb (cb_id cb) i)) (c_cbs c) |}, [], [])
  | RmCrit d v e t =>
      ({| c_mirror := c_mirror c;
          c_cbs := filter (fun cb => negb (crit_eq d (cb_dev cb) && crit_eq v (cb_vec cb) && crit_eq e (cb_elem cb) &&
                                           match t with None => true | Some t => etype_eqb t (cb_type cb) end)) (c_cbs c) |}, [], [])
  end.

Fixpoint crun (c : client) (ops : list cop) : client * list (list (N * cevent)) * list (list msg) :=
  match ops with
  | [] => (c, [], [])
  | o :: r => let '(c', dl, sent) := cstep c o in
              let '(c'', dls, sents) := crun c' r in (c'', dl :: dls, sent :: sents)
  end.
