(* C16: callbacks receive exactly the matching events; value and state events form
   unbroken chains ending at the current mirror. *)
From Coq Require Import List NArith ZArith Bool Arith Lia String.
Import ListNotations.
From Indi Require Import Base.Sx Msg.Equality Msg.Model Driver.Model Client.Model Client.Props.

(* ---------- who is invoked ---------- *)
Definition log_of (i : N) (l : list (N * cevent)) : list cevent :=
  map snd (filter (fun p => N.eqb (fst p) i) l).

Lemma log_of_app i a b : log_of i (a ++ b) = log_of i a ++ log_of i b.
Proof. unfold log_of. now rewrite filter_app, map_app. Qed.

Lemma log_of_one_event i cbs e :
  NoDup (map cb_id cbs) ->
  log_of i (map (fun cb => (cb_id cb, e)) (filter (fun cb => accepts cb e) cbs)) =
  match find (fun cb => N.eqb (cb_id cb) i) cbs with
  | Some cb => if accepts cb e then [e] else []
  | None => []
  end.
Proof.
  unfold log_of. induction cbs as [|cb cbs IH]; intros Hn; simpl; [reflexivity|].
  inversion Hn as [|? ? Hnotin Hn']; subst.
  destruct (N.eqb (cb_id cb) i) eqn:E.
  - apply N.eqb_eq in E.
    assert (forall l, (forall c, In c l -> In (cb_id c) (map cb_id cbs)) ->
              map snd (filter (fun p : N * cevent => N.eqb (fst p) i) (map (fun c => (cb_id c, e)) l)) = []) as Hnone.
    { induction l as [|c l IHl]; intros Hin; simpl; [reflexivity|].
      destruct (N.eqb (cb_id c) i) eqn:E2.
      - apply N.eqb_eq in E2. exfalso. apply Hnotin. rewrite E, <- E2. apply Hin. now left.
      - apply IHl. intros c' Hc'. apply Hin. now right. }
    destruct (accepts cb e); simpl.
    + rewrite E. rewrite N.eqb_refl. simpl. f_equal. apply Hnone.
      intros c Hc. apply filter_In in Hc as [Hc _]. now apply in_map.
    + apply Hnone. intros c Hc. apply filter_In in Hc as [Hc _]. now apply in_map.
  - destruct (accepts cb e); simpl; [rewrite E|]; now apply IH.
Qed.

(* each registered callback is invoked exactly for the events that match its filter,
   in order; an id that is not registered is never invoked *)
Theorem callback_log_exact i cbs evs :
  NoDup (map cb_id cbs) ->
  log_of i (deliver cbs evs) =
  match find (fun cb => N.eqb (cb_id cb) i) cbs with
  | Some cb => filter (accepts cb) evs
  | None => []
  end.
Proof.
  intros Hn. unfold deliver. induction evs as [|e evs IH]; simpl.
  - destruct (find _ cbs); reflexivity.
  - rewrite log_of_app, IH, (log_of_one_event i cbs e Hn).
    destruct (find (fun cb => N.eqb (cb_id cb) i) cbs) as [cb|]; [|reflexivity].
    destruct (accepts cb e); reflexivity.
Qed.

Theorem removed_by_id_is_gone c i : ~ In i (map cb_id (c_cbs (fst (fst (cstep c (RmId i)))))).
Proof.
  simpl. intros H. apply in_map_iff in H as [cb [E Hin]]. apply filter_In in Hin as [_ Hf].
  apply negb_true_iff, N.eqb_neq in Hf. contradiction.
Qed.

Lemma find_none_not_in i cbs : ~ In i (map cb_id cbs) -> find (fun cb => N.eqb (cb_id cb) i) cbs = None.
Proof.
  induction cbs as [|cb cbs IH]; simpl; intros H; [reflexivity|].
  destruct (N.eqb (cb_id cb) i) eqn:E; [apply N.eqb_eq in E; exfalso; apply H; now left|]. apply IH. tauto.
Qed.

Theorem unregistered_is_never_invoked i cbs evs :
  NoDup (map cb_id cbs) -> ~ In i (map cb_id cbs) -> log_of i (deliver cbs evs) = [].
Proof. intros Hn Hi. rewrite callback_log_exact by assumption. now rewrite find_none_not_in. Qed.

(* ---------- chains ---------- *)
Definition value_event_of (d v e : str) (ev : cevent) : option cval :=
  match ev with
  | EvValue d' v' e' _ n => if str_eqb d' d && str_eqb v' v && str_eqb e' e then Some n else None
  | _ => None
  end.

(* the new value of the latest value event about element (d, v, e) *)
Definition last_value (log : list cevent) (d v e : str) : option cval :=
  fold_left (fun acc ev => match value_event_of d v e ev with Some n => Some n | None => acc end) log None.

Lemma last_value_app a b d v e :
  last_value (a ++ b) d v e = match last_value b d v e with Some x => Some x | None => last_value a d v e end.
Proof.
  unfold last_value. rewrite fold_left_app. generalize (fold_left (fun acc ev => match value_event_of d v e ev with Some n => Some n | None => acc end) a None).
  induction b as [|ev b IH]; intros acc; simpl; [reflexivity|].
  destruct (value_event_of d v e ev) as [n|].
  - rewrite IH. rewrite (IH None). destruct (fold_left _ b None); reflexivity.
  - apply IH.
Qed.

Definition cur_value (m : mirror) (d v e : str) : option cval :=
  match get_vec m d v with
  | Some cv => option_map ce_value (dget ce_name e (cv_elems cv))
  | None => None
  end.

(* the mirror never holds a value other than the one the latest event announced *)
Definition chain_inv (m : mirror) (log : list cevent) : Prop :=
  forall d v e x, cur_value m d v e = Some x -> last_value log d v e = Some x.

(* every value event continues the chain: its old value is what the previous event
   left (or nothing, at a definition), and an update event carries a real change *)
Definition chained (log : list cevent) : Prop :=
  forall pre d v e o n rest, log = pre ++ EvValue d v e o n :: rest ->
    (o = CRaw None \/ last_value pre d v e = Some o) /\ (o = CRaw None \/ cval_eqb n o = false).

Definition local_inv (dn vn : str) (es : list celem) (log : list cevent) : Prop :=
  forall e x, option_map ce_value (dget ce_name e es) = Some x -> last_value log dn vn e = Some x.

Lemma last_value_snoc_same log dn vn e o x :
  last_value (log ++ [EvValue dn vn e o x]) dn vn e = Some x.
Proof. rewrite last_value_app. unfold last_value. simpl. now rewrite !str_eqb_refl. Qed.

Lemma last_value_snoc_other log dn vn e e' o x :
  e' <> e -> last_value (log ++ [EvValue dn vn e o x]) dn vn e' = last_value log dn vn e'.
Proof.
  intros H. rewrite last_value_app. unfold last_value at 1. simpl.
  assert (str_eqb e e' = false) as -> by (apply str_eqb_neq; congruence). now rewrite andb_false_r.
Qed.

Lemma local_step dn vn es log el' o :
  local_inv dn vn es log ->
  local_inv dn vn (dset ce_name el' es) (log ++ [EvValue dn vn (ce_name el') o (ce_value el')]).
Proof.
  intros H e x Hx. destruct (list_eq_dec N.eq_dec e (ce_name el')) as [->|Hne].
  - rewrite (dget_dset_same ce_name) in Hx. simpl in Hx. injection Hx as <-. apply last_value_snoc_same.
  - rewrite (dget_dset_other ce_name) in Hx by congruence. rewrite last_value_snoc_other by assumption. now apply H.
Qed.

Lemma chained_snoc log d v e o n :
  chained log -> (o = CRaw None \/ last_value log d v e = Some o) -> (o = CRaw None \/ cval_eqb n o = false) ->
  chained (log ++ [EvValue d v e o n]).
Proof.
  intros Hc H1 H2 pre d' v' e' o' n' rest E.
  destruct rest as [|r rest] using rev_ind.
  - apply app_inj_tail in E as [-> E]. injection E as -> -> -> -> ->. auto.
  - clear IHrest. rewrite app_comm_cons, app_assoc in E. apply app_inj_tail in E as [E _].
    apply (Hc pre d' v' e' o' n' rest E).
Qed.

Lemma chained_snoc_other log ev :
  chained log -> (forall d v e o n, ev <> EvValue d v e o n) -> chained (log ++ [ev]).
Proof.
  intros Hc Hne pre d v e o n rest E.
  destruct rest as [|r rest] using rev_ind.
  - apply app_inj_tail in E as [_ E]. exfalso. eapply Hne; eauto.
  - clear IHrest. rewrite app_comm_cons, app_assoc in E. apply app_inj_tail in E as [E _].
    apply (Hc pre d v e o n rest E).
Qed.

Definition upd_step (dn vn : str) (k : vkind) (acc : list celem * list cevent) (p : part) : list celem * list cevent :=
  let '(es', evs) := acc in
  if str_eqb (pk p) (one_kind k) then
    match dget ce_name (part_name p) es' with
    | Some el => match new_cval k p with
                 | Some x => if cval_eqb x (ce_value el) then acc
                             else (dset ce_name {| ce_name := ce_name el; ce_label := ce_label el; ce_value := x |} es',
                                   evs ++ [EvValue dn vn (ce_name el) (ce_value el) x])
                 | None => acc
                 end
    | None => acc
    end
  else acc.

Lemma upd_elems_fold dn vn k ch es : upd_elems dn vn k ch es = fold_left (upd_step dn vn k) ch (es, []).
Proof. reflexivity. Qed.

Lemma upd_shift dn vn k ch : forall es0 evs0 evs1,
  fold_left (upd_step dn vn k) ch (es0, evs0 ++ evs1) =
  (fst (fold_left (upd_step dn vn k) ch (es0, evs1)), evs0 ++ snd (fold_left (upd_step dn vn k) ch (es0, evs1))).
Proof.
  induction ch as [|p ch IH]; intros es0 evs0 evs1; cbn [fold_left]; [reflexivity|].
  assert (upd_step dn vn k (es0, evs0 ++ evs1) p =
          (fst (upd_step dn vn k (es0, evs1) p), evs0 ++ snd (upd_step dn vn k (es0, evs1) p))) as Hs.
  { unfold upd_step.
    destruct (str_eqb (pk p) (one_kind k)); [|reflexivity].
    destruct (dget ce_name (part_name p) es0) as [el|]; [|reflexivity].
    destruct (new_cval k p) as [x|]; [|reflexivity].
    destruct (cval_eqb x (ce_value el)); [reflexivity|]. cbn [fst snd]. now rewrite <- app_assoc. }
  rewrite Hs. destruct (upd_step dn vn k (es0, evs1) p) as [es1 evs2]. cbn [fst snd]. apply IH.
Qed.

Lemma upd_events_about dn vn k ch : forall es0 evs0,
  Forall (fun ev => ev_dev ev = dn /\ ev_vec ev = vn) evs0 ->
  Forall (fun ev => ev_dev ev = dn /\ ev_vec ev = vn) (snd (fold_left (upd_step dn vn k) ch (es0, evs0))).
Proof.
  induction ch as [|p ch IH]; intros es0 evs0 H0; cbn [fold_left]; [exact H0|].
  assert (Forall (fun ev => ev_dev ev = dn /\ ev_vec ev = vn) (snd (upd_step dn vn k (es0, evs0) p))) as Hs.
  { unfold upd_step.
    destruct (str_eqb (pk p) (one_kind k)); [|exact H0].
    destruct (dget ce_name (part_name p) es0) as [el|]; [|exact H0].
    destruct (new_cval k p) as [x0|]; [|exact H0].
    destruct (cval_eqb x0 (ce_value el)); [exact H0|]. cbn [snd].
    apply Forall_app. split; [assumption|repeat constructor]. }
  destruct (upd_step dn vn k (es0, evs0) p) as [es1 evs1]. now apply IH.
Qed.

(* one update message on one property *)
Lemma upd_elems_chain dn vn k ch : forall es log evs0,
  local_inv dn vn es (log ++ evs0) -> chained (log ++ evs0) ->
  let r := fold_left (upd_step dn vn k) ch (es, evs0) in
  local_inv dn vn (fst r) (log ++ snd r) /\ chained (log ++ snd r).
Proof.
  induction ch as [|p ch IH]; intros es log evs0 Hl Hc; cbn [fold_left]; [auto|].
  assert (local_inv dn vn (fst (upd_step dn vn k (es, evs0) p)) (log ++ snd (upd_step dn vn k (es, evs0) p)) /\
          chained (log ++ snd (upd_step dn vn k (es, evs0) p))) as Hstep.
  { unfold upd_step.
    destruct (str_eqb (pk p) (one_kind k)); [|auto].
    destruct (dget ce_name (part_name p) es) as [el|] eqn:Eg; [|auto].
    destruct (new_cval k p) as [x|]; [|auto].
    destruct (cval_eqb x (ce_value el)) eqn:Ex; [auto|]. cbn [fst snd]. rewrite app_assoc. split.
    - apply (local_step dn vn es (log ++ evs0) {| ce_name := ce_name el; ce_label := ce_label el; ce_value := x |} (ce_value el) Hl).
    - apply chained_snoc; [assumption| |right; exact Ex].
      right. apply Hl. pose proof (dget_key ce_name _ _ _ Eg) as Hk. rewrite <- Hk in Eg. now rewrite Eg. }
  destruct (upd_step dn vn k (es, evs0) p) as [es1 evs1]. cbn [fst snd] in Hstep. destruct Hstep as [H1 H2].
  now apply IH.
Qed.

(* one definition message *)
Lemma def_elems_chain dn vn : forall ch es log,
  local_inv dn vn es log -> chained log ->
  local_inv dn vn (fold_left (fun acc p => dset ce_name (elem_of_def p) acc) ch es)
            (log ++ map (fun p => EvValue dn vn (part_name p) (CRaw None) (CRaw (pv p))) ch) /\
  chained (log ++ map (fun p => EvValue dn vn (part_name p) (CRaw None) (CRaw (pv p))) ch).
Proof.
  induction ch as [|p ch IH]; intros es log Hl Hc; cbn [fold_left map]; [rewrite app_nil_r; auto|].
  replace (log ++ EvValue dn vn (part_name p) (CRaw None) (CRaw (pv p)) :: map _ ch)
    with ((log ++ [EvValue dn vn (part_name p) (CRaw None) (CRaw (pv p))]) ++
          map (fun p => EvValue dn vn (part_name p) (CRaw None) (CRaw (pv p))) ch) by (now rewrite <- app_assoc).
  apply IH.
  - exact (local_step dn vn es log (elem_of_def p) (CRaw None) Hl).
  - apply chained_snoc; auto.
Qed.

Lemma last_value_other_prop log evs dn vn d v e :
  (d <> dn \/ v <> vn) ->
  Forall (fun ev => ev_dev ev = dn /\ ev_vec ev = vn) evs ->
  last_value (log ++ evs) d v e = last_value log d v e.
Proof.
  intros Hne Hall. rewrite last_value_app.
  assert (last_value evs d v e = None) as ->; [|reflexivity].
  unfold last_value. induction Hall as [|ev evs [Hd Hv] Hall IH]; simpl; [reflexivity|].
  assert (value_event_of d v e ev = None) as ->; [|exact IH].
  destruct ev; simpl in *; try reflexivity. subst.
  destruct Hne as [Hne|Hne].
  - assert (str_eqb dn d = false) as -> by (apply str_eqb_neq; congruence). reflexivity.
  - assert (str_eqb vn v = false) as -> by (apply str_eqb_neq; congruence). now rewrite andb_false_r.
Qed.

(* ---------- the whole client ---------- *)
Definition wf_mirror (m : mirror) : Prop :=
  NoDup (map cd_name m) /\ Forall (fun d => NoDup (map cv_name (cd_vecs d))) m.

Lemma dset_map_key {A} (key : A -> str) x l :
  map key (dset key x l) = if existsb (fun y => str_eqb (key y) (key x)) l then map key l else map key l ++ [key x].
Proof.
  induction l as [|y l IH]; simpl; [reflexivity|].
  destruct (str_eqb (key y) (key x)) eqn:E; simpl.
  - apply str_eqb_spec in E. now rewrite E.
  - rewrite IH. destruct (existsb _ l); reflexivity.
Qed.

Lemma NoDup_app_snoc {A} (l : list A) x : NoDup l -> ~ In x l -> NoDup (l ++ [x]).
Proof.
  induction 1 as [|y l Hy Hl IH]; simpl; intros Hx; [repeat constructor; auto|].
  constructor.
  - rewrite in_app_iff. simpl. intros [H|[H|[]]]; [contradiction|]. subst. apply Hx. now left.
  - apply IH. intros H. apply Hx. now right.
Qed.

Lemma dset_nodup {A} (key : A -> str) x l : NoDup (map key l) -> NoDup (map key (dset key x l)).
Proof.
  intros H. rewrite dset_map_key. destruct (existsb (fun y => str_eqb (key y) (key x)) l) eqn:E; [exact H|].
  apply NoDup_app_snoc; [exact H|].
  intros Hin. apply in_map_iff in Hin as [y [Hy Hyl]].
  assert (existsb (fun y => str_eqb (key y) (key x)) l = true) as C.
  { apply existsb_exists. exists y. split; [assumption|]. rewrite Hy. apply str_eqb_refl. }
  congruence.
Qed.

Lemma ddel_incl {A} (key : A -> str) k l x : In x (ddel key k l) -> In x l.
Proof.
  induction l as [|y l IH]; simpl; [auto|]. destruct (str_eqb (key y) k); [auto|]. intros [H|H]; auto.
Qed.

Lemma ddel_nodup {A} (key : A -> str) k l : NoDup (map key l) -> NoDup (map key (ddel key k l)).
Proof.
  induction l as [|y l IH]; simpl; intros H; [constructor|]. inversion H; subst.
  destruct (str_eqb (key y) k); [assumption|]. simpl. constructor; [|auto].
  intros Hin. apply in_map_iff in Hin as [z [Hz Hzl]]. apply ddel_incl in Hzl.
  apply H2. rewrite <- Hz. now apply in_map.
Qed.

Lemma dset_forall {A} (key : A -> str) (P : A -> Prop) x l : P x -> Forall P l -> Forall P (dset key x l).
Proof.
  intros Hx. induction 1 as [|y l Hy Hl IH]; simpl; [constructor; auto|].
  destruct (str_eqb (key y) (key x)); constructor; auto.
Qed.

Lemma ddel_forall {A} (key : A -> str) (P : A -> Prop) k l : Forall P l -> Forall P (ddel key k l).
Proof.
  induction 1 as [|y l Hy Hl IH]; simpl; [constructor|]. destruct (str_eqb (key y) k); [assumption|constructor; auto].
Qed.

Lemma dget_forall {A} (key : A -> str) (P : A -> Prop) k l x : Forall P l -> dget key k l = Some x -> P x.
Proof.
  induction 1 as [|y l Hy Hl IH]; simpl; [discriminate|]. destruct (str_eqb (key y) k); [intros [= <-]; assumption|auto].
Qed.

Theorem apply_keeps_wf m mg : wf_mirror m -> wf_mirror (mirror_of (apply m mg)).
Proof.
  intros [Hn Hv]. unfold apply, mirror_of.
  destruct (attr_of "device" (ma mg)) as [dn|]; [|split; assumption].
  destruct (def_kind (mk mg)) as [k|].
  - destruct (dget cd_name dn m) as [d|] eqn:Ed; cbn [fst]; split.
    + now apply dset_nodup.
    + apply dset_forall; [|assumption]. simpl. apply dset_nodup. exact (dget_forall cd_name _ dn m d Hv Ed).
    + now apply dset_nodup.
    + apply dset_forall; [|assumption]. simpl. repeat constructor. auto.
  - destruct (set_kind (mk mg)) as [k|].
    + destruct (dget cd_name dn m) as [d|] eqn:Ed; [|split; assumption].
      destruct (attr_of "name" (ma mg)) as [vn|]; [|split; assumption].
      destruct (dget cv_name vn (cd_vecs d)) as [v|]; [|split; assumption].
      destruct (vkind_eqb k (cv_kind v)); [|split; assumption].
      destruct (upd_elems dn vn k _ (cv_elems v)) as [es ev2]. cbn [fst]. split.
      * now apply dset_nodup.
      * apply dset_forall; [|assumption]. simpl. apply dset_nodup. exact (dget_forall cd_name _ dn m d Hv Ed).
    + destruct (str_eqb (mk mg) (s2l "delProperty")); [|split; assumption].
      destruct (attr_of "name" (ma mg)) as [vn|].
      * destruct (dget cd_name dn m) as [d|] eqn:Ed; [|split; assumption]. cbn [fst]. split.
        -- now apply dset_nodup.
        -- apply dset_forall; [|assumption]. simpl. apply ddel_nodup. exact (dget_forall cd_name _ dn m d Hv Ed).
      * cbn [fst]. split; [now apply ddel_nodup|now apply ddel_forall].
Qed.

Lemma last_value_snoc_nonvalue log ev d v e :
  (forall d' v' e' o n, ev <> EvValue d' v' e' o n) -> last_value (log ++ [ev]) d v e = last_value log d v e.
Proof.
  intros H. rewrite last_value_app. unfold last_value at 1. simpl.
  destruct ev; simpl; try reflexivity. exfalso. eapply H; eauto.
Qed.

(* Whatever the server sends, in whatever order: after every message the mirror holds
   exactly the values the latest value events announced, and every value event
   continues the chain (old = previous new, or nothing at a definition; updates only
   for real changes). *)
Theorem apply_preserves_chain m log mg :
  wf_mirror m -> chain_inv m log -> chained log ->
  chain_inv (mirror_of (apply m mg)) (log ++ events_of (apply m mg)) /\ chained (log ++ events_of (apply m mg)).
Proof.
  intros [Hn Hv] Hci Hch.
  assert (Hsame : apply m mg = (m, [], []) ->
            chain_inv (mirror_of (apply m mg)) (log ++ events_of (apply m mg)) /\ chained (log ++ events_of (apply m mg))).
  { intros ->. unfold mirror_of, events_of. simpl. rewrite app_nil_r. auto. }
  destruct (attr_of "device" (ma mg)) as [dn|] eqn:Edev;
    [|apply Hsame; unfold apply; now rewrite Edev].
  destruct (def_kind (mk mg)) as [k|] eqn:Edk.
  - (* definition *)
    pose proof (def_effect m mg k dn Edk Edev) as Heff.
    pose proof (fun dn' vn' H => def_frame m mg k dn dn' vn' Edk Edev H) as Hfr.
    set (v := vec_of_def k mg) in *. set (ch := match mc mg with Some l => l | None => [] end).
    assert (events_of (apply m mg) =
            map (fun p => EvValue dn (cv_name v) (part_name p) (CRaw None) (CRaw (pv p))) ch ++
            [EvState dn (cv_name v) None (cv_state v); EvDef dn (cv_name v)]) as Hev.
    { unfold apply, events_of. rewrite Edev, Edk. destruct (dget cd_name dn m); reflexivity. }
    rewrite Hev.
    destruct (def_elems_chain dn (cv_name v) ch [] log ltac:(intros e x Hx; discriminate) Hch) as [Hl Hc].
    split.
    + intros d' v' e' x Hx. unfold cur_value in Hx.
      destruct (list_eq_dec N.eq_dec d' dn) as [->|Hd]; [destruct (list_eq_dec N.eq_dec v' (cv_name v)) as [->|Hv']|].
      * rewrite Heff in Hx. rewrite app_assoc.
        change [EvState dn (cv_name v) None (cv_state v); EvDef dn (cv_name v)]
          with ([EvState dn (cv_name v) None (cv_state v)] ++ [EvDef dn (cv_name v)]).
        rewrite app_assoc. rewrite !last_value_snoc_nonvalue by (intros; discriminate).
        apply Hl. exact Hx.
      * rewrite Hfr in Hx by (right; exact Hv'). rewrite last_value_other_prop with (dn := dn) (vn := cv_name v).
        -- apply Hci. exact Hx.
        -- right. exact Hv'.
        -- apply Forall_app. split; [apply Forall_forall; intros ev Hin; apply in_map_iff in Hin as [p [<- _]]; auto|repeat constructor].
      * rewrite Hfr in Hx by (left; exact Hd). rewrite last_value_other_prop with (dn := dn) (vn := cv_name v).
        -- apply Hci. exact Hx.
        -- left. exact Hd.
        -- apply Forall_app. split; [apply Forall_forall; intros ev Hin; apply in_map_iff in Hin as [p [<- _]]; auto|repeat constructor].
    + rewrite app_assoc.
      change [EvState dn (cv_name v) None (cv_state v); EvDef dn (cv_name v)]
        with ([EvState dn (cv_name v) None (cv_state v)] ++ [EvDef dn (cv_name v)]).
      rewrite app_assoc. apply chained_snoc_other; [apply chained_snoc_other; [exact Hc|]|]; intros; discriminate.
  - destruct (set_kind (mk mg)) as [k|] eqn:Esk.
    + (* update *)
      destruct (dget cd_name dn m) as [d|] eqn:Ed;
        [|apply Hsame; unfold apply; now rewrite Edev, Edk, Esk, Ed].
      destruct (attr_of "name" (ma mg)) as [vn|] eqn:Evn;
        [|apply Hsame; unfold apply; now rewrite Edev, Edk, Esk, Ed, Evn].
      destruct (dget cv_name vn (cd_vecs d)) as [v|] eqn:Ev;
        [|apply Hsame; unfold apply; now rewrite Edev, Edk, Esk, Ed, Evn, Ev].
      destruct (vkind_eqb k (cv_kind v)) eqn:Ek;
        [|apply Hsame; unfold apply; now rewrite Edev, Edk, Esk, Ed, Evn, Ev, Ek].
      set (st := match attr_of "state" (ma mg) with Some s => s | None => [] end).
      set (ev1 := if str_eqb st (cv_state v) then [] else [EvState dn vn (Some (cv_state v)) st]).
      set (ch := match mc mg with Some l => l | None => [] end).
      assert (local_inv dn vn (cv_elems v) (log ++ ev1)) as Hl0.
      { intros e x Hx. assert (last_value (log ++ ev1) dn vn e = last_value log dn vn e) as ->.
        { unfold ev1. destruct (str_eqb st (cv_state v)); [now rewrite app_nil_r|].
          apply last_value_snoc_nonvalue. intros; discriminate. }
        apply Hci. unfold cur_value, get_vec. now rewrite Ed, Ev. }
      assert (chained (log ++ ev1)) as Hc0.
      { unfold ev1. destruct (str_eqb st (cv_state v)); [now rewrite app_nil_r|].
        apply chained_snoc_other; [assumption|intros; discriminate]. }
      pose proof (upd_elems_chain dn vn k ch (cv_elems v) log ev1 Hl0 Hc0) as Hu. cbv zeta in Hu.
      pose proof (upd_shift dn vn k ch (cv_elems v) ev1 []) as Hshift. rewrite app_nil_r in Hshift.
      rewrite Hshift in Hu. cbn [fst snd] in Hu. rewrite <- upd_elems_fold in Hu.
      pose proof (upd_events_about dn vn k ch (cv_elems v) [] (Forall_nil _)) as Hall. rewrite <- upd_elems_fold in Hall.
      destruct (upd_elems dn vn k ch (cv_elems v)) as [es ev2] eqn:Eu. cbn [fst snd] in Hu, Hall. destruct Hu as [Hl Hc].
      assert (apply m mg = (dset cd_name (Client.Model.with_vecs d (dset cv_name (with_celems v st es) (cd_vecs d))) m, ev1 ++ ev2, [])) as Hap.
      { unfold apply. rewrite Edev, Edk, Esk, Ed, Evn, Ev, Ek. fold st ch. now rewrite Eu. }
      rewrite Hap. unfold mirror_of, events_of. cbn [fst snd].
      split; [|exact Hc].
      assert (Forall (fun ev => ev_dev ev = dn /\ ev_vec ev = vn) (ev1 ++ ev2)) as Hab.
      { apply Forall_app. split; [|exact Hall]. unfold ev1. destruct (str_eqb st (cv_state v)); repeat constructor. }
      pose proof (dget_key cd_name _ _ _ Ed) as Hdn. pose proof (dget_key cv_name _ _ _ Ev) as Hvn.
      intros d' v' e' x Hx. unfold cur_value, get_vec in Hx.
      destruct (list_eq_dec N.eq_dec d' dn) as [->|Hd].
      * rewrite (dget_dset_eq cd_name) in Hx by (simpl; exact Hdn). cbn [cd_vecs Client.Model.with_vecs] in Hx.
        destruct (list_eq_dec N.eq_dec v' vn) as [->|Hv'].
        -- rewrite (dget_dset_eq cv_name) in Hx by (simpl; exact Hvn). cbn [cv_elems with_celems] in Hx.
           apply Hl. exact Hx.
        -- rewrite (dget_dset_other cv_name) in Hx by (simpl; congruence).
           rewrite (last_value_other_prop log (ev1 ++ ev2) dn vn dn v' e' (or_intror Hv') Hab).
           apply Hci. unfold cur_value, get_vec. now rewrite Ed.
      * rewrite (dget_dset_other cd_name) in Hx by (simpl; congruence).
        rewrite (last_value_other_prop log (ev1 ++ ev2) dn vn d' v' e' (or_introl Hd) Hab).
        apply Hci. exact Hx.
    + (* deletion or something else *)
      destruct (str_eqb (mk mg) (s2l "delProperty")) eqn:Edel;
        [|apply Hsame; unfold apply; now rewrite Edev, Edk, Esk, Edel].
      destruct (attr_of "name" (ma mg)) as [vn|] eqn:Evn.
      * destruct (dget cd_name dn m) as [d|] eqn:Ed;
          [|apply Hsame; unfold apply; now rewrite Edev, Edk, Esk, Edel, Evn, Ed].
        pose proof (del_named m mg dn vn d Edk Esk Edel Edev Evn Ed (dget_forall cd_name _ dn m d Hv Ed)) as [D1 [D2 D3]].
        rewrite D3, app_nil_r. split; [|assumption].
        intros d' v' e' x Hx. apply Hci. unfold cur_value in *.
        destruct (list_eq_dec N.eq_dec d' dn) as [->|Hd].
        -- destruct (list_eq_dec N.eq_dec v' vn) as [->|Hv']; [rewrite D1 in Hx; discriminate|].
           rewrite D2 in Hx by assumption. exact Hx.
        -- unfold get_vec in *. unfold apply, mirror_of in Hx. rewrite Edev, Edk, Esk, Edel, Evn, Ed in Hx. cbn [fst] in Hx.
           rewrite (dget_dset_other cd_name) in Hx; [exact Hx|]. simpl. rewrite (dget_key cd_name _ _ _ Ed). congruence.
      * pose proof (del_device m mg dn Edk Esk Edel Edev Evn Hn) as [D1 D2].
        assert (events_of (apply m mg) = []) as -> by (unfold apply, events_of; now rewrite Edev, Edk, Esk, Edel, Evn).
        rewrite app_nil_r. split; [|assumption].
        intros d' v' e' x Hx. apply Hci. unfold cur_value, get_vec in *.
        destruct (list_eq_dec N.eq_dec d' dn) as [->|Hd]; [rewrite D1 in Hx; discriminate|].
        rewrite D2 in Hx by assumption. exact Hx.
Qed.

(* over a whole stream: start with nothing, receive anything *)
Fixpoint run_stream (m : mirror) (log : list cevent) (ms : list msg) : mirror * list cevent :=
  match ms with
  | [] => (m, log)
  | mg :: r => run_stream (mirror_of (apply m mg)) (log ++ events_of (apply m mg)) r
  end.

Theorem chains_hold_for_every_stream ms :
  let '(m, log) := run_stream [] [] ms in chain_inv m log /\ chained log.
Proof.
  assert (forall ms m log, wf_mirror m -> chain_inv m log -> chained log ->
            let '(m', log') := run_stream m log ms in chain_inv m' log' /\ chained log') as G.
  { induction ms0 as [|mg r IH]; intros m log W Hc Hch; cbn [run_stream]; [auto|].
    destruct (apply_preserves_chain m log mg W Hc Hch) as [H1 H2].
    apply IH; auto. now apply apply_keeps_wf. }
  apply G.
  - split; constructor.
  - intros d v e x Hx. discriminate.
  - intros pre d v e o n rest E. destruct pre; discriminate.
Qed.
