(* C15: effect and frame of every kind of server message on the client's mirror. *)
From Coq Require Import List NArith ZArith Bool Arith Lia String.
Import ListNotations.
From Indi Require Import Base.Sx Msg.Equality Msg.Model Driver.Model Client.Model.

Section DictFacts.
Context {A : Type} (key : A -> str).

Lemma dget_dset_same x l : dget key (key x) (dset key x l) = Some x.
Proof.
  induction l as [|y l IH]; simpl; [now rewrite str_eqb_refl|].
  destruct (str_eqb (key y) (key x)) eqn:E; simpl; [now rewrite str_eqb_refl|]. now rewrite E.
Qed.

Lemma dget_dset_eq k x l : key x = k -> dget key k (dset key x l) = Some x.
Proof. intros <-. apply dget_dset_same. Qed.

Lemma dget_key k l x : dget key k l = Some x -> key x = k.
Proof.
  induction l as [|y l IH]; simpl; [discriminate|].
  destruct (str_eqb (key y) k) eqn:E; [intros [= <-]; now apply str_eqb_spec|auto].
Qed.

Lemma dget_dset_other k x l : key x <> k -> dget key k (dset key x l) = dget key k l.
Proof.
  intros H. assert (str_eqb (key x) k = false) as Hx by now apply str_eqb_neq.
  induction l as [|y l IH]; simpl; [now rewrite Hx|].
  destruct (str_eqb (key y) (key x)) eqn:E; simpl.
  - apply str_eqb_spec in E. rewrite E, Hx. reflexivity.
  - destruct (str_eqb (key y) k); [reflexivity|exact IH].
Qed.

Lemma dget_ddel_same k l : NoDup (map key l) -> dget key k (ddel key k l) = None.
Proof.
  induction l as [|y l IH]; simpl; intros Hn; [reflexivity|]. inversion Hn as [|? ? Hy Hl]; subst.
  destruct (str_eqb (key y) k) eqn:E; simpl.
  - apply str_eqb_spec in E. subst k. clear - Hy. induction l as [|z l IH]; simpl; [reflexivity|].
    destruct (str_eqb (key z) (key y)) eqn:E.
    + apply str_eqb_spec in E. exfalso. apply Hy. left. assumption.
    + apply IH. intros H. apply Hy. now right.
  - rewrite E. now apply IH.
Qed.

Lemma dget_ddel_other k k' l : k' <> k -> dget key k (ddel key k' l) = dget key k l.
Proof.
  intros H. induction l as [|y l IH]; simpl; [reflexivity|].
  destruct (str_eqb (key y) k') eqn:E; simpl.
  - apply str_eqb_spec in E. assert (str_eqb (key y) k = false) as -> by (apply str_eqb_neq; congruence). reflexivity.
  - destruct (str_eqb (key y) k); [reflexivity|exact IH].
Qed.
End DictFacts.

Definition get_vec (m : mirror) (dn vn : str) : option cvec :=
  match dget cd_name dn m with Some d => dget cv_name vn (cd_vecs d) | None => None end.

Definition mirror_of (r : mirror * list cevent * list msg) : mirror := fst (fst r).
Definition events_of (r : mirror * list cevent * list msg) : list cevent := snd (fst r).

Lemma def_not_set k : def_kind k <> None -> True. Proof. auto. Qed.

(* a definition creates or replaces exactly the property it defines ... *)
Theorem def_effect m mg k dn :
  def_kind (mk mg) = Some k -> attr_of "device" (ma mg) = Some dn ->
  get_vec (mirror_of (apply m mg)) dn (cv_name (vec_of_def k mg)) = Some (vec_of_def k mg).
Proof.
  intros Hk Hd. unfold apply, mirror_of, get_vec. rewrite Hd, Hk.
  destruct (dget cd_name dn m) as [d|] eqn:Ed; cbn [fst].
  - rewrite (dget_dset_eq cd_name) by (simpl; exact (dget_key cd_name _ _ _ Ed)).
    cbn [cd_vecs Client.Model.with_vecs]. apply (dget_dset_same cv_name).
  - rewrite (dget_dset_eq cd_name) by reflexivity. cbn. now rewrite str_eqb_refl.
Qed.

(* ... and nothing else: other properties of the device and all other devices are untouched *)
Theorem def_frame m mg k dn dn' vn' :
  def_kind (mk mg) = Some k -> attr_of "device" (ma mg) = Some dn ->
  (dn' <> dn \/ vn' <> cv_name (vec_of_def k mg)) ->
  get_vec (mirror_of (apply m mg)) dn' vn' = get_vec m dn' vn'.
Proof.
  intros Hk Hd Hne. unfold apply, mirror_of, get_vec. rewrite Hd, Hk.
  destruct (dget cd_name dn m) as [d|] eqn:Ed; cbn [fst].
  - pose proof (dget_key cd_name _ _ _ Ed) as Hn.
    destruct (list_eq_dec N.eq_dec dn' dn) as [->|Hdn].
    + rewrite (dget_dset_eq cd_name) by (simpl; exact Hn). rewrite Ed. cbn [cd_vecs Client.Model.with_vecs].
      destruct Hne as [Hne|Hne]; [contradiction|]. apply (dget_dset_other cv_name). congruence.
    + rewrite (dget_dset_other cd_name); [reflexivity|]. simpl. congruence.
  - destruct (list_eq_dec N.eq_dec dn' dn) as [->|Hdn].
    + rewrite (dget_dset_eq cd_name) by reflexivity. rewrite Ed. cbn [cd_vecs Client.Model.with_vecs dset].
      destruct Hne as [Hne|Hne]; [contradiction|]. cbn [dget].
      assert (str_eqb (cv_name (vec_of_def k mg)) vn' = false) as -> by (apply str_eqb_neq; congruence). reflexivity.
    + rewrite (dget_dset_other cd_name); [reflexivity|]. simpl. congruence.
Qed.

Lemma def_set_disjoint k : def_kind k <> None -> set_kind k = None.
Proof.
  unfold def_kind, set_kind.
  destruct (str_eqb k (s2l "defTextVector")) eqn:E1; [apply str_eqb_spec in E1; subst; reflexivity|].
  destruct (str_eqb k (s2l "defNumberVector")) eqn:E2; [apply str_eqb_spec in E2; subst; reflexivity|].
  destruct (str_eqb k (s2l "defSwitchVector")) eqn:E3; [apply str_eqb_spec in E3; subst; reflexivity|].
  destruct (str_eqb k (s2l "defLightVector")) eqn:E4; [apply str_eqb_spec in E4; subst; reflexivity|].
  destruct (str_eqb k (s2l "defBLOBVector")) eqn:E5; [apply str_eqb_spec in E5; subst; reflexivity|].
  intros H. now contradiction H.
Qed.

(* an update about an unknown device, an unknown property, or a property of another
   kind changes nothing and raises no event *)
Theorem update_of_unknown_is_ignored m mg k dn :
  def_kind (mk mg) = None -> set_kind (mk mg) = Some k -> attr_of "device" (ma mg) = Some dn ->
  (match attr_of "name" (ma mg) with
   | Some vn => match get_vec m dn vn with Some v => vkind_eqb k (cv_kind v) = false | None => True end
   | None => True
   end) ->
  apply m mg = (m, [], []).
Proof.
  intros Hd Hs Hdev H. unfold apply. rewrite Hdev, Hd, Hs. unfold get_vec in H.
  destruct (dget cd_name dn m) as [d|]; [|reflexivity].
  destruct (attr_of "name" (ma mg)) as [vn|]; [|reflexivity].
  destruct (dget cv_name vn (cd_vecs d)) as [v|]; [|reflexivity]. now rewrite H.
Qed.

(* an update touches no other property and no other device *)
Theorem update_frame m mg k dn dn' vn' :
  def_kind (mk mg) = None -> set_kind (mk mg) = Some k -> attr_of "device" (ma mg) = Some dn ->
  (dn' <> dn \/ Some vn' <> attr_of "name" (ma mg)) ->
  get_vec (mirror_of (apply m mg)) dn' vn' = get_vec m dn' vn'.
Proof.
  intros Hd Hs Hdev Hne. unfold apply, mirror_of. rewrite Hdev, Hd, Hs.
  destruct (dget cd_name dn m) as [d|] eqn:Ed; [|reflexivity].
  destruct (attr_of "name" (ma mg)) as [vn|] eqn:En; [|reflexivity].
  destruct (dget cv_name vn (cd_vecs d)) as [v|] eqn:Ev; [|reflexivity].
  destruct (vkind_eqb k (cv_kind v)); [|reflexivity].
  destruct (upd_elems dn vn k _ (cv_elems v)) as [es ev2]. cbn [fst]. unfold get_vec.
  pose proof (dget_key cd_name _ _ _ Ed) as Hn. pose proof (dget_key cv_name _ _ _ Ev) as Hvn.
  destruct (list_eq_dec N.eq_dec dn' dn) as [->|Hdn].
  - rewrite (dget_dset_eq cd_name) by (simpl; exact Hn). rewrite Ed. cbn [cd_vecs Client.Model.with_vecs].
    destruct Hne as [Hne|Hne]; [contradiction|]. apply (dget_dset_other cv_name). simpl. congruence.
  - rewrite (dget_dset_other cd_name); [reflexivity|]. simpl. congruence.
Qed.

(* within the property an update changes the state and nothing about the property's
   identity: kind, label, group and the set of element names stay *)
Lemma dset_keys {A} (key : A -> str) x l :
  In (key x) (map key l) -> map key (dset key x l) = map key l.
Proof.
  induction l as [|y l IH]; simpl; [contradiction|].
  destruct (str_eqb (key y) (key x)) eqn:E; simpl.
  - apply str_eqb_spec in E. now rewrite E.
  - intros [H|H]; [apply str_eqb_neq in E; congruence|]. now rewrite IH.
Qed.

Lemma dget_in {A} (key : A -> str) k l x : dget key k l = Some x -> key x = k /\ In (key x) (map key l).
Proof.
  induction l as [|y l IH]; simpl; [discriminate|].
  destruct (str_eqb (key y) k) eqn:E.
  - intros [= <-]. apply str_eqb_spec in E. auto.
  - intros H. destruct (IH H). auto.
Qed.

Theorem update_keeps_element_names dn vn k ch es :
  map ce_name (fst (upd_elems dn vn k ch es)) = map ce_name es.
Proof.
  unfold upd_elems.
  assert (forall es0 evs, map ce_name (fst (fold_left (fun acc p =>
            let '(es', evs) := acc in
            if str_eqb (pk p) (one_kind k) then
              match dget ce_name (part_name p) es' with
              | Some el => match new_cval k p with
                           | Some x => if cval_eqb x (ce_value el) then acc
                                       else (dset ce_name {| ce_name := ce_name el; ce_label := ce_label el; ce_value := x |} es',
                                             evs ++ [EvValue dn vn (ce_name el) (ce_value el) x])
                           | None => acc
                           end
              | None => acc
              end
            else acc) ch (es0, evs))) = map ce_name es0) as G.
  { induction ch as [|p ch IH]; intros es0 evs; cbn [fold_left]; [reflexivity|].
    destruct (str_eqb (pk p) (one_kind k)); [|apply IH].
    destruct (dget ce_name (part_name p) es0) as [el|] eqn:Eg; [|apply IH].
    destruct (new_cval k p) as [x|]; [|apply IH].
    destruct (cval_eqb x (ce_value el)); [apply IH|].
    rewrite IH. apply (dset_keys ce_name). simpl. destruct (dget_in ce_name _ _ _ Eg) as [_ Hin]. exact Hin. }
  apply G.
Qed.

(* a deletion removes the named property, or - without a name - the whole device *)
Theorem del_named m mg dn vn d :
  def_kind (mk mg) = None -> set_kind (mk mg) = None -> str_eqb (mk mg) (s2l "delProperty") = true ->
  attr_of "device" (ma mg) = Some dn -> attr_of "name" (ma mg) = Some vn ->
  dget cd_name dn m = Some d -> NoDup (map cv_name (cd_vecs d)) ->
  get_vec (mirror_of (apply m mg)) dn vn = None /\
  (forall vn', vn' <> vn -> get_vec (mirror_of (apply m mg)) dn vn' = get_vec m dn vn') /\
  events_of (apply m mg) = [].
Proof.
  intros Hd Hs Hk Hdev Hname Ed Hnd. unfold apply, mirror_of, events_of, get_vec. rewrite Hdev, Hd, Hs, Hk, Hname, Ed. cbn [fst snd].
  pose proof (dget_key cd_name _ _ _ Ed) as Hn.
  split; [|split; [|reflexivity]].
  - rewrite (dget_dset_eq cd_name) by (simpl; exact Hn). cbn [cd_vecs Client.Model.with_vecs]. now apply dget_ddel_same.
  - intros vn' Hne. rewrite (dget_dset_eq cd_name) by (simpl; exact Hn). cbn [cd_vecs Client.Model.with_vecs].
    apply dget_ddel_other. congruence.
Qed.

Theorem del_device m mg dn :
  def_kind (mk mg) = None -> set_kind (mk mg) = None -> str_eqb (mk mg) (s2l "delProperty") = true ->
  attr_of "device" (ma mg) = Some dn -> attr_of "name" (ma mg) = None ->
  NoDup (map cd_name m) ->
  dget cd_name dn (mirror_of (apply m mg)) = None /\
  (forall dn', dn' <> dn -> dget cd_name dn' (mirror_of (apply m mg)) = dget cd_name dn' m).
Proof.
  intros Hd Hs Hk Hdev Hname Hnd. unfold apply, mirror_of. rewrite Hdev, Hd, Hs, Hk, Hname. cbn [fst].
  split; [now apply dget_ddel_same|]. intros dn' Hne. apply dget_ddel_other. congruence.
Qed.

(* anything else - notices, pings, relayed requests - leaves the mirror alone *)
Theorem other_messages_ignored m mg :
  def_kind (mk mg) = None -> set_kind (mk mg) = None -> str_eqb (mk mg) (s2l "delProperty") = false ->
  apply m mg = (m, [], []).
Proof.
  intros Hd Hs Hk. unfold apply. destruct (attr_of "device" (ma mg)); [|reflexivity]. now rewrite Hd, Hs, Hk.
Qed.
