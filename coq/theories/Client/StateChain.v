(* C16, state events: for every stream of server messages the mirror never holds a
   property state other than the one the latest state event announced, and every state
   event continues the chain - its old state is what the previous one left (nothing at a
   definition), and an update event is raised only for a real change. *)
From Coq Require Import List NArith Bool String Lia.
Import ListNotations.
From Indi Require Import Base.Sx Msg.Equality Msg.Model Driver.Model Client.Model Client.Props Client.Events.

Definition state_event_of (d v : str) (ev : cevent) : option str :=
  match ev with
  | EvState d' v' _ n => if str_eqb d' d && str_eqb v' v then Some n else None
  | _ => None
  end.

Definition last_state (log : list cevent) (d v : str) : option str :=
  fold_left (fun acc ev => match state_event_of d v ev with Some n => Some n | None => acc end) log None.

Lemma last_state_app a b d v :
  last_state (a ++ b) d v = match last_state b d v with Some x => Some x | None => last_state a d v end.
Proof.
  unfold last_state. rewrite fold_left_app.
  generalize (fold_left (fun acc ev => match state_event_of d v ev with Some n => Some n | None => acc end) a None).
  induction b as [|ev b IH]; intro acc; cbn [fold_left]; [reflexivity|].
  destruct (state_event_of d v ev) as [n|].
  - rewrite IH. rewrite (IH None). destruct (fold_left _ b None); reflexivity.
  - apply IH.
Qed.

Definition cur_state (m : mirror) (d v : str) : option str := option_map cv_state (get_vec m d v).

Definition state_inv (m : mirror) (log : list cevent) : Prop :=
  forall d v x, cur_state m d v = Some x -> last_state log d v = Some x.

Definition state_chained (log : list cevent) : Prop :=
  forall pre d v o n rest, log = pre ++ EvState d v o n :: rest ->
    match o with
    | None => True                                   (* a definition *)
    | Some s => last_state pre d v = Some s /\ str_eqb n s = false
    end.

Lemma exists_last_or_nil {A} (l : list A) : l = [] \/ exists l' x, l = l' ++ [x].
Proof. destruct l as [|a l] using rev_ind; [now left|right; eauto]. Qed.

Definition no_state (evs : list cevent) : Prop := Forall (fun ev => forall d v o n, ev <> EvState d v o n) evs.

Lemma last_state_no_state log evs d v : no_state evs -> last_state (log ++ evs) d v = last_state log d v.
Proof.
  intro H. rewrite last_state_app. assert (last_state evs d v = None) as ->; [|reflexivity].
  unfold last_state. induction H as [|ev evs Hev _ IH]; [reflexivity|]. cbn [fold_left].
  destruct ev; cbn [state_event_of]; try exact IH. exfalso. eapply Hev. reflexivity.
Qed.

Lemma chained_no_state log evs : state_chained log -> no_state evs -> state_chained (log ++ evs).
Proof.
  intros Hc Hn pre d v o n rest E.
  (* the state event lies in log: everything after log is not a state event *)
  assert (G : forall evs0 log0 rest1, no_state evs0 -> log0 ++ evs0 = pre ++ EvState d v o n :: rest1 ->
                                exists rest0, log0 = pre ++ EvState d v o n :: rest0).
  { induction evs0 as [|ev evs0 IH] using rev_ind; intros log0 rest1 Hn0 E0.
    - rewrite app_nil_r in E0. eauto.
    - apply Forall_app in Hn0 as [Hn1 Hn2]. inversion Hn2 as [|? ? Hev _]; subst.
      destruct (exists_last_or_nil rest1) as [->|[rest' [r ->]]].
      + rewrite app_assoc in E0. apply app_inj_tail in E0 as [_ E1]. exfalso. eapply Hev. exact E1.
      + rewrite app_assoc, app_comm_cons, (app_assoc pre) in E0. apply app_inj_tail in E0 as [E1 _].
        destruct (IH log0 _ Hn1 E1) as [rest0 Hr]. eauto. }
  destruct (G evs log rest Hn E) as [rest0 Hr]. exact (Hc pre d v o n rest0 Hr).
Qed.

Lemma chained_snoc_state log d v o n :
  state_chained log ->
  match o with None => True | Some s => last_state log d v = Some s /\ str_eqb n s = false end ->
  state_chained (log ++ [EvState d v o n]).
Proof.
  intros Hc H pre d' v' o' n' rest E.
  destruct (exists_last_or_nil rest) as [->|[rest' [r ->]]].
  - apply app_inj_tail in E as [-> E]. injection E as -> -> -> ->. exact H.
  - rename rest' into rest. rewrite app_comm_cons, app_assoc in E. apply app_inj_tail in E as [E _]. exact (Hc pre d' v' o' n' rest E).
Qed.

Lemma last_state_snoc_same log d v o n : last_state (log ++ [EvState d v o n]) d v = Some n.
Proof. rewrite last_state_app. unfold last_state. cbn. now rewrite !str_eqb_refl. Qed.

Lemma last_state_snoc_other log d v o n d' v' : (d' <> d \/ v' <> v) -> last_state (log ++ [EvState d v o n]) d' v' = last_state log d' v'.
Proof.
  intro H. rewrite last_state_app. unfold last_state at 1. cbn.
  assert ((str_eqb d d' && str_eqb v v') = false) as ->; [|reflexivity].
  destruct H as [H|H]; [assert (str_eqb d d' = false) as -> by (apply str_eqb_neq; congruence); reflexivity|].
  assert (str_eqb v v' = false) as -> by (apply str_eqb_neq; congruence). apply andb_false_r.
Qed.

Lemma upd_events_values dn vn k ch : forall es0 evs0, no_state evs0 -> no_state (snd (fold_left (Client.Events.upd_step dn vn k) ch (es0, evs0))).
Proof.
  induction ch as [|p ch IH]; intros es0 evs0 H0; cbn [fold_left]; [exact H0|].
  assert (Hs : no_state (snd (Client.Events.upd_step dn vn k (es0, evs0) p))).
  { unfold Client.Events.upd_step.
    destruct (str_eqb (pk p) (one_kind k)); [|exact H0].
    destruct (dget ce_name (part_name p) es0) as [el|]; [|exact H0].
    destruct (new_cval k p) as [x0|]; [|exact H0].
    destruct (cval_eqb x0 (ce_value el)); [exact H0|]. cbn [snd].
    apply Forall_app. split; [assumption|]. constructor; [discriminate|constructor]. }
  destruct (Client.Events.upd_step dn vn k (es0, evs0) p) as [es1 evs1]. now apply IH.
Qed.

Lemma last_state_other_prop log evs dn vn d v :
  (d <> dn \/ v <> vn) ->
  Forall (fun ev => ev_dev ev = dn /\ ev_vec ev = vn) evs ->
  last_state (log ++ evs) d v = last_state log d v.
Proof.
  intros Hne Hall. rewrite last_state_app.
  assert (last_state evs d v = None) as ->; [|reflexivity].
  unfold last_state. induction Hall as [|ev evs [Hd Hv] Hall IH]; cbn [fold_left]; [reflexivity|].
  assert (state_event_of d v ev = None) as ->; [|exact IH].
  destruct ev; cbn in *; try reflexivity. subst.
  destruct Hne as [Hne|Hne].
  - assert (str_eqb dn d = false) as -> by (apply str_eqb_neq; congruence). reflexivity.
  - assert (str_eqb vn v = false) as -> by (apply str_eqb_neq; congruence). now rewrite andb_false_r.
Qed.

Lemma no_state_values dn vn (ch : list part) :
  no_state (map (fun p => EvValue dn vn (part_name p) (CRaw None) (CRaw (pv p))) ch).
Proof. apply Forall_forall. intros ev Hin. apply in_map_iff in Hin as [p [<- _]]. discriminate. Qed.

(* Whatever the server sends, in whatever order: after every message the mirror holds, for
   every property, exactly the state the latest state event announced, and every state
   event continues the chain. *)
Theorem apply_preserves_state_chain m log mg :
  wf_mirror m -> state_inv m log -> state_chained log ->
  state_inv (mirror_of (apply m mg)) (log ++ events_of (apply m mg)) /\ state_chained (log ++ events_of (apply m mg)).
Proof.
  intros [Hn Hv] Hci Hch.
  assert (Hsame : apply m mg = (m, [], []) ->
            state_inv (mirror_of (apply m mg)) (log ++ events_of (apply m mg)) /\ state_chained (log ++ events_of (apply m mg))).
  { intros ->. unfold mirror_of, events_of. cbn [fst snd]. rewrite app_nil_r. auto. }
  destruct (attr_of "device" (ma mg)) as [dn|] eqn:Edev;
    [|apply Hsame; unfold apply; now rewrite Edev].
  destruct (def_kind (mk mg)) as [k|] eqn:Edk.
  - (* definition *)
    pose proof (def_effect m mg k dn Edk Edev) as Heff.
    pose proof (fun dn' vn' H => def_frame m mg k dn dn' vn' Edk Edev H) as Hfr.
    set (v := vec_of_def k mg) in *. set (ch := match mc mg with Some l => l | None => [] end).
    assert (events_of (apply m mg) =
            map (fun p => EvValue dn (cv_name v) (part_name p) (CRaw None) (CRaw (pv p))) ch ++
            [EvState dn (cv_name v) None (cv_state v); EvDef dn (cv_name v)]) as Hev.
    { unfold apply, events_of. rewrite Edev, Edk. destruct (dget cd_name dn m); reflexivity. }
    rewrite Hev.
    set (vals := map (fun p => EvValue dn (cv_name v) (part_name p) (CRaw None) (CRaw (pv p))) ch).
    assert (Hab : Forall (fun ev => ev_dev ev = dn /\ ev_vec ev = cv_name v) (vals ++ [EvState dn (cv_name v) None (cv_state v); EvDef dn (cv_name v)])).
    { apply Forall_app. split; [apply Forall_forall; intros ev Hin; apply in_map_iff in Hin as [p [<- _]]; auto|repeat constructor]. }
    assert (Hnd : no_state [EvDef dn (cv_name v)]) by (constructor; [discriminate|constructor]).
    split.
    + intros d' v' x Hx. unfold cur_state in Hx.
      destruct (list_eq_dec N.eq_dec d' dn) as [->|Hd]; [destruct (list_eq_dec N.eq_dec v' (cv_name v)) as [->|Hv']|].
      * rewrite Heff in Hx. cbn [option_map] in Hx. injection Hx as <-.
        rewrite app_assoc.
        change [EvState dn (cv_name v) None (cv_state v); EvDef dn (cv_name v)]
          with ([EvState dn (cv_name v) None (cv_state v)] ++ [EvDef dn (cv_name v)]).
        rewrite app_assoc. rewrite last_state_no_state by exact Hnd. apply last_state_snoc_same.
      * rewrite Hfr in Hx by (right; exact Hv').
        rewrite (last_state_other_prop log _ dn (cv_name v) dn v' (or_intror Hv') Hab). apply Hci. exact Hx.
      * rewrite Hfr in Hx by (left; exact Hd).
        rewrite (last_state_other_prop log _ dn (cv_name v) d' v' (or_introl Hd) Hab). apply Hci. exact Hx.
    + rewrite app_assoc.
      change [EvState dn (cv_name v) None (cv_state v); EvDef dn (cv_name v)]
        with ([EvState dn (cv_name v) None (cv_state v)] ++ [EvDef dn (cv_name v)]).
      rewrite app_assoc. apply chained_no_state; [|exact Hnd].
      apply chained_snoc_state; [|exact I]. apply chained_no_state; [exact Hch|apply no_state_values].
  - destruct (set_kind (mk mg)) as [k|] eqn:Esk.
    + (* update *)
      destruct (dget cd_name dn m) as [d|] eqn:Ed;
        [|apply Hsame; unfold apply; now rewrite Edev, Edk, Esk, Ed].
      destruct (attr_of "name" (ma mg)) as [vn|] eqn:Evn;
        [|apply Hsame; unfold apply; now rewrite Edev, Edk, Esk, Ed, Evn].
      destruct (dget cv_name vn (cd_vecs d)) as [v|] eqn:Ev;
        [|apply Hsame; unfold apply; now rewrite Edev, Edk, Esk, Ed, Evn, Ev].
      destruct (vkind_eqb k (cv_kind v)) eqn:Ek;
        [|apply Hsame; unfold apply; now rewrite Edev, Edk, Esk, Ed, Evn, Ev, Ek].
      set (st := match attr_of "state" (ma mg) with Some s => s | None => [] end).
      set (ev1 := if str_eqb st (cv_state v) then [] else [EvState dn vn (Some (cv_state v)) st]).
      set (ch := match mc mg with Some l => l | None => [] end).
      pose proof (upd_events_values dn vn k ch (cv_elems v) [] (Forall_nil _)) as Hns. rewrite <- upd_elems_fold in Hns.
      pose proof (upd_events_about dn vn k ch (cv_elems v) [] (Forall_nil _)) as Hall. rewrite <- upd_elems_fold in Hall.
      destruct (upd_elems dn vn k ch (cv_elems v)) as [es ev2] eqn:Eu. cbn [fst snd] in Hns, Hall.
      assert (apply m mg = (dset cd_name (Client.Model.with_vecs d (dset cv_name (with_celems v st es) (cd_vecs d))) m, ev1 ++ ev2, [])) as Hap.
      { unfold apply. rewrite Edev, Edk, Esk, Ed, Evn, Ev, Ek. fold st ch. now rewrite Eu. }
      rewrite Hap. unfold mirror_of, events_of. cbn [fst snd].
      assert (Hcur : last_state log dn vn = Some (cv_state v)).
      { apply Hci. unfold cur_state, get_vec. now rewrite Ed, Ev. }
      assert (Hlast : last_state (log ++ ev1 ++ ev2) dn vn = Some st).
      { rewrite app_assoc, last_state_no_state by exact Hns. unfold ev1.
        destruct (str_eqb st (cv_state v)) eqn:Es.
        - rewrite app_nil_r, Hcur. f_equal. symmetry. now apply str_eqb_spec.
        - apply last_state_snoc_same. }
      assert (Hab : Forall (fun ev => ev_dev ev = dn /\ ev_vec ev = vn) (ev1 ++ ev2)).
      { apply Forall_app. split; [|exact Hall]. unfold ev1. destruct (str_eqb st (cv_state v)); repeat constructor. }
      pose proof (dget_key cd_name _ _ _ Ed) as Hdn. pose proof (dget_key cv_name _ _ _ Ev) as Hvn.
      split.
      * intros d' v' x Hx. unfold cur_state, get_vec in Hx.
        destruct (list_eq_dec N.eq_dec d' dn) as [->|Hd].
        -- rewrite (dget_dset_eq cd_name) in Hx by (cbn; exact Hdn). cbn [cd_vecs Client.Model.with_vecs] in Hx.
           destruct (list_eq_dec N.eq_dec v' vn) as [->|Hv'].
           ++ rewrite (dget_dset_eq cv_name) in Hx by (cbn; exact Hvn). cbn [option_map cv_state with_celems] in Hx.
              injection Hx as <-. exact Hlast.
           ++ rewrite (dget_dset_other cv_name) in Hx by (cbn; congruence).
              rewrite (last_state_other_prop log (ev1 ++ ev2) dn vn dn v' (or_intror Hv') Hab).
              apply Hci. unfold cur_state, get_vec. now rewrite Ed.
        -- rewrite (dget_dset_other cd_name) in Hx by (cbn; congruence).
           rewrite (last_state_other_prop log (ev1 ++ ev2) dn vn d' v' (or_introl Hd) Hab).
           apply Hci. exact Hx.
      * rewrite app_assoc. apply chained_no_state; [|exact Hns]. unfold ev1.
        destruct (str_eqb st (cv_state v)) eqn:Es; [now rewrite app_nil_r|].
        apply chained_snoc_state; [exact Hch|]. split; [exact Hcur|exact Es].
    + (* deletion or something else *)
      destruct (str_eqb (mk mg) (s2l "delProperty")) eqn:Edel;
        [|apply Hsame; unfold apply; now rewrite Edev, Edk, Esk, Edel].
      destruct (attr_of "name" (ma mg)) as [vn|] eqn:Evn.
      * destruct (dget cd_name dn m) as [d|] eqn:Ed;
          [|apply Hsame; unfold apply; now rewrite Edev, Edk, Esk, Edel, Evn, Ed].
        pose proof (del_named m mg dn vn d Edk Esk Edel Edev Evn Ed (dget_forall cd_name _ dn m d Hv Ed)) as [D1 [D2 D3]].
        rewrite D3, app_nil_r. split; [|assumption].
        intros d' v' x Hx. apply Hci. unfold cur_state in *.
        destruct (list_eq_dec N.eq_dec d' dn) as [->|Hd].
        -- destruct (list_eq_dec N.eq_dec v' vn) as [->|Hv']; [rewrite D1 in Hx; discriminate|].
           rewrite D2 in Hx by assumption. exact Hx.
        -- unfold get_vec in *. unfold apply, mirror_of in Hx. rewrite Edev, Edk, Esk, Edel, Evn, Ed in Hx. cbn [fst] in Hx.
           rewrite (dget_dset_other cd_name) in Hx; [exact Hx|]. cbn. rewrite (dget_key cd_name _ _ _ Ed). congruence.
      * pose proof (del_device m mg dn Edk Esk Edel Edev Evn Hn) as [D1 D2].
        assert (events_of (apply m mg) = []) as -> by (unfold apply, events_of; now rewrite Edev, Edk, Esk, Edel, Evn).
        rewrite app_nil_r. split; [|assumption].
        intros d' v' x Hx. apply Hci. unfold cur_state, get_vec in *.
        destruct (list_eq_dec N.eq_dec d' dn) as [->|Hd]; [rewrite D1 in Hx; discriminate|].
        rewrite D2 in Hx by assumption. exact Hx.
Qed.

Theorem state_chains_hold_for_every_stream ms :
  let '(m, log) := run_stream [] [] ms in state_inv m log /\ state_chained log.
Proof.
  assert (forall ms m log, wf_mirror m -> state_inv m log -> state_chained log ->
            let '(m', log') := run_stream m log ms in state_inv m' log' /\ state_chained log') as G.
  { induction ms0 as [|mg r IH]; intros m log W Hc Hch; cbn [run_stream]; [auto|].
    destruct (apply_preserves_state_chain m log mg W Hc Hch) as [H1 H2].
    apply IH; auto. now apply apply_keeps_wf. }
  apply G.
  - split; constructor.
  - intros d v x Hx. discriminate.
  - intros pre d v o n rest E. destruct pre; discriminate.
Qed.

(* the chain really constrains: a state event that does not continue from the previous one breaks it *)
Example a_broken_state_chain_is_rejected :
  ~ state_chained [EvState (s2l "D") (s2l "V") None (s2l "Ok"); EvState (s2l "D") (s2l "V") (Some (s2l "Busy")) (s2l "Alert")].
Proof.
  intro H. specialize (H [EvState (s2l "D") (s2l "V") None (s2l "Ok")] (s2l "D") (s2l "V") (Some (s2l "Busy")) (s2l "Alert") [] eq_refl).
  destruct H as [H _]. vm_compute in H. discriminate.
Qed.

