(* runner entry for the client model *)
From Coq Require Import List NArith ZArith Bool String.
Import ListNotations.
From Indi Require Import Base.Sx Msg.Equality Msg.Model Msg.Run Driver.Model Client.Model.

Definition enc_cval (v : cval) : sx :=
  match v with
  | CRaw s => SL [tag "r"; of_opt SA s]
  | CBlob b f => SL [tag "b"; SA b; SA f]
  end.

Definition enc_cevent (e : cevent) : sx :=
  match e with
  | EvValue d v el o n => SL [tag "value"; SA d; SA v; SA el; enc_cval o; enc_cval n]
  | EvState d v o n => SL [tag "state"; SA d; SA v; of_opt SA o; SA n]
  | EvDef d v => SL [tag "def"; SA d; SA v]
  end.

Definition enc_kind (k : vkind) : sx := tag (kind_name k).

Definition enc_mirror (m : mirror) : sx :=
  of_list (fun d => SL [SA (cd_name d);
                        of_list (fun v => SL [SA (cv_name v); enc_kind (cv_kind v); of_opt SA (cv_group v); of_opt SA (cv_label v);
                                              SA (cv_state v);
                                              of_list (fun e => SL [SA (ce_name e); of_opt SA (ce_label e); enc_cval (ce_value e)]) (cv_elems v)])
                                (cd_vecs d)]) m.

Definition dec_etype (x : sx) : option etype :=
  if is_tag "any" x then Some TAny else if is_tag "def" x then Some TDef
  else if is_tag "value" x then Some TValue else if is_tag "state" x then Some TState else None.

Definition dec_cb (x : sx) : option callback :=
  match x with
  | SL [i; d; v; e; t] =>
      match as_N i, as_opt as_str d, as_opt as_str v, as_opt as_str e, dec_etype t with
      | Some i, Some d, Some v, Some e, Some t => Some {| cb_id := i; cb_dev := d; cb_vec := v; cb_elem := e; cb_type := t |}
      | _, _, _, _, _ => None
      end
  | _ => None
  end.

Definition dec_cop (x : sx) : option cop :=
  match x with
  | SL [t; a] =>
      if is_tag "recv" t then option_map Recv (dec_msg a)
      else if is_tag "on" t then option_map On (dec_cb a)
      else if is_tag "rmid" t then option_map RmId (as_N a)
      else None
  | SL [t; d; v; e; ty] =>
      if is_tag "rmcrit" t then
        match as_opt as_str d, as_opt as_str v, as_opt as_str e, as_opt dec_etype ty with
        | Some d, Some v, Some e, Some ty => Some (RmCrit d v e ty)
        | _, _, _, _ => None
        end
      else None
  | _ => None
  end.

(* ops -> (deliveries per op) (messages sent per op) (final mirror) (remaining callback ids) *)
Definition run_client (x : sx) : sx :=
  match as_list_of dec_cop x with
  | Some ops =>
      let '(c, dls, sents) := crun {| c_mirror := []; c_cbs := [] |} ops in
      SL [of_list (of_list (fun p => SL [of_N (fst p); enc_cevent (snd p)])) dls;
          of_list (of_list enc_msg) sents;
          enc_mirror (c_mirror c);
          of_list (fun cb => of_N (cb_id cb)) (c_cbs c)]
  | None => bad_input
  end.
