(* The wire maps an empty text to an absent one (Msg/Codec.v: norm_msg).  A client that
   receives the normalised stream ends with the normalisation of the mirror it would have
   had on the raw stream: processing commutes with normalisation. *)
From Coq Require Import List NArith Bool String.
Import ListNotations.
From Indi Require Import Base.Sx Msg.Equality Msg.Codec Driver.Model Client.Model Client.Props Client.Update.

Definition nm_val (x : cval) : cval := match x with CRaw s => CRaw (norm_value s) | b => b end.
Definition nm_elem (e : celem) : celem := {| ce_name := ce_name e; ce_label := ce_label e; ce_value := nm_val (ce_value e) |}.
Definition nm_vec (v : cvec) : cvec :=
  {| cv_name := cv_name v; cv_kind := cv_kind v; cv_group := cv_group v; cv_label := cv_label v; cv_message := cv_message v;
     cv_state := cv_state v; cv_elems := map nm_elem (cv_elems v) |}.
Definition nm_dev (d : cdev) : cdev := {| cd_name := cd_name d; cd_vecs := map nm_vec (cd_vecs d) |}.
Definition nm (m : mirror) : mirror := map nm_dev m.

Section MapDict.
Context {A : Type} (key : A -> str) (f : A -> A) (Hk : forall x, key (f x) = key x).
Lemma dget_map k l : dget key k (map f l) = option_map f (dget key k l).
Proof. induction l as [|y l IH]; [reflexivity|]. cbn [map dget]. rewrite Hk. destruct (str_eqb (key y) k); [reflexivity|exact IH]. Qed.
Lemma dset_map x l : dset key (f x) (map f l) = map f (dset key x l).
Proof. induction l as [|y l IH]; [reflexivity|]. cbn [map dset]. rewrite !Hk. destruct (str_eqb (key y) (key x)); [reflexivity|]. cbn [map]. f_equal. exact IH. Qed.
Lemma ddel_map k l : ddel key k (map f l) = map f (ddel key k l).
Proof. induction l as [|y l IH]; [reflexivity|]. cbn [map ddel]. rewrite Hk. destruct (str_eqb (key y) k); [reflexivity|]. cbn [map]. f_equal. exact IH. Qed.
End MapDict.

Lemma norm_value_idem s : norm_value (norm_value s) = norm_value s.
Proof. destruct s as [[|c r]|]; reflexivity. Qed.

Lemma nm_val_idem x : nm_val (nm_val x) = nm_val x.
Proof. destruct x; cbn; [now rewrite norm_value_idem|reflexivity]. Qed.

Lemma part_name_norm p : part_name (norm_part p) = part_name p.
Proof. reflexivity. Qed.

Lemma elem_of_def_norm p : elem_of_def (norm_part p) = nm_elem (elem_of_def p).
Proof. reflexivity. Qed.

Lemma elems_of_def_norm ps : elems_of_def (map norm_part ps) = map nm_elem (elems_of_def ps).
Proof.
  unfold elems_of_def.
  assert (G : forall acc, fold_left (fun acc p => dset ce_name (elem_of_def p) acc) (map norm_part ps) (map nm_elem acc) =
                          map nm_elem (fold_left (fun acc p => dset ce_name (elem_of_def p) acc) ps acc)).
  { induction ps as [|p ps IH]; intro acc; [reflexivity|]. cbn [map fold_left]. rewrite elem_of_def_norm.
    rewrite (dset_map ce_name nm_elem (fun _ => eq_refl)). apply IH. }
  exact (G []).
Qed.

Lemma new_cval_norm k p : new_cval k (norm_part p) = option_map nm_val (new_cval k p).
Proof.
  destruct k; cbn [new_cval option_map nm_val norm_part pv pa]; try reflexivity.
  assert (E : match norm_value (pv p) with Some s => s | None => [] end = match pv p with Some s => s | None => [] end)
    by (destruct (pv p) as [[|c r]|]; reflexivity).
  rewrite E. destruct (B64.Model.decode _); [|reflexivity]. destruct (attr_of "size" (pa p)); [|reflexivity].
  destruct (Num.Model.digits_val s); [|reflexivity]. destruct (negb _ && _); reflexivity.
Qed.

Lemma cval_eqb_refl x : cval_eqb x x = true.
Proof.
  destruct x as [[s|]|b f]; cbn; try apply str_eqb_refl; try reflexivity.
  assert (L : forall l, list_eqb N.eqb l l = true) by (induction l as [|a l IH]; cbn; [reflexivity|now rewrite N.eqb_refl, IH]).
  now rewrite L, str_eqb_refl.
Qed.

Lemma cval_eqb_nm x y : cval_eqb x y = true -> cval_eqb (nm_val x) (nm_val y) = true.
Proof. intro H. apply cval_eqb_eq in H. subst. apply cval_eqb_refl. Qed.

(* one child of an update, on normalised elements: the same as normalising afterwards *)
Lemma upd_step_norm dn vn k es evs evs' p :
  fst (upd_step dn vn k (map nm_elem es, evs') (norm_part p)) = map nm_elem (fst (upd_step dn vn k (es, evs) p)).
Proof.
  unfold upd_step. cbn [pk norm_part]. destruct (str_eqb (pk p) (one_kind k)); [|reflexivity].
  rewrite part_name_norm, (dget_map ce_name nm_elem (fun _ => eq_refl)).
  destruct (dget ce_name (part_name p) es) as [el|] eqn:Eg; cbn [option_map]; [|reflexivity].
  rewrite new_cval_norm. destruct (new_cval k p) as [x|]; cbn [option_map]; [|reflexivity].
  cbn [ce_value nm_elem ce_name ce_label].
  destruct (cval_eqb x (ce_value el)) eqn:E1.
  - rewrite (cval_eqb_nm _ _ E1). reflexivity.
  - destruct (cval_eqb (nm_val x) (nm_val (ce_value el))) eqn:E2; cbn [fst].
    + (* the raw update changes "" to absent or back: after normalisation nothing changed *)
      apply cval_eqb_eq in E2.
      clear -Eg E2. induction es as [|e r IH]; [discriminate|]. cbn [dget] in Eg. cbn [dset map ce_name].
      destruct (str_eqb (ce_name e) (part_name p)) eqn:En.
      * injection Eg as <-. rewrite str_eqb_refl. cbn [map]. f_equal. unfold nm_elem. cbn. now rewrite E2.
      * assert (str_eqb (ce_name e) (ce_name el) = false) as ->.
        { pose proof (dget_key ce_name _ _ _ Eg) as Hn. rewrite Hn. exact En. }
        cbn [map]. f_equal. apply IH. exact Eg.
    + change {| ce_name := ce_name el; ce_label := ce_label el; ce_value := nm_val x |}
        with (nm_elem {| ce_name := ce_name el; ce_label := ce_label el; ce_value := x |}).
      apply (dset_map ce_name nm_elem (fun _ => eq_refl)).
Qed.

Lemma upd_elems_norm dn vn k ch : forall es evs evs',
  fst (fold_left (upd_step dn vn k) (map norm_part ch) (map nm_elem es, evs')) =
  map nm_elem (fst (fold_left (upd_step dn vn k) ch (es, evs))).
Proof.
  induction ch as [|p ch IH]; intros es evs evs'; [reflexivity|]. cbn [map fold_left].
  pose proof (upd_step_norm dn vn k es evs evs' p) as S.
  destruct (upd_step dn vn k (map nm_elem es, evs') (norm_part p)) as [es1 ev1].
  destruct (upd_step dn vn k (es, evs) p) as [es2 ev2]. cbn [fst] in S. subst es1. apply IH.
Qed.

Lemma vec_of_def_norm k m : vec_of_def k (norm_msg m) = nm_vec (vec_of_def k m).
Proof.
  unfold vec_of_def, nm_vec. cbn [ma norm_msg mc cv_name cv_kind cv_group cv_label cv_message cv_state cv_elems]. f_equal.
  destruct (mc m) as [l|]; cbn [option_map]; [apply elems_of_def_norm|reflexivity].
Qed.

Lemma with_vecs_nm d vs : Client.Model.with_vecs (nm_dev d) (map nm_vec vs) = nm_dev (Client.Model.with_vecs d vs).
Proof. reflexivity. Qed.

Lemma with_celems_nm v st es : with_celems (nm_vec v) st (map nm_elem es) = nm_vec (with_celems v st es).
Proof. reflexivity. Qed.

(* processing commutes with normalisation *)
Theorem apply_norm mi m : mirror_of (apply (nm mi) (norm_msg m)) = nm (mirror_of (apply mi m)).
Proof.
  unfold apply, mirror_of, nm. cbn [ma mk norm_msg].
  destruct (attr_of "device" (ma m)) as [dn|]; [|reflexivity].
  rewrite (dget_map cd_name nm_dev (fun _ => eq_refl)).
  destruct (def_kind (mk m)) as [k|].
  - change (vec_of_def k {| mk := mk m; ma := ma m; mv := mv m; mc := option_map (map norm_part) (mc m) |}) with (vec_of_def k (norm_msg m)).
    rewrite vec_of_def_norm.
    destruct (dget cd_name dn mi) as [d|]; cbn [option_map fst].
    + cbn [cd_vecs nm_dev]. rewrite (dset_map cv_name nm_vec (fun _ => eq_refl)).
      change (Client.Model.with_vecs (nm_dev d) (map nm_vec (dset cv_name (vec_of_def k m) (cd_vecs d))))
        with (nm_dev (Client.Model.with_vecs d (dset cv_name (vec_of_def k m) (cd_vecs d)))).
      apply (dset_map cd_name nm_dev (fun _ => eq_refl)).
    + rewrite <- (dset_map cd_name nm_dev (fun _ => eq_refl)). reflexivity.
  - destruct (set_kind (mk m)) as [k|].
    + destruct (dget cd_name dn mi) as [d|]; cbn [option_map]; [|reflexivity].
      destruct (attr_of "name" (ma m)) as [vn|]; [|reflexivity].
      cbn [cd_vecs nm_dev]. rewrite (dget_map cv_name nm_vec (fun _ => eq_refl)).
      destruct (dget cv_name vn (cd_vecs d)) as [v|]; cbn [option_map]; [|reflexivity].
      cbn [cv_kind nm_vec]. destruct (vkind_eqb k (cv_kind v)); [|reflexivity].
      cbn [cv_state cv_elems nm_vec mc].
      pose proof (upd_elems_norm dn vn k (match mc m with Some l => l | None => [] end) (cv_elems v) [] []) as U.
      rewrite <- !upd_elems_fold in U.
      assert (Ech : match mc (norm_msg m) with Some l => l | None => [] end =
                    map norm_part (match mc m with Some l => l | None => [] end)) by (cbn [mc norm_msg]; destruct (mc m); reflexivity).
      rewrite Ech.
      destruct (upd_elems dn vn k (map norm_part _) (map nm_elem (cv_elems v))) as [es1 ev1].
      destruct (upd_elems dn vn k _ (cv_elems v)) as [es2 ev2]. cbn [fst] in *. subst es1.
      change (with_celems (nm_vec v) (match attr_of "state" (ma m) with Some s => s | None => [] end) (map nm_elem es2))
        with (nm_vec (with_celems v (match attr_of "state" (ma m) with Some s => s | None => [] end) es2)).
      rewrite (dset_map cv_name nm_vec (fun _ => eq_refl)).
      change (Client.Model.with_vecs (nm_dev d) (map nm_vec (dset cv_name (with_celems v (match attr_of "state" (ma m) with Some s => s | None => [] end) es2) (cd_vecs d))))
        with (nm_dev (Client.Model.with_vecs d (dset cv_name (with_celems v (match attr_of "state" (ma m) with Some s => s | None => [] end) es2) (cd_vecs d)))).
      apply (dset_map cd_name nm_dev (fun _ => eq_refl)).
    + destruct (str_eqb (mk m) (s2l "delProperty")); [|reflexivity].
      destruct (attr_of "name" (ma m)) as [vn|].
      * destruct (dget cd_name dn mi) as [d|]; cbn [option_map fst]; [|reflexivity].
        cbn [cd_vecs nm_dev]. rewrite (ddel_map cv_name nm_vec (fun _ => eq_refl)).
        change (Client.Model.with_vecs (nm_dev d) (map nm_vec (ddel cv_name vn (cd_vecs d))))
          with (nm_dev (Client.Model.with_vecs d (ddel cv_name vn (cd_vecs d)))).
        apply (dset_map cd_name nm_dev (fun _ => eq_refl)).
      * cbn [fst]. apply (ddel_map cd_name nm_dev (fun _ => eq_refl)).
Qed.

Theorem feed_norm ms : forall mi,
  fold_left (fun mi m => mirror_of (apply mi m)) (map norm_msg ms) (nm mi) = nm (fold_left (fun mi m => mirror_of (apply mi m)) ms mi).
Proof. induction ms as [|m ms IH]; intro mi; [reflexivity|]. cbn [map fold_left]. rewrite apply_norm. apply IH. Qed.

Lemma get_vec_nm mi dn vn : get_vec (nm mi) dn vn = option_map nm_vec (get_vec mi dn vn).
Proof.
  unfold get_vec, nm. rewrite (dget_map cd_name nm_dev (fun _ => eq_refl)).
  destruct (dget cd_name dn mi) as [d|]; cbn [option_map]; [|reflexivity].
  cbn [cd_vecs nm_dev]. apply (dget_map cv_name nm_vec (fun _ => eq_refl)).
Qed.
