(* runner entry for the number model *)
From Coq Require Import List NArith ZArith Bool String.
Import ListNotations.
From Indi Require Import Base.Sx Msg.Model Num.Model.
Local Open Scope N_scope.

Definition dec_bigN (x : sx) : option N := match x with SA s => digits_val s | _ => None end.
Definition enc_bigN (n : N) : sx := SA (print_dec n).

(* ("render" fmt neg p q) -> (text?) ; ("parse" text) -> ((neg num den)?) ; ("check" text) -> bool *)
Definition run_num (x : sx) : sx :=
  match x with
  | SL [t; SA f; ng; p; q] =>
      if is_tag "render" t then
        match parse_fmt f, as_bool ng, dec_bigN p, dec_bigN q with
        | Some f, Some ng, Some p, Some q =>
            match num_to_str f {| v_neg := ng; v_p := p; v_q := q |} with
            | Some s => SL [SA s; match str_to_num s with
                                  | Some (ng', n, d) => SL [of_bool ng'; enc_bigN n; enc_bigN d]
                                  | None => SL []
                                  end; of_bool (check_number s)]
            | None => SL []
            end
        | _, _, _, _ => tag "BAD-FORMAT"
        end
      else bad_input
  | SL [t; SA s] =>
      if is_tag "parse" t then
        SL [of_bool (check_number s);
            match str_to_num s with
            | Some (ng', n, d) => SL [of_bool ng'; enc_bigN n; enc_bigN d]
            | None => SL []
            end]
      else bad_input
  | _ => bad_input
  end.
