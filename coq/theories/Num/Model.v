(* C10: model of indi/device/values.py num_to_str / str_to_num over exact
   integers and rationals (a finite float is its sign bit and |x| = p/q). *)
From Coq Require Import List NArith ZArith Bool Lia.
Import ListNotations.
From Indi Require Import Base.Sx Msg.Model.
Local Open Scope N_scope.

(* ---------- decimal digits ---------- *)
(* value of a digit string, most significant digit first; the empty string counts 0 *)
Definition digit_step (acc : option N) (c : N) : option N :=
  match acc with
  | Some a => if is_dig c then Some (a * 10 + (c - 48)) else None
  | None => None
  end.
Definition digits_val (s : str) : option N := fold_left digit_step s (Some 0).

(* decimal digits of n; fuel = bit length, which always suffices *)
Fixpoint digs (fuel : nat) (n : N) : str :=
  match fuel with
  | O => []
  | S f => if n <? 10 then [48 + n] else digs f (n / 10) ++ [48 + n mod 10]
  end.
Definition print_dec (n : N) : str := digs (S (N.to_nat (N.log2 n))) n.

(* exactly w digits: n mod 10^w, zero padded *)
Fixpoint fixed_digits (w : nat) (n : N) : str :=
  match w with
  | O => []
  | S w' => fixed_digits w' (n / 10) ++ [48 + n mod 10]
  end.

Definition pad0 (w : nat) (s : str) : str := repeat 48 (w - length s) ++ s.

(* ---------- structured number text ---------- *)
Record ntext := {
  t_neg : bool;                    (* '-' in front *)
  t_plus : bool;                   (* '+' in front (printf '+' flag) *)
  t_lead : list (N * nat);         (* fields before the last one: value, minimum width *)
  t_int : N * nat;                 (* integer digits of the last field *)
  t_frac : option (N * nat);       (* fraction digits: value, exact width *)
  t_dot : bool                     (* a bare '.' after the integer digits ('#' flag) *)
}.

Definition show_field (f : N * nat) : str := pad0 (snd f) (print_dec (fst f)).
Definition show_frac (f : N * nat) : str := fixed_digits (snd f) (fst f).

Definition show (t : ntext) : str :=
  (if t_neg t then [45] else if t_plus t then [43] else []) ++
  flat_map (fun f => show_field f ++ [58]) (t_lead t) ++
  show_field (t_int t) ++
  match t_frac t with
  | Some f => 46 :: show_frac f
  | None => if t_dot t then [46] else []
  end.

(* what the text denotes, as an exact fraction: numerator, denominator *)
Definition frac_scale (t : ntext) : N := match t_frac t with Some (_, w) => 10 ^ N.of_nat w | None => 1 end.
Definition frac_num (t : ntext) : N := match t_frac t with Some (v, _) => v | None => 0 end.
Definition last_num (t : ntext) : N := fst (t_int t) * frac_scale t + frac_num t.
Definition denote_num (t : ntext) : N :=
  match t_lead t with
  | [] => last_num t
  | [a] => fst a * 60 * frac_scale t + last_num t
  | [a; b] => fst a * 3600 * frac_scale t + fst b * 60 * frac_scale t + last_num t
  | _ => 0
  end.
Definition denote_den (t : ntext) : N :=
  match t_lead t with
  | [] => frac_scale t
  | [_] => 60 * frac_scale t
  | _ => 3600 * frac_scale t
  end.

(* ---------- str_to_num ---------- *)
(* D+ | D+ '.' D* | '.' D+  ->  (numerator, denominator) *)
Definition decimal_val (s : str) : option (N * N) :=
  match split_on (fun c => c =? 46) s [] with
  | [a] => if is_int a then option_map (fun v => (v, 1)) (digits_val a) else None
  | [a; b] =>
      if (is_int a && all_digits b) || ((match a with [] => true | _ => false end) && is_int b) then
        match digits_val a, digits_val b with
        | Some x, Some y => let sc := 10 ^ N.of_nat (length b) in Some (x * sc + y, sc)
        | _, _ => None
        end
      else None
  | _ => None
  end.
Definition int_val (s : str) : option N := if is_int s then digits_val s else None.

Definition unsigned_val (s : str) : option (N * N) :=
  match split_on is_sep s [] with
  | [d] => decimal_val d
  | [a; d] => match int_val a, decimal_val d with
              | Some x, Some (n, sc) => Some (x * 60 * sc + n, 60 * sc)
              | _, _ => None
              end
  | [a; b; d] => match int_val a, int_val b, decimal_val d with
                 | Some x, Some y, Some (n, sc) => Some (x * 3600 * sc + y * 60 * sc + n, 3600 * sc)
                 | _, _, _ => None
                 end
  | _ => None
  end.

(* sign applies to the whole magnitude: (negative?, numerator, denominator) *)
Definition str_to_num (s : str) : option (bool * N * N) :=
  match s with
  | c :: s' =>
      if c =? 45 then option_map (fun v => (true, fst v, snd v)) (unsigned_val s')
      else if c =? 43 then option_map (fun v => (false, fst v, snd v)) (unsigned_val s')
      else option_map (fun v => (false, fst v, snd v)) (unsigned_val s)
  | [] => None
  end.

(* ---------- formats ---------- *)
Record flags := { f_minus : bool; f_plus : bool; f_space : bool; f_zero : bool; f_hash : bool }.
Inductive fmt :=
| FSexa (code : N)                               (* %w.{3,5,6,8,9}m *)
| FFixed (fl : flags) (width : N) (prec : N)     (* %f, precision defaulting to 6 *)
| FInt (fl : flags) (width : N) (prec : option N).

(* a finite float: sign bit, |x| = fp / fq *)
Record fval := { v_neg : bool; v_p : N; v_q : N }.

Definition sexa_units (code : N) : option N :=
  if code =? 3 then Some 60 else if code =? 5 then Some 600 else if code =? 6 then Some 3600
  else if code =? 8 then Some 36000 else if code =? 9 then Some 360000 else None.

(* nearest unit, halves up, on the exact magnitude: floor((2pU + q) / 2q) *)
Definition round_units (U : N) (a : fval) : N := (2 * v_p a * U + v_q a) / (2 * v_q a).

Definition render_sexa (code U : N) (a : fval) : ntext :=
  let units := round_units U a in
  let w := units / U in
  let rest := units mod U in
  let neg := v_neg a && (0 <? v_p a) in
  if code =? 3 then
    {| t_neg := neg; t_plus := false; t_lead := [(w, 1%nat)]; t_int := (rest, 2%nat); t_frac := None; t_dot := false |}
  else if code =? 5 then
    {| t_neg := neg; t_plus := false; t_lead := [(w, 1%nat)]; t_int := (rest / 10, 2%nat);
       t_frac := Some (rest mod 10, 1%nat); t_dot := false |}
  else if code =? 6 then
    {| t_neg := neg; t_plus := false; t_lead := [(w, 1%nat); (rest / 60, 2%nat)]; t_int := (rest mod 60, 2%nat);
       t_frac := None; t_dot := false |}
  else if code =? 8 then
    {| t_neg := neg; t_plus := false; t_lead := [(w, 1%nat); (rest / 600, 2%nat)];
       t_int := ((rest mod 600) / 10, 2%nat); t_frac := Some ((rest mod 600) mod 10, 1%nat); t_dot := false |}
  else
    {| t_neg := neg; t_plus := false; t_lead := [(w, 1%nat); (rest / 6000, 2%nat)];
       t_int := ((rest mod 6000) / 100, 2%nat); t_frac := Some ((rest mod 6000) mod 100, 2%nat); t_dot := false |}.

(* round-half-even of n/d *)
Definition round_half_even (n d : N) : N :=
  let q := n / d in
  let r := n mod d in
  if 2 * r <? d then q else if d <? 2 * r then q + 1 else if N.even q then q else q + 1.

Definition sign_len (neg : bool) (fl : flags) : nat := if neg || f_plus fl || f_space fl then 1%nat else 0%nat.

Definition render_fixed (fl : flags) (width prec : N) (a : fval) : ntext :=
  let sc := 10 ^ prec in
  let r := round_half_even (v_p a * sc) (v_q a) in
  let neg := v_neg a in
  let has_frac := 0 <? prec in
  let tail := if has_frac then S (N.to_nat prec) else if f_hash fl then 1%nat else 0%nat in
  let minw := if f_zero fl && negb (f_minus fl) then (N.to_nat width - sign_len neg fl - tail)%nat else 1%nat in
  {| t_neg := neg; t_plus := negb neg && f_plus fl; t_lead := []; t_int := (r / sc, minw);
     t_frac := if has_frac then Some (r mod sc, N.to_nat prec) else None; t_dot := negb has_frac && f_hash fl |}.

Definition render_int (fl : flags) (width : N) (prec : option N) (a : fval) : ntext :=
  let r := v_p a / v_q a in                       (* truncation toward zero *)
  let neg := v_neg a && (0 <? r) in
  let minw := match prec with
              | Some p => N.to_nat p
              | None => if f_zero fl && negb (f_minus fl) then (N.to_nat width - sign_len neg fl)%nat else 1%nat
              end in
  {| t_neg := neg; t_plus := negb neg && f_plus fl; t_lead := []; t_int := (r, minw); t_frac := None; t_dot := false |}.

Definition render_t (f : fmt) (a : fval) : option ntext :=
  match f with
  | FSexa code => option_map (fun U => render_sexa code U a) (sexa_units code)
  | FFixed fl w p => Some (render_fixed fl w p a)
  | FInt fl w p => Some (render_int fl w p a)
  end.

(* "%.0d" % 0 prints nothing in C; Python prints "0": a zero minimum width still shows one digit
   because print_dec 0 = "0" *)
Definition num_to_str (f : fmt) (a : fval) : option str := option_map show (render_t f a).

(* ---------- format strings ---------- *)
Fixpoint take_flags (s : str) (fl : flags) : flags * str :=
  match s with
  | c :: s' =>
      if c =? 45 then take_flags s' {| f_minus := true; f_plus := f_plus fl; f_space := f_space fl; f_zero := f_zero fl; f_hash := f_hash fl |}
      else if c =? 43 then take_flags s' {| f_minus := f_minus fl; f_plus := true; f_space := f_space fl; f_zero := f_zero fl; f_hash := f_hash fl |}
      else if c =? 32 then take_flags s' {| f_minus := f_minus fl; f_plus := f_plus fl; f_space := true; f_zero := f_zero fl; f_hash := f_hash fl |}
      else if c =? 48 then take_flags s' {| f_minus := f_minus fl; f_plus := f_plus fl; f_space := f_space fl; f_zero := true; f_hash := f_hash fl |}
      else if c =? 35 then take_flags s' {| f_minus := f_minus fl; f_plus := f_plus fl; f_space := f_space fl; f_zero := f_zero fl; f_hash := true |}
      else (fl, s)
  | [] => (fl, s)
  end.

Fixpoint take_digits (s : str) (acc : str) : str * str :=
  match s with
  | c :: s' => if is_dig c then take_digits s' (c :: acc) else (rev acc, s)
  | [] => (rev acc, s)
  end.

Definition no_flags := {| f_minus := false; f_plus := false; f_space := false; f_zero := false; f_hash := false |}.

Definition parse_fmt (s : str) : option fmt :=
  match s with
  | 37 :: r =>
      let (fl, r1) := take_flags r no_flags in
      let (wd, r2) := take_digits r1 [] in
      let width := match digits_val wd with Some w => w | None => 0 end in
      match r2 with
      | 46 :: r3 =>
          let (pd, r4) := take_digits r3 [] in
          let prec := match digits_val pd with Some p => p | None => 0 end in
          match r4 with
          | [109] => match fl with                                     (* m: only %[w].[f]m, no flags *)
                     | {| f_minus := false; f_plus := false; f_space := false; f_zero := z; f_hash := false |} =>
                         match pd with [] => None | _ => if z then None else match sexa_units prec with Some _ => Some (FSexa prec) | None => None end end
                     | _ => None
                     end
          | [102] => Some (FFixed fl width prec)
          | [100] => Some (FInt fl width (Some prec))
          | _ => None
          end
      | [102] => Some (FFixed fl width 6)
      | [100] => Some (FInt fl width None)
      | _ => None
      end
  | _ => None
  end.

