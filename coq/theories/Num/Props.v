(* C10: theorems about the number model, for every format of the family and
   every finite value (no range bound), by exact integer arithmetic. *)
From Coq Require Import List NArith ZArith Bool Lia.
Import ListNotations.
From Indi Require Import Base.Sx Msg.Model Num.Model.
Local Open Scope N_scope.
Ltac Zify.zify_post_hook ::= Z.to_euclidean_division_equations.
Arguments N.add : simpl never.
Arguments N.mul : simpl never.
Arguments N.sub : simpl never.
Arguments N.div : simpl never.
Arguments N.modulo : simpl never.
Arguments N.pow : simpl never.
Arguments N.leb : simpl never.
Arguments N.ltb : simpl never.
Arguments N.eqb : simpl never.

(* ---------- digits ---------- *)
Lemma is_dig_spec c : is_dig c = true <-> 48 <= c <= 57.
Proof. unfold is_dig, inr. rewrite andb_true_iff, !N.leb_le. tauto. Qed.

Lemma is_dig_digit d : d < 10 -> is_dig (48 + d) = true.
Proof. intros H. apply is_dig_spec. lia. Qed.

Lemma fold_digit_none s : fold_left digit_step s None = None.
Proof. induction s; simpl; auto. Qed.

Lemma digits_val_snoc s c : digits_val (s ++ [c]) = digit_step (digits_val s) c.
Proof. unfold digits_val. now rewrite fold_left_app. Qed.

Lemma digit_step_digit a d : d < 10 -> digit_step (Some a) (48 + d) = Some (a * 10 + d).
Proof. intros H. unfold digit_step. rewrite (is_dig_digit d H). f_equal; lia. Qed.

Lemma digs_val f : forall n, n < 2 ^ N.of_nat f -> digits_val (digs f n) = Some n.
Proof.
  induction f as [|f IH]; intros n H.
  - simpl in H. assert (n = 0) by lia. subst. reflexivity.
  - cbn [digs]. destruct (n <? 10) eqn:E.
    + apply N.ltb_lt in E. unfold digits_val. cbn [fold_left]. rewrite digit_step_digit by assumption. f_equal; lia.
    + apply N.ltb_ge in E. rewrite digits_val_snoc.
      rewrite Nat2N.inj_succ, N.pow_succ_r' in H.
      rewrite IH by (assert (0 < 2 ^ N.of_nat f) by (apply N.neq_0_lt_0, N.pow_nonzero; lia); lia).
      rewrite digit_step_digit by lia. f_equal; lia.
Qed.

Lemma print_dec_val n : digits_val (print_dec n) = Some n.
Proof.
  unfold print_dec. apply digs_val.
  rewrite Nat2N.inj_succ, N2Nat.id.
  destruct n as [|p]; [reflexivity|]. apply N.log2_spec. lia.
Qed.

Lemma all_digits_app a b : all_digits (a ++ b) = all_digits a && all_digits b.
Proof. unfold all_digits. apply forallb_app. Qed.

Lemma digs_all_digits f : forall n, all_digits (digs f n) = true.
Proof.
  induction f as [|f IH]; intros n; cbn [digs]; [reflexivity|].
  destruct (n <? 10) eqn:E.
  - apply N.ltb_lt in E. unfold all_digits. simpl. now rewrite is_dig_digit.
  - rewrite all_digits_app, IH. unfold all_digits. simpl. rewrite is_dig_digit; [reflexivity|lia].
Qed.

Lemma digs_nonempty f n : digs (S f) n <> [].
Proof. cbn [digs]. destruct (n <? 10); [discriminate|]. destruct (digs f (n / 10)); discriminate. Qed.

Lemma print_dec_digits n : all_digits (print_dec n) = true.
Proof. apply digs_all_digits. Qed.
Lemma print_dec_nonempty n : print_dec n <> [].
Proof. apply digs_nonempty. Qed.

Lemma fixed_digits_length w : forall n, length (fixed_digits w n) = w.
Proof. induction w as [|w IH]; intros n; cbn [fixed_digits]; [reflexivity|]. rewrite app_length, IH. simpl. lia. Qed.

Lemma fixed_digits_all w : forall n, all_digits (fixed_digits w n) = true.
Proof.
  induction w as [|w IH]; intros n; cbn [fixed_digits]; [reflexivity|].
  rewrite all_digits_app, IH. unfold all_digits. simpl. rewrite is_dig_digit; [reflexivity|lia].
Qed.

Lemma fixed_digits_val w : forall n, digits_val (fixed_digits w n) = Some (n mod 10 ^ N.of_nat w).
Proof.
  induction w as [|w IH]; intros n; cbn [fixed_digits].
  - simpl. rewrite N.mod_1_r. reflexivity.
  - rewrite digits_val_snoc, IH, digit_step_digit by lia. f_equal.
    rewrite Nat2N.inj_succ, N.pow_succ_r'.
    assert (10 ^ N.of_nat w <> 0) by (apply N.pow_nonzero; lia).
    rewrite N.mod_mul_r by lia. lia.
Qed.

Lemma fold_zeros k : fold_left digit_step (repeat 48 k) (Some 0) = Some 0.
Proof. induction k as [|k IH]; simpl; [reflexivity|]. exact IH. Qed.

Lemma pad0_val w s : digits_val (pad0 w s) = digits_val s.
Proof. unfold pad0, digits_val. now rewrite fold_left_app, fold_zeros. Qed.

Lemma repeat_digits k : all_digits (repeat 48 k) = true.
Proof. induction k; simpl; auto. Qed.

Lemma pad0_digits w s : all_digits s = true -> all_digits (pad0 w s) = true.
Proof. intros H. unfold pad0. now rewrite all_digits_app, repeat_digits, H. Qed.

Lemma pad0_nonempty w s : s <> [] -> pad0 w s <> [].
Proof. unfold pad0. destruct (repeat 48 (w - length s)); simpl; [auto|discriminate]. Qed.

Lemma show_field_digits f : all_digits (show_field f) = true.
Proof. apply pad0_digits, print_dec_digits. Qed.
Lemma show_field_nonempty f : show_field f <> [].
Proof. apply pad0_nonempty, print_dec_nonempty. Qed.
Lemma show_field_val f : digits_val (show_field f) = Some (fst f).
Proof. unfold show_field. now rewrite pad0_val, print_dec_val. Qed.

Lemma all_digits_val s : all_digits s = true -> exists v, digits_val s = Some v.
Proof.
  unfold digits_val. generalize 0. induction s as [|c s IH]; intros a H; simpl; [eauto|].
  simpl in H. apply andb_prop in H as [Hc Hs]. rewrite Hc. now apply IH.
Qed.

Lemma digits_val_all s v : digits_val s = Some v -> all_digits s = true.
Proof.
  unfold digits_val. generalize 0. induction s as [|c s IH]; intros a H; simpl in *; [reflexivity|].
  destruct (is_dig c) eqn:E; [|rewrite fold_digit_none in H; discriminate].
  simpl. eauto.
Qed.

(* ---------- splitting ---------- *)
Lemma split_on_clean p a : forall r acc,
  forallb (fun c => negb (p c)) a = true ->
  split_on p (a ++ r) acc = split_on p r (rev a ++ acc).
Proof.
  induction a as [|c a IH]; intros r acc H; simpl; [reflexivity|].
  simpl in H. apply andb_prop in H as [Hc Ha]. apply negb_true_iff in Hc. rewrite Hc.
  rewrite IH by assumption. now rewrite <- app_assoc.
Qed.

Lemma split_on_whole p a : forallb (fun c => negb (p c)) a = true -> split_on p a [] = [a].
Proof.
  intros H. rewrite <- (app_nil_r a) at 1. rewrite split_on_clean by assumption.
  simpl. now rewrite app_nil_r, rev_involutive.
Qed.

Lemma split_on_cut p a c r :
  forallb (fun c => negb (p c)) a = true -> p c = true ->
  split_on p (a ++ c :: r) [] = a :: split_on p r [].
Proof.
  intros H Hc. rewrite split_on_clean by assumption. simpl. rewrite Hc.
  now rewrite app_nil_r, rev_involutive.
Qed.

Lemma digits_no_sep a : all_digits a = true -> forallb (fun c => negb (is_sep c)) a = true.
Proof.
  unfold all_digits. intros H. apply forallb_forall. intros c Hc. rewrite forallb_forall in H.
  specialize (H c Hc). apply is_dig_spec in H. unfold is_sep.
  apply negb_true_iff. rewrite !orb_false_iff, !N.eqb_neq. lia.
Qed.

Lemma digits_no_dot a : all_digits a = true -> forallb (fun c => negb (c =? 46)) a = true.
Proof.
  unfold all_digits. intros H. apply forallb_forall. intros c Hc. rewrite forallb_forall in H.
  specialize (H c Hc). apply is_dig_spec in H. apply negb_true_iff, N.eqb_neq. lia.
Qed.

Lemma is_int_field f : is_int (show_field f) = true.
Proof.
  unfold is_int. rewrite show_field_digits. pose proof (show_field_nonempty f).
  destruct (show_field f); [contradiction|reflexivity].
Qed.

Lemma int_val_field f : int_val (show_field f) = Some (fst f).
Proof. unfold int_val. now rewrite is_int_field, show_field_val. Qed.

(* ---------- the last field: integer digits, optional fraction ---------- *)
Definition last_text (t : ntext) : str :=
  show_field (t_int t) ++
  match t_frac t with
  | Some f => 46 :: show_frac f
  | None => if t_dot t then [46] else []
  end.

Definition wf_t (t : ntext) : Prop :=
  match t_frac t with Some (v, w) => v < 10 ^ N.of_nat w | None => True end.

Lemma last_no_sep t : forallb (fun c => negb (is_sep c)) (last_text t) = true.
Proof.
  unfold last_text. rewrite forallb_app. rewrite (digits_no_sep _ (show_field_digits _)). simpl.
  destruct (t_frac t) as [f|]; [|destruct (t_dot t); reflexivity].
  simpl. apply digits_no_sep. apply fixed_digits_all.
Qed.

Lemma decimal_val_last t :
  wf_t t -> decimal_val (last_text t) = Some (last_num t, frac_scale t).
Proof.
  intros W. unfold decimal_val, last_text, last_num, frac_scale, frac_num.
  pose proof (digits_no_dot _ (show_field_digits (t_int t))) as Hnd.
  destruct (t_frac t) as [[v w]|] eqn:Ef.
  - rewrite split_on_cut by (auto; reflexivity).
    unfold show_frac. cbn [fst snd].
    rewrite (split_on_whole _ _ (digits_no_dot _ (fixed_digits_all w v))).
    rewrite is_int_field, fixed_digits_all. simpl.
    rewrite show_field_val, fixed_digits_val, fixed_digits_length.
    unfold wf_t in W. rewrite Ef in W. rewrite N.mod_small by assumption. reflexivity.
  - destruct (t_dot t).
    + rewrite split_on_cut by (auto; reflexivity). simpl.
      rewrite is_int_field. simpl. rewrite show_field_val. unfold digits_val. simpl.
      f_equal; f_equal; lia.
    + rewrite app_nil_r. rewrite (split_on_whole _ _ Hnd). rewrite is_int_field, show_field_val. simpl.
      f_equal; f_equal; lia.
Qed.

(* ---------- the whole text ---------- *)
(* fields joined by any of the separators INDI allows (':' ';' blank) *)
Definition body_s (sp : N) (t : ntext) : str :=
  flat_map (fun f => show_field f ++ [sp]) (t_lead t) ++ last_text t.
Definition body (t : ntext) : str := body_s 58 t.

Lemma show_eq t : show t = (if t_neg t then [45] else if t_plus t then [43] else []) ++ body t.
Proof. unfold show, body, body_s, last_text. reflexivity. Qed.

Theorem unsigned_val_body_s sp t :
  is_sep sp = true ->
  (length (t_lead t) <= 2)%nat -> wf_t t ->
  unsigned_val (body_s sp t) = Some (denote_num t, denote_den t).
Proof.
  intros Hsp Hl W. unfold unsigned_val, body_s, denote_num, denote_den.
  pose proof (decimal_val_last t W) as Hd. pose proof (last_no_sep t) as Hs.
  destruct (t_lead t) as [|a [|b [|c l]]]; simpl in Hl; try lia; cbn [flat_map app].
  - rewrite (split_on_whole _ _ Hs). exact Hd.
  - rewrite app_nil_r, <- app_assoc. cbn [app].
    rewrite split_on_cut by (auto using digits_no_sep, show_field_digits).
    rewrite (split_on_whole _ _ Hs). now rewrite int_val_field, Hd.
  - rewrite app_nil_r, <- !app_assoc. cbn [app].
    rewrite split_on_cut by (auto using digits_no_sep, show_field_digits).
    rewrite split_on_cut by (auto using digits_no_sep, show_field_digits).
    rewrite (split_on_whole _ _ Hs). now rewrite !int_val_field, Hd.
Qed.

Theorem unsigned_val_body t :
  (length (t_lead t) <= 2)%nat -> wf_t t ->
  unsigned_val (body t) = Some (denote_num t, denote_den t).
Proof. apply unsigned_val_body_s. reflexivity. Qed.

Lemma body_starts_with_digit sp t : exists c r, body_s sp t = c :: r /\ is_dig c = true.
Proof.
  unfold body_s.
  assert (forall f r, exists c r', show_field f ++ r = c :: r' /\ is_dig c = true) as H.
  { intros f r. pose proof (show_field_digits f) as Hd. pose proof (show_field_nonempty f) as Hn.
    destruct (show_field f) as [|c s]; [contradiction|]. exists c, (s ++ r). split; [reflexivity|].
    unfold all_digits in Hd. simpl in Hd. now apply andb_prop in Hd as [Hd _]. }
  destruct (t_lead t) as [|a l]; cbn [flat_map].
  - unfold last_text. apply H.
  - rewrite <- !app_assoc. apply H.
Qed.

(* whatever a structured text shows is read back as exactly what it denotes,
   the sign applying to the whole magnitude *)
Theorem str_to_num_show t :
  (length (t_lead t) <= 2)%nat -> wf_t t ->
  str_to_num (show t) = Some (t_neg t, denote_num t, denote_den t).
Proof.
  intros Hl W. rewrite show_eq. pose proof (unsigned_val_body t Hl W) as Hu.
  destruct (t_neg t); [|destruct (t_plus t)]; cbn [app str_to_num].
  - rewrite N.eqb_refl. now rewrite Hu.
  - change (43 =? 45) with false. cbn iota. rewrite N.eqb_refl. now rewrite Hu.
  - destruct (body_starts_with_digit 58 t) as [c [r [E Hc]]]. unfold body in *. rewrite E in *. cbn [str_to_num].
    apply is_dig_spec in Hc.
    assert ((c =? 45) = false) as -> by (apply N.eqb_neq; lia).
    assert ((c =? 43) = false) as -> by (apply N.eqb_neq; lia).
    now rewrite Hu.
Qed.

(* every spelling INDI allows for a (signed) number of one, two or three fields -
   any of the three separators, leading zeros, with or without fraction digits,
   a bare trailing point - is parsed to the value it denotes, whatever the
   property's own format *)
Definition spell (sg : option bool) (sp : N) (t : ntext) : str :=
  match sg with Some true => [45] | Some false => [43] | None => [] end ++ body_s sp t.

Theorem every_indi_spelling_parses sg sp t :
  is_sep sp = true -> (length (t_lead t) <= 2)%nat -> wf_t t ->
  str_to_num (spell sg sp t) =
  Some (match sg with Some true => true | _ => false end, denote_num t, denote_den t).
Proof.
  intros Hsp Hl W. pose proof (unsigned_val_body_s sp t Hsp Hl W) as Hu. unfold spell.
  destruct sg as [[|]|]; cbn [app str_to_num].
  - rewrite N.eqb_refl. now rewrite Hu.
  - change (43 =? 45) with false. cbn iota. rewrite N.eqb_refl. now rewrite Hu.
  - destruct (body_starts_with_digit sp t) as [c [r [E Hc]]]. rewrite E in *. cbn [str_to_num].
    apply is_dig_spec in Hc.
    assert ((c =? 45) = false) as -> by (apply N.eqb_neq; lia).
    assert ((c =? 43) = false) as -> by (apply N.eqb_neq; lia).
    now rewrite Hu.
Qed.

(* ---------- validator and parser share one grammar ---------- *)
Lemma is_int_val a : is_int a = true -> exists v, int_val a = Some v.
Proof.
  intros H. unfold int_val. rewrite H. unfold is_int in H. apply andb_prop in H as [_ H].
  now apply all_digits_val.
Qed.

Lemma int_val_is_int a v : int_val a = Some v -> is_int a = true.
Proof. unfold int_val. destruct (is_int a); [reflexivity|discriminate]. Qed.

Lemma is_decimal_val d : is_decimal d = true <-> exists v, decimal_val d = Some v.
Proof.
  unfold is_decimal, decimal_val. destruct (split_on (fun c => c =? 46) d []) as [|a [|b [|c l]]].
  - split; [discriminate|intros [v H]; discriminate].
  - split.
    + intros H. rewrite H. destruct (is_int_val a H) as [v Hv]. unfold int_val in Hv. rewrite H in Hv.
      rewrite Hv. simpl. eauto.
    + intros [v H]. destruct (is_int a); [reflexivity|discriminate].
  - split.
    + intros H. rewrite H.
      assert (all_digits a = true /\ all_digits b = true) as [Ha Hb].
      { apply orb_prop in H as [H|H]; apply andb_prop in H as [H1 H2].
        - unfold is_int in H1. apply andb_prop in H1 as [_ H1]. auto.
        - destruct a; [|discriminate]. unfold is_int in H2. apply andb_prop in H2 as [_ H2]. auto. }
      destruct (all_digits_val a Ha) as [x ->]. destruct (all_digits_val b Hb) as [y ->]. eauto.
    + intros [v H]. destruct (_ || _); [reflexivity|discriminate].
  - split; [discriminate|intros [v H]; discriminate].
Qed.

Lemma unsigned_number_val s : unsigned_number s = true <-> exists v, unsigned_val s = Some v.
Proof.
  unfold unsigned_number, unsigned_val. destruct (split_on is_sep s []) as [|a [|b [|c [|e l]]]].
  - split; [discriminate|intros [v H]; discriminate].
  - apply is_decimal_val.
  - split.
    + intros H. apply andb_prop in H as [Ha Hb]. destruct (is_int_val a Ha) as [x ->].
      apply is_decimal_val in Hb as [[n sc] ->]. eauto.
    + intros [v H]. destruct (int_val a) as [x|] eqn:Ea; [|discriminate].
      destruct (decimal_val b) as [[n sc]|] eqn:Eb; [|discriminate].
      rewrite (int_val_is_int _ _ Ea). simpl. apply is_decimal_val. eauto.
  - split.
    + intros H. apply andb_prop in H as [H Hc]. apply andb_prop in H as [Ha Hb].
      destruct (is_int_val a Ha) as [x ->]. destruct (is_int_val b Hb) as [y ->].
      apply is_decimal_val in Hc as [[n sc] ->]. eauto.
    + intros [v H]. destruct (int_val a) as [x|] eqn:Ea; [|discriminate].
      destruct (int_val b) as [y|] eqn:Eb; [|discriminate].
      destruct (decimal_val c) as [[n sc]|] eqn:Ec; [|discriminate].
      rewrite (int_val_is_int _ _ Ea), (int_val_is_int _ _ Eb). simpl. apply is_decimal_val. eauto.
  - split; [discriminate|intros [v H]; discriminate].
Qed.

Theorem accepted_iff_parsed s : check_number s = true <-> exists v, str_to_num s = Some v.
Proof.
  unfold check_number, str_to_num. destruct s as [|c s']; [split; [discriminate|intros [v H]; discriminate]|].
  destruct (c =? 45) eqn:E1; simpl.
  - rewrite unsigned_number_val. split; intros [v H]; [rewrite H; simpl; eauto|].
    destruct (unsigned_val s'); [eauto|discriminate].
  - destruct (c =? 43) eqn:E2; simpl.
    + rewrite unsigned_number_val. split; intros [v H]; [rewrite H; simpl; eauto|].
      destruct (unsigned_val s'); [eauto|discriminate].
    + rewrite unsigned_number_val. split; intros [v H]; [rewrite H; simpl; eauto|].
      destruct (unsigned_val (c :: s')); [eauto|discriminate].
Qed.

(* ---------- rendering ---------- *)
Ltac eval_codes :=
  repeat match goal with
         | |- context [N.eqb ?x ?y] =>
             let b := eval vm_compute in (N.eqb x y) in change (N.eqb x y) with b
         end; cbv iota.

Lemma sexa_units_cases code U : sexa_units code = Some U ->
  (code = 3 /\ U = 60) \/ (code = 5 /\ U = 600) \/ (code = 6 /\ U = 3600) \/
  (code = 8 /\ U = 36000) \/ (code = 9 /\ U = 360000).
Proof.
  unfold sexa_units.
  destruct (code =? 3) eqn:E3; [apply N.eqb_eq in E3; intros [= <-]; auto|].
  destruct (code =? 5) eqn:E5; [apply N.eqb_eq in E5; intros [= <-]; auto|].
  destruct (code =? 6) eqn:E6; [apply N.eqb_eq in E6; intros [= <-]; auto|].
  destruct (code =? 8) eqn:E8; [apply N.eqb_eq in E8; intros [= <-]; auto 6|].
  destruct (code =? 9) eqn:E9; [apply N.eqb_eq in E9; intros [= <-]; auto 6|discriminate].
Qed.

(* the rendered sexagesimal text denotes exactly units/U *)
Theorem sexa_denotes_units code U a :
  sexa_units code = Some U ->
  let t := render_sexa code U a in
  denote_num t = round_units U a /\ denote_den t = U /\ (length (t_lead t) <= 2)%nat /\ wf_t t.
Proof.
  intros H. apply sexa_units_cases in H.
  destruct H as [[-> ->]|[[-> ->]|[[-> ->]|[[-> ->]|[-> ->]]]]]; cbv zeta;
    unfold render_sexa; eval_codes;
    unfold denote_num, denote_den, last_num, frac_scale, frac_num, wf_t;
    cbn [t_lead t_int t_frac t_dot t_neg t_plus fst snd length];
    set (u := round_units _ a);
    change (10 ^ N.of_nat 1) with 10; change (10 ^ N.of_nat 2) with 100;
    repeat split; lia.
Qed.

(* nearest unit: |units/U - p/q| <= 1/(2U), stated without division *)
Theorem round_units_nearest U a :
  0 < v_q a ->
  2 * v_q a * round_units U a <= 2 * v_p a * U + v_q a /\
  2 * v_p a * U + v_q a < 2 * v_q a * round_units U a + 2 * v_q a.
Proof.
  intros Hq. unfold round_units.
  pose proof (N.div_mod' (2 * v_p a * U + v_q a) (2 * v_q a)) as H.
  pose proof (N.mod_lt (2 * v_p a * U + v_q a) (2 * v_q a)) as H2. lia.
Qed.

(* minutes and seconds fields stay below 60: no "1:60" *)
Theorem sexa_fields_in_range code U a :
  sexa_units code = Some U ->
  let t := render_sexa code U a in
  Forall (fun f => fst f < 60) (tl (t_lead t)) /\ fst (t_int t) < 60.
Proof.
  intros H. apply sexa_units_cases in H.
  destruct H as [[-> ->]|[[-> ->]|[[-> ->]|[[-> ->]|[-> ->]]]]]; cbv zeta;
    unfold render_sexa; eval_codes; cbn [t_lead t_int tl fst snd];
    set (u := round_units _ a); split; repeat constructor; cbn [fst]; lia.
Qed.

(* the sign is printed iff the value is negative and non-zero, in front of the whole magnitude *)
Theorem sexa_sign code U a : t_neg (render_sexa code U a) = v_neg a && (0 <? v_p a).
Proof.
  unfold render_sexa.
  destruct (code =? 3); [reflexivity|]. destruct (code =? 5); [reflexivity|].
  destruct (code =? 6); [reflexivity|]. destruct (code =? 8); reflexivity.
Qed.

Lemma round_half_even_nearest n d :
  0 < d -> 2 * (round_half_even n d * d) <= 2 * n + d /\ 2 * n <= 2 * (round_half_even n d * d) + d.
Proof.
  intros Hd. unfold round_half_even.
  pose proof (N.div_mod' n d). pose proof (N.mod_lt n d).
  destruct (2 * (n mod d) <? d) eqn:E1; [apply N.ltb_lt in E1; nia|apply N.ltb_ge in E1].
  destruct (d <? 2 * (n mod d)) eqn:E2; [apply N.ltb_lt in E2; nia|apply N.ltb_ge in E2].
  destruct (N.even (n / d)); nia.
Qed.

(* %f: the text denotes r / 10^prec with r the nearest integer to p * 10^prec / q *)
Theorem fixed_denotes fl w prec a :
  let t := render_fixed fl w prec a in
  denote_num t = round_half_even (v_p a * 10 ^ prec) (v_q a) /\ denote_den t = 10 ^ prec /\
  (length (t_lead t) <= 2)%nat /\ wf_t t.
Proof.
  cbv zeta. unfold render_fixed, denote_num, denote_den, last_num, frac_scale, frac_num, wf_t.
  cbn -[N.mul N.div N.modulo N.pow round_half_even].
  set (r := round_half_even _ _).
  assert (10 ^ prec <> 0) as Hp by (apply N.pow_nonzero; lia).
  destruct (0 <? prec) eqn:E; cbn -[N.mul N.div N.modulo N.pow].
  - rewrite N2Nat.id. repeat split; try lia; try (apply N.mod_lt; exact Hp).
    rewrite (N.div_mod' r (10 ^ prec)) at 3. rewrite N.mul_comm. reflexivity.
  - apply N.ltb_ge in E. assert (prec = 0) as Hz by lia. subst prec.
    change (10 ^ 0) with 1 in *. repeat split; try lia.
Qed.

(* %d: truncation toward zero *)
Theorem int_denotes fl w prec a :
  0 < v_q a ->
  let t := render_int fl w prec a in
  denote_num t = v_p a / v_q a /\ denote_den t = 1 /\ (length (t_lead t) <= 2)%nat /\ wf_t t /\
  v_q a * denote_num t <= v_p a < v_q a * denote_num t + v_q a.
Proof.
  intros Hq. cbv zeta. unfold render_int, denote_num, denote_den, last_num, frac_scale, frac_num, wf_t.
  cbn -[N.mul N.div N.modulo].
  pose proof (N.div_mod' (v_p a) (v_q a)). pose proof (N.mod_lt (v_p a) (v_q a)).
  repeat split; try lia; nia.
Qed.

Lemma render_shape f a t : render_t f a = Some t -> (length (t_lead t) <= 2)%nat /\ wf_t t.
Proof.
  destruct f as [code|fl w p|fl w p]; simpl.
  - destruct (sexa_units code) as [U|] eqn:E; [|discriminate]. intros [= <-].
    pose proof (sexa_denotes_units code U a E) as H. cbv zeta in H. tauto.
  - intros [= <-]. pose proof (fixed_denotes fl w p a) as H. cbv zeta in H. tauto.
  - intros [= <-]. unfold render_int, wf_t. simpl. split; [lia|exact I].
Qed.

(* every rendering is read back by the parser as exactly what it denotes ... *)
Theorem parse_render f a t :
  render_t f a = Some t ->
  str_to_num (show t) = Some (t_neg t, denote_num t, denote_den t).
Proof. intros H. apply render_shape in H as [Hl W]. now apply str_to_num_show. Qed.

(* ... and is accepted by the message validator *)
Theorem render_valid f a s : num_to_str f a = Some s -> check_number s = true.
Proof.
  unfold num_to_str. destruct (render_t f a) as [t|] eqn:E; [|discriminate]. intros [= <-].
  apply accepted_iff_parsed. rewrite (parse_render f a t E). eauto.
Qed.
