(* Model of base64.b64encode / b64decode(validate=False) as used by
   indi.device.values.BLOB, and proof that decoding an encoding gives the bytes back. *)
From Coq Require Import List NArith Bool Lia ZArith.
Import ListNotations.
From Indi Require Import Base.Sx.
Local Open Scope N_scope.
Ltac Zify.zify_post_hook ::= Z.to_euclidean_division_equations.

Definition enc_char (s : N) : N :=
  if s <? 26 then 65 + s            (* A-Z *)
  else if s <? 52 then 97 + (s - 26)  (* a-z *)
  else if s <? 62 then 48 + (s - 52)  (* 0-9 *)
  else if s =? 62 then 43 else 47.    (* + / *)

Definition dec_char (c : N) : option N :=
  if (65 <=? c) && (c <=? 90) then Some (c - 65)
  else if (97 <=? c) && (c <=? 122) then Some (c - 97 + 26)
  else if (48 <=? c) && (c <=? 57) then Some (c - 48 + 52)
  else if c =? 43 then Some 62 else if c =? 47 then Some 63
  else if c =? 45 then Some 62 else if c =? 95 then Some 63   (* urlsafe alternates are also taken *)
  else None.

Definition PAD : N := 61.

Fixpoint encode (b : list N) : str :=
  match b with
  | [] => []
  | [b0] => [enc_char (b0 / 4); enc_char ((b0 mod 4) * 16); PAD; PAD]
  | [b0; b1] => [enc_char (b0 / 4); enc_char ((b0 mod 4) * 16 + b1 / 16); enc_char ((b1 mod 16) * 4); PAD]
  | b0 :: b1 :: b2 :: r =>
      enc_char (b0 / 4) :: enc_char ((b0 mod 4) * 16 + b1 / 16) ::
      enc_char ((b1 mod 16) * 4 + b2 / 64) :: enc_char (b2 mod 64) :: encode r
  end.

(* binascii.a2b_base64, non-strict: characters outside the alphabet are skipped,
   a complete padding ends the input, an incomplete final quantum is an error *)
Fixpoint decode_go (s : str) (quad : list N) (pads : nat) (out : list N) : option (list N) :=
  match s with
  | [] => match quad with [] => Some (rev out) | _ => None end
  | c :: s' =>
      if c =? PAD then
        match quad with
        | [s1; s0] => if Nat.leb 1 pads then Some (rev ((s0 * 4 + s1 / 16) :: out))   (* second '=' *)
                      else decode_go s' quad (S pads) out
        | [s2; s1; s0] => Some (rev (((s1 mod 16) * 16 + s2 / 4) :: (s0 * 4 + s1 / 16) :: out))
        | _ => decode_go s' quad pads out
        end
      else
        match dec_char c with
        | None => decode_go s' quad pads out
        | Some v =>
            match quad with
            | [s2; s1; s0] =>
                decode_go s' [] 0 (((s2 mod 4) * 64 + v) :: ((s1 mod 16) * 16 + s2 / 4) :: (s0 * 4 + s1 / 16) :: out)
            | _ => decode_go s' (v :: quad) 0 out
            end
        end
  end.
(* the same with the linear-time reversal (List.rev is quadratic): this is the one the models run *)
Fixpoint decode_fast (s : str) (quad : list N) (pads : nat) (out : list N) : option (list N) :=
  match s with
  | [] => match quad with [] => Some (rev_append out []) | _ => None end
  | c :: s' =>
      if c =? PAD then
        match quad with
        | [s1; s0] => if Nat.leb 1 pads then Some (rev_append ((s0 * 4 + s1 / 16) :: out) [])
                      else decode_fast s' quad (S pads) out
        | [s2; s1; s0] => Some (rev_append (((s1 mod 16) * 16 + s2 / 4) :: (s0 * 4 + s1 / 16) :: out) [])
        | _ => decode_fast s' quad pads out
        end
      else
        match dec_char c with
        | None => decode_fast s' quad pads out
        | Some v =>
            match quad with
            | [s2; s1; s0] =>
                decode_fast s' [] 0 (((s2 mod 4) * 64 + v) :: ((s1 mod 16) * 16 + s2 / 4) :: (s0 * 4 + s1 / 16) :: out)
            | _ => decode_fast s' (v :: quad) 0 out
            end
        end
  end.

Lemma decode_fast_eq s : forall quad pads out, decode_fast s quad pads out = decode_go s quad pads out.
Proof.
  induction s as [|c s IH]; intros quad pads out; cbn [decode_fast decode_go].
  - destruct quad; [now rewrite rev_alt|reflexivity].
  - destruct (c =? PAD).
    + destruct quad as [|q0 [|q1 [|q2 [|q3 r]]]]; try apply IH.
      * destruct (Nat.leb 1 pads); [now rewrite rev_alt|apply IH].
      * now rewrite rev_alt.
    + destruct (dec_char c); [|apply IH]. destruct quad as [|q0 [|q1 [|q2 [|q3 r]]]]; apply IH.
Qed.

Definition decode (s : str) : option (list N) := decode_fast s [] 0 [].

Definition is_byte (b : N) : bool := b <? 256.
Arguments N.ltb : simpl never.
Arguments N.eqb : simpl never.
Arguments N.leb : simpl never.

Lemma dec_enc_char s : s < 64 -> dec_char (enc_char s) = Some s.
Proof.
  intros H.
  assert (forallb (fun k => match dec_char (enc_char (N.of_nat k)) with Some v => v =? N.of_nat k | None => false end)
                  (seq 0 64) = true) as T by (vm_compute; reflexivity).
  rewrite forallb_forall in T. specialize (T (N.to_nat s)). rewrite in_seq in T.
  specialize (T ltac:(lia)). rewrite N2Nat.id in T.
  destruct (dec_char (enc_char s)); [|discriminate]. apply N.eqb_eq in T. now subst.
Qed.

Lemma enc_char_not_pad s : s < 64 -> (enc_char s =? PAD) = false.
Proof.
  intros H.
  assert (forallb (fun k => negb (enc_char (N.of_nat k) =? PAD)) (seq 0 64) = true) as T by (vm_compute; reflexivity).
  rewrite forallb_forall in T. specialize (T (N.to_nat s)). rewrite in_seq in T.
  specialize (T ltac:(lia)). rewrite N2Nat.id in T. now apply negb_true_iff in T.
Qed.

Lemma go_char s s' quad pads out : s < 64 ->
  decode_go (enc_char s :: s') quad pads out =
  match quad with
  | [s2; s1; s0] =>
      decode_go s' [] 0 (((s2 mod 4) * 64 + s) :: ((s1 mod 16) * 16 + s2 / 4) :: (s0 * 4 + s1 / 16) :: out)
  | _ => decode_go s' (s :: quad) 0 out
  end.
Proof. intros H. cbn [decode_go]. now rewrite (enc_char_not_pad s H), (dec_enc_char s H). Qed.

Lemma go_pad2a s' s1 s0 out : decode_go (PAD :: s') [s1; s0] 0 out = decode_go s' [s1; s0] 1 out.
Proof. reflexivity. Qed.
Lemma go_pad2b s' s1 s0 out : decode_go (PAD :: s') [s1; s0] 1 out = Some (rev ((s0 * 4 + s1 / 16) :: out)).
Proof. reflexivity. Qed.
Lemma go_pad3 s' s2 s1 s0 pads out :
  decode_go (PAD :: s') [s2; s1; s0] pads out = Some (rev (((s1 mod 16) * 16 + s2 / 4) :: (s0 * 4 + s1 / 16) :: out)).
Proof. reflexivity. Qed.

Theorem decode_encode : forall b out,
  forallb is_byte b = true -> decode_go (encode b) [] 0 out = Some (rev out ++ b).
Proof.
  intros b. remember (length b) as n eqn:Hn. revert b Hn.
  induction n as [n IH] using lt_wf_ind. intros b Hn out Hb.
  destruct b as [|b0 [|b1 [|b2 r]]].
  - simpl. now rewrite app_nil_r.
  - cbn [forallb] in Hb. apply andb_prop in Hb as [H0 _]. apply N.ltb_lt in H0.
    cbn [encode]. rewrite go_char by lia. rewrite go_char by lia. rewrite go_pad2a, go_pad2b.
    cbn [rev]. f_equal. f_equal. f_equal. lia.
  - cbn [forallb] in Hb. apply andb_prop in Hb as [H0 Hb]. apply andb_prop in Hb as [H1 _].
    apply N.ltb_lt in H0. apply N.ltb_lt in H1.
    cbn [encode]. rewrite go_char by lia. rewrite go_char by lia. rewrite go_char by lia. rewrite go_pad3.
    cbn [rev]. rewrite <- !app_assoc. cbn [app]. f_equal. f_equal. f_equal; [lia|f_equal; lia].
  - cbn [forallb] in Hb. apply andb_prop in Hb as [H0 Hb]. apply andb_prop in Hb as [H1 Hb]. apply andb_prop in Hb as [H2 Hr].
    apply N.ltb_lt in H0. apply N.ltb_lt in H1. apply N.ltb_lt in H2.
    cbn [encode]. rewrite go_char by lia. rewrite go_char by lia. rewrite go_char by lia. rewrite go_char by lia.
    rewrite (IH (length r)) with (b := r); [|simpl in Hn; lia|reflexivity|exact Hr].
    cbn [rev]. rewrite <- !app_assoc. cbn [app]. f_equal. f_equal. f_equal; [lia|f_equal; [lia|f_equal; lia]].
Qed.

Corollary b64_roundtrip b : forallb is_byte b = true -> decode (encode b) = Some b.
Proof. intros H. unfold decode. rewrite decode_fast_eq. now rewrite decode_encode. Qed.

(* length of an encoding: 4 * ceil(n / 3) *)
Lemma encode_length : forall b, length (encode b) = (4 * ((length b + 2) / 3))%nat.
Proof.
  intros b. remember (length b) as n eqn:Hn. revert b Hn.
  induction n as [n IH] using lt_wf_ind. intros b Hn.
  destruct b as [|b0 [|b1 [|b2 r]]]; subst n; try reflexivity.
  cbn [encode length]. rewrite (IH (length r)) with (b := r); [|simpl; lia|reflexivity].
  replace (S (S (S (length r))) + 2)%nat with (length r + 2 + 1 * 3)%nat by lia.
  rewrite Nat.div_add by lia. lia.
Qed.
