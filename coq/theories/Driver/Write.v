(* C06: what a client write does to the addressed property.
   For a property whose handlers neither veto nor refresh ("calm"), processing the
   children of a new*Vector leaves every element with the last value a child gave
   it - and exactly as it was when no child named it (text, number, BLOB kinds);
   for switches the states follow the rule, child by child. *)
From Coq Require Import List NArith ZArith Bool Arith Lia String.
Import ListNotations.
From Indi Require Import Base.Sx Msg.Equality Driver.Switch B64.Model Num.Model Num.Props Driver.Model Driver.Props Driver.Events.

Definition calm_elem (e : elem) : Prop := quiet_elem e /\ existsb vetoes (e_handlers e) = false.
Definition calm (v : vec) : Prop := Forall calm_elem (v_elems v).

Lemma set_value_of_same e : set_value_of e (e_value e) = e.
Proof. destruct e; reflexivity. Qed.

(* ---------- store, for a value that is not a switch state ---------- *)
Definition not_sw (x : value) : Prop := match x with VSw _ => False | _ => True end.

Fixpoint put_at (es : list elem) (k i : nat) (x : value) : list elem :=
  match es with
  | [] => []
  | e :: r => if Nat.eqb k i then set_value_of e x :: r else e :: put_at r (S k) i x
  end.

Lemma store_put v i x : not_sw x -> store v i x = put_at (v_elems v) 0 i x.
Proof.
  intro H. unfold store. destruct x; try contradiction;
    (generalize 0%nat; induction (v_elems v) as [|e r IH]; intro k; cbn [put_at]; [reflexivity|];
     destruct (Nat.eqb k i); [reflexivity|]; f_equal; apply IH).
Qed.

(* with distinct names, storing at the index of a name is a map over the names *)
Definition put_named (n : str) (x : value) (e : elem) : elem := if str_eqb (e_name e) n then set_value_of e x else e.

Lemma put_at_named es : forall k i n x,
  NoDup (map e_name es) -> index_of n es k = Some i -> put_at es k i x = map (put_named n x) es.
Proof.
  induction es as [|e r IH]; intros k i n x Hnd Hi; [discriminate|].
  cbn [index_of] in Hi. cbn [put_at map]. unfold put_named at 1.
  destruct (str_eqb (e_name e) n) eqn:E.
  - injection Hi as <-. rewrite Nat.eqb_refl. f_equal.
    apply str_eqb_spec in E. inversion Hnd as [|? ? Hnot Hnd']; subst.
    clear -Hnot. induction r as [|e' r IH]; [reflexivity|]. cbn [map]. unfold put_named at 1.
    destruct (str_eqb (e_name e') (e_name e)) eqn:E'.
    + apply str_eqb_spec in E'. exfalso. apply Hnot. left. exact E'.
    + f_equal. apply IH. intro H. apply Hnot. right. exact H.
  - assert (Hk : Nat.eqb k i = false).
    { apply Nat.eqb_neq. intro Heq. subst i.
      assert (G : forall es k j, index_of n es (S k) = Some j -> S k <= j).
      { clear. induction es as [|e es IH]; intros k j H; [discriminate|]. cbn [index_of] in H.
        destruct (str_eqb (e_name e) n); [injection H as <-; lia|]. specialize (IH _ _ H). lia. }
      specialize (G _ _ _ Hi). lia. }
    rewrite Hk. f_equal. inversion Hnd; subst. apply IH; assumption.
Qed.

Lemma index_of_none_map es : forall k n x, index_of n es k = None -> map (put_named n x) es = es.
Proof.
  induction es as [|e r IH]; intros k n x H; [reflexivity|]. cbn [index_of] in H. cbn [map]. unfold put_named at 1.
  destruct (str_eqb (e_name e) n); [discriminate|]. f_equal. exact (IH _ _ _ H).
Qed.

Lemma index_of_nth es : forall k n i, index_of n es k = Some i -> exists e, nth_error es (i - k) = Some e /\ k <= i.
Proof.
  induction es as [|e r IH]; intros k n i H; [discriminate|]. cbn [index_of] in H.
  destruct (str_eqb (e_name e) n).
  - injection H as <-. rewrite Nat.sub_diag. exists e. split; [reflexivity|lia].
  - destruct (IH _ _ _ H) as (e' & He & Hle). exists e'. split; [|lia].
    replace (i - k) with (S (i - S k)) by lia. exact He.
Qed.

(* ---------- one write to a calm property ---------- *)
Lemma map_put_named_names n x es : map e_name (map (put_named n x) es) = map e_name es.
Proof. rewrite map_map. apply map_ext. intro e. unfold put_named. destruct (str_eqb (e_name e) n); reflexivity. Qed.

Lemma put_named_calm n x e : calm_elem e -> calm_elem (put_named n x e).
Proof. unfold put_named. destruct (str_eqb (e_name e) n); [|auto]. destruct e; auto. Qed.

Lemma calm_quiet v : calm v -> quiet_vec v.
Proof. unfold calm, quiet_vec. intro H. eapply Forall_impl; [|exact H]. intros e [Q _]. exact Q. Qed.

Lemma publish_set_calm d g v : calm v -> fst (publish_set d g v) = v.
Proof.
  intro C. unfold publish_set. destruct (vec_on g v); [|reflexivity].
  rewrite (read_elems_quiet _ (calm_quiet v C)). cbn [fst]. apply with_elems_id.
Qed.

Lemma str_eqb_sym a b : str_eqb a b = str_eqb b a.
Proof.
  destruct (str_eqb a b) eqn:E1, (str_eqb b a) eqn:E2; try reflexivity.
  - apply str_eqb_spec in E1. subst. rewrite str_eqb_refl in E2. discriminate.
  - apply str_eqb_spec in E2. subst. rewrite str_eqb_refl in E1. discriminate.
Qed.

Lemma set_value_of_calm e x : calm_elem e -> calm_elem (set_value_of e x).
Proof. destruct e; auto. Qed.

(* storing changes values only: the handlers stay *)
Lemma put_at_calm es : forall k i x, Forall calm_elem es -> Forall calm_elem (put_at es k i x).
Proof.
  induction es as [|e r IH]; intros k i x H; [constructor|]. inversion H; subst. cbn [put_at].
  destruct (Nat.eqb k i); constructor; auto using set_value_of_calm.
Qed.

Lemma put_sw_calm es : forall bs, Forall calm_elem es -> Forall calm_elem (put_sw es bs).
Proof.
  induction es as [|e r IH]; intros bs H; destruct bs as [|b0 bs]; cbn [put_sw]; try assumption.
  inversion H; subst. constructor; [|apply IH; assumption].
  destruct (e_value e); auto using set_value_of_calm.
Qed.

Lemma store_calm v i x : calm v -> Forall calm_elem (store v i x).
Proof.
  intro C. destruct x as [s|n|b|s|o]; try (rewrite store_put by exact I; apply put_at_calm, C).
  unfold store. apply put_sw_calm, C.
Qed.

Lemma set_value_calm d g v i x e :
  calm v -> nth_error (v_elems v) i = Some e ->
  fst (set_value d g v i x) = with_elems v (store v i x).
Proof.
  intros C He. rewrite (write_contract d g v i x e He). cbv zeta.
  assert (V : existsb vetoes (e_handlers e) = false).
  { unfold calm in C. rewrite Forall_forall in C. exact (proj2 (C e (nth_error_In _ _ He))). }
  rewrite V. cbn [fst]. destruct (assign_contract d g v i x e He) as [A _]. cbv zeta in A. rewrite A. cbn [fst].
  apply publish_set_calm. unfold calm. cbn [v_elems with_elems].
  apply store_calm, C.
Qed.

(* ---------- all the children of one write ---------- *)
Definition child_value (k : vkind) (n : str) (p : part) : option value :=
  match lookup (s2l "name") (pa p) with
  | Some n' => if str_eqb n' n then value_of_child k p else None
  | None => None
  end.

(* the value element e ends with: the last applicable child naming it decides *)
Definition final_value (k : vkind) (ch : list part) (e : elem) : value :=
  fold_left (fun acc p => match child_value k (e_name e) p with Some x => x | None => acc end) ch (e_value e).

Lemma value_of_child_not_sw k p x : k <> KSwitch -> value_of_child k p = Some x -> not_sw x.
Proof.
  intros Hk H. destruct k; try contradiction; cbn [value_of_child] in H.
  - injection H as <-. exact I.
  - destruct (pv p); [|discriminate]. destruct (num_of_text s); [|discriminate]. injection H as <-. exact I.
  - discriminate.
  - destruct (decode _); [|discriminate]. destruct (lookup (s2l "size") (pa p)); [|discriminate].
    destruct (lookup (s2l "format") (pa p)); [|discriminate]. destruct (digits_val s); [|discriminate].
    destruct (negb _ && _); [|discriminate]. injection H as <-. exact I.
Qed.

Definition step_child (d : dev) (g : grp) (acc : vec * list outev) (p : part) : vec * list outev :=
  let '(v', tr) := acc in
  match lookup (s2l "name") (pa p) with
  | Some n =>
      match index_of n (v_elems v') 0 with
      | Some i => match value_of_child (v_kind v') p with
                  | Some x => let (v'', tr') := set_value d g v' i x in (v'', tr ++ tr')
                  | None => acc
                  end
      | None => acc
      end
  | None => acc
  end.

Lemma apply_children_fold d g v ch : apply_children d g v ch = fold_left (step_child d g) ch (v, []).
Proof. reflexivity. Qed.

Definition upd_child (k : vkind) (p : part) (e : elem) : elem :=
  match child_value k (e_name e) p with Some x => set_value_of e x | None => e end.

Lemma with_elems_map_id v (f : elem -> elem) : (forall e, In e (v_elems v) -> f e = e) -> with_elems v (map f (v_elems v)) = v.
Proof.
  intro H. transitivity (with_elems v (v_elems v)); [|apply with_elems_id]. f_equal.
  transitivity (map (fun e : elem => e) (v_elems v)); [apply map_ext_in; exact H|apply map_id].
Qed.

(* one child, on a calm non-switch property with distinct element names *)
Lemma step_child_spec d g v tr p :
  calm v -> NoDup (map e_name (v_elems v)) -> v_kind v <> KSwitch ->
  fst (step_child d g (v, tr) p) =
  with_elems v (map (upd_child (v_kind v) p) (v_elems v)).
Proof.
  intros C Hnd Hk. unfold upd_child, step_child, child_value.
  destruct (lookup (s2l "name") (pa p)) as [n|] eqn:En.
  - destruct (index_of n (v_elems v) 0) as [i|] eqn:Ei.
    + destruct (value_of_child (v_kind v) p) as [x|] eqn:Ex.
      * destruct (index_of_nth _ _ _ _ Ei) as (e & He & _). rewrite Nat.sub_0_r in He.
        pose proof (set_value_calm d g v i x e C He) as S. destruct (set_value d g v i x) as [v'' tr']. cbn [fst] in *. subst v''.
        f_equal. rewrite (store_put v i x (value_of_child_not_sw _ _ _ Hk Ex)). rewrite (put_at_named _ _ _ _ x Hnd Ei).
        apply map_ext. intro e0. unfold put_named. rewrite (str_eqb_sym n (e_name e0)). destruct (str_eqb (e_name e0) n); reflexivity.
      * cbn [fst]. symmetry. apply with_elems_map_id. intros e0 _. destruct (str_eqb n (e_name e0)); reflexivity.
    + cbn [fst]. symmetry. apply with_elems_map_id. intros e0 Hin.
      assert (G : forall es k, index_of n es k = None -> forall e0, In e0 es -> str_eqb n (e_name e0) = false).
      { clear. induction es as [|e es IH]; intros k H e0 Hin; [destruct Hin|]. cbn [index_of] in H.
        destruct (str_eqb (e_name e) n) eqn:E; [discriminate|]. destruct Hin as [<-|Hin]; [rewrite str_eqb_sym; exact E|exact (IH _ H _ Hin)]. }
      rewrite (G _ _ Ei _ Hin). reflexivity.
  - cbn [fst]. symmetry. apply with_elems_map_id. reflexivity.
Qed.

Lemma upd_child_name k p e : e_name (upd_child k p e) = e_name e.
Proof. unfold upd_child. destruct (child_value k (e_name e) p); [destruct e|]; reflexivity. Qed.

Lemma upd_child_calm k p e : calm_elem e -> calm_elem (upd_child k p e).
Proof. unfold upd_child. destruct (child_value k (e_name e) p); auto using set_value_of_calm. Qed.

Lemma set_value_of_twice e x y : set_value_of (set_value_of e x) y = set_value_of e y.
Proof. destruct e; reflexivity. Qed.

Lemma final_value_cons k p ch e : final_value k (p :: ch) e = final_value k ch (upd_child k p e).
Proof.
  unfold final_value. cbn [fold_left]. rewrite upd_child_name. unfold upd_child.
  destruct (child_value k (e_name e) p); [destruct e|]; reflexivity.
Qed.

Lemma fold_step_fst d g ch : forall v tr,
  calm v -> NoDup (map e_name (v_elems v)) -> v_kind v <> KSwitch ->
  fst (fold_left (step_child d g) ch (v, tr)) =
  with_elems v (map (fun e => set_value_of e (final_value (v_kind v) ch e)) (v_elems v)).
Proof.
  induction ch as [|p ch IH]; intros v tr C Hnd Hk.
  - cbn [fold_left fst]. symmetry. apply with_elems_map_id. intros e _. apply set_value_of_same.
  - cbn [fold_left]. pose proof (step_child_spec d g v tr p C Hnd Hk) as S.
    destruct (step_child d g (v, tr) p) as [v1 tr1]. cbn [fst] in S. subst v1.
    rewrite IH.
    + unfold with_elems. cbn [v_elems v_kind v_key v_name v_label v_state v_perm v_rule v_timeout v_enabled]. f_equal.
      rewrite map_map. apply map_ext. intro e.
      rewrite final_value_cons. unfold upd_child at 1. destruct (child_value (v_kind v) (e_name e) p); [apply set_value_of_twice|reflexivity].
    + unfold calm. cbn [v_elems with_elems]. apply Forall_forall. intros x Hx. apply in_map_iff in Hx. destruct Hx as (e & <- & He).
      apply (upd_child_calm (v_kind v) p). unfold calm in C. rewrite Forall_forall in C. exact (C e He).
    + cbn [v_elems with_elems]. rewrite map_map. erewrite map_ext; [exact Hnd|]. intro e. apply (upd_child_name (v_kind v) p).
    + exact Hk.
Qed.

(* a client write to a text, number or BLOB property: every element ends with the last value
   a child of the message gave it, and is untouched when no child names it; nothing else of
   the property (state, flags, metadata, element order) changes *)
Theorem write_effect d g v ch :
  calm v -> NoDup (map e_name (v_elems v)) -> v_kind v <> KSwitch ->
  fst (apply_children d g v ch) =
  with_elems v (map (fun e => set_value_of e (final_value (v_kind v) ch e)) (v_elems v)).
Proof. intros. rewrite apply_children_fold. now apply fold_step_fst. Qed.

Theorem unnamed_element_keeps_its_value k ch e :
  (forall p, In p ch -> lookup (s2l "name") (pa p) <> Some (e_name e)) -> final_value k ch e = e_value e.
Proof.
  unfold final_value. generalize (e_value e). induction ch as [|p ch IH]; intros x H; [reflexivity|]. cbn [fold_left].
  assert (child_value k (e_name e) p = None) as ->.
  { unfold child_value. destruct (lookup (s2l "name") (pa p)) as [n'|] eqn:E; [|reflexivity].
    destruct (str_eqb n' (e_name e)) eqn:E2; [|reflexivity]. apply str_eqb_spec in E2. subst n'.
    exfalso. exact (H p (or_introl eq_refl) E). }
  apply IH. intros q Hq. apply H. right. exact Hq.
Qed.

Theorem named_once_takes_the_value k pre p post e x :
  lookup (s2l "name") (pa p) = Some (e_name e) -> value_of_child k p = Some x ->
  (forall q, In q post -> lookup (s2l "name") (pa q) <> Some (e_name e)) ->
  final_value k (pre ++ p :: post) e = x.
Proof.
  intros Hn Hx Hpost. unfold final_value. rewrite fold_left_app. cbn [fold_left].
  assert (child_value k (e_name e) p = Some x) as ->.
  { unfold child_value. rewrite Hn, str_eqb_refl. exact Hx. }
  pose proof (unnamed_element_keeps_its_value k post (set_value_of e x)) as U.
  unfold final_value in U. destruct e; cbn in *. apply U. exact Hpost.
Qed.

(* ---------- what the values are ---------- *)
(* text arrives verbatim; a switch child says On or Off; a number is read by the format-independent parser;
   a BLOB child made by the client library decodes to the bytes and format that were submitted *)
Theorem text_is_taken_verbatim p : value_of_child KText p = Some (VText (pv p)).
Proof. reflexivity. Qed.

Theorem number_is_parsed p s : pv p = Some s -> value_of_child KNumber p = option_map (fun a => VNum (Some a)) (num_of_text s).
Proof. intro H. cbn [value_of_child]. rewrite H. reflexivity. Qed.

Theorem uploaded_blob_arrives_intact en b f :
  forallb is_byte b = true ->
  value_of_child KBlob {| pk := tagk "one" KBlob "";
                          pa := [attr "name" en; attr "size" (print_dec (N.of_nat (List.length b))); attr "format" f];
                          pv := Some (encode b) |} = Some (VBlob (Some (b, f))).
Proof.
  intro Hb. cbn [value_of_child pv pa]. rewrite (b64_roundtrip b Hb).
  assert (L1 : lookup (s2l "size") [attr "name" en; attr "size" (print_dec (N.of_nat (List.length b))); attr "format" f]
               = Some (print_dec (N.of_nat (List.length b)))) by reflexivity.
  assert (L2 : lookup (s2l "format") [attr "name" en; attr "size" (print_dec (N.of_nat (List.length b))); attr "format" f] = Some f) by reflexivity.
  rewrite L1, L2, Num.Props.print_dec_val.
  pose proof (Num.Props.print_dec_nonempty (N.of_nat (List.length b))) as Hne.
  destruct (print_dec (N.of_nat (List.length b))) as [|c0 r]; [contradiction|]. cbn [negb andb]. rewrite N.eqb_refl. reflexivity.
Qed.

(* ---------- switches: the rule decides, child by child ---------- *)
Definition sw_child (v : vec) (bs : list bool) (p : part) : list bool :=
  match lookup (s2l "name") (pa p) with
  | Some n => match index_of n (v_elems v) 0, value_of_child KSwitch p with
              | Some i, Some (VSw b) => set_one (dec_rule_str (v_rule v)) i b bs
              | _, _ => bs
              end
  | None => bs
  end.

Definition all_sw (es : list elem) : Prop := Forall (fun e => exists b, e_value e = VSw b) es.

Lemma put_sw_spec es : forall bs,
  all_sw es -> List.length bs = List.length es ->
  map sw_of (put_sw es bs) = bs /\ all_sw (put_sw es bs) /\ map e_name (put_sw es bs) = map e_name es.
Proof.
  induction es as [|e r IH]; intros bs H L; destruct bs as [|b bs]; try discriminate; cbn [put_sw map].
  - repeat split; constructor.
  - inversion H as [|? ? [b0 Hb] Hr]; subst. injection L as L. destruct (IH bs Hr L) as (A & B & C). rewrite Hb.
    repeat split.
    + rewrite A. destruct e; reflexivity.
    + constructor; [exists b; destruct e; reflexivity|exact B].
    + rewrite C. destruct e; reflexivity.
Qed.

Lemma value_of_child_switch p x : value_of_child KSwitch p = Some x -> exists b, x = VSw b.
Proof.
  cbn [value_of_child]. destruct (pv p) as [s|]; [|discriminate].
  destruct (str_eqb s s_On); [intro H; injection H as <-; eauto|].
  destruct (str_eqb s s_Off); [intro H; injection H as <-; eauto|discriminate].
Qed.

Lemma index_of_names es es' : map e_name es = map e_name es' -> forall n k, index_of n es k = index_of n es' k.
Proof.
  revert es'. induction es as [|e r IH]; intros es' H n k; destruct es' as [|e' r']; try discriminate; [reflexivity|].
  injection H as Hn Hr. cbn [index_of]. rewrite Hn. destruct (str_eqb (e_name e') n); [reflexivity|]. apply IH, Hr.
Qed.

(* a write to a switch property: the states after the message are the states before it,
   pushed through the property's rule once per applicable child, in the order of the children;
   names, order and everything else of the property stay *)
Theorem switch_write_effect d g ch : forall v tr,
  calm v -> all_sw (v_elems v) -> v_kind v = KSwitch ->
  let v' := fst (fold_left (step_child d g) ch (v, tr)) in
  map sw_of (v_elems v') = fold_left (sw_child v) ch (map sw_of (v_elems v)) /\
  map e_name (v_elems v') = map e_name (v_elems v) /\
  with_elems v' (v_elems v) = v.
Proof.
  induction ch as [|p ch IH]; intros v tr C S K; cbv zeta.
  - cbn [fold_left fst]. repeat split. apply with_elems_id.
  - cbn [fold_left].
    assert (St : exists tr1 bs, step_child d g (v, tr) p = (with_elems v (put_sw (v_elems v) bs), tr1) /\
                                bs = sw_child v (map sw_of (v_elems v)) p /\ List.length bs = List.length (v_elems v)).
    { unfold step_child, sw_child. rewrite K.
      assert (Same : with_elems v (put_sw (v_elems v) (map sw_of (v_elems v))) = v).
      { transitivity (with_elems v (v_elems v)); [|apply with_elems_id]. f_equal.
        clear -S. induction S as [|e r [b Hb] Sr IH]; [reflexivity|]. cbn [map put_sw]. rewrite Hb. f_equal; [|exact IH].
        unfold sw_of. rewrite Hb. destruct e; cbn in *; subst; reflexivity. }
      destruct (lookup (s2l "name") (pa p)) as [n|]; [|exists tr, (map sw_of (v_elems v)); rewrite Same, map_length; auto].
      destruct (index_of n (v_elems v) 0) as [i|] eqn:Ei; [|exists tr, (map sw_of (v_elems v)); rewrite Same, map_length; auto].
      destruct (value_of_child KSwitch p) as [x|] eqn:Ex; [|exists tr, (map sw_of (v_elems v)); rewrite Same, map_length; auto].
      destruct (value_of_child_switch p x Ex) as [b ->].
      destruct (index_of_nth _ _ _ _ Ei) as (e & He & _). rewrite Nat.sub_0_r in He.
      pose proof (set_value_calm d g v i (VSw b) e C He) as Sv. destruct (set_value d g v i (VSw b)) as [v'' tr']. cbn [fst] in Sv. subst v''.
      exists (tr ++ tr'), (set_one (dec_rule_str (v_rule v)) i b (map sw_of (v_elems v))).
      split; [reflexivity|]. split; [reflexivity|]. rewrite set_one_length, map_length. reflexivity. }
    destruct St as (tr1 & bs & -> & Hbs & Hlen).
    destruct (put_sw_spec (v_elems v) bs S Hlen) as (A & B & Cn).
    specialize (IH (with_elems v (put_sw (v_elems v) bs)) tr1).
    cbv zeta in IH. cbn [v_elems with_elems v_kind] in IH.
    destruct IH as (I1 & I2 & I3); [apply put_sw_calm, C|exact B|exact K|].
    split; [|split].
    + (* sw_child looks at names and rule only, which the step kept *)
      assert (E : forall q bs0, sw_child (with_elems v (put_sw (v_elems v) bs)) bs0 q = sw_child v bs0 q).
      { intros q bs0. unfold sw_child. cbn [v_elems with_elems v_rule].
        destruct (lookup (s2l "name") (pa q)) as [n|]; [|reflexivity].
        rewrite (index_of_names _ _ Cn n 0). reflexivity. }
      assert (F : forall l, fold_left (sw_child (with_elems v (put_sw (v_elems v) bs))) ch l = fold_left (sw_child v) ch l).
      { clear -E. induction ch as [|q ch IHc]; intro l; [reflexivity|]. cbn [fold_left]. rewrite E. apply IHc. }
      rewrite I1, A, F. f_equal. exact Hbs.
    + rewrite I2. exact Cn.
    + set (v' := fst (fold_left (step_child d g) ch (with_elems v (put_sw (v_elems v) bs), tr1))) in *.
      transitivity (with_elems (with_elems v' (put_sw (v_elems v) bs)) (v_elems v)); [reflexivity|].
      rewrite I3. transitivity (with_elems v (v_elems v)); [reflexivity|apply with_elems_id].
Qed.
