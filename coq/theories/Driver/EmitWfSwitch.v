(* C07, second sentence, for switch properties: the definition a driver emits is constructible. *)
From Coq Require Import List NArith Bool String.
Import ListNotations.
From Indi Require Import Base.Sx Msg.Registry Msg.Equality Msg.Model Msg.Codec Driver.Model Driver.Props
  Generated.RegistryData Generated.RegistryOk.

Definition sw_child_ok (p : part) : bool := mem_str (pk p) [s2l "defSwitch"] && wfb_part live_registry p.

Lemma sw_part_aux : forall (nm lb : str) (b : bool),
  str_eqb nm nm = true -> str_eqb lb lb = true ->
  sw_child_ok {| pk := tagk "def" KSwitch ""; pa := [attr "name" nm; attr "label" lb]; pv := Some (sw_text b) |} = true.
Proof.
  intros nm lb b H1 H2. vm_compute in H1, H2. destruct b; vm_compute; rewrite H1, H2; reflexivity.
Qed.

Lemma sw_header_aux : forall (dn vn st lb gn pm tm ru : str) (l : list part),
  str_eqb dn dn = true -> str_eqb vn vn = true -> str_eqb st st = true -> str_eqb lb lb = true -> str_eqb gn gn = true ->
  str_eqb pm pm = true -> str_eqb tm tm = true -> str_eqb ru ru = true ->
  mem_str st (vocab_of live_registry (s2l "State")) = true ->
  mem_str pm (vocab_of live_registry (s2l "Permissions")) = true ->
  mem_str ru (vocab_of live_registry (s2l "SwitchRule")) = true ->
  forallb sw_child_ok l = true ->
  wfb live_registry {| mk := tagk "def" KSwitch "Vector";
       ma := [attr "device" dn; attr "name" vn; attr "state" st; attr "label" lb; attr "group" gn] ++
             [attr "perm" pm; attr "timeout" tm; attr "rule" ru];
       mv := None; mc := Some l |} = true.
Proof.
  intros dn vn st lb gn pm tm ru l H1 H2 H3 H4 H5 H6 H7 H8 S P R L.
  vm_compute in H1, H2, H3, H4, H5, H6, H7, H8, S, P, R, L. vm_compute.
  rewrite S, P, R. rewrite H1, H2, H3, H4, H5, H6, H7, H8.
  first [exact L | rewrite L; reflexivity].
Qed.

(* a switch property as declared: every element holds a switch value, and the property's
   state, permission and rule are words of the protocol's vocabularies *)
Definition switch_vec_ok (v : vec) : Prop :=
  v_kind v = KSwitch /\
  (forall e, In e (v_elems v) -> exists b, e_value e = VSw b) /\
  mem_str (v_state v) (vocab_of live_registry (s2l "State")) = true /\
  mem_str (v_perm v) (vocab_of live_registry (s2l "Permissions")) = true /\
  mem_str (v_rule v) (vocab_of live_registry (s2l "SwitchRule")) = true.

Lemma sw_children_ok : forall es,
  (forall e, In e es -> exists b, e_value e = VSw b) ->
  forallb sw_child_ok (map (def_part KSwitch) (filter e_enabled es)) = true.
Proof.
  induction es as [|e es IH]; intros H; [reflexivity|].
  cbn [filter]. destruct (e_enabled e).
  - cbn [map forallb]. rewrite IH by (intros x Hx; apply H; now right).
    destruct (H e (or_introl eq_refl)) as [b Hb]. unfold def_part. rewrite Hb.
    rewrite sw_part_aux by apply str_eqb_refl. reflexivity.
  - apply IH. intros x Hx; apply H; now right.
Qed.

Lemma switch_def_wf : forall d g v,
  vec_on g v = true -> switch_vec_ok v -> wfb live_registry (def_msg d g v) = true.
Proof.
  intros d g v Hon (Hk & He & Hs & Hp & Hr). unfold def_msg. rewrite Hon, Hk.
  apply sw_header_aux; try apply str_eqb_refl; try assumption.
  now apply sw_children_ok.
Qed.

Lemma switch_def_reads_back : forall d g v,
  vec_on g v = true -> switch_vec_ok v ->
  msg_from_xml live_registry (msg_to_xml (def_msg d g v)) = Some (norm_msg (def_msg d g v)).
Proof.
  intros d g v Hon Hok.
  exact (roundtrip_tree live_registry _ (eq_refl : nodup_strb (map ptag (rparts live_registry)) = true) (switch_def_wf d g v Hon Hok)).
Qed.

(* non-vacuity: a concrete switch property meets the hypotheses *)
Example switch_vec_ok_holds_somewhere :
  switch_vec_ok {| v_key := s2l "k"; v_name := s2l "CONNECTION"; v_label := s2l "Connection"; v_kind := KSwitch;
                   v_state := s2l "Idle"; v_perm := s2l "rw"; v_rule := s2l "OneOfMany"; v_timeout := s2l "60";
                   v_enabled := true; v_elems := [] |}.
Proof. repeat split; try reflexivity. intros e []. Qed.
