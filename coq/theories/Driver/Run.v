(* runner entry for the driver model *)
From Coq Require Import List NArith ZArith Bool String.
Import ListNotations.
From Indi Require Import Base.Sx Msg.Equality Msg.Model Msg.Codec Msg.Run Num.Model Num.Run Driver.Model Generated.RegistryData.

Definition dec_fval (x : sx) : option fval :=
  match x with
  | SL [ng; p; q] => match as_bool ng, dec_bigN p, dec_bigN q with
                     | Some ng, Some p, Some q => Some {| v_neg := ng; v_p := p; v_q := q |}
                     | _, _, _ => None
                     end
  | _ => None
  end.
Definition enc_fval (a : fval) : sx := SL [of_bool (v_neg a); enc_bigN (v_p a); enc_bigN (v_q a)].

Definition dec_value (x : sx) : option value :=
  match x with
  | SL [t; a] =>
      if is_tag "t" t then option_map VText (as_opt as_str a)
      else if is_tag "n" t then option_map VNum (as_opt dec_fval a)
      else if is_tag "s" t then option_map VSw (as_bool a)
      else if is_tag "l" t then option_map VLight (as_str a)
      else if is_tag "b" t then option_map VBlob (as_opt (as_pair as_str as_str) a)
      else None
  | _ => None
  end.
Definition enc_value (v : value) : sx :=
  match v with
  | VText s => SL [tag "t"; of_opt SA s]
  | VNum a => SL [tag "n"; of_opt enc_fval a]
  | VSw b => SL [tag "s"; of_bool b]
  | VLight s => SL [tag "l"; SA s]
  | VBlob b => SL [tag "b"; of_opt (of_pair SA SA) b]
  end.

Definition dec_evkind (x : sx) : option evkind :=
  if is_tag "write" x then Some EWrite else if is_tag "read" x then Some ERead
  else if is_tag "change" x then Some EChange else None.

Definition dec_handler (x : sx) : option handler :=
  match x with
  | SL [i; k; co; ve; rf] =>
      match as_N i, dec_evkind k, as_bool co, as_bool ve, as_opt dec_value rf with
      | Some i, Some k, Some co, Some ve, Some rf =>
          Some {| h_id := i; h_event := k; h_coro := co; h_veto := ve; h_refresh := rf |}
      | _, _, _, _, _ => None
      end
  | _ => None
  end.

Definition dec_elem (x : sx) : option elem :=
  match x with
  | SL [SA k; SA n; SA lb; en; v; SA fm; SA mi; SA ma; SA stp; hs] =>
      match as_bool en, dec_value v, as_list_of dec_handler hs with
      | Some en, Some v, Some hs =>
          Some {| e_key := k; e_name := n; e_label := lb; e_enabled := en; e_value := v; e_fmt := fm;
                  e_min := mi; e_max := ma; e_step := stp; e_handlers := hs |}
      | _, _, _ => None
      end
  | _ => None
  end.

Definition dec_vkind (x : sx) : option vkind :=
  if is_tag "Text" x then Some KText else if is_tag "Number" x then Some KNumber
  else if is_tag "Switch" x then Some KSwitch else if is_tag "Light" x then Some KLight
  else if is_tag "BLOB" x then Some KBlob else None.

Definition dec_vec (x : sx) : option vec :=
  match x with
  | SL [SA k; SA n; SA lb; kd; SA st; SA pm; SA rl; SA tmo; en; es] =>
      match dec_vkind kd, as_bool en, as_list_of dec_elem es with
      | Some kd, Some en, Some es =>
          Some {| v_key := k; v_name := n; v_label := lb; v_kind := kd; v_state := st; v_perm := pm; v_rule := rl;
                  v_timeout := tmo; v_enabled := en; v_elems := es |}
      | _, _, _ => None
      end
  | _ => None
  end.

Definition dec_grp (x : sx) : option grp :=
  match x with
  | SL [SA k; SA n; en; vs] =>
      match as_bool en, as_list_of dec_vec vs with
      | Some en, Some vs => Some {| g_key := k; g_name := n; g_enabled := en; g_vecs := vs |}
      | _, _ => None
      end
  | _ => None
  end.

Definition dec_dev (x : sx) : option dev :=
  match x with
  | SL [SA n; gs] => option_map (fun gs => {| d_name := n; d_groups := gs |}) (as_list_of dec_grp gs)
  | _ => None
  end.

Definition dec_dop (x : sx) : option dop :=
  match x with
  | SL [t; SA vn; i; v] =>
      if is_tag "assign" t then match as_nat i, dec_value v with Some i, Some v => Some (OAssign vn i v) | _, _ => None end
      else if is_tag "setvalue" t then match as_nat i, dec_value v with Some i, Some v => Some (OSetValue vn i v) | _, _ => None end
      else if is_tag "enelem" t then match as_nat i, as_bool v with Some i, Some b => Some (OEnableElem vn i b) | _, _ => None end
      else None
  | SL [t; SA vn; a] =>
      if is_tag "selected" t then option_map (OSelected vn) (as_list_of as_nat a)
      else if is_tag "state" t then option_map (OState vn) (as_str a)
      else if is_tag "envec" t then option_map (OEnableVec vn) (as_bool a)
      else if is_tag "engrp" t then option_map (OEnableGrp vn) (as_bool a)
      else None
  | SL [t; m] => if is_tag "client" t then option_map OFromClient (dec_msg m) else None
  | _ => None
  end.

Definition enc_outev (o : outev) : sx :=
  match o with
  | Publish m => SL [tag "pub"; enc_msg m]
  | Call h a b => SL [tag "call"; of_N h; of_opt enc_value a; of_opt enc_value b]
  | Spawn h b => SL [tag "spawn"; of_N h; of_opt enc_value b]
  end.

Definition enc_elem_state (e : elem) : sx := SL [SA (e_name e); of_bool (e_enabled e); enc_value (e_value e)].
Definition enc_vec_state (v : vec) : sx :=
  SL [SA (v_name v); of_bool (v_enabled v); SA (v_state v); of_list enc_elem_state (v_elems v)].
Definition enc_dev_state (d : dev) : sx :=
  of_list (fun g => SL [SA (g_key g); of_bool (g_enabled g); of_list enc_vec_state (g_vecs g)]) (d_groups d).

(* is every published message of a trace constructible (premise of C03 element_roundtrip)? *)
Definition trace_wfb (tr : list outev) : bool :=
  forallb (fun o => match o with Publish m => wfb live_registry m | _ => true end) tr.

(* (dev ops) -> (traces per op) (final state) (all published messages wfb?) *)
Definition run_driver (x : sx) : sx :=
  match x with
  | SL [d; ops] =>
      match dec_dev d, as_list_of dec_dop ops with
      | Some d, Some ops => let (d', trs) := run d ops in
                            SL [of_list (of_list enc_outev) trs; enc_dev_state d'; of_bool (forallb trace_wfb trs)]
      | _, _ => bad_input
      end
  | _ => bad_input
  end.

(* several devices at once: ((dev ops) ...) -> (result ...) *)
Definition run_drivers (x : sx) : sx :=
  match x with
  | SL l => SL (map run_driver l)
  | _ => bad_input
  end.
