(* Model of the device side: indi/device/driver.py and
   indi/device/properties/instance/{group,vectors,elements}.py, with the event
   dispatch of indi/device/events.py.  A device is its ordered groups ->
   vectors -> elements; operations produce a trace of published messages and
   handler invocations. *)
From Coq Require Import List NArith ZArith Bool Arith Lia String.
Import ListNotations.
From Indi Require Import Base.Sx Msg.Equality Msg.Model Num.Model B64.Model Driver.Switch.
Local Open Scope N_scope.

Inductive vkind := KText | KNumber | KSwitch | KLight | KBlob.

Inductive value :=
| VText (s : option str)
| VNum (v : option fval)
| VSw (on : bool)
| VLight (s : str)
| VBlob (b : option (list N * str)).     (* bytes, format *)

Inductive evkind := EWrite | ERead | EChange.
Record handler := {
  h_id : N;
  h_event : evkind;
  h_coro : bool;                 (* coroutine function: spawned as a task *)
  h_veto : bool;                 (* plain Write handler that sets prevent_default *)
  h_refresh : option value       (* plain Read handler that calls reset_value(v) *)
}.

Record elem := {
  e_key : str; e_name : str; e_label : str; e_enabled : bool; e_value : value;
  e_fmt : str; e_min : str; e_max : str; e_step : str;
  e_handlers : list handler
}.
Record vec := {
  v_key : str; v_name : str; v_label : str; v_kind : vkind; v_state : str; v_perm : str;
  v_rule : str; v_timeout : str; v_enabled : bool; v_elems : list elem
}.
Record grp := { g_key : str; g_name : str; g_enabled : bool; g_vecs : list vec }.
Record dev := { d_name : str; d_groups : list grp }.

(* ---------- numbers ---------- *)
Definition num_eqb (a b : fval) : bool :=
  (v_p a * v_q b =? v_p b * v_q a) && ((v_p a =? 0) || Bool.eqb (v_neg a) (v_neg b)).

(* nearest binary64 to n/d (n, d > 0), ignoring subnormals and overflow *)
Definition scaled (n d : N) (e : Z) : N * N :=
  if (e <? 0)%Z then (n * 2 ^ Z.to_N (- e), d) else (n, d * 2 ^ Z.to_N e).
Definition to_double (n d : N) : N * N :=
  if n =? 0 then (0, 1) else
  let e0 := (Z.of_N (N.log2 n) - Z.of_N (N.log2 d) - 52)%Z in
  let pick e := let (a, b) := scaled n d e in a / b in
  let e := if 2 ^ 53 <=? pick e0 then (e0 + 1)%Z else if pick e0 <? 2 ^ 52 then (e0 - 1)%Z else e0 in
  let (a, b) := scaled n d e in
  let m := round_half_even a b in
  if (e <? 0)%Z then (m, 2 ^ Z.to_N (- e)) else (m * 2 ^ Z.to_N e, 1).

(* values.str_to_num as a device value: plain integers exact, everything else the nearest double *)
Definition has_dot_or_sep (s : str) : bool := existsb (fun c => (c =? 46) || is_sep c) s.
Definition num_of_text (s : str) : option fval :=
  match str_to_num s with
  | Some (ng, n, d) =>
      if has_dot_or_sep s then
        let (p, q) := to_double n d in
        let sexa := existsb is_sep (match s with c :: r => if (c =? 45) || (c =? 43) then r else s | [] => s end) in
        Some {| v_neg := if sexa then ng && negb (p =? 0) else ng; v_p := p; v_q := q |}
      else Some {| v_neg := ng && negb (n =? 0); v_p := n; v_q := d |}
  | None => None
  end.

Definition render_num (fmt : str) (v : option fval) : option str :=
  match v with
  | None => None
  | Some a => match parse_fmt fmt with
              | Some f => num_to_str f a
              | None => None
              end
  end.

Definition value_eqb (a b : value) : bool :=
  match a, b with
  | VText x, VText y => opt_eqb str_eqb x y
  | VNum None, VNum None => true
  | VNum (Some x), VNum (Some y) => num_eqb x y
  | VSw x, VSw y => Bool.eqb x y
  | VLight x, VLight y => str_eqb x y
  | VBlob None, VBlob None => true
  | VBlob (Some (b1, f1)), VBlob (Some (b2, f2)) => list_eqb N.eqb b1 b2 && str_eqb f1 f2
  | _, _ => false
  end.

(* ---------- traces ---------- *)
Inductive outev :=
| Publish (m : msg)
| Call (h : N) (old new : option value)      (* plain handler invoked: (old, new) as the event carries them *)
| Spawn (h : N) (new : option value).        (* coroutine handler scheduled *)

(* ---------- messages ---------- *)
Definition s_On := s2l "On".
Definition s_Off := s2l "Off".
Definition sw_text (b : bool) : str := if b then s_On else s_Off.

Definition kind_name (k : vkind) : string :=
  match k with KText => "Text" | KNumber => "Number" | KSwitch => "Switch" | KLight => "Light" | KBlob => "BLOB" end.
Definition tagk (pre : string) (k : vkind) (post : string) : str := s2l (pre ++ kind_name k ++ post).

Definition attr (k : string) (v : str) : str * str := (s2l k, v).

Definition one_part (k : vkind) (e : elem) : option part :=
  match e_value e with
  | VText s => Some {| pk := tagk "one" k ""; pa := [attr "name" (e_name e)]; pv := s |}
  | VNum v => Some {| pk := tagk "one" k ""; pa := [attr "name" (e_name e)]; pv := render_num (e_fmt e) v |}
  | VSw b => Some {| pk := tagk "one" k ""; pa := [attr "name" (e_name e)]; pv := Some (sw_text b) |}
  | VLight s => Some {| pk := tagk "one" k ""; pa := [attr "name" (e_name e)]; pv := Some s |}
  | VBlob None => None                                  (* an unset BLOB is left out of the update *)
  | VBlob (Some (b, f)) =>
      Some {| pk := tagk "one" k "";
              pa := [attr "name" (e_name e); attr "size" (print_dec (N.of_nat (List.length b))); attr "format" f];
              pv := Some (encode b) |}
  end.

Definition def_part (k : vkind) (e : elem) : part :=
  match e_value e with
  | VText s => {| pk := tagk "def" k ""; pa := [attr "name" (e_name e); attr "label" (e_label e)]; pv := s |}
  | VNum v => {| pk := tagk "def" k "";
                 pa := [attr "name" (e_name e); attr "label" (e_label e); attr "format" (e_fmt e);
                        attr "min" (e_min e); attr "max" (e_max e); attr "step" (e_step e)];
                 pv := render_num (e_fmt e) v |}
  | VSw b => {| pk := tagk "def" k ""; pa := [attr "name" (e_name e); attr "label" (e_label e)]; pv := Some (sw_text b) |}
  | VLight s => {| pk := tagk "def" k ""; pa := [attr "name" (e_name e); attr "label" (e_label e)]; pv := Some s |}
  | VBlob _ => {| pk := tagk "def" k ""; pa := [attr "name" (e_name e); attr "label" (e_label e)]; pv := None |}
  end.

Definition vec_on (g : grp) (v : vec) : bool := v_enabled v && g_enabled g.

Definition filter_map {A B} (f : A -> option B) (l : list A) : list B :=
  flat_map (fun x => match f x with Some y => [y] | None => [] end) l.

(* Vector.to_set_message: None when the property is not enabled *)
Definition set_msg (d : dev) (g : grp) (v : vec) : option msg :=
  if vec_on g v then
    Some {| mk := tagk "set" (v_kind v) "Vector";
            ma := [attr "device" (d_name d); attr "name" (v_name v); attr "state" (v_state v)] ++
                  (match v_kind v with KLight => [] | _ => [attr "timeout" (v_timeout v)] end);
            mv := None;
            mc := Some (filter_map (one_part (v_kind v)) (filter e_enabled (v_elems v))) |}
  else None.

(* Vector.to_def_message: delProperty when the property is not enabled *)
Definition def_msg (d : dev) (g : grp) (v : vec) : msg :=
  if vec_on g v then
    {| mk := tagk "def" (v_kind v) "Vector";
       ma := [attr "device" (d_name d); attr "name" (v_name v); attr "state" (v_state v);
              attr "label" (v_label v); attr "group" (g_name g)] ++
             (match v_kind v with
              | KLight => []
              | KSwitch => [attr "perm" (v_perm v); attr "timeout" (v_timeout v); attr "rule" (v_rule v)]
              | _ => [attr "perm" (v_perm v); attr "timeout" (v_timeout v)]
              end);
       mv := None;
       mc := Some (map (def_part (v_kind v)) (filter e_enabled (v_elems v))) |}
  else
    {| mk := s2l "delProperty"; ma := [attr "device" (d_name d); attr "name" (v_name v)]; mv := None; mc := None |}.

(* ---------- Read events ---------- *)
(* element.value: every Read handler is dispatched (plain ones run now and may
   refresh the value, coroutine ones are spawned), then the value is returned *)
Definition read_elem (e : elem) : elem * list outev :=
  fold_left (fun acc h =>
               let '(e', tr) := acc in
               match h_event h with
               | ERead =>
                   if h_coro h then (e', tr ++ [Spawn (h_id h) None])
                   else (match h_refresh h with
                         | Some v => {| e_key := e_key e'; e_name := e_name e'; e_label := e_label e'; e_enabled := e_enabled e';
                                        e_value := v; e_fmt := e_fmt e'; e_min := e_min e'; e_max := e_max e'; e_step := e_step e';
                                        e_handlers := e_handlers e' |}
                         | None => e'
                         end, tr ++ [Call (h_id h) None None])
               | _ => acc
               end) (e_handlers e) (e, []).

(* reading all enabled elements of a vector, in order (as to_set/to_def_message do) *)
Fixpoint read_elems (es : list elem) : list elem * list outev :=
  match es with
  | [] => ([], [])
  | e :: r =>
      if e_enabled e then
        let (e', t1) := read_elem e in
        let (r', t2) := read_elems r in (e' :: r', t1 ++ t2)
      else let (r', t2) := read_elems r in (e :: r', t2)
  end.

Definition with_elems (v : vec) (es : list elem) : vec :=
  {| v_key := v_key v; v_name := v_name v; v_label := v_label v; v_kind := v_kind v; v_state := v_state v;
     v_perm := v_perm v; v_rule := v_rule v; v_timeout := v_timeout v; v_enabled := v_enabled v; v_elems := es |}.

(* device.send_message(vector.to_set_message()) *)
Definition publish_set (d : dev) (g : grp) (v : vec) : vec * list outev :=
  if vec_on g v then
    let (es, tr) := read_elems (v_elems v) in
    let v' := with_elems v es in
    (v', tr ++ match set_msg d g v' with Some m => [Publish m] | None => [] end)
  else (v, []).

(* BLOB definitions do not read the value; the other kinds do *)
Definition publish_def (d : dev) (g : grp) (v : vec) : vec * list outev :=
  if vec_on g v then
    match v_kind v with
    | KBlob => (v, [Publish (def_msg d g v)])
    | _ => let (es, tr) := read_elems (v_elems v) in
           let v' := with_elems v es in (v', tr ++ [Publish (def_msg d g v')])
    end
  else (v, [Publish (def_msg d g v)]).

(* ---------- assignments ---------- *)
Definition set_value_of (e : elem) (x : value) : elem :=
  {| e_key := e_key e; e_name := e_name e; e_label := e_label e; e_enabled := e_enabled e; e_value := x;
     e_fmt := e_fmt e; e_min := e_min e; e_max := e_max e; e_step := e_step e; e_handlers := e_handlers e |}.

Definition dec_rule_str (r : str) : rule :=
  if str_eqb r (s2l "AtMostOne") then AtMostOne else if str_eqb r (s2l "AnyOfMany") then AnyOfMany else OneOfMany.

Definition sw_of (e : elem) : bool := match e_value e with VSw b => b | _ => false end.

Fixpoint put_sw (es : list elem) (bs : list bool) : list elem :=
  match es, bs with
  | e :: es', b :: bs' => (match e_value e with VSw _ => set_value_of e (VSw b) | _ => e end) :: put_sw es' bs'
  | _, _ => es
  end.

(* store x into element i of v (for switches through the rule) *)
Definition store (v : vec) (i : nat) (x : value) : list elem :=
  match x with
  | VSw b => put_sw (v_elems v) (set_one (dec_rule_str (v_rule v)) i b (map sw_of (v_elems v)))
  | _ => (fix go (es : list elem) (k : nat) : list elem :=
            match es with
            | [] => []
            | e :: r => if Nat.eqb k i then set_value_of e x :: r else e :: go r (S k)
            end) (v_elems v) 0%nat
  end.

Definition dispatch_event (k : evkind) (hs : list handler) (old new : option value) : list outev * bool :=
  fold_left (fun acc h =>
               let '(tr, veto) := acc in
               if match h_event h, k with EWrite, EWrite | EChange, EChange => true | _, _ => false end then
                 if h_coro h then (tr ++ [Spawn (h_id h) new], veto)
                 else (tr ++ [Call (h_id h) old new], veto || h_veto h)
               else acc) hs ([], false).

(* element.value = x *)
Definition assign (d : dev) (g : grp) (v : vec) (i : nat) (x : value) : vec * list outev :=
  match nth_error (v_elems v) i with
  | None => (v, [])
  | Some e =>
      let prev := e_value e in
      let v1 := with_elems v (store v i x) in
      let (v2, tr) := publish_set d g v1 in
      let cur := match nth_error (v_elems v2) i with Some e1 => e_value e1 | None => prev end in
      (v2, tr ++ if value_eqb prev cur then [] else fst (dispatch_event EChange (e_handlers e) (Some prev) (Some cur)))
  end.

(* element.set_value(x): Write event first; the default only if no plain handler vetoed *)
Definition set_value (d : dev) (g : grp) (v : vec) (i : nat) (x : value) : vec * list outev :=
  match nth_error (v_elems v) i with
  | None => (v, [])
  | Some e =>
      let (tr, veto) := dispatch_event EWrite (e_handlers e) None (Some x) in
      if veto then (v, tr) else let (v', tr') := assign d g v i x in (v', tr ++ tr')
  end.

(* ---------- locating vectors ---------- *)
Fixpoint upd_vec_in (vs : list vec) (name : str) (f : vec -> vec * list outev) : list vec * list outev * bool :=
  match vs with
  | [] => ([], [], false)
  | v :: r =>
      if str_eqb (v_name v) name then let (v', tr) := f v in (v' :: r, tr, true)
      else let '(r', tr, ok) := upd_vec_in r name f in (v :: r', tr, ok)
  end.

Definition with_vecs (g : grp) (vs : list vec) : grp :=
  {| g_key := g_key g; g_name := g_name g; g_enabled := g_enabled g; g_vecs := vs |}.

Fixpoint upd_vec (d : dev) (gs : list grp) (name : str) (f : grp -> vec -> vec * list outev) : list grp * list outev * bool :=
  match gs with
  | [] => ([], [], false)
  | g :: r =>
      let '(vs, tr, ok) := upd_vec_in (g_vecs g) name (f g) in
      if ok then (with_vecs g vs :: r, tr, true)
      else let '(r', tr', ok') := upd_vec d r name f in (g :: r', tr', ok')
  end.

Definition with_groups (d : dev) (gs : list grp) : dev := {| d_name := d_name d; d_groups := gs |}.

Definition on_vec (d : dev) (name : str) (f : grp -> vec -> vec * list outev) : dev * list outev :=
  let '(gs, tr, _) := upd_vec d (d_groups d) name f in (with_groups d gs, tr).

Fixpoint index_of (name : str) (es : list elem) (k : nat) : option nat :=
  match es with
  | [] => None
  | e :: r => if str_eqb (e_name e) name then Some k else index_of name r (S k)
  end.

(* ---------- client messages ---------- *)
Definition kind_of_new (k : str) : option vkind :=
  if str_eqb k (s2l "newTextVector") then Some KText else if str_eqb k (s2l "newNumberVector") then Some KNumber
  else if str_eqb k (s2l "newSwitchVector") then Some KSwitch else if str_eqb k (s2l "newBLOBVector") then Some KBlob
  else None.

Definition vkind_eqb (a b : vkind) : bool :=
  match a, b with
  | KText, KText | KNumber, KNumber | KSwitch, KSwitch | KLight, KLight | KBlob, KBlob => true
  | _, _ => false
  end.

(* the value a one* child carries for an element of kind k; None = cannot be applied *)
Definition value_of_child (k : vkind) (p : part) : option value :=
  match k with
  | KText => Some (VText (pv p))
  | KNumber => match pv p with
               | Some s => option_map (fun a => VNum (Some a)) (num_of_text s)
               | None => None
               end
  | KSwitch => match pv p with
               | Some s => if str_eqb s s_On then Some (VSw true) else if str_eqb s s_Off then Some (VSw false) else None
               | None => None
               end
  | KBlob =>
      match decode (match pv p with Some s => s | None => [] end),
            lookup (s2l "size") (pa p), lookup (s2l "format") (pa p) with
      | Some b, Some sz, Some f =>
          match digits_val sz with
          | Some n => if negb (match sz with [] => true | _ => false end) && (n =? N.of_nat (List.length b))
                      then Some (VBlob (Some (b, f))) else None
          | None => None
          end
      | _, _, _ => None
      end
  | KLight => None
  end.

Definition apply_children (d : dev) (g : grp) (v : vec) (ch : list part) : vec * list outev :=
  fold_left (fun acc p =>
               let '(v', tr) := acc in
               match lookup (s2l "name") (pa p) with
               | Some n =>
                   match index_of n (v_elems v') 0 with
                   | Some i => match value_of_child (v_kind v') p with
                               | Some x => let (v'', tr') := set_value d g v' i x in (v'', tr ++ tr')
                               | None => acc
                               end
                   | None => acc
                   end
               | None => acc
               end) ch (v, []).

Definition all_vecs (d : dev) : list (grp * vec) :=
  flat_map (fun g => map (fun v => (g, v)) (g_vecs g)) (d_groups d).

(* getProperties: a definition (or delProperty) per vector, reading the values *)
Fixpoint def_all (d : dev) (names : list str) (acc : dev) (tr : list outev) : dev * list outev :=
  match names with
  | [] => (acc, tr)
  | n :: r => let (acc', tr') := on_vec acc n (fun g v => publish_def acc g v) in def_all d r acc' (tr ++ tr')
  end.

Definition from_client (d : dev) (m : msg) : dev * list outev :=
  if str_eqb (mk m) (s2l "getProperties") then
    match lookup (s2l "name") (ma m) with
    | Some n => if match n with [] => true | _ => false end
                then def_all d (map (fun gv => v_name (snd gv)) (all_vecs d)) d []
                else on_vec d n (fun g v => publish_def d g v)
    | None => def_all d (map (fun gv => v_name (snd gv)) (all_vecs d)) d []
    end
  else
    match kind_of_new (mk m), lookup (s2l "name") (ma m) with
    | Some k, Some n =>
        on_vec d n (fun g v => if vkind_eqb k (v_kind v)
                               then apply_children d g v (match mc m with Some l => l | None => [] end)
                               else (v, []))
    | _, _ => (d, [])
    end.

(* ---------- driver-side operations ---------- *)
Inductive dop :=
| OAssign (vn : str) (i : nat) (x : value)          (* element.value = x / bool_value = b *)
| OSetValue (vn : str) (i : nat) (x : value)        (* element.set_value(x) *)
| OSelected (vn : str) (sel : list nat)             (* vector.selected_values = [...] *)
| OState (vn : str) (st : str)                      (* vector.state_ = st *)
| OEnableVec (vn : str) (b : bool)
| OEnableGrp (gk : str) (b : bool)
| OEnableElem (vn : str) (i : nat) (b : bool)
| OFromClient (m : msg).

Definition with_state (v : vec) (st : str) : vec :=
  {| v_key := v_key v; v_name := v_name v; v_label := v_label v; v_kind := v_kind v; v_state := st;
     v_perm := v_perm v; v_rule := v_rule v; v_timeout := v_timeout v; v_enabled := v_enabled v; v_elems := v_elems v |}.
Definition with_venabled (v : vec) (b : bool) : vec :=
  {| v_key := v_key v; v_name := v_name v; v_label := v_label v; v_kind := v_kind v; v_state := v_state v;
     v_perm := v_perm v; v_rule := v_rule v; v_timeout := v_timeout v; v_enabled := b; v_elems := v_elems v |}.

Definition selected_loop (d : dev) (g : grp) (v : vec) (sel : list nat) : vec * list outev :=
  fold_left (fun acc j =>
               let '(v', tr) := acc in
               let want := existsb (Nat.eqb j) sel in
               match nth_error (v_elems v') j with
               | Some e => if Bool.eqb (sw_of e) want then acc
                           else let (v'', tr') := assign d g v' j (VSw want) in (v'', tr ++ tr')
               | None => acc
               end) (seq 0 (List.length (v_elems v))) (v, []).

Fixpoint enable_group_vecs (d : dev) (g : grp) (vs : list vec) : list vec * list outev :=
  match vs with
  | [] => ([], [])
  | v :: r =>
      let (v1, t1) := publish_def d g v in
      let (v2, t2) := publish_set d g v1 in
      let (r', t3) := enable_group_vecs d g r in (v2 :: r', t1 ++ t2 ++ t3)
  end.

Definition step (d : dev) (o : dop) : dev * list outev :=
  match o with
  | OAssign vn i x => on_vec d vn (fun g v => assign d g v i x)
  | OSetValue vn i x => on_vec d vn (fun g v => set_value d g v i x)
  | OSelected vn sel => on_vec d vn (fun g v => selected_loop d g v sel)
  | OState vn st => on_vec d vn (fun g v => publish_set d g (with_state v st))
  | OEnableVec vn b => on_vec d vn (fun g v => let v0 := with_venabled v b in
                                               let (v1, t1) := publish_def d g v0 in
                                               let (v2, t2) := publish_set d g v1 in (v2, t1 ++ t2))
  | OEnableGrp gk b =>
      let '(gs, tr) :=
        fold_right (fun g acc =>
                      let '(gs, tr) := acc in
                      if str_eqb (g_key g) gk then
                        let g0 := {| g_key := g_key g; g_name := g_name g; g_enabled := b; g_vecs := g_vecs g |} in
                        let (vs, t) := enable_group_vecs d g0 (g_vecs g0) in
                        (with_vecs g0 vs :: gs, t ++ tr)
                      else (g :: gs, tr)) ([], []) (d_groups d) in
      (with_groups d gs, tr)
  | OEnableElem vn i b =>
      on_vec d vn (fun g v => (with_elems v ((fix go (es : list elem) (k : nat) :=
                                               match es with
                                               | [] => []
                                               | e :: r => if Nat.eqb k i
                                                           then {| e_key := e_key e; e_name := e_name e; e_label := e_label e; e_enabled := b;
                                                                   e_value := e_value e; e_fmt := e_fmt e; e_min := e_min e; e_max := e_max e;
                                                                   e_step := e_step e; e_handlers := e_handlers e |} :: r
                                                           else e :: go r (S k)
                                               end) (v_elems v) 0%nat), []))
  | OFromClient m => from_client d m
  end.

Fixpoint run (d : dev) (ops : list dop) : dev * list (list outev) :=
  match ops with
  | [] => (d, [])
  | o :: r => let (d', tr) := step d o in let (d'', trs) := run d' r in (d'', tr :: trs)
  end.
