(* C07: what a getProperties request elicits, for every device state. *)
From Coq Require Import List NArith ZArith Bool Arith Lia String.
Import ListNotations.
From Indi Require Import Base.Sx Msg.Equality Msg.Model Num.Model Driver.Model.

Definition is_read (h : handler) : bool := match h_event h with ERead => true | _ => false end.
Definition quiet_elem (e : elem) : Prop := forallb (fun h => negb (is_read h)) (e_handlers e) = true.
Definition quiet_vec (v : vec) : Prop := Forall quiet_elem (v_elems v).
Definition quiet (d : dev) : Prop := Forall (fun g => Forall quiet_vec (g_vecs g)) (d_groups d).

Lemma read_elem_quiet e : quiet_elem e -> read_elem e = (e, []).
Proof.
  unfold quiet_elem, read_elem. intros H.
  assert (forall hs acc, forallb (fun h => negb (is_read h)) hs = true ->
            fold_left (fun acc h => let '(e', tr) := acc in
                         match h_event h with
                         | ERead => if h_coro h then (e', tr ++ [Spawn (h_id h) None])
                                    else (match h_refresh h with
                                          | Some v => {| e_key := e_key e'; e_name := e_name e'; e_label := e_label e'; e_enabled := e_enabled e';
                                                         e_value := v; e_fmt := e_fmt e'; e_min := e_min e'; e_max := e_max e'; e_step := e_step e';
                                                         e_handlers := e_handlers e' |}
                                          | None => e'
                                          end, tr ++ [Call (h_id h) None None])
                         | _ => acc
                         end) hs acc = acc) as G.
  { induction hs as [|h hs IH]; intros acc Hq; simpl in *; [reflexivity|].
    apply andb_prop in Hq as [Hh Hq]. unfold is_read in Hh. destruct acc as [e' tr].
    destruct (h_event h); simpl in Hh; try discriminate; now apply IH. }
  now apply G.
Qed.

Lemma read_elems_quiet es : Forall quiet_elem es -> read_elems es = (es, []).
Proof.
  induction 1 as [|e es He Hes IH]; simpl; [reflexivity|].
  rewrite IH. destruct (e_enabled e); [|reflexivity]. now rewrite (read_elem_quiet e He).
Qed.

Lemma with_elems_id v : with_elems v (v_elems v) = v.
Proof. now destruct v. Qed.

Lemma publish_def_quiet d g v : quiet_vec v -> publish_def d g v = (v, [Publish (def_msg d g v)]).
Proof.
  intros H. unfold publish_def. destruct (vec_on g v); [|reflexivity].
  destruct (v_kind v); try reflexivity; rewrite (read_elems_quiet _ H), with_elems_id; reflexivity.
Qed.

(* ---------- locating a vector by name ---------- *)
Definition named (n : str) (v : vec) : bool := str_eqb (v_name v) n.

Lemma upd_vec_in_keep vs n (f : vec -> vec * list outev) (t : vec -> list outev) :
  (forall v, In v vs -> f v = (v, t v)) ->
  upd_vec_in vs n f =
  (vs, match find (named n) vs with Some v => t v | None => [] end,
   match find (named n) vs with Some _ => true | None => false end).
Proof.
  induction vs as [|v vs IH]; intros Hf; simpl; [reflexivity|]. unfold named at 1 3.
  destruct (str_eqb (v_name v) n) eqn:E.
  - rewrite (Hf v (or_introl eq_refl)). reflexivity.
  - rewrite IH by (intros; apply Hf; now right). reflexivity.
Qed.

Lemma with_vecs_id g : with_vecs g (g_vecs g) = g.
Proof. now destruct g. Qed.

Definition find_gv (n : str) (gs : list grp) : option (grp * vec) :=
  find (fun gv => named n (snd gv)) (flat_map (fun g => map (fun v => (g, v)) (g_vecs g)) gs).

Lemma find_map_pair g n vs :
  find (fun gv : grp * vec => named n (snd gv)) (map (fun v => (g, v)) vs) =
  option_map (fun v => (g, v)) (find (named n) vs).
Proof. induction vs as [|v vs IH]; simpl; [reflexivity|]. destruct (named n v); [reflexivity|exact IH]. Qed.

Lemma find_app {A} (p : A -> bool) l1 l2 :
  find p (l1 ++ l2) = match find p l1 with Some x => Some x | None => find p l2 end.
Proof. induction l1 as [|a l1 IH]; simpl; [reflexivity|]. destruct (p a); [reflexivity|exact IH]. Qed.

Lemma upd_vec_keep d gs n (f : grp -> vec -> vec * list outev) (t : grp -> vec -> list outev) :
  (forall g v, In g gs -> In v (g_vecs g) -> f g v = (v, t g v)) ->
  upd_vec d gs n f =
  (gs, match find_gv n gs with Some (g, v) => t g v | None => [] end,
   match find_gv n gs with Some _ => true | None => false end).
Proof.
  induction gs as [|g gs IH]; intros Hf; simpl; [reflexivity|].
  rewrite (upd_vec_in_keep (g_vecs g) n (f g) (t g)) by (intros; apply Hf; [now left|assumption]).
  unfold find_gv. cbn [flat_map]. rewrite find_app, find_map_pair.
  destruct (find (named n) (g_vecs g)) as [v|] eqn:Fv; simpl.
  - now rewrite with_vecs_id.
  - rewrite IH by (intros; apply Hf; [now right|assumption]). reflexivity.
Qed.

Lemma with_groups_id d : with_groups d (d_groups d) = d.
Proof. now destruct d. Qed.

Lemma on_vec_def_quiet d0 d n :
  quiet d ->
  on_vec d n (fun g v => publish_def d0 g v) =
  (d, match find_gv n (d_groups d) with Some (g, v) => [Publish (def_msg d0 g v)] | None => [] end).
Proof.
  intros Hq. unfold on_vec.
  rewrite (upd_vec_keep d (d_groups d) n (fun g v => publish_def d0 g v) (fun g v => [Publish (def_msg d0 g v)])).
  - rewrite with_groups_id. reflexivity.
  - intros g v Hg Hv. apply publish_def_quiet.
    unfold quiet in Hq. rewrite Forall_forall in Hq. specialize (Hq g Hg). rewrite Forall_forall in Hq. now apply Hq.
Qed.

(* ---------- getProperties ---------- *)
Definition getprops (dev_name name : option str) : msg :=
  {| mk := s2l "getProperties";
     ma := [(s2l "version", s2l "1.7")] ++
           (match dev_name with Some x => [(s2l "device", x)] | None => [] end) ++
           (match name with Some x => [(s2l "name", x)] | None => [] end);
     mv := None; mc := None |}.

Lemma lookup_name_getprops dn name : lookup (s2l "name") (ma (getprops dn name)) = name.
Proof.
  unfold getprops. cbn [ma app].
  assert (str_eqb (s2l "name") (s2l "version") = false) as E1 by reflexivity.
  assert (str_eqb (s2l "name") (s2l "device") = false) as E2 by reflexivity.
  assert (str_eqb (s2l "name") (s2l "name") = true) as E3 by reflexivity.
  destruct dn, name; cbn [lookup app]; rewrite ?E1, ?E2, ?E3; reflexivity.
Qed.

Lemma def_all_quiet d0 : forall names d tr,
  quiet d ->
  def_all d0 names d tr =
  (d, tr ++ flat_map (fun n => match find_gv n (d_groups d) with
                               | Some (g, v) => [Publish (def_msg d g v)]
                               | None => []
                               end) names).
Proof.
  induction names as [|n names IH]; intros d tr Hq; simpl; [now rewrite app_nil_r|].
  rewrite (on_vec_def_quiet d d n Hq). rewrite IH by assumption. now rewrite <- app_assoc.
Qed.

(* a named request: exactly the definition of that property (or its delProperty when
   it is disabled), nothing for an unknown name; the device state is untouched *)
Theorem getprops_named d dn n :
  quiet d -> n <> [] ->
  from_client d (getprops dn (Some n)) =
  (d, match find_gv n (d_groups d) with Some (g, v) => [Publish (def_msg d g v)] | None => [] end).
Proof.
  intros Hq Hn. unfold from_client.
  assert (str_eqb (mk (getprops dn (Some n))) (s2l "getProperties") = true) as -> by reflexivity.
  rewrite lookup_name_getprops. destruct n; [contradiction|]. now apply on_vec_def_quiet.
Qed.

Lemma find_gv_first_self gs : forall g v pre post,
  flat_map (fun g => map (fun v => (g, v)) (g_vecs g)) gs = pre ++ (g, v) :: post ->
  ~ In (v_name v) (map (fun gv => v_name (snd gv)) pre) ->
  find_gv (v_name v) gs = Some (g, v).
Proof.
  intros g v pre post E Hn. unfold find_gv. rewrite E, find_app.
  assert (find (fun gv : grp * vec => named (v_name v) (snd gv)) pre = None) as ->.
  { clear E. induction pre as [|[g' v'] pre IH]; simpl; [reflexivity|]. unfold named at 1. simpl.
    destruct (str_eqb (v_name v') (v_name v)) eqn:Ee.
    - apply str_eqb_spec in Ee. exfalso. apply Hn. left. simpl. now symmetry.
    - apply IH. intros H. apply Hn. now right. }
  simpl. unfold named. now rewrite str_eqb_refl.
Qed.

(* an unnamed request: one definition (or delProperty) per property, in order,
   each exactly def_msg of the current state; the device state is untouched *)
Theorem getprops_all d dn :
  quiet d -> NoDup (map (fun gv => v_name (snd gv)) (all_vecs d)) ->
  from_client d (getprops dn None) =
  (d, map (fun gv => Publish (def_msg d (fst gv) (snd gv))) (all_vecs d)).
Proof.
  intros Hq Hnd. unfold from_client.
  assert (str_eqb (mk (getprops dn None)) (s2l "getProperties") = true) as -> by reflexivity.
  rewrite lookup_name_getprops. rewrite (def_all_quiet d _ d [] Hq). cbn [app]. f_equal.
  unfold all_vecs in *. set (L := flat_map (fun g => map (fun v => (g, v)) (g_vecs g)) (d_groups d)) in *.
  assert (forall pre post, L = pre ++ post ->
            flat_map (fun n => match find_gv n (d_groups d) with Some (g, v) => [Publish (def_msg d g v)] | None => [] end)
                     (map (fun gv => v_name (snd gv)) post) =
            map (fun gv => Publish (def_msg d (fst gv) (snd gv))) post) as G.
  { intros pre post. revert pre. induction post as [|[g v] post IH]; intros pre E; simpl; [reflexivity|].
    rewrite (find_gv_first_self (d_groups d) g v pre post E).
    - simpl. f_equal. apply (IH (pre ++ [(g, v)])). now rewrite <- app_assoc.
    - rewrite E, map_app in Hnd. simpl in Hnd. apply NoDup_remove_2 in Hnd.
      intros H. apply Hnd. apply in_or_app. now left. }
  exact (G [] L eq_refl).
Qed.

(* what a definition lists: exactly the enabled elements, in order, with the
   property's metadata *)
Theorem def_msg_lists_enabled_elements d g v :
  vec_on g v = true ->
  mc (def_msg d g v) = Some (map (def_part (v_kind v)) (filter e_enabled (v_elems v))) /\
  lookup (s2l "device") (ma (def_msg d g v)) = Some (d_name d) /\
  lookup (s2l "name") (ma (def_msg d g v)) = Some (v_name v) /\
  lookup (s2l "state") (ma (def_msg d g v)) = Some (v_state v) /\
  lookup (s2l "label") (ma (def_msg d g v)) = Some (v_label v) /\
  lookup (s2l "group") (ma (def_msg d g v)) = Some (g_name g).
Proof.
  intros H. unfold def_msg. rewrite H. cbn [mc ma app lookup attr].
  repeat split; reflexivity.
Qed.

(* a disabled property yields no definition at all *)
Theorem def_msg_disabled d g v : vec_on g v = false -> mk (def_msg d g v) = s2l "delProperty".
Proof. intros H. unfold def_msg. now rewrite H. Qed.

(* ---------- C12: what cannot be applied is ignored ---------- *)

(* a message that is neither getProperties nor a new*Vector does nothing *)
Theorem foreign_kind_ignored d m :
  str_eqb (mk m) (s2l "getProperties") = false -> kind_of_new (mk m) = None ->
  from_client d m = (d, []).
Proof. intros H1 H2. unfold from_client. now rewrite H1, H2. Qed.

Theorem nameless_write_ignored d m k :
  str_eqb (mk m) (s2l "getProperties") = false -> kind_of_new (mk m) = Some k ->
  lookup (s2l "name") (ma m) = None -> from_client d m = (d, []).
Proof. intros H1 H2 H3. unfold from_client. now rewrite H1, H2, H3. Qed.

Lemma on_vec_keep d n (f : grp -> vec -> vec * list outev) (t : grp -> vec -> list outev) :
  (forall g v, In g (d_groups d) -> In v (g_vecs g) -> f g v = (v, t g v)) ->
  on_vec d n f = (d, match find_gv n (d_groups d) with Some (g, v) => t g v | None => [] end).
Proof.
  intros Hf. unfold on_vec. rewrite (upd_vec_keep d (d_groups d) n f t Hf). now rewrite with_groups_id.
Qed.

(* a write naming an unknown property does nothing *)
Theorem unknown_property_ignored d m k n :
  str_eqb (mk m) (s2l "getProperties") = false -> kind_of_new (mk m) = Some k ->
  lookup (s2l "name") (ma m) = Some n -> find_gv n (d_groups d) = None ->
  from_client d m = (d, []).
Proof.
  intros H1 H2 H3 H4. unfold from_client. rewrite H1, H2, H3. unfold on_vec.
  assert (forall gs, find_gv n gs = None ->
            forall f, upd_vec d gs n f = (gs, [], false)) as G.
  { induction gs as [|g gs IH]; intros Hn f; simpl; [reflexivity|].
    unfold find_gv in Hn. cbn [flat_map] in Hn. rewrite find_app, find_map_pair in Hn.
    destruct (find (named n) (g_vecs g)) as [v|] eqn:Fv; [discriminate|]. simpl in Hn.
    assert (upd_vec_in (g_vecs g) n (f g) = (g_vecs g, [], false)) as ->.
    { clear - Fv. induction (g_vecs g) as [|v vs IHv]; simpl in *; [reflexivity|].
      unfold named in Fv at 1. destruct (str_eqb (v_name v) n); [discriminate|]. now rewrite IHv. }
    now rewrite (IH Hn). }
  rewrite (G _ H4). now rewrite with_groups_id.
Qed.

(* a write of the wrong kind for the property it names does nothing *)
Theorem kind_mismatch_ignored d m k n g v :
  str_eqb (mk m) (s2l "getProperties") = false -> kind_of_new (mk m) = Some k ->
  lookup (s2l "name") (ma m) = Some n ->
  (forall g' v', In g' (d_groups d) -> In v' (g_vecs g') -> named n v' = true -> vkind_eqb k (v_kind v') = false) ->
  find_gv n (d_groups d) = Some (g, v) ->
  from_client d m = (d, []).
Proof.
  intros H1 H2 H3 Hk Hf. unfold from_client. rewrite H1, H2, H3. unfold on_vec.
  assert (forall gs, (forall g' v', In g' gs -> In v' (g_vecs g') -> named n v' = true -> vkind_eqb k (v_kind v') = false) ->
            exists ok, upd_vec d gs n (fun g0 v0 => if vkind_eqb k (v_kind v0)
                                                     then apply_children d g0 v0 (match mc m with Some l => l | None => [] end)
                                                     else (v0, [])) = (gs, [], ok)) as G.
  { induction gs as [|g0 gs IH]; intros Hk'; simpl; [eauto|].
    assert (exists ok, upd_vec_in (g_vecs g0) n
              (fun v0 => if vkind_eqb k (v_kind v0) then apply_children d g0 v0 (match mc m with Some l => l | None => [] end) else (v0, []))
              = (g_vecs g0, [], ok)) as [ok Hu].
    { assert (forall v', In v' (g_vecs g0) -> named n v' = true -> vkind_eqb k (v_kind v') = false) as Hk0
        by (intros; eapply Hk'; eauto; now left).
      clear - Hk0. induction (g_vecs g0) as [|v0 vs IHv]; simpl; [eauto|].
      destruct (str_eqb (v_name v0) n) eqn:E.
      - rewrite (Hk0 v0 (or_introl eq_refl) E). eauto.
      - destruct IHv as [ok Hok]; [intros; apply Hk0; auto; now right|]. rewrite Hok. eauto. }
    rewrite Hu. destruct ok; [rewrite with_vecs_id; eauto|].
    destruct (IH ltac:(intros; eapply Hk'; eauto; now right)) as [ok' Hok']. rewrite Hok'. eauto. }
  destruct (G (d_groups d) Hk) as [ok Hok]. rewrite Hok. now rewrite with_groups_id.
Qed.

(* children that cannot be applied - unknown element, no parsable value - are skipped *)
Definition inapplicable (v : vec) (p : part) : Prop :=
  match lookup (s2l "name") (pa p) with
  | Some n => match index_of n (v_elems v) 0 with
              | Some _ => value_of_child (v_kind v) p = None
              | None => True
              end
  | None => True
  end.

Theorem inapplicable_children_skipped d g v ch :
  Forall (inapplicable v) ch -> apply_children d g v ch = (v, []).
Proof.
  unfold apply_children. induction 1 as [|p ch Hp Hch IH]; cbn [fold_left]; [reflexivity|].
  unfold inapplicable in Hp. destruct (lookup (s2l "name") (pa p)) as [n|]; [|exact IH].
  destruct (index_of n (v_elems v) 0) as [i|]; [|exact IH]. now rewrite Hp.
Qed.

(* ---------- frame: a write touches only the property it names ---------- *)
Definition find_vec (n : str) (d : dev) : option vec := option_map snd (find_gv n (d_groups d)).

Lemma publish_set_name d g v : v_name (fst (publish_set d g v)) = v_name v.
Proof.
  unfold publish_set. destruct (vec_on g v); [|reflexivity].
  destruct (read_elems (v_elems v)). reflexivity.
Qed.

Lemma assign_name d g v i x : v_name (fst (assign d g v i x)) = v_name v.
Proof.
  unfold assign. destruct (nth_error (v_elems v) i); [|reflexivity].
  pose proof (publish_set_name d g (with_elems v (store v i x))) as H.
  destruct (publish_set d g (with_elems v (store v i x))). exact H.
Qed.

Lemma set_value_name d g v i x : v_name (fst (set_value d g v i x)) = v_name v.
Proof.
  unfold set_value. destruct (nth_error (v_elems v) i); [|reflexivity].
  destruct (dispatch_event EWrite (e_handlers e) None (Some x)) as [tr veto].
  destruct veto; [reflexivity|]. pose proof (assign_name d g v i x) as H.
  destruct (assign d g v i x). exact H.
Qed.

Lemma apply_children_name d g ch : forall v, v_name (fst (apply_children d g v ch)) = v_name v.
Proof.
  unfold apply_children.
  assert (forall v tr, v_name (fst (fold_left (fun acc p =>
             let '(v', tr) := acc in
             match lookup (s2l "name") (pa p) with
             | Some n => match index_of n (v_elems v') 0 with
                         | Some i => match value_of_child (v_kind v') p with
                                     | Some x => let (v'', tr') := set_value d g v' i x in (v'', tr ++ tr')
                                     | None => acc
                                     end
                         | None => acc
                         end
             | None => acc
             end) ch (v, tr))) = v_name v) as G.
  { induction ch as [|p ch IH]; intros v tr; cbn [fold_left]; [reflexivity|].
    destruct (lookup (s2l "name") (pa p)) as [n|]; [|apply IH].
    destruct (index_of n (v_elems v) 0) as [i|]; [|apply IH].
    destruct (value_of_child (v_kind v) p) as [x|]; [|apply IH].
    pose proof (set_value_name d g v i x) as H. destruct (set_value d g v i x) as [v'' tr'].
    rewrite IH. exact H. }
  intros v. apply G.
Qed.

Lemma upd_vec_in_frame vs n n' (f : vec -> vec * list outev) :
  n' <> n -> (forall v, v_name (fst (f v)) = v_name v) ->
  find (named n') (fst (fst (upd_vec_in vs n f))) = find (named n') vs.
Proof.
  intros Hne Hf. induction vs as [|v vs IH]; simpl; [reflexivity|].
  destruct (str_eqb (v_name v) n) eqn:E.
  - apply str_eqb_spec in E. pose proof (Hf v) as Hn. destruct (f v) as [v' tr]. simpl in *.
    unfold named. rewrite Hn, E.
    assert (str_eqb n n' = false) as -> by (apply str_eqb_neq; congruence). reflexivity.
  - destruct (upd_vec_in vs n f) as [[r' tr] ok]. simpl in *. unfold named at 1 3.
    destruct (str_eqb (v_name v) n'); [reflexivity|exact IH].
Qed.

Lemma upd_vec_frame d gs n n' (f : grp -> vec -> vec * list outev) :
  n' <> n -> (forall g v, v_name (fst (f g v)) = v_name v) ->
  option_map snd (find_gv n' (fst (fst (upd_vec d gs n f)))) = option_map snd (find_gv n' gs).
Proof.
  intros Hne Hf. induction gs as [|g gs IH]; simpl; [reflexivity|].
  pose proof (upd_vec_in_frame (g_vecs g) n n' (f g) Hne (Hf g)) as Hv.
  destruct (upd_vec_in (g_vecs g) n (f g)) as [[vs tr] ok]. simpl in Hv.
  unfold find_gv in *. destruct ok; cbn [fst flat_map].
  - rewrite !find_app, !find_map_pair. cbn [with_vecs g_vecs]. rewrite Hv.
    destruct (find (named n') (g_vecs g)); reflexivity.
  - destruct (upd_vec d gs n f) as [[r' tr'] ok']. cbn [fst flat_map] in *.
    rewrite !find_app, !find_map_pair. destruct (find (named n') (g_vecs g)); [reflexivity|exact IH].
Qed.

(* whatever a client writes - valid, partly valid or hostile - no property other than
   the one it names changes in any way *)
Theorem write_touches_only_the_named_property d m n n' :
  str_eqb (mk m) (s2l "getProperties") = false ->
  lookup (s2l "name") (ma m) = Some n -> n' <> n ->
  find_vec n' (fst (from_client d m)) = find_vec n' d.
Proof.
  intros H1 H2 Hne. unfold from_client. rewrite H1, H2.
  destruct (kind_of_new (mk m)) as [k|]; [|reflexivity].
  unfold find_vec, on_vec.
  pose proof (upd_vec_frame d (d_groups d) n n'
                (fun g v => if vkind_eqb k (v_kind v)
                            then apply_children d g v (match mc m with Some l => l | None => [] end)
                            else (v, [])) Hne) as H.
  destruct (upd_vec d (d_groups d) n _) as [[gs tr] ok]. simpl in *. apply H.
  intros g v. destruct (vkind_eqb k (v_kind v)); [apply apply_children_name|reflexivity].
Qed.
