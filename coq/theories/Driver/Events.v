(* C14: the driver event contract, read off the driver model. *)
From Coq Require Import List NArith ZArith Bool Arith Lia String.
Import ListNotations.
From Indi Require Import Base.Sx Msg.Equality Msg.Model Num.Model Driver.Model.

Definition is_kind (k : evkind) (h : handler) : bool :=
  match h_event h, k with
  | EWrite, EWrite | EChange, EChange | ERead, ERead => true
  | _, _ => false
  end.

(* what one handler contributes when an event of its kind is raised *)
Definition invoke (old new : option value) (h : handler) : outev :=
  if h_coro h then Spawn (h_id h) new else Call (h_id h) old new.

Definition vetoes (h : handler) : bool := is_kind EWrite h && negb (h_coro h) && h_veto h.

Definition ev_step (k : evkind) (old new : option value) (acc : list outev * bool) (h : handler) : list outev * bool :=
  let '(tr, veto) := acc in
  if match h_event h, k with EWrite, EWrite | EChange, EChange => true | _, _ => false end then
    if h_coro h then (tr ++ [Spawn (h_id h) new], veto)
    else (tr ++ [Call (h_id h) old new], veto || h_veto h)
  else acc.

Lemma ev_step_spec k old new tr veto h : k <> ERead ->
  ev_step k old new (tr, veto) h =
  (tr ++ (if is_kind k h then [invoke old new h] else []),
   veto || (is_kind k h && negb (h_coro h) && h_veto h)).
Proof.
  intros Hk. destruct h as [id ev co ve rf]. unfold ev_step, is_kind, invoke. cbn [h_event h_coro h_veto h_id].
  destruct ev, k, co, ve; try congruence; cbn [negb andb]; rewrite ?app_nil_r, ?orb_false_r, ?orb_true_r; reflexivity.
Qed.

Lemma dispatch_event_spec k hs old new : k <> ERead ->
  dispatch_event k hs old new =
  (map (invoke old new) (filter (is_kind k) hs),
   existsb (fun h => is_kind k h && negb (h_coro h) && h_veto h) hs).
Proof.
  intros Hk. unfold dispatch_event. change (fold_left _ hs ([], false)) with (fold_left (ev_step k old new) hs ([], false)).
  assert (forall tr veto,
            fold_left (ev_step k old new) hs (tr, veto) =
            (tr ++ map (invoke old new) (filter (is_kind k) hs),
             veto || existsb (fun h => is_kind k h && negb (h_coro h) && h_veto h) hs)) as G.
  { induction hs as [|h hs IH]; intros tr veto; cbn [fold_left filter map existsb].
    - now rewrite app_nil_r, orb_false_r.
    - rewrite (ev_step_spec k old new tr veto h Hk), IH.
      destruct (is_kind k h); cbn [map app andb]; rewrite <- ?app_assoc, ?app_nil_r, ?orb_assoc; reflexivity. }
  rewrite (G [] false). reflexivity.
Qed.

(* every handler subscribed to the event is invoked exactly once, in attachment order:
   plain functions called with the event's values, coroutine functions spawned *)
Theorem write_handlers_once_each hs x :
  fst (dispatch_event EWrite hs None (Some x)) = map (invoke None (Some x)) (filter (is_kind EWrite) hs).
Proof. rewrite dispatch_event_spec by discriminate. reflexivity. Qed.

Theorem change_handlers_once_each hs old new :
  fst (dispatch_event EChange hs (Some old) (Some new)) = map (invoke (Some old) (Some new)) (filter (is_kind EChange) hs).
Proof. rewrite dispatch_event_spec by discriminate. reflexivity. Qed.

(* reading values never publishes *)
Definition is_publish (o : outev) : bool := match o with Publish _ => true | _ => false end.

Lemma read_elem_no_publish e : forallb (fun o => negb (is_publish o)) (snd (read_elem e)) = true.
Proof.
  unfold read_elem.
  assert (forall hs acc, forallb (fun o => negb (is_publish o)) (snd acc) = true ->
            forallb (fun o => negb (is_publish o))
              (snd (fold_left (fun acc h => let '(e', tr) := acc in
                      match h_event h with
                      | ERead => if h_coro h then (e', tr ++ [Spawn (h_id h) None])
                                 else (match h_refresh h with
                                       | Some v => {| e_key := e_key e'; e_name := e_name e'; e_label := e_label e'; e_enabled := e_enabled e';
                                                      e_value := v; e_fmt := e_fmt e'; e_min := e_min e'; e_max := e_max e'; e_step := e_step e';
                                                      e_handlers := e_handlers e' |}
                                       | None => e'
                                       end, tr ++ [Call (h_id h) None None])
                      | _ => acc
                      end) hs acc)) = true) as G.
  { induction hs as [|h hs IH]; intros [e' tr] H; simpl in *; [exact H|].
    destruct (h_event h); try (apply IH; exact H).
    destruct (h_coro h); apply IH; simpl; rewrite forallb_app, H; reflexivity. }
  apply G. reflexivity.
Qed.

Lemma read_elems_no_publish es : forallb (fun o => negb (is_publish o)) (snd (read_elems es)) = true.
Proof.
  induction es as [|e es IH]; simpl; [reflexivity|].
  destruct (e_enabled e).
  - pose proof (read_elem_no_publish e) as He. destruct (read_elem e) as [e' t1].
    destruct (read_elems es) as [r' t2]. simpl in *. now rewrite forallb_app, He, IH.
  - destruct (read_elems es) as [r' t2]. exact IH.
Qed.

Definition count_publish (tr : list outev) : nat := List.length (filter is_publish tr).

Lemma count_publish_app a b : count_publish (a ++ b) = count_publish a + count_publish b.
Proof. unfold count_publish. now rewrite filter_app, app_length. Qed.

Lemma count_publish_none tr : forallb (fun o => negb (is_publish o)) tr = true -> count_publish tr = 0.
Proof.
  unfold count_publish. induction tr as [|o tr IH]; simpl; [reflexivity|].
  intros H. apply andb_prop in H as [Ho Ht]. destruct (is_publish o); [discriminate|auto].
Qed.

(* publishing an update: plain Read handlers of the listed elements run first (they may
   refresh the values), then exactly one update built from the refreshed values is
   published if the property is enabled - and nothing at all if it is not *)
Theorem publish_set_shape d g v :
  publish_set d g v =
  if vec_on g v then
    let (es, tr) := read_elems (v_elems v) in
    (with_elems v es, tr ++ match set_msg d g (with_elems v es) with Some m => [Publish m] | None => [] end)
  else (v, []).
Proof. reflexivity. Qed.

Theorem publish_set_exactly_one d g v :
  count_publish (snd (publish_set d g v)) = if vec_on g v then 1 else 0.
Proof.
  unfold publish_set. destruct (vec_on g v) eqn:E; [|reflexivity].
  pose proof (read_elems_no_publish (v_elems v)) as H. destruct (read_elems (v_elems v)) as [es tr].
  simpl in *. rewrite count_publish_app, (count_publish_none _ H).
  unfold set_msg. cbn [v_enabled with_elems]. 
  assert (vec_on g (with_elems v es) = true) as -> by (unfold vec_on in *; exact E). reflexivity.
Qed.

Lemma map_invoke_no_publish old new hs : count_publish (map (invoke old new) hs) = 0.
Proof. induction hs as [|h hs IH]; simpl; [reflexivity|]. unfold count_publish in *. unfold invoke at 1. destruct (h_coro h); exact IH. Qed.

(* a driver-side assignment: the element takes the value (through the switch rule),
   one update is published iff the property is enabled, and Change handlers are invoked
   - once each, with old and new value - iff the value actually changed; no Write event *)
Theorem assign_contract d g v i x e :
  nth_error (v_elems v) i = Some e ->
  let v1 := with_elems v (store v i x) in
  let prev := e_value e in
  let cur := match nth_error (v_elems (fst (publish_set d g v1))) i with Some e1 => e_value e1 | None => prev end in
  assign d g v i x =
  (fst (publish_set d g v1),
   snd (publish_set d g v1) ++
   if value_eqb prev cur then [] else map (invoke (Some prev) (Some cur)) (filter (is_kind EChange) (e_handlers e))) /\
  count_publish (snd (assign d g v i x)) = if vec_on g v then 1 else 0.
Proof.
  intros He. cbv zeta. unfold assign. rewrite He.
  pose proof (publish_set_exactly_one d g (with_elems v (store v i x))) as Hc.
  destruct (publish_set d g (with_elems v (store v i x))) as [v2 tr] eqn:Ep. simpl in *.
  split.
  - destruct (value_eqb _ _); [reflexivity|]. now rewrite change_handlers_once_each.
  - rewrite count_publish_app, Hc.
    assert (vec_on g (with_elems v (store v i x)) = vec_on g v) as -> by reflexivity.
    destruct (value_eqb _ _); [|rewrite change_handlers_once_each, map_invoke_no_publish];
      destruct (vec_on g v); reflexivity.
Qed.

(* a client write / set_value(): every Write handler once, before anything changes;
   a veto by a plain handler leaves state and wire untouched; otherwise the assignment
   contract follows *)
Theorem write_contract d g v i x e :
  nth_error (v_elems v) i = Some e ->
  let writes := map (invoke None (Some x)) (filter (is_kind EWrite) (e_handlers e)) in
  set_value d g v i x =
  if existsb vetoes (e_handlers e) then (v, writes)
  else (fst (assign d g v i x), writes ++ snd (assign d g v i x)).
Proof.
  intros He. cbv zeta. unfold set_value. rewrite He.
  rewrite dispatch_event_spec by discriminate.
  assert (existsb (fun h => is_kind EWrite h && negb (h_coro h) && h_veto h) (e_handlers e) = existsb vetoes (e_handlers e)) as -> by reflexivity.
  destruct (existsb vetoes (e_handlers e)); [reflexivity|].
  destruct (assign d g v i x). reflexivity.
Qed.

Theorem vetoed_write_publishes_nothing d g v i x e :
  nth_error (v_elems v) i = Some e -> existsb vetoes (e_handlers e) = true ->
  fst (set_value d g v i x) = v /\ count_publish (snd (set_value d g v i x)) = 0.
Proof.
  intros He Hv. rewrite (write_contract d g v i x e He). cbv zeta. rewrite Hv. simpl.
  split; [reflexivity|apply map_invoke_no_publish].
Qed.
