(* C07, second sentence: messages a driver emits are constructible (wfb), hence read back unchanged. *)
From Coq Require Import List NArith Bool String.
Import ListNotations.
From Indi Require Import Base.Sx Msg.Registry Msg.Equality Msg.Model Msg.Codec Driver.Model Driver.Props
  Generated.RegistryData Generated.RegistryOk.

Lemma del_wf_aux : forall dn vn : str,
  str_eqb dn dn = true -> str_eqb vn vn = true ->
  wfb live_registry {| mk := s2l "delProperty"; ma := [attr "device" dn; attr "name" vn]; mv := None; mc := None |} = true.
Proof.
  intros dn vn H1 H2. vm_compute in H1, H2. vm_compute. rewrite H1. rewrite H2. reflexivity.
Qed.

(* the answer for a disabled property - a delProperty naming it - is constructible whatever
   the device and property names are *)
Lemma del_msg_wf : forall d g v,
  vec_on g v = false -> wfb live_registry (def_msg d g v) = true.
Proof.
  intros d g v H. unfold def_msg. rewrite H. apply del_wf_aux; apply str_eqb_refl.
Qed.

Lemma del_msg_reads_back : forall d g v,
  vec_on g v = false ->
  msg_from_xml live_registry (msg_to_xml (def_msg d g v)) = Some (def_msg d g v).
Proof.
  intros d g v H.
  rewrite (roundtrip_tree live_registry _ (eq_refl : nodup_strb (map ptag (rparts live_registry)) = true) (del_msg_wf d g v H)).
  unfold def_msg. rewrite H. reflexivity.
Qed.
