(* runner entry for the switch model *)
From Coq Require Import List NArith ZArith Bool String.
Import ListNotations.
From Indi Require Import Base.Sx Driver.Switch.

Definition dec_rule (x : sx) : option rule :=
  if is_tag "OneOfMany" x then Some OneOfMany else if is_tag "AtMostOne" x then Some AtMostOne
  else if is_tag "AnyOfMany" x then Some AnyOfMany else None.

Definition dec_sop (x : sx) : option sop :=
  match x with
  | SL [t; i; v] => if is_tag "assign" t then
                      match as_nat i, as_bool v with Some i, Some v => Some (Assign i v) | _, _ => None end
                    else None
  | SL [t; a] =>
      if is_tag "write" t then option_map Write (as_list_of (as_pair as_nat as_bool) a)
      else if is_tag "selected" t then option_map Selected (as_list_of as_nat a)
      else None
  | _ => None
  end.

Fixpoint run_sops (r : rule) (l : svals) (ops : list sop) : list sx :=
  match ops with
  | [] => []
  | o :: ops' => let (l', p) := step r l o in
                 SL [of_list of_bool l'; of_list (of_list of_bool) p] :: run_sops r l' ops'
  end.

(* input: (rule init ops); output: per op (state, published snapshots) *)
Definition run_switch (x : sx) : sx :=
  match x with
  | SL [r; init; ops] =>
      match dec_rule r, as_list_of as_bool init, as_list_of dec_sop ops with
      | Some r, Some init, Some ops => SL (run_sops r init ops)
      | _, _, _ => bad_input
      end
  | _ => bad_input
  end.
