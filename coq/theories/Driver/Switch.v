(* C09: model of the switch-rule logic in
   indi/device/properties/instance/{vectors,elements}.py
   (Switch.check_value -> SwitchVector.apply_rule -> store -> publish),
   client writes, bool_value and selected_value(s) setters. *)
From Coq Require Import List Arith Bool Lia.
Import ListNotations.

Inductive rule := OneOfMany | AtMostOne | AnyOfMany.

(* a switch vector's values in element order; true = On *)
Definition svals := list bool.

Fixpoint set_nth (i : nat) (v : bool) (l : svals) : svals :=
  match l, i with
  | [], _ => []
  | _ :: t, O => v :: t
  | h :: t, S i' => h :: set_nth i' v t
  end.

(* On at i, Off everywhere else *)
Fixpoint exclusive_on (i : nat) (l : svals) : svals :=
  match l, i with
  | [], _ => []
  | _ :: t, O => true :: map (fun _ => false) t
  | _ :: t, S i' => false :: exclusive_on i' t
  end.

(* some switch other than i is On *)
Fixpoint other_on (i : nat) (l : svals) : bool :=
  match l, i with
  | [], _ => false
  | _ :: t, O => existsb (fun b => b) t
  | h :: t, S i' => h || other_on i' t
  end.

(* element i := v, through check_value/apply_rule; an unknown element is ignored *)
Definition set_one (r : rule) (i : nat) (v : bool) (l : svals) : svals :=
  if i <? length l then
    if v then match r with AnyOfMany => set_nth i true l | _ => exclusive_on i l end
    else match r with
         | OneOfMany => if other_on i l then set_nth i false l else set_nth i true l
         | _ => set_nth i false l
         end
  else l.

Inductive sop :=
| Assign (i : nat) (v : bool)            (* element.value = / bool_value = / one-child client write *)
| Write (ch : list (nat * bool))         (* newSwitchVector naming several switches, in order *)
| Selected (sel : list nat).             (* selected_values = [...] ; selected_value = x is Selected [x] *)

(* every assignment publishes the vector's state (setSwitchVector) *)
Fixpoint write_loop (r : rule) (ch : list (nat * bool)) (l : svals) (pubs : list svals) : svals * list svals :=
  match ch with
  | [] => (l, pubs)
  | (i, v) :: ch' =>
      if i <? length l then let l' := set_one r i v l in write_loop r ch' l' (pubs ++ [l'])
      else write_loop r ch' l pubs
  end.

Fixpoint sel_loop (r : rule) (sel : list nat) (js : list nat) (l : svals) (pubs : list svals) : svals * list svals :=
  match js with
  | [] => (l, pubs)
  | j :: js' =>
      let want := existsb (Nat.eqb j) sel in
      if Bool.eqb (nth j l false) want then sel_loop r sel js' l pubs
      else let l' := set_one r j want l in sel_loop r sel js' l' (pubs ++ [l'])
  end.

Definition step (r : rule) (l : svals) (o : sop) : svals * list svals :=
  match o with
  | Assign i v => if i <? length l then let l' := set_one r i v l in (l', [l']) else (l, [])
  | Write ch => write_loop r ch l []
  | Selected sel => sel_loop r sel (seq 0 (length l)) l []
  end.

Definition count_on (l : svals) : nat := length (filter (fun b => b) l).
Definition b2n (b : bool) : nat := if b then 1 else 0.

(* ---------- arithmetic of one assignment ---------- *)

Lemma set_nth_length i v l : length (set_nth i v l) = length l.
Proof. revert i. induction l as [|h t IH]; intros [|i]; simpl; auto. Qed.

Lemma exclusive_on_length i l : length (exclusive_on i l) = length l.
Proof. revert i. induction l as [|h t IH]; intros [|i]; simpl; auto. now rewrite map_length. Qed.

Lemma set_one_length r i v l : length (set_one r i v l) = length l.
Proof.
  unfold set_one. destruct (i <? length l); [|reflexivity].
  destruct v, r; try destruct (other_on i l); auto using set_nth_length, exclusive_on_length.
Qed.

Lemma count_all_off (t : svals) : count_on (map (fun _ => false) t) = 0.
Proof. induction t; simpl; auto. Qed.

Lemma count_cons b t : count_on (b :: t) = b2n b + count_on t.
Proof. unfold count_on. simpl. destruct b; reflexivity. Qed.

Lemma count_exclusive i l : i < length l -> count_on (exclusive_on i l) = 1.
Proof.
  revert i. induction l as [|h t IH]; intros [|i] H; simpl in *; try lia.
  - rewrite count_cons, count_all_off. reflexivity.
  - rewrite count_cons. simpl. apply IH. lia.
Qed.

Lemma count_set_nth i v l :
  i < length l -> count_on (set_nth i v l) = b2n v + count_on (set_nth i false l).
Proof.
  revert i. induction l as [|h t IH]; intros [|i] H; simpl in *; try lia.
  - rewrite !count_cons. simpl. lia.
  - rewrite !count_cons. rewrite IH by lia. lia.
Qed.

Lemma count_split i l :
  i < length l -> count_on l = b2n (nth i l false) + count_on (set_nth i false l).
Proof.
  revert i. induction l as [|h t IH]; intros [|i] H; simpl in *; try lia.
  - rewrite !count_cons. simpl. lia.
  - rewrite !count_cons. rewrite (IH i) by lia. lia.
Qed.

Lemma existsb_count (t : svals) : existsb (fun b => b) t = true <-> 0 < count_on t.
Proof.
  induction t as [|h t IH]; simpl; [unfold count_on; simpl; split; [discriminate|lia]|].
  rewrite count_cons. destruct h; simpl; [split; [lia|reflexivity]|exact IH].
Qed.

Lemma other_on_count i l :
  i < length l -> (other_on i l = true <-> 0 < count_on (set_nth i false l)).
Proof.
  revert i. induction l as [|h t IH]; intros [|i] H; simpl in *; try lia.
  - rewrite count_cons. simpl. apply existsb_count.
  - rewrite count_cons. destruct h; simpl; [split; [lia|reflexivity]|]. apply IH. lia.
Qed.

Lemma nth_set_nth_same i v l : i < length l -> nth i (set_nth i v l) false = v.
Proof. revert i. induction l as [|h t IH]; intros [|i] H; simpl in *; try lia; auto. apply IH. lia. Qed.

Lemma nth_set_nth_other i j v l : i <> j -> nth j (set_nth i v l) false = nth j l false.
Proof.
  revert i j. induction l as [|h t IH]; intros [|i] [|j] H; simpl; auto; try congruence.
Qed.

Lemma nth_exclusive_same i l : i < length l -> nth i (exclusive_on i l) false = true.
Proof. revert i. induction l as [|h t IH]; intros [|i] H; simpl in *; try lia; auto. apply IH. lia. Qed.

(* ---------- the rules, one assignment ---------- *)

Theorem on_stays_on r i l : i < length l -> nth i (set_one r i true l) false = true.
Proof.
  intros H. unfold set_one. apply Nat.ltb_lt in H as Hb. rewrite Hb.
  destruct r; auto using nth_exclusive_same, nth_set_nth_same.
Qed.

Theorem atmostone_step i v l : count_on l <= 1 -> count_on (set_one AtMostOne i v l) <= 1.
Proof.
  intros Hc. unfold set_one. destruct (i <? length l) eqn:Hb; [|exact Hc].
  apply Nat.ltb_lt in Hb. destruct v.
  - rewrite count_exclusive; auto.
  - pose proof (count_split i l Hb). lia.
Qed.

Theorem oneofmany_step_le i v l : count_on l <= 1 -> count_on (set_one OneOfMany i v l) <= 1.
Proof.
  intros Hc. unfold set_one. destruct (i <? length l) eqn:Hb; [|exact Hc].
  apply Nat.ltb_lt in Hb. destruct v.
  - rewrite count_exclusive; auto.
  - destruct (other_on i l) eqn:O.
    + pose proof (count_split i l Hb). lia.
    + rewrite count_set_nth by assumption. simpl.
      destruct (count_on (set_nth i false l)) eqn:Cn; [lia|]. exfalso.
      assert (other_on i l = true) by (apply (other_on_count i l Hb); lia). congruence.
Qed.

Theorem oneofmany_step_eq i v l : count_on l = 1 -> count_on (set_one OneOfMany i v l) = 1.
Proof.
  intros Hc. unfold set_one. destruct (i <? length l) eqn:Hb; [|exact Hc].
  apply Nat.ltb_lt in Hb. destruct v.
  - now apply count_exclusive.
  - destruct (other_on i l) eqn:O.
    + pose proof (count_split i l Hb).
      assert (0 < count_on (set_nth i false l)) by (now apply (other_on_count i l Hb)). lia.
    + rewrite count_set_nth by assumption. simpl.
      destruct (count_on (set_nth i false l)) eqn:Cn; [lia|]. exfalso.
      assert (other_on i l = true) by (apply (other_on_count i l Hb); lia). congruence.
Qed.

(* OneOfMany: once a switch was turned On there is exactly one On *)
Theorem oneofmany_on_gives_one i l : i < length l -> count_on (set_one OneOfMany i true l) = 1.
Proof. intros H. unfold set_one. apply Nat.ltb_lt in H as Hb. rewrite Hb. now apply count_exclusive. Qed.

Theorem anyofmany_frame i j v l : i <> j -> nth j (set_one AnyOfMany i v l) false = nth j l false.
Proof.
  intros H. unfold set_one. destruct (i <? length l); [|reflexivity].
  destruct v; now apply nth_set_nth_other.
Qed.

Theorem anyofmany_sets i v l : i < length l -> nth i (set_one AnyOfMany i v l) false = v.
Proof.
  intros H. unfold set_one. apply Nat.ltb_lt in H as Hb. rewrite Hb.
  destruct v; now apply nth_set_nth_same.
Qed.

(* ---------- every operation, every published update ---------- *)

Definition Inv (r : rule) (l : svals) : Prop :=
  match r with
  | OneOfMany => count_on l <= 1     (* a OneOfMany vector may start with none On *)
  | AtMostOne => count_on l <= 1
  | AnyOfMany => True
  end.

(* the stronger OneOfMany invariant once some switch is On *)
Definition Inv1 (r : rule) (l : svals) : Prop :=
  match r with OneOfMany => count_on l = 1 | _ => Inv r l end.

Lemma set_one_inv r i v l : Inv r l -> Inv r (set_one r i v l).
Proof. destruct r; simpl; auto using atmostone_step, oneofmany_step_le. Qed.

Lemma set_one_inv1 r i v l : Inv1 r l -> Inv1 r (set_one r i v l).
Proof. destruct r; simpl; auto using atmostone_step, oneofmany_step_eq. Qed.

Section Loops.
Variable P : svals -> Prop.
Variable r : rule.
Hypothesis P_step : forall i v l, P l -> P (set_one r i v l).

Lemma write_loop_inv ch : forall l pubs,
  P l -> Forall P pubs ->
  P (fst (write_loop r ch l pubs)) /\ Forall P (snd (write_loop r ch l pubs)).
Proof.
  induction ch as [|[i v] ch IH]; intros l pubs Hl Hp; simpl; [auto|].
  destruct (i <? length l); [|auto].
  apply IH; [auto|]. apply Forall_app. split; [assumption|]. constructor; auto.
Qed.

Lemma sel_loop_inv sel js : forall l pubs,
  P l -> Forall P pubs ->
  P (fst (sel_loop r sel js l pubs)) /\ Forall P (snd (sel_loop r sel js l pubs)).
Proof.
  induction js as [|j js IH]; intros l pubs Hl Hp; simpl; [auto|].
  destruct (Bool.eqb (nth j l false) (existsb (Nat.eqb j) sel)); [auto|].
  apply IH; [auto|]. apply Forall_app. split; [assumption|]. constructor; auto.
Qed.

Lemma step_inv l o : P l -> P (fst (step r l o)) /\ Forall P (snd (step r l o)).
Proof.
  intros Hl. destruct o as [i v|ch|sel]; simpl.
  - destruct (i <? length l); simpl; [|auto]. split; [auto|]. constructor; auto.
  - apply write_loop_inv; auto.
  - apply sel_loop_inv; auto.
Qed.
End Loops.

(* all states and all published updates along any operation sequence *)
Fixpoint run (r : rule) (l : svals) (ops : list sop) : svals * list svals :=
  match ops with
  | [] => (l, [])
  | o :: ops' => let (l', p) := step r l o in let (l'', p') := run r l' ops' in (l'', p ++ p')
  end.

Theorem run_inv r ops : forall l,
  Inv r l -> Inv r (fst (run r l ops)) /\ Forall (Inv r) (snd (run r l ops)).
Proof.
  induction ops as [|o ops IH]; intros l Hl; simpl; [auto|].
  pose proof (step_inv (Inv r) r (fun i v l => set_one_inv r i v l) l o Hl) as [H1 H2].
  destruct (step r l o) as [l' p]. simpl in *.
  specialize (IH l' H1). destruct (run r l' ops) as [l'' p']. simpl in *.
  destruct IH as [I1 I2]. split; [assumption|]. apply Forall_app. auto.
Qed.

Theorem run_inv1 r ops : forall l,
  Inv1 r l -> Inv1 r (fst (run r l ops)) /\ Forall (Inv1 r) (snd (run r l ops)).
Proof.
  induction ops as [|o ops IH]; intros l Hl; simpl; [auto|].
  pose proof (step_inv (Inv1 r) r (fun i v l => set_one_inv1 r i v l) l o Hl) as [H1 H2].
  destruct (step r l o) as [l' p]. simpl in *.
  specialize (IH l' H1). destruct (run r l' ops) as [l'' p']. simpl in *.
  destruct IH as [I1 I2]. split; [assumption|]. apply Forall_app. auto.
Qed.
