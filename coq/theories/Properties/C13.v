(* C13 - The parser accepts only protocol-conformant messages. Statements only. *)
From Coq Require Import List NArith Bool String.
Import ListNotations.
From Indi Require Import Base.Sx Msg.Registry Msg.Equality Msg.Model Msg.Conform Xml.Lex
  Generated.RegistryData Generated.RegistryOk.

(* For EVERY XML element (any tag, attributes, text, children): parsing fails or
   yields a message that satisfies the protocol table of Msg/Conform.v
   (spec_msgs / spec_parts / spec_vocabs, written from the INDI DTD): constrained
   attributes and values are vocabulary members, required attributes are present,
   children are of the kind the vector requires, numbers have number syntax. *)
Theorem accepted_messages_are_conformant : forall t m,
  msg_from_xml live_registry t = Some m -> conformant m = true.
Proof. intros t m. exact (from_xml_conformant live_registry t m live_ok_c13). Qed.
Print Assumptions accepted_messages_are_conformant.

Theorem accepted_parts_are_conformant : forall t p,
  part_from_xml live_registry t = Some p -> part_conformant p = true.
Proof. intros t p. exact (part_from_xml_conformant live_registry t p live_ok_c13). Qed.
Print Assumptions accepted_parts_are_conformant.

(* the classification of every checked field (vocabulary / number / none) that the
   theorem relies on agrees with every constructor decision recorded by the
   translator's probes (each vocabulary word, wrong case, "", foreign words,
   "indi.message.const", "__main__", number and non-number spellings, None) *)
Theorem live_checks_behave_as_classified : probes_ok live_registry = true.
Proof. exact live_probes_ok. Qed.
Print Assumptions live_checks_behave_as_classified.

(* non-vacuity: the parser accepts something, and rejects a foreign state *)
Example c13_nonvacuous :
  let t st := Node (s2l "setTextVector")
                   [(s2l "device", s2l "d"); (s2l "name", s2l "n"); (s2l "state", s2l st)] []
                   [Node (s2l "oneText") [(s2l "name", s2l "e")] (s2l "hi") []] in
  (exists m, msg_from_xml live_registry (t "Ok"%string) = Some m) /\
  msg_from_xml live_registry (t "indi.message.const"%string) = None.
Proof. split; [eexists|]; vm_compute; reflexivity. Qed.
