(* C04 - Client messages reach exactly the addressed devices. Statements only. *)
From Coq Require Import List NArith Bool String.
Import ListNotations.
From Indi Require Import Base.Sx Router.Model Router.Props Msg.Registry Msg.RegOk
  Generated.RegistryData Generated.RegistryOk.

(* In every router state and for every message and sender: a device receives the
   message iff the message is client-originated, the device is registered, is
   not the sender, and accepts the message's device name. *)
Theorem to_device_exactly_the_addressed : forall s m sender d,
  In (ToDev d) (snd (process s m sender)) <->
  r_from_client m = true /\ sender <> Some d /\
  exists a, In (d, a) (devices s) /\ accepts a (r_dev m) = true.
Proof. exact to_device_iff. Qed.
Print Assumptions to_device_exactly_the_addressed.

(* ... and exactly once (no duplicate delivery at all, to devices or clients),
   whenever no endpoint is registered twice. *)
Theorem each_delivery_once : forall s m sender,
  NoDup (map fst (devices s)) -> NoDup (clients s) ->
  NoDup (snd (process s m sender)).
Proof. exact deliveries_nodup. Qed.
Print Assumptions each_delivery_once.

(* no named device: every device accepts *)
Theorem unnamed_reaches_all : forall a, accepts a None = true.
Proof. intros [n|]; reflexivity. Qed.
Print Assumptions unnamed_reaches_all.

Theorem never_handed_back_to_sender : forall s m sender e,
  sender = Some e ->
  ~ In (ToDev e) (snd (process s m sender)) /\ ~ In (ToCl e) (snd (process s m sender)).
Proof. exact never_back_to_sender. Qed.
Print Assumptions never_handed_back_to_sender.

(* a message that is not device-originated is relayed to no client *)
Theorem device_bound_never_relayed : forall s m sender c,
  r_from_device m = false -> ~ In (ToCl c) (snd (process s m sender)).
Proof. exact device_bound_not_relayed. Qed.
Print Assumptions device_bound_never_relayed.

(* the live message classes carry the protocol's direction flags: new*Vector,
   enableBLOB, pingReply are not device-originated; getProperties is the only
   kind with both flags *)
Theorem live_direction_flags : forall t c,
  find_mclass live_registry t = Some c ->
  spec_flag_of (ctag c) = Some (cclient c, cdevice c).
Proof. intros t c. exact (reg_ok_router_flags live_registry t c live_ok_router). Qed.
Print Assumptions live_direction_flags.

Theorem only_getProperties_goes_both_ways :
  forallb (fun x => let '(t, c, d) := x in
                    Bool.eqb (c && d) (String.eqb t "getProperties")) spec_flags = true.
Proof. vm_compute. reflexivity. Qed.
Print Assumptions only_getProperties_goes_both_ways.

(* histories in which an endpoint is registered only while unregistered keep
   the client list duplicate-free *)
Theorem histories_keep_clients_unique : forall h, wf_rev h -> NoDup (clients (run_rev h)).
Proof. exact clients_nodup. Qed.
Print Assumptions histories_keep_clients_unique.

Example c04_nonvacuous :
  let s := fst (step (fst (step init (RegDev 1%N (AccNamed [65%N])))) (RegDev 2%N AccAll)) in
  let m := {| r_from_client := true; r_from_device := false; r_enable := None; r_blob := false; r_dev := Some [66%N] |} in
  snd (process s m (Some 7%N)) = [ToDev 2%N].
Proof. vm_compute. reflexivity. Qed.
