(* C17: waiting for an event returns the first match or times out, whatever the timing.
   Model: Async/Wait.v (the mechanism of BaseClient.waitforevent on a clock of instants;
   the environment orders whatever happens within an instant).  "ended n w" is the state
   of a wait when instant n has ended; run_ended gives it for every wait of every schedule. *)
From Coq Require Import List NArith Bool.
Import ListNotations.
From Indi Require Import Base.Sx Msg.Equality Client.Model Async.Wait Async.WaitProof.
Local Open Scope N_scope.

(* every wait, after any number of instants scheduled in any order, satisfies the invariants *)
Theorem every_wait_of_every_schedule sched o :
  Forall (ended (N.of_nat (List.length sched))) (run (sched ++ [o])).
Proof. exact (run_ended sched o). Qed.
Print Assumptions every_wait_of_every_schedule.

(* the full statement: with no matching event exactly at the timeout instant, the outcome of
   the wait is a function of the history alone: the first matching event (fm) and its instant
   if that is before the deadline, otherwise a timeout at the deadline instant once that
   instant has passed, otherwise still pending *)
Theorem wait_outcome n w :
  ended n w -> (forall te e x, fm w = Some (te, e) -> dl w = Some x -> te <> x) ->
  outcome_of w = spec_outcome n w.
Proof. exact (outcome_is_spec n w). Qed.
Print Assumptions wait_outcome.

(* ties included: never both, never neither, each only for its reason *)
Theorem completed_by_exactly_one_cause n w td o :
  ended n w -> outcome_of w = Some (td, o) ->
  match o with
  | OEvent e => fm w = Some (td, e) /\ timed_ (w_dyn w) = false /\ (forall x, dl w = Some x -> td <= x)
  | OTimeout => dl w = Some td /\ event_ (w_dyn w) = None /\ (forall te e, fm w = Some (te, e) -> td <= te)
  | ONothing => False
  end.
Proof. exact (outcome_exclusive n w td o). Qed.
Print Assumptions completed_by_exactly_one_cause.

Theorem polling_at_delay_and_interval_until_completion n w dly i :
  ended n w -> ws_poll (w_spec w) = Some (dly, i) ->
  exists k, polls_ (w_dyn w) = ticks (w_start w + dly) i k /\
            Forall (fun p => p <= n) (polls_ (w_dyn w)) /\
            (done_ (w_dyn w) = None -> n < w_start w + dly + N.of_nat k * i) /\
            (forall td, done_ (w_dyn w) = Some td ->
                        Forall (fun p => p <= td) (polls_ (w_dyn w)) /\ td <= w_start w + dly + N.of_nat k * i).
Proof. exact (polls_spec n w dly i). Qed.
Print Assumptions polling_at_delay_and_interval_until_completion.

Theorem no_polling_when_polling_is_off n w : ended n w -> ws_poll (w_spec w) = None -> polls_ (w_dyn w) = [].
Proof. exact (no_polling_when_disabled n w). Qed.
Print Assumptions no_polling_when_polling_is_off.

Theorem callback_registered_iff_still_waiting n w :
  ended n w -> reg_ (w_dyn w) = match done_ (w_dyn w) with Some _ => false | None => true end.
Proof. exact (callback_iff_pending n w). Qed.
Print Assumptions callback_registered_iff_still_waiting.

(* concurrent waits do not influence each other *)
Theorem concurrent_waits_are_independent t ws it :
  (forall s, it <> IStart s) -> do_item t ws it = map (act t it) ws.
Proof. exact (items_act_on_each_wait_alone t ws it). Qed.
Print Assumptions concurrent_waits_are_independent.

Theorem a_new_wait_leaves_the_others t ws s : firstn (List.length ws) (do_item t ws (IStart s)) = ws.
Proof. exact (start_leaves_the_others t ws s). Qed.
Print Assumptions a_new_wait_leaves_the_others.

(* the history the statements above speak about is exactly what passed trigger_event *)
Theorem history_is_what_was_delivered t it w :
  all_ (w_dyn (act t it w)) = all_ (w_dyn w) ++ match it with IEv e => [(t, e)] | _ => [] end.
Proof. exact (history_recorded t it w). Qed.
Print Assumptions history_is_what_was_delivered.
