(* C03 - Serialize-then-parse is the identity on protocol messages. Statements only. *)
From Coq Require Import List NArith Bool String.
Import ListNotations.
From Indi Require Import Base.Sx Msg.Registry Msg.Equality Msg.Model Msg.Codec Msg.Conform Xml.Lex Xml.Print Xml.RoundTrip
  Generated.RegistryData Generated.RegistryOk.

Lemma live_part_tags_unique : nodup_strb (map ptag (rparts live_registry)) = true.
Proof. vm_compute. reflexivity. Qed.

(* Every message object the live constructors can produce (wfb: any kind, any
   subset of optional attributes, any number of children, any text that survives
   strip()) is mapped by to_xml to an element that from_xml maps back to the same
   kind, attributes, children in order and values - empty text becoming absent text. *)
Theorem element_roundtrip : forall m,
  wfb live_registry m = true ->
  msg_from_xml live_registry (msg_to_xml m) = Some (norm_msg m).
Proof. intros m. exact (roundtrip_tree live_registry m live_part_tags_unique). Qed.
Print Assumptions element_roundtrip.

(* serialising the parsed message again gives the same element, hence the same bytes *)
Theorem reserialisation_is_identical : forall m, msg_to_xml (norm_msg m) = msg_to_xml m.
Proof. exact reserialize_tree. Qed.
Print Assumptions reserialisation_is_identical.

(* the XML layer: printing a tree and parsing the text gives the tree back, for every tree that can be printed
   (names are XML names, attribute names distinct, characters XML can carry, text without carriage return) *)
Theorem xml_print_then_parse_is_identity : forall t, tree_okb t = true -> parse (print_doc t) = (0%N, Some t).
Proof. exact parse_print_b. Qed.
Print Assumptions xml_print_then_parse_is_identity.

(* string level: the bytes to_string produces are read back by from_string as the same message
   (empty text = absent text), and serialising that again gives the same bytes *)
Theorem string_roundtrip : forall m,
  wfb live_registry m = true -> printable m = true ->
  from_string live_registry (to_string m) = Some (norm_msg m) /\
  to_string (norm_msg m) = to_string m.
Proof. intros m. exact (Msg.Codec.string_roundtrip live_registry m live_part_tags_unique). Qed.
Print Assumptions string_roundtrip.

(* non-vacuity: a plain <message> notice and a vector with two children are wfb,
   and their documents parse back (computed through the concrete XML model) *)
Example c03_nonvacuous :
  let note := {| mk := s2l "message"; ma := [(s2l "device", s2l "d"); (s2l "message", [60; 233; 128512]%N)]; mv := None; mc := None |} in
  let vec := {| mk := s2l "newTextVector"; ma := [(s2l "device", s2l "d"); (s2l "name", s2l "n")]; mv := None;
                mc := Some [ {| pk := s2l "oneText"; pa := [(s2l "name", s2l "a")]; pv := Some (s2l "x > y") |};
                             {| pk := s2l "oneText"; pa := [(s2l "name", s2l "b")]; pv := Some [] |} ] |} in
  wfb live_registry note = true /\ wfb live_registry vec = true /\
  from_string live_registry (to_string note) = Some (norm_msg note) /\
  from_string live_registry (to_string vec) = Some (norm_msg vec).
Proof. repeat split; vm_compute; reflexivity. Qed.
