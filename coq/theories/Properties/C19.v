(* C19 - Outbound messages are whole and in order under every I/O schedule.
   Statements only.  The theorems are about Async/Send.v, a model of the asyncio runtime
   as the transports use it (FIFO ready queue, FIFO-fair Lock, environment-chosen I/O
   completion); that model is validated against the real event loop by exhaustive
   schedule exploration on every run, not verified.  A message is written by one write
   call, so it is whole by construction; the theorems are about order and isolation. *)
From Coq Require Import List NArith Bool.
Import ListNotations.
From Indi Require Import Async.Send Async.SendProof.

(* For EVERY schedule - any interleaving of routing, loop steps and I/O completions,
   any number of connections and messages, TCP-style or TTY-style - what has reached a
   connection's stream is a message-boundary prefix of what was routed to it, in order. *)
Theorem stream_is_ordered_prefix_of_routed : forall is_tty schedule c,
  exists rest,
    routed (run_moves (init is_tty) schedule) c =
    out (cs (run_moves (init is_tty) schedule) c) ++ rest.
Proof. exact out_is_prefix_of_routed. Qed.
Print Assumptions stream_is_ordered_prefix_of_routed.

(* ... and it is all of it once nothing is left to run and nobody holds the lock *)
Theorem everything_routed_is_eventually_out : forall is_tty schedule c,
  let s := run_moves (init is_tty) schedule in
  ready s = [] -> hold (cs s c) = None -> out (cs s c) = routed s c.
Proof. exact all_out_when_quiet. Qed.
Print Assumptions everything_routed_is_eventually_out.

(* A slow or stalled connection delays only itself: a task changes nothing but its own
   connection's state, what it does there depends on that state alone, and completing
   (or never completing) another connection's I/O does not touch it. *)
Theorem a_task_touches_only_its_own_connection : forall s t p rest c,
  c <> t_conn t -> cs (run_task s t p rest) c = cs s c.
Proof. exact task_touches_only_its_connection. Qed.
Print Assumptions a_task_touches_only_its_own_connection.

Theorem a_task_depends_only_on_its_own_connection : forall s1 s2 t p r1 r2,
  cs s1 (t_conn t) = cs s2 (t_conn t) -> tty s1 (t_conn t) = tty s2 (t_conn t) ->
  cs (run_task s1 t p r1) (t_conn t) = cs (run_task s2 t p r2) (t_conn t).
Proof. exact task_outcome_is_local. Qed.
Print Assumptions a_task_depends_only_on_its_own_connection.

Theorem io_completion_touches_only_its_connection : forall s c0 c,
  c <> c0 -> cs (step s (Complete c0)) c = cs s c.
Proof. exact completion_touches_only_its_connection. Qed.
Print Assumptions io_completion_touches_only_its_connection.

(* non-vacuity: three messages, the drain of the first completing late *)
Example c19_nonvacuous :
  let s := run_moves (init (fun _ => false))
             [Route 0 1; Route 0 2; Run; Run; Route 0 3; Complete 0; Run; Run; Run; Complete 0; Run; Run; Complete 0; Run]%N in
  out (cs s 0%N) = [1; 2; 3]%N /\ ready s = [].
Proof. split; vm_compute; reflexivity. Qed.
