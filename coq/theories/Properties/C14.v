(* C14 - Driver event contract: Write, then default update and publication, then Change.
   Statements only; the trace alphabet is Call (plain handler invoked, with the event's
   old/new values), Spawn (coroutine handler scheduled as a task), Publish (message sent). *)
From Coq Require Import List NArith Bool Arith.
Import ListNotations.
From Indi Require Import Base.Sx Msg.Equality Driver.Model Driver.Events.

(* a client write / set_value(x): every Write handler of the element exactly once, in
   attachment order, plain ones called with the requested value before anything else
   happens, coroutine ones spawned; if a plain one vetoes: state and wire untouched;
   otherwise what follows is exactly a driver-side assignment *)
Theorem write_then_default : forall d g v i x e,
  nth_error (v_elems v) i = Some e ->
  let writes := map (invoke None (Some x)) (filter (is_kind EWrite) (e_handlers e)) in
  set_value d g v i x =
  if existsb vetoes (e_handlers e) then (v, writes)
  else (fst (assign d g v i x), writes ++ snd (assign d g v i x)).
Proof. exact write_contract. Qed.
Print Assumptions write_then_default.

Theorem vetoed_write_changes_and_publishes_nothing : forall d g v i x e,
  nth_error (v_elems v) i = Some e -> existsb vetoes (e_handlers e) = true ->
  fst (set_value d g v i x) = v /\ count_publish (snd (set_value d g v i x)) = 0.
Proof. exact vetoed_write_publishes_nothing. Qed.
Print Assumptions vetoed_write_changes_and_publishes_nothing.

(* a driver-side assignment (no Write event): the element takes the value, exactly one
   update is published iff the property is enabled, and Change handlers are invoked once
   each with (old, new) iff the value actually changed *)
Theorem assignment_publishes_once_then_change : forall d g v i x e,
  nth_error (v_elems v) i = Some e ->
  let v1 := with_elems v (store v i x) in
  let prev := e_value e in
  let cur := match nth_error (v_elems (fst (publish_set d g v1))) i with Some e1 => e_value e1 | None => prev end in
  assign d g v i x =
  (fst (publish_set d g v1),
   snd (publish_set d g v1) ++
   if value_eqb prev cur then [] else map (invoke (Some prev) (Some cur)) (filter (is_kind EChange) (e_handlers e))) /\
  count_publish (snd (assign d g v i x)) = if vec_on g v then 1 else 0.
Proof. exact assign_contract. Qed.
Print Assumptions assignment_publishes_once_then_change.

(* plain Read handlers run before a value is published, so that they can refresh it:
   the update is built from the elements as the Read handlers left them *)
Theorem read_handlers_run_before_publication : forall d g v,
  publish_set d g v =
  if vec_on g v then
    let (es, tr) := read_elems (v_elems v) in
    (with_elems v es, tr ++ match set_msg d g (with_elems v es) with Some m => [Publish m] | None => [] end)
  else (v, []).
Proof. exact publish_set_shape. Qed.
Print Assumptions read_handlers_run_before_publication.

Theorem reading_never_publishes : forall es, forallb (fun o => negb (is_publish o)) (snd (read_elems es)) = true.
Proof. exact read_elems_no_publish. Qed.
Print Assumptions reading_never_publishes.
