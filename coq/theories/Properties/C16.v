(* C16 - Client change events are complete and exact.  Statements only. *)
From Coq Require Import List NArith Bool String.
Import ListNotations.
From Indi Require Import Base.Sx Msg.Equality Driver.Model Client.Model Client.Props Client.Events Client.StateChain.

(* every registered callback is invoked exactly for the events that match its device /
   property / element / event-type filter, in order; log_of i = what callback i saw *)
Theorem each_callback_sees_exactly_its_matching_events : forall i cbs evs,
  NoDup (map cb_id cbs) ->
  log_of i (deliver cbs evs) =
  match find (fun cb => N.eqb (cb_id cb) i) cbs with
  | Some cb => filter (accepts cb) evs
  | None => []
  end.
Proof. exact callback_log_exact. Qed.
Print Assumptions each_callback_sees_exactly_its_matching_events.

(* never after it has been removed *)
Theorem removed_callback_is_gone : forall c i, ~ In i (map cb_id (c_cbs (fst (fst (cstep c (RmId i)))))).
Proof. exact removed_by_id_is_gone. Qed.
Print Assumptions removed_callback_is_gone.

Theorem unregistered_callback_is_never_invoked : forall i cbs evs,
  NoDup (map cb_id cbs) -> ~ In i (map cb_id cbs) -> log_of i (deliver cbs evs) = [].
Proof. exact unregistered_is_never_invoked. Qed.
Print Assumptions unregistered_callback_is_never_invoked.

(* For EVERY stream of server messages, starting from an empty client: at the end the
   mirror holds, for every element, exactly the new value of the latest value event about
   it (an application that only listens never holds a stale value), and every value event
   continues the chain: its old value is the previous event's new value (nothing at a
   definition), and an update event is raised only for a real change. *)
Theorem value_events_form_unbroken_chains : forall ms,
  let '(m, log) := run_stream [] [] ms in chain_inv m log /\ chained log.
Proof. exact chains_hold_for_every_stream. Qed.
Print Assumptions value_events_form_unbroken_chains.

Theorem one_message_keeps_the_chains : forall m log mg,
  wf_mirror m -> chain_inv m log -> chained log ->
  chain_inv (mirror_of (apply m mg)) (log ++ events_of (apply m mg)) /\ chained (log ++ events_of (apply m mg)).
Proof. exact apply_preserves_chain. Qed.
Print Assumptions one_message_keeps_the_chains.

(* The same for property states: for EVERY stream, at the end the mirror holds for every
   property exactly the state the latest state event about it announced, and every state
   event continues the chain: a definition starts it (old state absent), an update event's
   old state is the previous event's new state and differs from its new state. *)
Theorem state_events_form_unbroken_chains : forall ms,
  let '(m, log) := run_stream [] [] ms in state_inv m log /\ state_chained log.
Proof. exact state_chains_hold_for_every_stream. Qed.
Print Assumptions state_events_form_unbroken_chains.

Theorem one_message_keeps_the_state_chains : forall m log mg,
  wf_mirror m -> state_inv m log -> state_chained log ->
  state_inv (mirror_of (apply m mg)) (log ++ events_of (apply m mg)) /\ state_chained (log ++ events_of (apply m mg)).
Proof. exact apply_preserves_state_chain. Qed.
Print Assumptions one_message_keeps_the_state_chains.
