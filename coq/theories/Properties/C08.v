(* C08: BLOB payloads arrive bit-exact in both directions and never stall a link.
   Statements only.  Payload integrity: base64 (B64/Model.v) and the size check on exactly the
   elements the driver publishes / the client library uploads; who receives: the router's policy
   (C05); any length on the BLOB connection: framing with the threshold disabled (C02's theorem
   at thr = None); never stalls: every processing call terminates on every input, with or without
   threshold, complete, partial or empty (C11).  REFUTED for messages longer than the threshold on
   a threshold-enabled link (known finding K1): long_message_is_destroyed_refuted. *)
From Coq Require Import List NArith Bool Arith String.
Import ListNotations.
From Indi Require Import Base.Sx Msg.Equality B64.Model Num.Model Router.Model Driver.Model Driver.Write Client.Model
     Buffer.Model Buffer.Props Buffer.Junk Buffer.Framing Driver.Props Client.Props Client.Norm System.Model System.Blob
     System.Converge System.Ops System.Deliver System.Handshake System.WriteE2E System.BlobE2E.

Theorem payload_survives_the_text_encoding b : forallb is_byte b = true -> decode (encode b) = Some b.
Proof. exact (b64_roundtrip b). Qed.
Print Assumptions payload_survives_the_text_encoding.

Theorem published_blob_is_received_identically k e b f :
  forallb is_byte b = true -> e_value e = VBlob (Some (b, f)) ->
  exists p, one_part k e = Some p /\ new_cval KBlob p = Some (CBlob b f) /\ part_name p = e_name e.
Proof. exact (published_blob_is_received k e b f). Qed.
Print Assumptions published_blob_is_received_identically.

Theorem uploaded_blob_arrives_identically en b f :
  forallb is_byte b = true ->
  value_of_child KBlob (new_part KBlob en (WBlob b f)) = Some (VBlob (Some (b, f))).
Proof. exact (uploaded_blob_arrives_intact en b f). Qed.
Print Assumptions uploaded_blob_arrives_identically.

Theorem an_unset_blob_is_left_out k e : e_value e = VBlob None -> one_part k e = None.
Proof. exact (unset_blob_is_left_out k e). Qed.
Print Assumptions an_unset_blob_is_left_out.

(* who receives a payload: only clients whose policy for the device is Also or Only *)
Theorem no_payload_without_enabling s m sender c :
  r_blob m = true -> In (ToCl c) (snd (Router.Model.process s m sender)) ->
  policy_of (fst (Router.Model.process s m sender)) c (r_dev m) <> Never.
Proof. exact (blob_update_needs_enabled_policy s m sender c). Qed.
Print Assumptions no_payload_without_enabling.

Theorem a_blob_only_connection_carries_nothing_else s m sender c :
  r_blob m = false -> In (ToCl c) (snd (Router.Model.process s m sender)) ->
  policy_of (fst (Router.Model.process s m sender)) c (r_dev m) <> Only.
Proof. exact (only_policy_gets_nothing_but_blobs s m sender c). Qed.
Print Assumptions a_blob_only_connection_carries_nothing_else.

(* any length, any fragmentation, when the threshold is disabled (the BLOB connection) *)
Theorem blob_connection_frames_messages_of_any_length : forall msg parse tags,
  tags_clean tags -> parse_needs_opener msg parse tags ->
  forall pieces l data u,
  wf msg parse tags None l -> data ++ List.concat pieces ++ u = flatten msg l ->
  nothing_overdue msg l data ->
  let '(outs, dfin) := Buffer.Model.feed msg parse tags None data pieces in
  Forall (fun om => fst om = Done) outs /\
  exists l', wf msg parse tags None l' /\ dfin ++ u = flatten msg l' /\
             msgs msg l = deliveries msg outs ++ msgs msg l' /\ nothing_overdue msg l' dfin.
Proof. exact (fun msg parse tags => framing msg parse tags None). Qed.
Print Assumptions blob_connection_frames_messages_of_any_length.

(* never a stall: one processing call always ends, on any text, whatever the threshold *)
Theorem processing_always_ends : forall msg parse tags thr d,
  let '(o, d', ms) := Buffer.Model.process msg parse tags thr d in
  o = Done /\ suffix d' d /\ (forall t, thr = Some t -> List.length d' <= t) /\
  (forall m, In m ms -> genuine msg parse d m).
Proof. exact process_spec. Qed.
Print Assumptions processing_always_ends.

(* the full statement is false on threshold-enabled links: a message longer than the threshold that arrives
   in two reads is destroyed, the same message is delivered without threshold or when it arrives whole *)
Theorem long_message_is_destroyed_refuted :
  delivered (Some 32%nat) k1_pieces = 0%nat /\ delivered None k1_pieces = 1%nat /\ delivered (Some 32%nat) [k1_message] = 1%nat.
Proof. exact long_message_on_a_threshold_link. Qed.
Print Assumptions long_message_is_destroyed_refuted.

(* ---------- end to end in the composed system model ---------- *)
(* driver -> client: the driver assigns a payload to an enabled element of an exposed BLOB property; the connected
   network client (BLOB connection: Only) then shows that element with identical bytes and format *)
Theorem a_published_payload_is_shown_identically s c e d vn i b f g v el :
  one_client s c (d_name d) -> cl_in_ctl c = [] -> cl_in_blob c = [] ->
  find_dev s e = Some d -> e <> cl_ctl c -> e <> cl_blob c ->
  dev_ok d -> net_synced (cl_mirror c) d ->
  find_gv vn (d_groups d) = Some (g, v) -> v_kind v = KBlob -> vec_on g v = true ->
  nth_error (v_elems v) i = Some el -> e_enabled el = true -> forallb is_byte b = true ->
  exists c' cv ce,
    sy_cls (sstep s (SDrv e (OAssign vn i (VBlob (Some (b, f)))))) = [c'] /\
    get_vec (cl_mirror c') (d_name d) vn = Some cv /\
    dget ce_name (e_name el) (cv_elems cv) = Some ce /\ ce_value ce = CBlob b f.
Proof. exact (published_blob_end_to_end s c e d vn i b f g v el). Qed.
Print Assumptions a_published_payload_is_shown_identically.

(* client -> driver: a submitted write reaches the driver of the named device, whatever it then publishes ... *)
Theorem a_submitted_write_reaches_the_driver s c e d vn a m :
  one_client s c (d_name d) -> one_device s e d -> sy_cls s = [c] ->
  cl_in_ctl c = [] -> cl_in_blob c = [] -> e <> cl_ctl c -> e <> cl_blob c ->
  dev_ok d -> net_synced (cl_mirror c) d ->
  submit_msg (cl_mirror c) (d_name d) vn a = Some m -> client_msg (d_name d) (wire m) ->
  exists c',
    sy_cls (sstep s (SWrite 0 (d_name d) vn a)) = [c'] /\
    find_dev (sstep s (SWrite 0 (d_name d) vn a)) e = Some (fst (from_client d (wire m))) /\
    cl_in_ctl c' = [] /\ cl_in_blob c' = [].
Proof. exact (client_write_reaches_driver s c e d vn a m). Qed.
Print Assumptions a_submitted_write_reaches_the_driver.

(* ... and a message carrying the uploaded child (as the client library builds it, after the wire) leaves the driver
   holding the identical bytes and format in the named element *)
Theorem an_uploaded_payload_is_held_identically d vn en b f g v el i :
  dev_ok d -> find_gv vn (d_groups d) = Some (g, v) -> v_kind v = KBlob ->
  nth_error (v_elems v) i = Some el -> e_name el = en -> forallb is_byte b = true ->
  forall m, mk m = s2l "newBLOBVector" -> lookup (s2l "name") (ma m) = Some vn ->
            mc m = Some [Msg.Codec.norm_part (new_part KBlob en (WBlob b f))] ->
  exists v', find_vec vn (fst (from_client d m)) = Some v' /\
             exists el', nth_error (v_elems v') i = Some el' /\ e_name el' = en /\ e_value el' = VBlob (Some (b, f)).
Proof. exact (uploaded_blob_is_held d vn en b f g v el i). Qed.
Print Assumptions an_uploaded_payload_is_held_identically.
