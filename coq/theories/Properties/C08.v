(* C08: BLOB payloads arrive bit-exact in both directions and never stall a link.
   Statements only.  Payload integrity: base64 (B64/Model.v) and the size check on exactly the
   elements the driver publishes / the client library uploads; who receives: the router's policy
   (C05); any length on the BLOB connection: framing with the threshold disabled (C02's theorem
   at thr = None); never stalls: every processing call terminates on every input, with or without
   threshold, complete, partial or empty (C11).  REFUTED for messages longer than the threshold on
   a threshold-enabled link (known finding K1): long_message_is_destroyed_refuted. *)
From Coq Require Import List NArith Bool Arith String.
Import ListNotations.
From Indi Require Import Base.Sx Msg.Equality B64.Model Num.Model Router.Model Driver.Model Driver.Write Client.Model
     Buffer.Model Buffer.Props Buffer.Junk Buffer.Framing System.Model System.Blob.

Theorem payload_survives_the_text_encoding b : forallb is_byte b = true -> decode (encode b) = Some b.
Proof. exact (b64_roundtrip b). Qed.
Print Assumptions payload_survives_the_text_encoding.

Theorem published_blob_is_received_identically k e b f :
  forallb is_byte b = true -> e_value e = VBlob (Some (b, f)) ->
  exists p, one_part k e = Some p /\ new_cval KBlob p = Some (CBlob b f) /\ part_name p = e_name e.
Proof. exact (published_blob_is_received k e b f). Qed.
Print Assumptions published_blob_is_received_identically.

Theorem uploaded_blob_arrives_identically en b f :
  forallb is_byte b = true ->
  value_of_child KBlob (new_part KBlob en (WBlob b f)) = Some (VBlob (Some (b, f))).
Proof. exact (uploaded_blob_arrives_intact en b f). Qed.
Print Assumptions uploaded_blob_arrives_identically.

Theorem an_unset_blob_is_left_out k e : e_value e = VBlob None -> one_part k e = None.
Proof. exact (unset_blob_is_left_out k e). Qed.
Print Assumptions an_unset_blob_is_left_out.

(* who receives a payload: only clients whose policy for the device is Also or Only *)
Theorem no_payload_without_enabling s m sender c :
  r_blob m = true -> In (ToCl c) (snd (Router.Model.process s m sender)) ->
  policy_of (fst (Router.Model.process s m sender)) c (r_dev m) <> Never.
Proof. exact (blob_update_needs_enabled_policy s m sender c). Qed.
Print Assumptions no_payload_without_enabling.

Theorem a_blob_only_connection_carries_nothing_else s m sender c :
  r_blob m = false -> In (ToCl c) (snd (Router.Model.process s m sender)) ->
  policy_of (fst (Router.Model.process s m sender)) c (r_dev m) <> Only.
Proof. exact (only_policy_gets_nothing_but_blobs s m sender c). Qed.
Print Assumptions a_blob_only_connection_carries_nothing_else.

(* any length, any fragmentation, when the threshold is disabled (the BLOB connection) *)
Theorem blob_connection_frames_messages_of_any_length : forall msg parse tags,
  tags_clean tags -> parse_needs_opener msg parse tags ->
  forall pieces l data u,
  wf msg parse tags None l -> data ++ List.concat pieces ++ u = flatten msg l ->
  nothing_overdue msg l data ->
  let '(outs, dfin) := feed msg parse tags None data pieces in
  Forall (fun om => fst om = Done) outs /\
  exists l', wf msg parse tags None l' /\ dfin ++ u = flatten msg l' /\
             msgs msg l = deliveries msg outs ++ msgs msg l' /\ nothing_overdue msg l' dfin.
Proof. exact (fun msg parse tags => framing msg parse tags None). Qed.
Print Assumptions blob_connection_frames_messages_of_any_length.

(* never a stall: one processing call always ends, on any text, whatever the threshold *)
Theorem processing_always_ends : forall msg parse tags thr d,
  let '(o, d', ms) := Buffer.Model.process msg parse tags thr d in
  o = Done /\ suffix d' d /\ (forall t, thr = Some t -> List.length d' <= t) /\
  (forall m, In m ms -> genuine msg parse d m).
Proof. exact process_spec. Qed.
Print Assumptions processing_always_ends.

(* the full statement is false on threshold-enabled links: a message longer than the threshold that arrives
   in two reads is destroyed, the same message is delivered without threshold or when it arrives whole *)
Theorem long_message_is_destroyed_refuted :
  delivered (Some 32%nat) k1_pieces = 0%nat /\ delivered None k1_pieces = 1%nat /\ delivered (Some 32%nat) [k1_message] = 1%nat.
Proof. exact long_message_on_a_threshold_link. Qed.
Print Assumptions long_message_is_destroyed_refuted.
