(* C01: the client's view converges to the device's true property state.
   Statements only.  shown d g v is the client-side property that a definition of v
   (in group g of device d) creates: name, kind, group, label, state and the enabled
   elements with their labels and wire values (numbers as the format renders them).
   Proved (System/Converge.v, System/Ops.v): the handshake answer brings a mirror that knows
   nothing of the device in sync; EVERY driver-side operation of the property's list (assign,
   set_value, selected values, state, enabling of a property or of a group) and every client
   write, on ANY device definition without event handlers (any groups, kinds, rules, formats,
   flags), publishes a stream that takes a mirror in sync with the device before to a mirror
   in sync with the device after; hence any history does.  "In sync": for every property
   name, the entry is what a definition of the property as it now is creates - name, kind,
   group, label, state, the enabled elements with labels and wire values - absent when the
   property is not exposed, and there are no other entries.
   In the composed system model (System/Deliver.v): what a driver publishes in one operation
   reaches the connected network client exactly (each message once, per connection in order,
   after the wire), and the client's mirror stays the normalisation (empty text = absent text, as
   the wire makes it) of a mirror in sync with the device (the_connected_client_stays_in_sync, and
   ..._on_both_connections for operations that publish BLOB updates too: System/Reorder.v shows that
   the order in which the client takes an operation's messages from its two connections does not
   change the view, because a message about one property acts on that entry alone and as a function
   of that entry alone).
   The network client's handshake is proved in the system model too (System/Handshake.v): a
   client that connects to a server with one driver and asks for the properties ends with the
   library's policies on its two connections, nothing in flight, and a mirror in sync; and so
   does every later history of operations (connected_client_history_on_both_connections; and
   every_typed_history_keeps_the_connected_client_in_sync, where the condition on the order of messages
   is itself proved of every operation: System/Orderly.v, every_operation_is_orderly).
   Driver operations AND client writes, in any order (System/Mixed.v): the connection invariant - one client
   with the library's policies, one driver, nothing in flight, mirror in sync - is kept by every driver-side
   operation and by every write the client submits, hence by every history of both, from the moment the client
   has connected (connect_then_any_history).
   Several drivers at once (System/Interleave.v): a client's view of one device depends on the messages
   about that device alone, in their order (a_device_view_is_its_own_stream), so however the streams of
   several drivers are interleaved on the way to the client it ends in sync with every one of them
   (several_drivers_at_once).  Several clients: each has its own mirror; which messages each receives is
   the router's matter (C05).
   PARTIAL: the composed system model settles after every operation and holds one driver and one client;
   two operations on the SAME device that overlap in time with each other's delivery across the two
   connections, and the routing of several drivers and clients through one server, are validated by the
   system-level correspondence (schedules family), not proved.  That the system model is the real stack
   (router, serializer, fragmented byte stream, framing) is the correspondence itself.
   REFUTED for BLOB payloads (the comparison leaves them out): a definition carries no
   payload (known finding K2). *)
From Coq Require Import List NArith Bool String.
Import ListNotations.
From Indi Require Import Base.Sx Msg.Equality Driver.Model Driver.Props Client.Model Client.Props Client.Update Client.Norm System.Model System.Converge System.Ops System.Deliver System.Handshake System.Reorder System.Orderly System.Interleave System.WriteE2E System.Mixed.

Theorem a_definition_brings_the_entry_in_sync mi d g v :
  vec_on g v = true ->
  get_vec (mirror_of (apply mi (def_msg d g v))) (d_name d) (v_name v) = Some (shown d g v).
Proof. exact (sync_by_definition mi d g v). Qed.
Print Assumptions a_definition_brings_the_entry_in_sync.

Theorem what_the_client_then_shows d g v :
  vec_on g v = true -> NoDup (map e_name (v_elems v)) ->
  shown d g v = {| cv_name := v_name v; cv_kind := v_kind v; cv_group := Some (g_name g); cv_label := Some (v_label v);
                   cv_message := None; cv_state := v_state v;
                   cv_elems := map celem_of (filter e_enabled (v_elems v)) |}.
Proof. exact (shown_fields d g v). Qed.
Print Assumptions what_the_client_then_shows.

Theorem a_disabled_property_disappears mi d g v :
  vec_on g v = false ->
  (forall cd, dget cd_name (d_name d) mi = Some cd -> NoDup (map cv_name (cd_vecs cd))) ->
  get_vec (mirror_of (apply mi (def_msg d g v))) (d_name d) (v_name v) = None.
Proof. exact (sync_by_removal mi d g v). Qed.
Print Assumptions a_disabled_property_disappears.

Theorem an_update_keeps_the_entry_in_sync mi d g v v' m :
  v_kind v <> KBlob -> same_frame v v' -> vec_on g v = true -> vec_on g v' = true ->
  NoDup (map e_name (v_elems v)) -> Forall no_blob (v_elems v') ->
  get_vec mi (d_name d) (v_name v) = Some (shown d g v) ->
  set_msg d g v' = Some m ->
  get_vec (mirror_of (apply mi m)) (d_name d) (v_name v) = Some (shown d g v').
Proof. exact (sync_by_update mi d g v v' m). Qed.
Print Assumptions an_update_keeps_the_entry_in_sync.

(* the handshake: one definition (or delProperty) per property, each of the current state *)
Theorem handshake_answer_covers_every_property d dn :
  Driver.Props.quiet d -> NoDup (map (fun gv => v_name (snd gv)) (all_vecs d)) ->
  from_client d (getprops dn None) =
  (d, map (fun gv => Publish (def_msg d (fst gv) (snd gv))) (all_vecs d)).
Proof. exact (Driver.Props.getprops_all d dn). Qed.
Print Assumptions handshake_answer_covers_every_property.

(* no message touches the entry of another property or another device *)
Theorem a_definition_touches_no_other_entry m mg k dn dn' vn' :
  def_kind (mk mg) = Some k -> attr_of "device" (ma mg) = Some dn ->
  (dn' <> dn \/ vn' <> cv_name (vec_of_def k mg)) ->
  get_vec (mirror_of (apply m mg)) dn' vn' = get_vec m dn' vn'.
Proof. exact (def_frame m mg k dn dn' vn'). Qed.
Print Assumptions a_definition_touches_no_other_entry.

Theorem an_update_touches_no_other_entry m mg k dn dn' vn' :
  def_kind (mk mg) = None -> set_kind (mk mg) = Some k -> attr_of "device" (ma mg) = Some dn ->
  (dn' <> dn \/ Some vn' <> attr_of "name" (ma mg)) ->
  get_vec (mirror_of (apply m mg)) dn' vn' = get_vec m dn' vn'.
Proof. exact (update_frame m mg k dn dn' vn'). Qed.
Print Assumptions an_update_touches_no_other_entry.

(* the full statement is false for BLOB payloads: what a definition shows of a BLOB element is no payload,
   whatever the device holds (known finding K2) *)
Theorem blob_payload_is_not_shown_by_a_definition_refuted e b f :
  e_value e = VBlob (Some (b, f)) -> ce_value (celem_of e) = CRaw None /\ ce_value (celem_of e) <> CBlob b f.
Proof. exact (definition_shows_no_blob_payload e b f). Qed.
Print Assumptions blob_payload_is_not_shown_by_a_definition_refuted.

(* ---------- operations and histories ---------- *)
Theorem the_handshake_brings_a_fresh_mirror_in_sync d mi :
  dev_ok d -> mirror_wf mi -> (forall vn, get_vec mi (d_name d) vn = None) ->
  synced (feed mi (pubs (snd (from_client d (getprops None None))))) d.
Proof. exact (handshake_synced d mi). Qed.
Print Assumptions the_handshake_brings_a_fresh_mirror_in_sync.

Theorem every_operation_keeps_the_mirror_in_sync d o mi :
  dev_ok d -> synced mi d -> op_typed d o ->
  dev_ok (fst (step d o)) /\ synced (feed mi (pubs (snd (step d o)))) (fst (step d o)) /\ d_name (fst (step d o)) = d_name d /\
  Forall (fun m => exists vn, about (d_name d) vn m) (pubs (snd (step d o))).
Proof. exact (step_synced d o mi). Qed.
Print Assumptions every_operation_keeps_the_mirror_in_sync.

Theorem every_history_keeps_the_mirror_in_sync ops d mi :
  dev_ok d -> synced mi d -> ops_typed d ops ->
  dev_ok (fst (run d ops)) /\ synced (feed mi (pubs (List.concat (snd (run d ops))))) (fst (run d ops)) /\
  d_name (fst (run d ops)) = d_name d.
Proof. exact (history_synced ops d mi). Qed.
Print Assumptions every_history_keeps_the_mirror_in_sync.

Theorem what_in_sync_means mi d :
  synced mi d -> dev_ok d ->
  forall vn,
    match find_gv vn (d_groups d) with
    | Some (g, v) => option_map blind (get_vec mi (d_name d) vn) = if vec_on g v then Some (blind (shown d g v)) else None
    | None => get_vec mi (d_name d) vn = None
    end.
Proof. exact (synced_means mi d). Qed.
Print Assumptions what_in_sync_means.

(* ---------- delivery in the composed system model ---------- *)
(* one driver-side operation: the connected network client receives exactly what the driver published - each
   message once, ordinary messages on the control connection in order, BLOB updates on the BLOB connection in
   order, each after the wire - sends nothing back, and the system is quiet again *)
Theorem what_a_driver_publishes_is_delivered s c dn e d o :
  one_client s c dn -> cl_in_ctl c = [] -> cl_in_blob c = [] ->
  dget cd_name dn (cl_mirror c) <> None ->
  find_dev s e = Some d -> d_name d = dn -> e <> cl_ctl c -> e <> cl_blob c ->
  Forall (fun m => exists vn, about dn vn m) (pubs (snd (step d o))) ->
  exists c',
    sy_cls (sstep s (SDrv e o)) = [c'] /\
    cl_mirror c' = feed (cl_mirror c) (delivered_stream (pubs (snd (step d o)))) /\
    cl_in_ctl c' = [] /\ cl_in_blob c' = [] /\
    find_dev (sstep s (SDrv e o)) e = Some (fst (step d o)) /\
    sy_r (sstep s (SDrv e o)) = sy_r s /\
    cl_net c' = cl_net c /\ cl_ctl c' = cl_ctl c /\ cl_blob c' = cl_blob c.
Proof. exact (driver_operation_is_delivered s c dn e d o). Qed.
Print Assumptions what_a_driver_publishes_is_delivered.

(* the composed system model: through every operation whose ordinary messages come before its BLOB updates
   (ctl_then_blob: no BLOB update at all, only BLOB updates, or a definition followed by the BLOB update - then
   the order in which the client takes the messages from its two connections is the order of publication), the
   connected network client's mirror stays the normalisation of a mirror in sync with the device, the client's
   inboxes are empty again and the connection state is unchanged *)
Theorem the_connected_client_stays_in_sync s c e d o :
  one_client s c (d_name d) -> cl_in_ctl c = [] -> cl_in_blob c = [] ->
  find_dev s e = Some d -> e <> cl_ctl c -> e <> cl_blob c ->
  dev_ok d -> op_typed d o -> net_synced (cl_mirror c) d ->
  ctl_then_blob (pubs (snd (step d o))) ->
  exists c',
    sy_cls (sstep s (SDrv e o)) = [c'] /\
    net_synced (cl_mirror c') (fst (step d o)) /\ dev_ok (fst (step d o)) /\
    find_dev (sstep s (SDrv e o)) e = Some (fst (step d o)) /\
    one_client (sstep s (SDrv e o)) c' (d_name (fst (step d o))) /\ cl_in_ctl c' = [] /\ cl_in_blob c' = [] /\
    cl_ctl c' = cl_ctl c /\ cl_blob c' = cl_blob c.
Proof. exact (network_client_stays_in_sync s c e d o). Qed.
Print Assumptions the_connected_client_stays_in_sync.

(* processing the stream after the wire = normalising the result of processing the raw stream *)
Theorem processing_commutes_with_the_wire ms mi :
  fold_left (fun mi m => mirror_of (apply mi m)) (map Msg.Codec.norm_msg ms) (nm mi) =
  nm (fold_left (fun mi m => mirror_of (apply mi m)) ms mi).
Proof. exact (feed_norm ms mi). Qed.
Print Assumptions processing_commutes_with_the_wire.

(* the network client's handshake, in the composed system model: connect, ask, learn the device, greet it on both
   connections; afterwards the policies are the library's (control Never, BLOB connection Only), nothing is in
   flight and the mirror is in sync *)
Theorem the_handshake_connects_and_syncs s c e d :
  fresh s c e d -> dev_ok d -> (exists g v, In (g, v) (all_vecs d) /\ vec_on g v = true) ->
  exists c',
    sy_cls (sstep s (SHandshake 0)) = [c'] /\
    one_client (sstep s (SHandshake 0)) c' (d_name d) /\ cl_in_ctl c' = [] /\ cl_in_blob c' = [] /\
    net_synced (cl_mirror c') d /\ find_dev (sstep s (SHandshake 0)) e = Some d /\
    cl_ctl c' = cl_ctl c /\ cl_blob c' = cl_blob c /\ one_device (sstep s (SHandshake 0)) e d.
Proof. exact (handshake_connects_and_syncs s c e d). Qed.
Print Assumptions the_handshake_connects_and_syncs.

Theorem connected_client_history ops s c e d :
  one_client s c (d_name d) -> cl_in_ctl c = [] -> cl_in_blob c = [] ->
  find_dev s e = Some d -> e <> cl_ctl c -> e <> cl_blob c ->
  dev_ok d -> net_synced (cl_mirror c) d -> quiet_ops d ops ->
  exists c',
    sy_cls (fold_left (fun s o => sstep s (SDrv e o)) ops s) = [c'] /\
    net_synced (cl_mirror c') (fst (run d ops)) /\
    find_dev (fold_left (fun s o => sstep s (SDrv e o)) ops s) e = Some (fst (run d ops)) /\
    cl_in_ctl c' = [] /\ cl_in_blob c' = [].
Proof. exact (network_client_history ops s c e d). Qed.
Print Assumptions connected_client_history.

(* ---------- the two connections ---------- *)
(* Ordinary messages travel on the control connection, BLOB updates on the BLOB connection; the client takes
   the ordinary ones first.  As far as the view is concerned this is the same as taking the messages in the order
   of publication, provided that within the operation no ordinary message about a property follows a BLOB update
   about the same property (every operation of the library publishes, per property, the definition first and the
   update after it; the condition is decidable: blob_updates_lastb). *)
Theorem order_across_the_two_connections_does_not_matter dn ms a :
  blob_updates_last dn ms -> mirror_wf a ->
  forall d v, get_vec (feed a (two_connections ms)) d v = get_vec (feed a ms) d v.
Proof. exact (fun H W => two_connections_same_view dn ms a H W). Qed.
Print Assumptions order_across_the_two_connections_does_not_matter.

(* hence: the composed system model, one driver-side operation publishing anything on either connection *)
Theorem the_connected_client_stays_in_sync_on_both_connections s c e d o :
  one_client s c (d_name d) -> cl_in_ctl c = [] -> cl_in_blob c = [] ->
  find_dev s e = Some d -> e <> cl_ctl c -> e <> cl_blob c ->
  dev_ok d -> op_typed d o -> net_synced (cl_mirror c) d ->
  blob_updates_last (d_name d) (pubs (snd (step d o))) ->
  exists c',
    sy_cls (sstep s (SDrv e o)) = [c'] /\
    net_synced (cl_mirror c') (fst (step d o)) /\ dev_ok (fst (step d o)) /\
    find_dev (sstep s (SDrv e o)) e = Some (fst (step d o)) /\
    one_client (sstep s (SDrv e o)) c' (d_name (fst (step d o))) /\ cl_in_ctl c' = [] /\ cl_in_blob c' = [] /\
    cl_ctl c' = cl_ctl c /\ cl_blob c' = cl_blob c.
Proof. exact (network_client_stays_in_sync_two_connections s c e d o). Qed.
Print Assumptions the_connected_client_stays_in_sync_on_both_connections.

Theorem connected_client_history_on_both_connections ops s c e d :
  one_client s c (d_name d) -> cl_in_ctl c = [] -> cl_in_blob c = [] ->
  find_dev s e = Some d -> e <> cl_ctl c -> e <> cl_blob c ->
  dev_ok d -> net_synced (cl_mirror c) d -> orderly_ops d ops ->
  exists c',
    sy_cls (fold_left (fun s o => sstep s (SDrv e o)) ops s) = [c'] /\
    net_synced (cl_mirror c') (fst (run d ops)) /\
    find_dev (fold_left (fun s o => sstep s (SDrv e o)) ops s) e = Some (fst (run d ops)) /\
    cl_in_ctl c' = [] /\ cl_in_blob c' = [].
Proof. exact (network_client_history_two_connections ops s c e d). Qed.
Print Assumptions connected_client_history_on_both_connections.

(* the condition of the two-connection theorem holds of EVERY operation of the property's list, on every
   device definition with unique property names: what a driver publishes is either a definition (never a
   BLOB update) or an update (a BLOB update exactly for BLOB properties); an operation on one property
   publishes updates only, or the definition first and updates after it; enabling a group and answering
   getProperties go through properties of different names *)
Theorem every_operation_is_orderly d o :
  dev_ok d -> op_typed d o -> blob_updates_last (d_name d) (pubs (snd (step d o))).
Proof. exact (step_orderly d o). Qed.
Print Assumptions every_operation_is_orderly.

(* so: the composed system model, ANY history of typed operations - BLOB publications included -, one
   connected network client in sync at the start (the handshake theorem establishes that): in sync at the end,
   nothing in flight *)
Theorem every_typed_history_keeps_the_connected_client_in_sync ops s c e d :
  one_client s c (d_name d) -> cl_in_ctl c = [] -> cl_in_blob c = [] ->
  find_dev s e = Some d -> e <> cl_ctl c -> e <> cl_blob c ->
  dev_ok d -> net_synced (cl_mirror c) d -> ops_typed d ops ->
  exists c',
    sy_cls (fold_left (fun s o => sstep s (SDrv e o)) ops s) = [c'] /\
    net_synced (cl_mirror c') (fst (run d ops)) /\
    find_dev (fold_left (fun s o => sstep s (SDrv e o)) ops s) e = Some (fst (run d ops)) /\
    cl_in_ctl c' = [] /\ cl_in_blob c' = [].
Proof. exact (network_client_history_typed ops s c e d). Qed.
Print Assumptions every_typed_history_keeps_the_connected_client_in_sync.

(* ---------- several drivers ---------- *)
(* what a client shows of device dn after ANY sequence of driver messages is what it would show after the
   messages naming dn alone, in their order *)
Theorem a_device_view_is_its_own_stream dn ms :
  Forall (fun m => exists d v, about d v m) ms ->
  forall v, get_vec (feed [] ms) dn v = get_vec (feed [] (filter (from_device dn) ms)) dn v.
Proof.
  intros H. exact (view_of_a_device_is_its_own_stream dn ms [] [] H ltac:(intros cd []) ltac:(intros cd []) (fun v => eq_refl)).
Qed.
Print Assumptions a_device_view_is_its_own_stream.

(* ds: drivers (any definitions without event handlers, names pairwise different by the third hypothesis) with
   their histories of typed operations.  ms: anything the client receives such that, for every driver, the
   messages naming it are - in order - that driver's handshake answer followed by what its history publishes:
   an ARBITRARY interleaving of the streams.  Then the client, starting with nothing, ends in sync with every
   driver as its history leaves it. *)
Theorem several_drivers_at_once (ds : list (dev * list dop)) (ms : list msg) :
  (forall d ops, In (d, ops) ds -> dev_ok d /\ ops_typed d ops) ->
  Forall (fun m => exists d v, about d v m) ms ->
  (forall d ops, In (d, ops) ds -> filter (from_device (d_name d)) ms = stream_of d ops) ->
  forall d ops, In (d, ops) ds -> synced (feed [] ms) (fst (run d ops)).
Proof. exact (System.Interleave.several_drivers_at_once ds ms). Qed.
Print Assumptions several_drivers_at_once.

(* ---------- driver operations and client writes, in any order ---------- *)
(* connected s c e d: one client c with the library's policies, one driver d at endpoint e, nothing in flight,
   c's mirror in sync with d.  It is kept by every driver-side operation ... *)
Theorem a_driver_operation_keeps_the_connection s c e d o :
  connected s c e d -> op_typed d o -> exists c', connected (sstep s (SDrv e o)) c' e (fst (step d o)).
Proof. exact (driver_step_keeps_connected s c e d o). Qed.
Print Assumptions a_driver_operation_keeps_the_connection.

(* ... and by every write the client submits (whatever the driver then publishes, BLOB updates included) *)
Theorem a_client_write_keeps_the_connection s c e d vn a :
  connected s c e d ->
  (forall m, submit_msg (cl_mirror c) (d_name d) vn a = Some m -> client_msg (d_name d) (wire m)) ->
  exists c' d', connected (sstep s (SWrite 0 (d_name d) vn a)) c' e d' /\
    match submit_msg (cl_mirror c) (d_name d) vn a with
    | Some m => d' = fst (from_client d (wire m))
    | None => d' = d
    end.
Proof. exact (client_write_keeps_connected s c e d vn a). Qed.
Print Assumptions a_client_write_keeps_the_connection.

(* From the moment a client connects to a server with one driver: the handshake, then ANY history of driver-side
   operations and client writes (admissible: driver-side values are of the property's kind, the client writes
   only properties that can be written) - at the end the connection invariant holds: in sync, nothing in flight. *)
Theorem connect_then_any_history_stays_in_sync s c e d evs :
  fresh s c e d -> dev_ok d -> (exists g v, In (g, v) (all_vecs d) /\ vec_on g v = true) ->
  admissible e (sstep s (SHandshake 0)) evs ->
  exists c' d',
    connected (fold_left (fun s ev => sstep s (sop_of e (d_name d) ev)) evs (sstep s (SHandshake 0))) c' e d' /\
    d_name d' = d_name d.
Proof. exact (connect_then_any_history s c e d evs). Qed.
Print Assumptions connect_then_any_history_stays_in_sync.
