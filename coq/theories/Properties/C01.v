(* C01 placeholder while the theorems are being built *)
From Coq Require Import List.
From Indi Require Import System.Model.
