(* C20 - Message equality is structural.  Only statements; proofs live in Msg/Equality.v. *)
From Coq Require Import List NArith Bool.
Import ListNotations.
From Indi Require Import Base.Sx Msg.Registry Msg.Equality Msg.RegOk
  Generated.RegistryData Generated.RegistryOk.

(* == on two constructed messages is true exactly when they have the same kind,
   the same attribute map, the same text and the same ordered list of children
   (kind, attribute map and text of each). *)
Theorem equality_is_structural : forall a b,
  wf_msg a -> wf_msg b ->
  kinds_ok (child_kind live_registry) a -> kinds_ok (child_kind live_registry) b ->
  (msg_eqb a b = true <-> msg_same a b).
Proof. intros a b. exact (msg_eqb_iff (child_kind live_registry) a b). Qed.
Print Assumptions equality_is_structural.

(* The kinds_ok premise is what the live constructors enforce. *)
Theorem constructed_children_have_the_prescribed_kind : forall k a v l,
  ctor_accepts_children live_registry k l ->
  kinds_ok (child_kind live_registry) {| mk := k; ma := a; mv := v; mc := Some l |}.
Proof. intros k a v l. exact (ctor_children_kinds_ok live_registry k l v a live_ok_c20). Qed.
Print Assumptions constructed_children_have_the_prescribed_kind.

(* a child that differs at ANY index makes the messages unequal *)
Theorem any_child_matters : forall a b x y i d,
  wf_msg a -> wf_msg b ->
  kinds_ok (child_kind live_registry) a -> kinds_ok (child_kind live_registry) b ->
  mc a = Some x -> mc b = Some y -> i < length x ->
  ~ part_same (nth i x d) (nth i y d) -> msg_eqb a b = false.
Proof. intros a b x y i d Wa Wb Ka Kb. exact (child_differs_neq (child_kind live_registry) a b Wa Wb Ka Kb x y i d). Qed.
Print Assumptions any_child_matters.

Theorem child_count_matters : forall a b x y,
  wf_msg a -> wf_msg b ->
  kinds_ok (child_kind live_registry) a -> kinds_ok (child_kind live_registry) b ->
  mc a = Some x -> mc b = Some y -> length x <> length y -> msg_eqb a b = false.
Proof. intros a b x y Wa Wb Ka Kb. exact (child_count_differs_neq (child_kind live_registry) a b Wa Wb Ka Kb x y). Qed.
Print Assumptions child_count_matters.

Theorem attribute_matters : forall a b k,
  wf_msg a -> wf_msg b ->
  kinds_ok (child_kind live_registry) a -> kinds_ok (child_kind live_registry) b ->
  lookup k (ma a) <> lookup k (ma b) -> msg_eqb a b = false.
Proof. intros a b k Wa Wb Ka Kb. exact (attr_differs_neq (child_kind live_registry) a b Wa Wb Ka Kb k). Qed.
Print Assumptions attribute_matters.

Theorem text_matters : forall a b,
  wf_msg a -> wf_msg b ->
  kinds_ok (child_kind live_registry) a -> kinds_ok (child_kind live_registry) b ->
  mv a <> mv b -> msg_eqb a b = false.
Proof. intros a b Wa Wb Ka Kb. exact (value_differs_neq (child_kind live_registry) a b Wa Wb Ka Kb). Qed.
Print Assumptions text_matters.

Theorem kind_matters : forall a b,
  wf_msg a -> wf_msg b ->
  kinds_ok (child_kind live_registry) a -> kinds_ok (child_kind live_registry) b ->
  mk a <> mk b -> msg_eqb a b = false.
Proof. intros a b Wa Wb Ka Kb. exact (kind_changed_neq (child_kind live_registry) a b Wa Wb Ka Kb). Qed.
Print Assumptions kind_matters.

Theorem rebuilt_copy_equal : forall a,
  wf_msg a -> kinds_ok (child_kind live_registry) a -> msg_eqb a a = true.
Proof. intros a. exact (rebuilt_copy_eq (child_kind live_registry) a). Qed.
Print Assumptions rebuilt_copy_equal.

(* non-vacuity: a two-child message meets the hypotheses *)
Example c20_hypotheses_inhabited :
  wf_msg wit_a /\ kinds_ok (fun _ => Some [1%N]) wit_a /\ msg_eqb wit_a wit_b = false.
Proof.
  split; [|split].
  - split; simpl; [constructor|]. repeat constructor; simpl; intuition.
  - intros p Hp. simpl in Hp. destruct Hp as [<-|[<-|[]]]; reflexivity.
  - vm_compute. reflexivity.
Qed.
