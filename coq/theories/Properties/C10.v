(* C10 - Number rendering and parsing are mutually inverse and follow INDI conventions.
   Statements only; proofs in Num/Props.v.  A finite float is (sign bit, |x| = p/q);
   no bound on the value.  Resolution statements are written without division. *)
From Coq Require Import List NArith ZArith Bool.
Import ListNotations.
From Indi Require Import Base.Sx Msg.Model Num.Model Num.Props.
Local Open Scope N_scope.

(* every text the library renders is accepted by its own message validator *)
Theorem rendered_text_is_valid : forall f a s, num_to_str f a = Some s -> check_number s = true.
Proof. exact render_valid. Qed.
Print Assumptions rendered_text_is_valid.

(* ... and is parsed back to exactly the value it denotes, sign on the whole magnitude *)
Theorem rendered_text_parses_to_what_it_denotes : forall f a t,
  render_t f a = Some t -> str_to_num (show t) = Some (t_neg t, denote_num t, denote_den t).
Proof. exact parse_render. Qed.
Print Assumptions rendered_text_parses_to_what_it_denotes.

(* sexagesimal %w.fm: the text denotes units/U with units the nearest multiple of the
   last field's unit:  | units/U - p/q | <= 1/(2U) *)
Theorem sexagesimal_denotes_nearest_unit : forall code U a,
  sexa_units code = Some U -> 0 < v_q a ->
  let t := render_sexa code U a in
  denote_den t = U /\
  2 * v_q a * denote_num t <= 2 * v_p a * U + v_q a /\
  2 * v_p a * U + v_q a < 2 * v_q a * denote_num t + 2 * v_q a.
Proof.
  intros code U a H Hq. pose proof (sexa_denotes_units code U a H) as [E1 [E2 _]].
  cbv zeta in *. rewrite E1. split; [exact E2|]. now apply round_units_nearest.
Qed.
Print Assumptions sexagesimal_denotes_nearest_unit.

(* minutes and seconds stay below 60 (no "1:60"), and the sign stands in front of
   the whole magnitude exactly when the value is negative *)
Theorem sexagesimal_fields_in_range : forall code U a,
  sexa_units code = Some U ->
  let t := render_sexa code U a in
  Forall (fun f => fst f < 60) (tl (t_lead t)) /\ fst (t_int t) < 60.
Proof. exact sexa_fields_in_range. Qed.
Print Assumptions sexagesimal_fields_in_range.

Theorem sexagesimal_sign_on_whole_magnitude : forall code U a,
  t_neg (render_sexa code U a) = v_neg a && (0 <? v_p a).
Proof. exact sexa_sign. Qed.
Print Assumptions sexagesimal_sign_on_whole_magnitude.

(* %[flags][width][.prec]f: denotes r / 10^prec with | r/10^prec - p/q | <= 1/2 * 10^-prec *)
Theorem fixed_point_denotes_nearest : forall fl w prec a,
  0 < v_q a ->
  let t := render_fixed fl w prec a in
  denote_den t = 10 ^ prec /\
  2 * (denote_num t * v_q a) <= 2 * (v_p a * 10 ^ prec) + v_q a /\
  2 * (v_p a * 10 ^ prec) <= 2 * (denote_num t * v_q a) + v_q a.
Proof.
  intros fl w prec a Hq. pose proof (fixed_denotes fl w prec a) as [E1 [E2 _]]. cbv zeta in *.
  rewrite E1. split; [exact E2|]. now apply round_half_even_nearest.
Qed.
Print Assumptions fixed_point_denotes_nearest.

(* %[flags][width][.prec]d: truncation, | r - p/q | < 1 *)
Theorem integer_format_truncates : forall fl w prec a,
  0 < v_q a ->
  let t := render_int fl w prec a in
  denote_den t = 1 /\ v_q a * denote_num t <= v_p a < v_q a * denote_num t + v_q a.
Proof.
  intros fl w prec a Hq. pose proof (int_denotes fl w prec a Hq) as H. cbv zeta in *. tauto.
Qed.
Print Assumptions integer_format_truncates.

(* every INDI spelling - one to three fields, ':' ';' or blank separators, optional
   sign, leading zeros, optional fraction digits or bare point - is parsed to the
   value it denotes; the property's own format plays no role *)
Theorem every_indi_number_text_is_parsed : forall sg sp t,
  is_sep sp = true -> (length (t_lead t) <= 2)%nat -> wf_t t ->
  str_to_num (spell sg sp t) =
  Some (match sg with Some true => true | _ => false end, denote_num t, denote_den t).
Proof. exact every_indi_spelling_parses. Qed.
Print Assumptions every_indi_number_text_is_parsed.

(* the validator admits exactly the texts the parser reads *)
Theorem validator_and_parser_share_the_grammar : forall s,
  check_number s = true <-> exists v, str_to_num s = Some v.
Proof. exact accepted_iff_parsed. Qed.
Print Assumptions validator_and_parser_share_the_grammar.

(* non-vacuity and the INDI conventions on concrete values: -0.5 with %.3m, a carry, padding *)
Example c10_examples :
  num_to_str (FSexa 3) {| v_neg := true; v_p := 1; v_q := 2 |} = Some [45; 48; 58; 51; 48] /\          (* "-0:30" *)
  num_to_str (FSexa 3) {| v_neg := false; v_p := 19999; v_q := 10000 |} = Some [50; 58; 48; 48] /\    (* "2:00" *)
  str_to_num [45; 48; 58; 51; 48] = Some (true, 30, 60) /\
  str_to_num [49; 50; 32; 51; 48; 32; 49; 53; 46; 53] = Some (false, 12 * 36000 + 30 * 600 + 155, 36000).
Proof. repeat split; vm_compute; reflexivity. Qed.
