(* C07 - getProperties is answered with exactly the definitions asked for. Statements only. *)
From Coq Require Import List NArith Bool String.
Import ListNotations.
From Indi Require Import Base.Sx Msg.Registry Msg.Equality Msg.Model Msg.Codec Driver.Model Driver.Props
  Generated.RegistryData Generated.RegistryOk Driver.EmitWf Driver.EmitWfSwitch.

(* For EVERY device state (any groups / properties / elements / values / flags), with
   property names unique: a request without a property name elicits, in order, exactly
   def_msg of every property - a definition for each enabled one, a delProperty for each
   disabled one - and changes nothing.  (quiet: no Read handlers; their effect is C14's.) *)
Theorem unnamed_request_elicits_every_definition : forall d dn,
  quiet d -> NoDup (map (fun gv => v_name (snd gv)) (all_vecs d)) ->
  from_client d (getprops dn None) =
  (d, map (fun gv => Publish (def_msg d (fst gv) (snd gv))) (all_vecs d)).
Proof. exact getprops_all. Qed.
Print Assumptions unnamed_request_elicits_every_definition.

(* a request naming a property elicits only that property's definition; an unknown name nothing *)
Theorem named_request_elicits_only_that_definition : forall d dn n,
  quiet d -> n <> [] ->
  from_client d (getprops dn (Some n)) =
  (d, match find_gv n (d_groups d) with Some (g, v) => [Publish (def_msg d g v)] | None => [] end).
Proof. exact getprops_named. Qed.
Print Assumptions named_request_elicits_only_that_definition.

(* a definition lists every enabled element, in order, and the property's metadata *)
Theorem definition_lists_enabled_elements_and_metadata : forall d g v,
  vec_on g v = true ->
  mc (def_msg d g v) = Some (map (def_part (v_kind v)) (filter e_enabled (v_elems v))) /\
  lookup (s2l "device") (ma (def_msg d g v)) = Some (d_name d) /\
  lookup (s2l "name") (ma (def_msg d g v)) = Some (v_name v) /\
  lookup (s2l "state") (ma (def_msg d g v)) = Some (v_state v) /\
  lookup (s2l "label") (ma (def_msg d g v)) = Some (v_label v) /\
  lookup (s2l "group") (ma (def_msg d g v)) = Some (g_name g).
Proof. exact def_msg_lists_enabled_elements. Qed.
Print Assumptions definition_lists_enabled_elements_and_metadata.

Theorem disabled_property_gets_no_definition : forall d g v,
  vec_on g v = false -> mk (def_msg d g v) = s2l "delProperty".
Proof. exact def_msg_disabled. Qed.
Print Assumptions disabled_property_gets_no_definition.

(* devices not addressed and unknown device names: the router hands them nothing (C04);
   here: a device that receives no message emits nothing, by definition of step. *)

(* "every definition and update a driver emits is a valid protocol message that the
   library's own parser accepts and reads back unchanged": for any emitted message that
   is constructible (wfb), this is C03's theorem.  That every message the model emits IS
   wfb is evaluated by the model on every run for every emitted message (PARTIAL: not
   yet a theorem over all reachable states). *)
Theorem constructible_emitted_message_reads_back : forall m,
  wfb live_registry m = true ->
  msg_from_xml live_registry (msg_to_xml m) = Some (norm_msg m).
Proof. intros m. exact (roundtrip_tree live_registry m (eq_refl : nodup_strb (map ptag (rparts live_registry)) = true)). Qed.
Print Assumptions constructible_emitted_message_reads_back.

(* the answer for a disabled property (a delProperty naming it) IS constructible, for every
   device and every property, whatever their names are - so the library's own parser reads
   it back unchanged; no hypothesis on the message is left (Driver/EmitWf.v) *)
Theorem the_answer_for_a_disabled_property_reads_back : forall d g v,
  vec_on g v = false ->
  wfb live_registry (def_msg d g v) = true /\
  msg_from_xml live_registry (msg_to_xml (def_msg d g v)) = Some (def_msg d g v).
Proof. intros d g v H. split; [exact (del_msg_wf d g v H) | exact (del_msg_reads_back d g v H)]. Qed.
Print Assumptions the_answer_for_a_disabled_property_reads_back.

(* the definition of an enabled SWITCH property is constructible and the library's parser reads it
   back (up to: empty text = absent text), for every device, whatever names, labels, group and
   timeout are, provided the property is a switch property as declared: its elements hold switch
   values and its state, permission and rule are words of the protocol (switch_vec_ok;
   Driver/EmitWfSwitch.v gives a concrete property that meets it).  PARTIAL for the other kinds:
   texts need the value to survive strip(), numbers the renderer's output to pass the number check. *)
Theorem the_definition_of_a_switch_property_reads_back : forall d g v,
  vec_on g v = true -> switch_vec_ok v ->
  wfb live_registry (def_msg d g v) = true /\
  msg_from_xml live_registry (msg_to_xml (def_msg d g v)) = Some (norm_msg (def_msg d g v)).
Proof. intros d g v H K. split; [exact (switch_def_wf d g v H K) | exact (switch_def_reads_back d g v H K)]. Qed.
Print Assumptions the_definition_of_a_switch_property_reads_back.
