(* C07 - placeholder statements until Driver/Props.v lands *)
From Coq Require Import List NArith Bool String.
From Indi Require Import Base.Sx Driver.Model.
Theorem delproperty_for_disabled : forall d g v, vec_on g v = false -> Msg.Equality.mk (def_msg d g v) = s2l "delProperty".
Proof. intros d g v H. unfold def_msg. now rewrite H. Qed.
Print Assumptions delproperty_for_disabled.
