(* C15 - The client mirrors any server's property stream faithfully and survives it.
   Statements only.  apply : mirror -> message -> mirror * events * sent is a total
   function (no error outcome); these theorems are the effect/frame rules of the INDI
   client, for every mirror and every message. *)
From Coq Require Import List NArith Bool String.
Import ListNotations.
From Indi Require Import Base.Sx Msg.Equality Driver.Model Client.Model Client.Props.

Theorem definition_creates_or_replaces_the_property : forall m mg k dn,
  def_kind (mk mg) = Some k -> attr_of "device" (ma mg) = Some dn ->
  get_vec (mirror_of (apply m mg)) dn (cv_name (vec_of_def k mg)) = Some (vec_of_def k mg).
Proof. exact def_effect. Qed.
Print Assumptions definition_creates_or_replaces_the_property.

Theorem definition_touches_nothing_else : forall m mg k dn dn' vn',
  def_kind (mk mg) = Some k -> attr_of "device" (ma mg) = Some dn ->
  (dn' <> dn \/ vn' <> cv_name (vec_of_def k mg)) ->
  get_vec (mirror_of (apply m mg)) dn' vn' = get_vec m dn' vn'.
Proof. exact def_frame. Qed.
Print Assumptions definition_touches_nothing_else.

Theorem update_of_unknown_target_or_other_kind_is_ignored : forall m mg k dn,
  def_kind (mk mg) = None -> set_kind (mk mg) = Some k -> attr_of "device" (ma mg) = Some dn ->
  (match attr_of "name" (ma mg) with
   | Some vn => match get_vec m dn vn with Some v => vkind_eqb k (cv_kind v) = false | None => True end
   | None => True
   end) ->
  apply m mg = (m, [], []).
Proof. exact update_of_unknown_is_ignored. Qed.
Print Assumptions update_of_unknown_target_or_other_kind_is_ignored.

Theorem update_touches_no_other_property : forall m mg k dn dn' vn',
  def_kind (mk mg) = None -> set_kind (mk mg) = Some k -> attr_of "device" (ma mg) = Some dn ->
  (dn' <> dn \/ Some vn' <> attr_of "name" (ma mg)) ->
  get_vec (mirror_of (apply m mg)) dn' vn' = get_vec m dn' vn'.
Proof. exact update_frame. Qed.
Print Assumptions update_touches_no_other_property.

Theorem update_keeps_the_element_set : forall dn vn k ch es,
  map ce_name (fst (upd_elems dn vn k ch es)) = map ce_name es.
Proof. exact update_keeps_element_names. Qed.
Print Assumptions update_keeps_the_element_set.

Theorem deletion_removes_the_named_property : forall m mg dn vn d,
  def_kind (mk mg) = None -> set_kind (mk mg) = None -> str_eqb (mk mg) (s2l "delProperty") = true ->
  attr_of "device" (ma mg) = Some dn -> attr_of "name" (ma mg) = Some vn ->
  dget cd_name dn m = Some d -> NoDup (map cv_name (cd_vecs d)) ->
  get_vec (mirror_of (apply m mg)) dn vn = None /\
  (forall vn', vn' <> vn -> get_vec (mirror_of (apply m mg)) dn vn' = get_vec m dn vn') /\
  events_of (apply m mg) = [].
Proof. exact del_named. Qed.
Print Assumptions deletion_removes_the_named_property.

Theorem nameless_deletion_removes_the_device : forall m mg dn,
  def_kind (mk mg) = None -> set_kind (mk mg) = None -> str_eqb (mk mg) (s2l "delProperty") = true ->
  attr_of "device" (ma mg) = Some dn -> attr_of "name" (ma mg) = None ->
  NoDup (map cd_name m) ->
  dget cd_name dn (mirror_of (apply m mg)) = None /\
  (forall dn', dn' <> dn -> dget cd_name dn' (mirror_of (apply m mg)) = dget cd_name dn' m).
Proof. exact del_device. Qed.
Print Assumptions nameless_deletion_removes_the_device.

Theorem everything_else_is_ignored : forall m mg,
  def_kind (mk mg) = None -> set_kind (mk mg) = None -> str_eqb (mk mg) (s2l "delProperty") = false ->
  apply m mg = (m, [], []).
Proof. exact other_messages_ignored. Qed.
Print Assumptions everything_else_is_ignored.
