(* C02 - Stream framing is lossless, ordered and independent of fragmentation.
   Statements only.  Generic in the parser: what is needed of it is (i) the predicate
   [spelling] for every message spelling in the stream (the parser reads the complete
   spelling as M and none of its proper prefixes as anything; it starts with a known
   tag opener, ends in a single '>' and fits the threshold) and (ii) parse_needs_opener.
   (ii) is PROVED of the concrete parser - the XML model, the message model and the live
   registry (the_concrete_parser_needs_an_opener, Xml/Opener.v + Buffer/Concrete.v: every
   start tag the lexer reports occurs in the text, the root of the tree is the first start
   tag, a tree read as a message has a registered tag, the buffer looks for exactly those) -
   so for the concrete parser the framing theorem needs only (i).  (i) is decidable
   (spelling_is_decidable) and evaluated on every generated spelling; proving it for every
   printed message (XML round trip and prefix-freeness) is the remaining step: PARTIAL at
   that point only. *)
From Coq Require Import List NArith Bool Arith.
Import ListNotations.
From Indi Require Import Base.Sx Buffer.Model Buffer.Props Buffer.Junk Buffer.Framing Buffer.Run Buffer.Concrete
  Msg.Registry Msg.RegOk Msg.Equality Generated.RegistryData.

(* A stream l = junk, message, junk, message, ... (junk free of known-tag openers:
   whitespace, XML declarations, anything else) cut into ANY pieces: every process()
   call terminates, the messages delivered over all calls followed by those still
   ahead are exactly the messages of the stream, in order, each once, and after every
   call nothing is overdue: the data retained covers no complete message. *)
Theorem framing_lossless_ordered_prompt : forall msg parse tags thr,
  tags_clean tags -> parse_needs_opener msg parse tags ->
  forall pieces l data u,
  wf msg parse tags thr l -> data ++ concat pieces ++ u = flatten msg l ->
  nothing_overdue msg l data ->
  let '(outs, dfin) := feed msg parse tags thr data pieces in
  Forall (fun om => fst om = Done) outs /\
  exists l', wf msg parse tags thr l' /\ dfin ++ u = flatten msg l' /\
             msgs msg l = deliveries msg outs ++ msgs msg l' /\ nothing_overdue msg l' dfin.
Proof. exact framing. Qed.
Print Assumptions framing_lossless_ordered_prompt.

(* one call: the messages complete in the arrived text are delivered by this very call *)
Theorem each_message_delivered_by_the_call_that_completes_it : forall msg parse tags thr,
  tags_clean tags -> parse_needs_opener msg parse tags ->
  forall l d u, wf msg parse tags thr l -> d ++ u = flatten msg l ->
  exists r ms l',
    process msg parse tags thr d = (Done, r, ms) /\
    wf msg parse tags thr l' /\ r ++ u = flatten msg l' /\
    msgs msg l = ms ++ msgs msg l' /\ nothing_overdue msg l' r.
Proof. exact framing_one_call. Qed.
Print Assumptions each_message_delivered_by_the_call_that_completes_it.

(* the per-spelling premise is decidable *)
Theorem spelling_is_decidable : forall msg parse tags thr m M,
  spell_check msg parse tags thr m = Some M -> spelling msg parse tags thr M m.
Proof. exact spell_check_sound. Qed.
Print Assumptions spelling_is_decidable.

(* the live buffer looks for exactly the registered message tags; none contains '<' *)
Theorem live_buffer_tags : reg_ok_buffer live_registry = true.
Proof. vm_compute. reflexivity. Qed.
Print Assumptions live_buffer_tags.

(* the parser premise, for the concrete parser and the live tags *)
Theorem the_concrete_parser_needs_an_opener :
  parse_needs_opener msg concrete_parse (rbuffer_tags live_registry).
Proof. exact concrete_parse_needs_opener. Qed.
Print Assumptions the_concrete_parser_needs_an_opener.

(* ... so that, for the concrete parser, framing needs the spelling premise only *)
Theorem concrete_framing_lossless_ordered_prompt : forall thr pieces l data u,
  wf msg concrete_parse (rbuffer_tags live_registry) thr l -> data ++ concat pieces ++ u = flatten msg l ->
  nothing_overdue msg l data ->
  let '(outs, dfin) := feed msg concrete_parse (rbuffer_tags live_registry) thr data pieces in
  Forall (fun om => fst om = Done) outs /\
  exists l', wf msg concrete_parse (rbuffer_tags live_registry) thr l' /\ dfin ++ u = flatten msg l' /\
             msgs msg l = deliveries msg outs ++ msgs msg l' /\ nothing_overdue msg l' dfin.
Proof. exact (fun thr => framing msg concrete_parse (rbuffer_tags live_registry) thr live_tags_clean concrete_parse_needs_opener). Qed.
Print Assumptions concrete_framing_lossless_ordered_prompt.
