(* C02 - Stream framing is lossless, ordered and independent of fragmentation.
   Statements only.  Generic in the parser: what is needed of it is (i) the predicate
   [spelling] for every message spelling in the stream (the parser reads the complete
   spelling as M and none of its proper prefixes as anything; it starts with a known
   tag opener, ends in a single '>' and fits the threshold) and (ii) parse_needs_opener.
   (ii) is PROVED of the concrete parser - the XML model, the message model and the live
   registry (the_concrete_parser_needs_an_opener, Xml/Opener.v + Buffer/Concrete.v: every
   start tag the lexer reports occurs in the text, the root of the tree is the first start
   tag, a tree read as a message has a registered tag, the buffer looks for exactly those) -
   so for the concrete parser the framing theorem needs only (i).  (i) is decidable
   (spelling_is_decidable) and it is PROVED (Buffer/Spelling.v) of EVERY text the concrete parser
   accepts as a message, however it is spelled, provided it begins with '<' (and is not a declaration)
   and ends with '>' (accepted_element_text_is_a_spelling; that it then begins with the opener of a
   registered tag is a_document_begins_with_its_root_tag): no proper prefix of such a text is a complete
   document - once the root element has closed the lexer accepts blanks only, and the text ends
   with '>' -, and a complete document never ends in two '>' (the step that completes it leaves a
   mode in which a tag is being closed, and '>' never leads into such a mode).  The canonical text
   to_string writes is an instance (printed_message_is_a_spelling, with the XML print-then-parse
   identity and the message round trip).  The theorems at the end therefore assume nothing about
   the parser: any_accepted_stream_is_framed(_promptly) for streams of any accepted spellings and
   any junk free of openers, every_stream_of_written_messages_is_read_back(_promptly) for what the
   library itself writes; the one hypothesis left is that each message fits the threshold (see K1). *)
From Coq Require Import List NArith Bool Arith.
Import ListNotations.
From Indi Require Import Base.Sx Buffer.Model Buffer.Props Buffer.Junk Buffer.Framing Buffer.Run Buffer.Concrete Buffer.Multi Buffer.Spelling
  Msg.Registry Msg.RegOk Msg.Equality Msg.Model Msg.Codec Xml.Lex Xml.Print Xml.Opener Xml.FirstTag Generated.RegistryData.

(* A stream l = junk, message, junk, message, ... (junk free of known-tag openers:
   whitespace, XML declarations, anything else) cut into ANY pieces: every process()
   call terminates, the messages delivered over all calls followed by those still
   ahead are exactly the messages of the stream, in order, each once, and after every
   call nothing is overdue: the data retained covers no complete message. *)
Theorem framing_lossless_ordered_prompt : forall msg parse tags thr,
  tags_clean tags -> parse_needs_opener msg parse tags ->
  forall pieces l data u,
  wf msg parse tags thr l -> data ++ concat pieces ++ u = flatten msg l ->
  nothing_overdue msg l data ->
  let '(outs, dfin) := feed msg parse tags thr data pieces in
  Forall (fun om => fst om = Done) outs /\
  exists l', wf msg parse tags thr l' /\ dfin ++ u = flatten msg l' /\
             msgs msg l = deliveries msg outs ++ msgs msg l' /\ nothing_overdue msg l' dfin.
Proof. exact framing. Qed.
Print Assumptions framing_lossless_ordered_prompt.

(* one call: the messages complete in the arrived text are delivered by this very call *)
Theorem each_message_delivered_by_the_call_that_completes_it : forall msg parse tags thr,
  tags_clean tags -> parse_needs_opener msg parse tags ->
  forall l d u, wf msg parse tags thr l -> d ++ u = flatten msg l ->
  exists r ms l',
    process msg parse tags thr d = (Done, r, ms) /\
    wf msg parse tags thr l' /\ r ++ u = flatten msg l' /\
    msgs msg l = ms ++ msgs msg l' /\ nothing_overdue msg l' r.
Proof. exact framing_one_call. Qed.
Print Assumptions each_message_delivered_by_the_call_that_completes_it.

(* the per-spelling premise is decidable *)
Theorem spelling_is_decidable : forall msg parse tags thr m M,
  spell_check msg parse tags thr m = Some M -> spelling msg parse tags thr M m.
Proof. exact spell_check_sound. Qed.
Print Assumptions spelling_is_decidable.

(* the live buffer looks for exactly the registered message tags; none contains '<' *)
Theorem live_buffer_tags : reg_ok_buffer live_registry = true.
Proof. vm_compute. reflexivity. Qed.
Print Assumptions live_buffer_tags.

(* the parser premise, for the concrete parser and the live tags *)
Theorem the_concrete_parser_needs_an_opener :
  parse_needs_opener msg concrete_parse (rbuffer_tags live_registry).
Proof. exact concrete_parse_needs_opener. Qed.
Print Assumptions the_concrete_parser_needs_an_opener.

(* ... so that, for the concrete parser, framing needs the spelling premise only *)
Theorem concrete_framing_lossless_ordered_prompt : forall thr pieces l data u,
  wf msg concrete_parse (rbuffer_tags live_registry) thr l -> data ++ concat pieces ++ u = flatten msg l ->
  nothing_overdue msg l data ->
  let '(outs, dfin) := feed msg concrete_parse (rbuffer_tags live_registry) thr data pieces in
  Forall (fun om => fst om = Done) outs /\
  exists l', wf msg concrete_parse (rbuffer_tags live_registry) thr l' /\ dfin ++ u = flatten msg l' /\
             msgs msg l = deliveries msg outs ++ msgs msg l' /\ nothing_overdue msg l' dfin.
Proof. exact (fun thr => framing msg concrete_parse (rbuffer_tags live_registry) thr live_tags_clean concrete_parse_needs_opener). Qed.
Print Assumptions concrete_framing_lossless_ordered_prompt.

(* (i) for the concrete parser: the element text written for a constructible, printable message
   that fits the threshold is a complete spelling of it *)
Theorem printed_message_is_a_spelling : forall thr m,
  wfb live_registry m = true -> printable m = true -> fits thr m ->
  spelling msg concrete_parse (rbuffer_tags live_registry) thr (norm_msg m) (wire_text m).
Proof. exact Buffer.Spelling.printed_message_is_a_spelling. Qed.
Print Assumptions printed_message_is_a_spelling.

(* no proper prefix of a printed element is a complete XML document *)
Theorem no_prefix_of_a_printed_element_parses : forall t k,
  Xml.RoundTrip.tree_ok t -> 0 < k < length (print_tree t) -> fst (Xml.Lex.parse (firstn k (print_tree t))) <> 0%N.
Proof. exact Buffer.Spelling.no_prefix_of_a_printed_element_parses. Qed.
Print Assumptions no_prefix_of_a_printed_element_parses.

(* END TO END, nothing assumed of the parser: whatever constructible messages are written with
   to_string one after the other, and however the bytes are cut into pieces, the buffer hands
   over exactly those messages (empty text = absent text), in order; every call terminates *)
Theorem every_stream_of_written_messages_is_read_back : forall thr ms pieces,
  Forall (sendable thr) ms -> concat pieces = concat (map to_string ms) ->
  let '(outs, dfin) := feed msg concrete_parse (rbuffer_tags live_registry) thr [] pieces in
  Forall (fun om => fst om = Done) outs /\ deliveries msg outs = map norm_msg ms.
Proof. exact Buffer.Spelling.every_stream_of_written_messages_is_read_back. Qed.
Print Assumptions every_stream_of_written_messages_is_read_back.

(* ... promptly: after any number of pieces (u = the bytes still to come) the data retained covers
   no complete message - every message whose last byte has arrived has been handed over *)
Theorem written_messages_are_delivered_promptly : forall thr ms pieces u,
  Forall (sendable thr) ms -> concat pieces ++ u = concat (map to_string ms) ->
  let '(outs, dfin) := feed msg concrete_parse (rbuffer_tags live_registry) thr [] pieces in
  exists l', wf msg concrete_parse (rbuffer_tags live_registry) thr l' /\ dfin ++ u = flatten msg l' /\
             map norm_msg ms = deliveries msg outs ++ msgs msg l' /\ nothing_overdue msg l' dfin.
Proof. exact Buffer.Spelling.written_messages_are_delivered_promptly. Qed.
Print Assumptions written_messages_are_delivered_promptly.

(* (i) in general: ANY text the concrete parser reads as message M, beginning with the opener of a registered
   tag, ending with '>' and within the threshold, is a spelling of M - whatever quotes, blanks, entity
   forms or attribute order it uses *)
Theorem accepted_text_is_a_spelling : forall thr (m : str) M tag rest,
  concrete_parse m = PMsg M ->
  In tag (rbuffer_tags live_registry) -> m = LT :: tag ++ rest ->
  nth (length m - 1) m 0%N = GT ->
  (forall t, thr = Some t -> length m <= t) ->
  spelling msg concrete_parse (rbuffer_tags live_registry) thr M m.
Proof. exact Buffer.Spelling.accepted_text_is_a_spelling. Qed.
Print Assumptions accepted_text_is_a_spelling.

(* ... and the tag need not be assumed: a text beginning with '<' (not a declaration), read as a message, begins
   with the opener of a registered tag - the name read after the first '<' is the name of the first start tag,
   which is the root of the tree built (Xml/FirstTag.v), and a tree read as a message has a registered tag *)
Theorem a_document_begins_with_its_root_tag : forall r t,
  status (lex (60%N :: r)) = 0%N -> build (rev (toks (lex (60%N :: r)))) [] = Some t ->
  exists rest, r = tree_tag t ++ rest.
Proof. exact Xml.FirstTag.document_begins_with_its_root_tag. Qed.
Print Assumptions a_document_begins_with_its_root_tag.

Theorem accepted_element_text_is_a_spelling : forall thr (m : str) M c r,
  concrete_parse m = PMsg M -> m = LT :: c :: r -> c <> 63%N ->
  nth (length m - 1) m 0%N = GT ->
  (forall t, thr = Some t -> length m <= t) ->
  spelling msg concrete_parse (rbuffer_tags live_registry) thr M m.
Proof. exact Buffer.Spelling.accepted_element_text_is_a_spelling. Qed.
Print Assumptions accepted_element_text_is_a_spelling.

(* C02 for the concrete parser and every spelling: a stream of accepted texts with any opener-free junk between
   them, cut into ANY pieces - all calls terminate, exactly the messages are delivered, in order, each once ... *)
Theorem any_accepted_stream_is_framed : forall thr pieces l,
  stream_ok thr l -> concat pieces = flatten msg l ->
  let '(outs, dfin) := feed msg concrete_parse (rbuffer_tags live_registry) thr [] pieces in
  Forall (fun om => fst om = Done) outs /\ deliveries msg outs = msgs msg l.
Proof. exact Buffer.Spelling.any_accepted_stream_is_framed. Qed.
Print Assumptions any_accepted_stream_is_framed.

(* ... and each no later than the call that follows the arrival of its last character *)
Theorem any_accepted_stream_is_framed_promptly : forall thr pieces l u,
  stream_ok thr l -> concat pieces ++ u = flatten msg l -> nothing_overdue msg l [] ->
  let '(outs, dfin) := feed msg concrete_parse (rbuffer_tags live_registry) thr [] pieces in
  exists l', wf msg concrete_parse (rbuffer_tags live_registry) thr l' /\ dfin ++ u = flatten msg l' /\
             msgs msg l = deliveries msg outs ++ msgs msg l' /\ nothing_overdue msg l' dfin.
Proof. exact Buffer.Spelling.any_accepted_stream_is_framed_promptly. Qed.
Print Assumptions any_accepted_stream_is_framed_promptly.

(* non-vacuity: a notice and a vector with children are sendable under the default threshold, and
   the buffer model, run on their bytes cut after every third byte, hands over both *)
(* several connections in one process: each has a buffer of its own, so what a connection delivers is what it would
   deliver alone - whatever reaches the others, in whatever order, wherever their streams end *)
Theorem connections_do_not_disturb_each_other : forall msg parse tags (thr : nat -> option nat) arr b c,
  of_conn c (fst (serve msg parse tags thr b arr)) = fst (feed msg parse tags (thr c) (b c) (of_conn c arr)) /\
  snd (serve msg parse tags thr b arr) c = snd (feed msg parse tags (thr c) (b c) (of_conn c arr)).
Proof. exact Buffer.Multi.serve_isolates. Qed.
Print Assumptions connections_do_not_disturb_each_other.

Theorem each_connection_is_framed_whatever_the_others_receive : forall (thr : nat -> option nat) arr l c,
  stream_ok (thr c) l -> concat (of_conn c arr) = flatten msg l ->
  let outs := of_conn c (fst (serve msg concrete_parse (rbuffer_tags live_registry) thr (fun _ => []) arr)) in
  Forall (fun om => fst om = Done) outs /\ deliveries msg outs = msgs msg l.
Proof. exact Buffer.Spelling.each_connection_is_framed_whatever_the_others_receive. Qed.
Print Assumptions each_connection_is_framed_whatever_the_others_receive.

From Coq Require Import String.
Example c02_stream_nonvacuous :
  let note := {| mk := s2l "message"; ma := [(s2l "device", s2l "d"); (s2l "message", [60; 233; 128512]%N)]; mv := None; mc := None |} in
  let vec := {| mk := s2l "newTextVector"; ma := [(s2l "device", s2l "d"); (s2l "name", s2l "n")]; mv := None;
                mc := Some [ {| pk := s2l "oneText"; pa := [(s2l "name", s2l "a")]; pv := Some (s2l "x > y") |} ] |} in
  (wfb live_registry note && printable note && Nat.leb (List.length (wire_text note)) 2048 &&
   wfb live_registry vec && printable vec && Nat.leb (List.length (wire_text vec)) 2048)%bool = true /\
  deliveries msg (fst (feed msg concrete_parse (rbuffer_tags live_registry) (Some 2048) []
                         (let fix cut (n : nat) (l : str) := match n with O => [] | S n' => match l with [] => [] | _ => firstn 3 l :: cut n' (skipn 3 l) end end
                          in cut 400 (to_string note ++ to_string vec)))) = [norm_msg note; norm_msg vec].
Proof. split; vm_compute; reflexivity. Qed.

(* non-vacuity of the general form: a spelling with single quotes, extra blanks, a character reference and an
   explicit end tag is accepted, begins with its opener and ends with '>' *)
Example c02_foreign_spelling_nonvacuous :
  let m := s2l "<getProperties   version='1.7'  device='d&#233;v' ></getProperties >" in
  exists M, accepted_spelling (Some 2048) M m.
Proof.
  cbv zeta. eexists. unfold accepted_spelling. split; [vm_compute; reflexivity|]. split; [|split; [vm_compute; reflexivity|]].
  - exists (s2l "getProperties"), (s2l "   version='1.7'  device='d&#233;v' ></getProperties >"). split; [vm_compute; tauto|reflexivity].
  - intros t [= <-]. vm_compute. repeat constructor.
Qed.

(* the hypotheses of accepted_element_text_is_a_spelling are met by the same foreign spelling, with nothing said about its tag *)
Example c02_element_text_nonvacuous :
  let m := s2l "<getProperties   version='1.7'  device='d&#233;v' ></getProperties >" in
  exists M, spelling msg concrete_parse (rbuffer_tags live_registry) (Some 2048) M m.
Proof.
  cbv zeta. eexists.
  eapply (accepted_element_text_is_a_spelling (Some 2048) _ _ 103%N (List.tl (List.tl (s2l "<getProperties   version='1.7'  device='d&#233;v' ></getProperties >")))).
  - vm_compute. reflexivity.
  - vm_compute. reflexivity.
  - discriminate.
  - vm_compute. reflexivity.
  - intros t [= <-]. vm_compute. repeat constructor.
Qed.
