(* C12 - No client message can take a driver, a connection or the server down.
   Statements only.  from_client is a total function of (device state, message): it has no
   error outcome; the theorems say what it leaves untouched.  That the implementation raises
   nothing and keeps the connection where the model defines a result is what the
   correspondence (TCP handler, TTY handler, direct router call) establishes. *)
From Coq Require Import List NArith Bool String.
Import ListNotations.
From Indi Require Import Base.Sx Msg.Equality Driver.Model Driver.Props.

Theorem unknown_property_is_ignored : forall d m k n,
  str_eqb (mk m) (s2l "getProperties") = false -> kind_of_new (mk m) = Some k ->
  lookup (s2l "name") (ma m) = Some n -> find_gv n (d_groups d) = None ->
  from_client d m = (d, []).
Proof. exact unknown_property_ignored. Qed.
Print Assumptions unknown_property_is_ignored.

Theorem wrong_kind_is_ignored : forall d m k n g v,
  str_eqb (mk m) (s2l "getProperties") = false -> kind_of_new (mk m) = Some k ->
  lookup (s2l "name") (ma m) = Some n ->
  (forall g' v', In g' (d_groups d) -> In v' (g_vecs g') -> named n v' = true -> vkind_eqb k (v_kind v') = false) ->
  find_gv n (d_groups d) = Some (g, v) ->
  from_client d m = (d, []).
Proof. exact kind_mismatch_ignored. Qed.
Print Assumptions wrong_kind_is_ignored.

Theorem unexpected_kinds_are_ignored : forall d m,
  str_eqb (mk m) (s2l "getProperties") = false -> kind_of_new (mk m) = None ->
  from_client d m = (d, []).
Proof. exact foreign_kind_ignored. Qed.
Print Assumptions unexpected_kinds_are_ignored.

(* children naming unknown elements or carrying no applicable value are skipped *)
Theorem inapplicable_children_are_skipped : forall d g v ch,
  Forall (inapplicable v) ch -> apply_children d g v ch = (v, []).
Proof. exact inapplicable_children_skipped. Qed.
Print Assumptions inapplicable_children_are_skipped.

(* whatever the message, no property other than the one it names changes *)
Theorem only_the_named_property_can_change : forall d m n n',
  str_eqb (mk m) (s2l "getProperties") = false ->
  lookup (s2l "name") (ma m) = Some n -> n' <> n ->
  find_vec n' (fst (from_client d m)) = find_vec n' d.
Proof. exact write_touches_only_the_named_property. Qed.
Print Assumptions only_the_named_property_can_change.
