(* C09 - Switch properties always satisfy their rule. Statements only. *)
From Coq Require Import List Arith Bool.
Import ListNotations.
From Indi Require Import Driver.Switch.

(* Any sequence of client writes (one or several switches), driver assignments
   of value / bool_value and selected_value(s) assignments, any number of
   switches: a OneOfMany or AtMostOne vector never has more than one On - in
   its state and in every update it publishes along the way. *)
Theorem rule_holds_along_every_history : forall r ops l,
  Inv r l -> Inv r (fst (run r l ops)) /\ Forall (Inv r) (snd (run r l ops)).
Proof. exact run_inv. Qed.
Print Assumptions rule_holds_along_every_history.

(* A OneOfMany vector that has one switch On always has exactly one On. *)
Theorem oneofmany_keeps_exactly_one : forall ops l,
  count_on l = 1 ->
  count_on (fst (run OneOfMany l ops)) = 1 /\
  Forall (fun p => count_on p = 1) (snd (run OneOfMany l ops)).
Proof. intros ops l H. exact (run_inv1 OneOfMany ops l H). Qed.
Print Assumptions oneofmany_keeps_exactly_one.

Theorem oneofmany_first_on_gives_exactly_one : forall i l,
  i < length l -> count_on (set_one OneOfMany i true l) = 1.
Proof. exact oneofmany_on_gives_one. Qed.
Print Assumptions oneofmany_first_on_gives_exactly_one.

(* turning a switch On always leaves that switch On, under every rule *)
Theorem turning_on_leaves_it_on : forall r i l,
  i < length l -> nth i (set_one r i true l) false = true.
Proof. exact on_stays_on. Qed.
Print Assumptions turning_on_leaves_it_on.

(* AnyOfMany: an assignment changes only the switch it names, to the value given *)
Theorem anyofmany_changes_only_the_named : forall i j v l,
  i <> j -> nth j (set_one AnyOfMany i v l) false = nth j l false.
Proof. exact anyofmany_frame. Qed.
Print Assumptions anyofmany_changes_only_the_named.

Theorem anyofmany_takes_the_value : forall i v l,
  i < length l -> nth i (set_one AnyOfMany i v l) false = v.
Proof. exact anyofmany_sets. Qed.
Print Assumptions anyofmany_takes_the_value.

Example c09_nonvacuous :
  Inv1 OneOfMany [false; true; false] /\
  run OneOfMany [false; true; false] [Assign 1 false; Write [(0, true); (2, true)]; Selected [1]] =
  ([false; true; false],
   [[false; true; false]; [true; false; false]; [false; false; true]; [false; true; false]]).
Proof. split; vm_compute; reflexivity. Qed.
