(* C06: a client's write changes exactly the addressed element, to the value sent.
   Statements only.  Driver side: Driver/Write.v over the driver model ("calm" = no handler
   of the property vetoes a write or refreshes a value on read, i.e. the default behaviour);
   routing: Router/Props.v; client side: System/Write.v.  That the composed model is the
   real system - serializer, fragmented stream, server connection, framing, router, driver
   and back - is the system-level correspondence of this check. *)
From Coq Require Import List NArith Bool String.
Import ListNotations.
From Indi Require Import Base.Sx Msg.Equality Router.Model Driver.Switch B64.Model Num.Model Driver.Model Driver.Props Driver.Write
     Client.Model System.Model System.Write.

(* text, number and BLOB properties: after the whole message, every element holds the last value a
   child of the message gave it and is exactly as before when no child names it; state, flags,
   metadata and element order of the property are untouched *)
Theorem write_changes_exactly_the_named_elements d g v ch :
  calm v -> NoDup (map e_name (v_elems v)) -> v_kind v <> KSwitch ->
  fst (apply_children d g v ch) =
  with_elems v (map (fun e => set_value_of e (final_value (v_kind v) ch e)) (v_elems v)).
Proof. exact (write_effect d g v ch). Qed.
Print Assumptions write_changes_exactly_the_named_elements.

Theorem element_not_named_is_unchanged k ch e :
  (forall p, In p ch -> lookup (s2l "name") (pa p) <> Some (e_name e)) -> final_value k ch e = e_value e.
Proof. exact (unnamed_element_keeps_its_value k ch e). Qed.
Print Assumptions element_not_named_is_unchanged.

Theorem element_named_takes_the_value_sent k pre p post e x :
  lookup (s2l "name") (pa p) = Some (e_name e) -> value_of_child k p = Some x ->
  (forall q, In q post -> lookup (s2l "name") (pa q) <> Some (e_name e)) ->
  final_value k (pre ++ p :: post) e = x.
Proof. exact (named_once_takes_the_value k pre p post e x). Qed.
Print Assumptions element_named_takes_the_value_sent.

(* the value sent: text verbatim, numbers by the format-independent reader (C10), BLOBs byte for byte *)
Theorem text_verbatim p : value_of_child KText p = Some (VText (pv p)).
Proof. exact (text_is_taken_verbatim p). Qed.
Print Assumptions text_verbatim.

Theorem number_by_the_common_reader p s :
  pv p = Some s -> value_of_child KNumber p = option_map (fun a => VNum (Some a)) (num_of_text s).
Proof. exact (number_is_parsed p s). Qed.
Print Assumptions number_by_the_common_reader.

Theorem blob_byte_for_byte en b f :
  forallb is_byte b = true ->
  value_of_child KBlob (new_part KBlob en (WBlob b f)) = Some (VBlob (Some (b, f))).
Proof. exact (uploaded_blob_arrives_intact en b f). Qed.
Print Assumptions blob_byte_for_byte.

(* switches: subject to the rule, child by child (what the rule guarantees is C09) *)
Theorem switch_write_follows_the_rule d g ch v tr :
  calm v -> all_sw (v_elems v) -> v_kind v = KSwitch ->
  let v' := fst (fold_left (step_child d g) ch (v, tr)) in
  map sw_of (v_elems v') = fold_left (sw_child v) ch (map sw_of (v_elems v)) /\
  map e_name (v_elems v') = map e_name (v_elems v) /\
  with_elems v' (v_elems v) = v.
Proof. exact (switch_write_effect d g ch v tr). Qed.
Print Assumptions switch_write_follows_the_rule.

(* nothing else changes: no other property of the device ... *)
Theorem no_other_property_changes d m n n' :
  str_eqb (mk m) (s2l "getProperties") = false ->
  lookup (s2l "name") (ma m) = Some n -> n' <> n ->
  find_vec n' (fst (from_client d m)) = find_vec n' d.
Proof. exact (write_touches_only_the_named_property d m n n'). Qed.
Print Assumptions no_other_property_changes.

(* ... and no other device: the router hands the write to drivers of the named device only *)
Theorem no_other_device_is_reached s m sender e n dn :
  (forall a, In (e, a) (devices s) -> a = AccNamed n) ->
  r_dev m = Some dn ->
  In (ToDev e) (snd (process s m sender)) -> n = dn.
Proof. exact (named_message_reaches_only_that_device s m sender e n dn). Qed.
Print Assumptions no_other_device_is_reached.

(* the client side: what submit puts on the wire *)
Theorem submit_sends_exactly_the_assigned_elements mi dn vn a d v :
  dget cd_name dn mi = Some d -> dget cv_name vn (cd_vecs d) = Some v ->
  exists m, submit_msg mi dn vn a = Some m /\
            lookup (s2l "device") (ma m) = Some dn /\ lookup (s2l "name") (ma m) = Some vn /\
            mc m = Some (flat_map (fun e => match alookup_str (ce_name e) (rev a) with
                                            | Some x => [new_part (cv_kind v) (ce_name e) x]
                                            | None => []
                                            end) (cv_elems v)).
Proof. exact (submit_children mi dn vn a d v). Qed.
Print Assumptions submit_sends_exactly_the_assigned_elements.
