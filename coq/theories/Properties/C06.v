(* C06: a client's write changes exactly the addressed element, to the value sent.
   Statements only.  Driver side: Driver/Write.v over the driver model ("calm" = no handler
   of the property vetoes a write or refreshes a value on read, i.e. the default behaviour);
   routing: Router/Props.v; client side: System/Write.v.  That the composed model is the
   real system - serializer, fragmented stream, server connection, framing, router, driver
   and back - is the system-level correspondence of this check. *)
From Coq Require Import List NArith Bool String.
Import ListNotations.
From Indi Require Import Base.Sx Msg.Equality Router.Model Driver.Switch B64.Model Num.Model Driver.Model Driver.Props Driver.Write
     Client.Model Client.Norm System.Model System.Write System.Ops System.Deliver System.Handshake System.WriteE2E.

(* text, number and BLOB properties: after the whole message, every element holds the last value a
   child of the message gave it and is exactly as before when no child names it; state, flags,
   metadata and element order of the property are untouched *)
Theorem write_changes_exactly_the_named_elements d g v ch :
  calm v -> NoDup (map e_name (v_elems v)) -> v_kind v <> KSwitch ->
  fst (apply_children d g v ch) =
  with_elems v (map (fun e => set_value_of e (final_value (v_kind v) ch e)) (v_elems v)).
Proof. exact (write_effect d g v ch). Qed.
Print Assumptions write_changes_exactly_the_named_elements.

Theorem element_not_named_is_unchanged k ch e :
  (forall p, In p ch -> lookup (s2l "name") (pa p) <> Some (e_name e)) -> final_value k ch e = e_value e.
Proof. exact (unnamed_element_keeps_its_value k ch e). Qed.
Print Assumptions element_not_named_is_unchanged.

Theorem element_named_takes_the_value_sent k pre p post e x :
  lookup (s2l "name") (pa p) = Some (e_name e) -> value_of_child k p = Some x ->
  (forall q, In q post -> lookup (s2l "name") (pa q) <> Some (e_name e)) ->
  final_value k (pre ++ p :: post) e = x.
Proof. exact (named_once_takes_the_value k pre p post e x). Qed.
Print Assumptions element_named_takes_the_value_sent.

(* the value sent: text verbatim, numbers by the format-independent reader (C10), BLOBs byte for byte *)
Theorem text_verbatim p : value_of_child KText p = Some (VText (pv p)).
Proof. exact (text_is_taken_verbatim p). Qed.
Print Assumptions text_verbatim.

Theorem number_by_the_common_reader p s :
  pv p = Some s -> value_of_child KNumber p = option_map (fun a => VNum (Some a)) (num_of_text s).
Proof. exact (number_is_parsed p s). Qed.
Print Assumptions number_by_the_common_reader.

Theorem blob_byte_for_byte en b f :
  forallb is_byte b = true ->
  value_of_child KBlob (new_part KBlob en (WBlob b f)) = Some (VBlob (Some (b, f))).
Proof. exact (uploaded_blob_arrives_intact en b f). Qed.
Print Assumptions blob_byte_for_byte.

(* switches: subject to the rule, child by child (what the rule guarantees is C09) *)
Theorem switch_write_follows_the_rule d g ch v tr :
  calm v -> all_sw (v_elems v) -> v_kind v = KSwitch ->
  let v' := fst (fold_left (step_child d g) ch (v, tr)) in
  map sw_of (v_elems v') = fold_left (sw_child v) ch (map sw_of (v_elems v)) /\
  map e_name (v_elems v') = map e_name (v_elems v) /\
  with_elems v' (v_elems v) = v.
Proof. exact (switch_write_effect d g ch v tr). Qed.
Print Assumptions switch_write_follows_the_rule.

(* nothing else changes: no other property of the device ... *)
Theorem no_other_property_changes d m n n' :
  str_eqb (mk m) (s2l "getProperties") = false ->
  lookup (s2l "name") (ma m) = Some n -> n' <> n ->
  find_vec n' (fst (from_client d m)) = find_vec n' d.
Proof. exact (write_touches_only_the_named_property d m n n'). Qed.
Print Assumptions no_other_property_changes.

(* ... and no other device: the router hands the write to drivers of the named device only *)
Theorem no_other_device_is_reached s m sender e n dn :
  (forall a, In (e, a) (devices s) -> a = AccNamed n) ->
  r_dev m = Some dn ->
  In (ToDev e) (snd (process s m sender)) -> n = dn.
Proof. exact (named_message_reaches_only_that_device s m sender e n dn). Qed.
Print Assumptions no_other_device_is_reached.

(* the client side: what submit puts on the wire *)
Theorem submit_sends_exactly_the_assigned_elements mi dn vn a d v :
  dget cd_name dn mi = Some d -> dget cv_name vn (cd_vecs d) = Some v ->
  exists m, submit_msg mi dn vn a = Some m /\
            lookup (s2l "device") (ma m) = Some dn /\ lookup (s2l "name") (ma m) = Some vn /\
            mc m = Some (flat_map (fun e => match alookup_str (ce_name e) (rev a) with
                                            | Some x => [new_part (cv_kind v) (ce_name e) x]
                                            | None => []
                                            end) (cv_elems v)).
Proof. exact (submit_children mi dn vn a d v). Qed.
Print Assumptions submit_sends_exactly_the_assigned_elements.

(* end to end in the composed system model: a connected network client submits a write; the server hands it to the
   driver of the named device (what the driver does with it: the theorems above); what the driver publishes reaches
   the client; afterwards nothing is in flight and the client's own view is in sync with the device again
   (for writes that make the driver publish no BLOB update) *)
Theorem a_submitted_write_end_to_end s c e d dn vn a m :
  one_client s c dn -> one_device s e d -> d_name d = dn -> sy_cls s = [c] ->
  cl_in_ctl c = [] -> cl_in_blob c = [] -> e <> cl_ctl c -> e <> cl_blob c ->
  dev_ok d -> net_synced (cl_mirror c) d ->
  submit_msg (cl_mirror c) dn vn a = Some m -> client_msg dn (wire m) ->
  Forall (fun m' => is_blob_msg m' = false) (pubs (snd (from_client d (wire m)))) ->
  exists c',
    sy_cls (sstep s (SWrite 0 dn vn a)) = [c'] /\
    find_dev (sstep s (SWrite 0 dn vn a)) e = Some (fst (from_client d (wire m))) /\
    net_synced (cl_mirror c') (fst (from_client d (wire m))) /\
    cl_in_ctl c' = [] /\ cl_in_blob c' = [].
Proof. exact (client_write_end_to_end s c e d dn vn a m). Qed.
Print Assumptions a_submitted_write_end_to_end.
