(* C11 - Garbage on the wire cannot hang, crash or bloat the receiver, and is skipped.
   Statements only.  Everything here holds for ANY pair of parsers (any function
   parse : text -> not-xml | invalid | message) and any tag list: it therefore
   covers expat and the message classes whatever they do, on any input text. *)
From Coq Require Import List NArith Bool Arith.
Import ListNotations.
From Indi Require Import Base.Sx Buffer.Model Buffer.Props.

(* One process() call on any buffer content: the loop terminates (the fuel
   S(length) is never exhausted), what is kept is a suffix of what was there,
   no longer than the threshold when one is set, and every message handed to
   the consumer was parsed from a contiguous piece of the data. *)
Theorem process_terminates_bounded_genuine : forall msg parse tags thr d,
  let '(o, d', ms) := process msg parse tags thr d in
  o = Done /\ suffix d' d /\ (forall t, thr = Some t -> length d' <= t) /\
  (forall m, In m ms -> genuine msg parse d m).
Proof. exact process_spec. Qed.
Print Assumptions process_terminates_bounded_genuine.

(* A whole connection, the text arriving in ANY pieces: every call terminates,
   every delivered message is genuine with respect to the text received. *)
Theorem any_pieces_terminate_and_deliver_only_genuine : forall msg parse tags thr pieces data,
  let '(outs, dfin) := feed msg parse tags thr data pieces in
  Forall (fun om => fst om = Done /\ forall m, In m (snd om) -> genuine msg parse (data ++ concat pieces) m) outs /\
  suffix dfin (data ++ concat pieces).
Proof. exact feed_spec. Qed.
Print Assumptions any_pieces_terminate_and_deliver_only_genuine.

Theorem retained_at_most_threshold : forall msg parse tags thr t, thr = Some t -> forall pieces data,
  pieces <> [] -> length (snd (feed msg parse tags thr data pieces)) <= t.
Proof. exact feed_retained. Qed.
Print Assumptions retained_at_most_threshold.
