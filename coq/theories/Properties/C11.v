(* C11 - Garbage on the wire cannot hang, crash or bloat the receiver, and is skipped.
   Statements only.  Everything here holds for ANY pair of parsers (any function
   parse : text -> not-xml | invalid | message) and any tag list: it therefore
   covers expat and the message classes whatever they do, on any input text. *)
From Coq Require Import List NArith Bool Arith.
Import ListNotations.
From Indi Require Import Base.Sx Buffer.Model Buffer.Props.

(* One process() call on any buffer content: the loop terminates (the fuel
   S(length) is never exhausted), what is kept is a suffix of what was there,
   no longer than the threshold when one is set, and every message handed to
   the consumer was parsed from a contiguous piece of the data. *)
Theorem process_terminates_bounded_genuine : forall msg parse tags thr d,
  let '(o, d', ms) := process msg parse tags thr d in
  o = Done /\ suffix d' d /\ (forall t, thr = Some t -> length d' <= t) /\
  (forall m, In m ms -> genuine msg parse d m).
Proof. exact process_spec. Qed.
Print Assumptions process_terminates_bounded_genuine.

(* A whole connection, the text arriving in ANY pieces: every call terminates,
   every delivered message is genuine with respect to the text received. *)
Theorem any_pieces_terminate_and_deliver_only_genuine : forall msg parse tags thr pieces data,
  let '(outs, dfin) := feed msg parse tags thr data pieces in
  Forall (fun om => fst om = Done /\ forall m, In m (snd om) -> genuine msg parse (data ++ concat pieces) m) outs /\
  suffix dfin (data ++ concat pieces).
Proof. exact feed_spec. Qed.
Print Assumptions any_pieces_terminate_and_deliver_only_genuine.

Theorem retained_at_most_threshold : forall msg parse tags thr t, thr = Some t -> forall pieces data,
  pieces <> [] -> length (snd (feed msg parse tags thr data pieces)) <= t.
Proof. exact feed_retained. Qed.
Print Assumptions retained_at_most_threshold.

From Indi Require Import Buffer.Junk.

(* Junk that contains no known-tag opener ("<" + a message tag) is invisible:
   in front of any text that starts with '<' it changes neither what a process()
   call delivers nor what it retains - so it can neither prevent nor delay the
   messages around it.  (tags_clean: no tag contains '<'.) *)
Theorem benign_junk_is_transparent : forall msg parse tags thr X y',
  tags_clean tags -> opener_free tags X ->
  process msg parse tags thr (X ++ LT :: y') = process msg parse tags thr (LT :: y').
Proof. exact junk_prefix_transparent. Qed.
Print Assumptions benign_junk_is_transparent.

(* ... and junk alone produces no delivery and leaves only junk behind, so the
   statement above applies again to whatever arrives next (for a parser that
   accepts only texts containing a known-tag opener). *)
Theorem benign_junk_alone_is_silent : forall msg parse tags thr X,
  parse_needs_opener msg parse tags -> opener_free tags X ->
  snd (process msg parse tags thr X) = [] /\
  opener_free tags (snd (fst (process msg parse tags thr X))).
Proof. exact junk_only_silent. Qed.
Print Assumptions benign_junk_alone_is_silent.

(* After a corrupt front c (no parse attempt starting inside it succeeds), once
   more than the threshold has arrived behind it (s, starting with a known
   opener), processing continues exactly as if c had never been there: every
   later valid message is delivered as from a clean stream. *)
Theorem corrupt_front_is_abandoned : forall msg parse tags t c s acc f1 f2,
  corrupt msg parse c s -> starts_with_opener tags s -> t < length s ->
  length (c ++ s) < f1 -> length s < f2 ->
  process_loop msg parse tags f1 (Some t) (c ++ s) acc = process_loop msg parse tags f2 (Some t) s acc.
Proof. exact recovery_from_start. Qed.
Print Assumptions corrupt_front_is_abandoned.

Theorem corrupt_is_decidable : forall msg parse c s, corruptb msg parse c s = true -> corrupt msg parse c s.
Proof. exact corruptb_corrupt. Qed.
Print Assumptions corrupt_is_decidable.

(* ---------- the concrete parser ---------- *)
From Indi Require Import Buffer.Run Buffer.Concrete Msg.Registry Msg.Equality Generated.RegistryData.

(* for the real parser (XML model, message model, live registry) the parser premise above is a theorem:
   junk free of known-tag openers is silent and stays junk, with nothing assumed *)
Theorem benign_junk_alone_is_silent_for_the_concrete_parser : forall thr X,
  opener_free (rbuffer_tags live_registry) X ->
  snd (process msg concrete_parse (rbuffer_tags live_registry) thr X) = [] /\
  opener_free (rbuffer_tags live_registry) (snd (fst (process msg concrete_parse (rbuffer_tags live_registry) thr X))).
Proof. exact (fun thr X => junk_only_silent msg concrete_parse (rbuffer_tags live_registry) thr X concrete_parse_needs_opener). Qed.
Print Assumptions benign_junk_alone_is_silent_for_the_concrete_parser.

Theorem benign_junk_is_transparent_for_the_concrete_parser : forall thr X y',
  opener_free (rbuffer_tags live_registry) X ->
  process msg concrete_parse (rbuffer_tags live_registry) thr (X ++ LT :: y') =
  process msg concrete_parse (rbuffer_tags live_registry) thr (LT :: y').
Proof. exact (fun thr X y' => junk_prefix_transparent msg concrete_parse (rbuffer_tags live_registry) thr X y' live_tags_clean). Qed.
Print Assumptions benign_junk_is_transparent_for_the_concrete_parser.
