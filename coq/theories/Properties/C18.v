(* C18 - Every way a connection can end leaves the router clean and the others served.
   Statements only.  The theorems are about the router's state along any history of
   connection events; that every way a real connection ends (EOF, read error, EOF inside
   a message, junk then EOF, exception while handling) does reach close()/unregister is
   what the fault-injection correspondence on the real handlers establishes. *)
From Coq Require Import List NArith Bool.
Import ListNotations.
From Indi Require Import Base.Sx Router.Model Router.Props Async.Lifecycle.

Theorem ended_connection_forgotten : forall h c why,
  wf h -> ~ In c (clients (after (Ends c why :: h))) /\ alookup N.eqb c (blob (after (Ends c why :: h))) = None.
Proof. exact ended_connection_is_forgotten. Qed.
Print Assumptions ended_connection_forgotten.

Theorem no_further_delivery_to_it : forall h c why m sender,
  wf h -> ~ In (ToCl c) (snd (process (after (Ends c why :: h)) m sender)).
Proof. exact no_delivery_to_an_ended_connection. Qed.
Print Assumptions no_further_delivery_to_it.

Theorem others_keep_registration_and_settings : forall h c why c' d,
  c' <> c ->
  (In c' (clients (after (Ends c why :: h))) <-> In c' (clients (after h))) /\
  policy_of (after (Ends c why :: h)) c' d = policy_of (after h) c' d.
Proof. exact other_connections_unaffected. Qed.
Print Assumptions others_keep_registration_and_settings.

(* what the others then receive is exactly what C05 says for their registration and policy *)
Theorem others_are_served_per_policy : forall s m sender c,
  In (ToCl c) (snd (process s m sender)) <->
  r_from_device m = true /\ sender <> Some c /\ In c (clients s) /\
  allow (policy_of (fst (process s m sender)) c (r_dev m)) (r_blob m) = true.
Proof. exact to_client_iff. Qed.
Print Assumptions others_are_served_per_policy.

Theorem reconnect_starts_from_defaults : forall h c d, policy_of (after (Open c :: h)) c d = Never.
Proof. exact reconnecting_peer_starts_from_defaults. Qed.
Print Assumptions reconnect_starts_from_defaults.
