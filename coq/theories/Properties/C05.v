(* C05 - Device messages fan out to every client, subject to its BLOB policy. Statements only. *)
From Coq Require Import List NArith Bool String.
Import ListNotations.
From Indi Require Import Base.Sx Router.Model Router.Props Msg.Registry Msg.RegOk
  Generated.RegistryData Generated.RegistryOk.

(* In every router state: a client receives the message iff it is
   device-originated, the client is registered, is not the sender, and its
   policy for the message's device admits this kind of message. *)
Theorem to_client_per_policy : forall s m sender c,
  In (ToCl c) (snd (process s m sender)) <->
  r_from_device m = true /\ sender <> Some c /\ In c (clients s) /\
  allow (policy_of (fst (process s m sender)) c (r_dev m)) (r_blob m) = true.
Proof. exact to_client_iff. Qed.
Print Assumptions to_client_per_policy.

Theorem policy_matrix :
  (forall b, allow Never b = negb b) /\ (forall b, allow Also b = true) /\ (forall b, allow Only b = b).
Proof. repeat split. Qed.
Print Assumptions policy_matrix.

Theorem each_client_once : forall s m sender,
  NoDup (map fst (devices s)) -> NoDup (clients s) -> NoDup (snd (process s m sender)).
Proof. exact deliveries_nodup. Qed.
Print Assumptions each_client_once.

(* over every history: the policy in force is the client's most recent
   enableBLOB for that device since its latest registration, default Never *)
Theorem policy_is_most_recent_setting : forall h c d,
  wf_rev h -> policy_of (run_rev h) c d = last_enable_rev h c d.
Proof. exact policy_is_last_setting. Qed.
Print Assumptions policy_is_most_recent_setting.

Theorem run_is_run_rev : forall h, run h = run_rev (rev h).
Proof. exact run_run_rev. Qed.
Print Assumptions run_is_run_rev.

(* one client's setting for one device changes no other (client, device) pair *)
Theorem settings_are_independent : forall s m sd c d,
  (forall p, r_enable m = Some p -> sd <> Some c \/ r_dev m <> d) ->
  policy_of (fst (process s m sd)) c d = policy_of s c d.
Proof. exact policy_independent. Qed.
Print Assumptions settings_are_independent.

Theorem unregister_forgets_policy : forall s c d, policy_of (fst (step s (UnregCl c))) c d = Never.
Proof. exact unregister_forgets. Qed.
Print Assumptions unregister_forgets_policy.

Theorem reconnect_starts_from_default : forall s c d, policy_of (fst (step s (RegCl c))) c d = Never.
Proof. exact reconnect_defaults. Qed.
Print Assumptions reconnect_starts_from_default.

Theorem live_default_policy_is_never : str_eqb (rdefault_policy live_registry) (s2l "Never") = true.
Proof. vm_compute. reflexivity. Qed.
Print Assumptions live_default_policy_is_never.

Example c05_nonvacuous :
  let h := [RegCl 1%N; RegCl 2%N;
            Send (Some 1%N) {| r_from_client := true; r_from_device := false; r_enable := Some Only; r_blob := false; r_dev := Some [65%N] |}] in
  let m := {| r_from_client := false; r_from_device := true; r_enable := None; r_blob := true; r_dev := Some [65%N] |} in
  wf_rev (rev h) /\ snd (process (run h) m None) = [ToCl 1%N].
Proof. split; vm_compute; auto. Qed.
