(* runner entries for the message codec, interpreted over the live registry *)
From Coq Require Import List NArith ZArith Bool String.
Import ListNotations.
From Indi Require Import Base.Sx Msg.Registry Msg.Equality Msg.Model Msg.Conform Xml.Lex Xml.Print
  Generated.RegistryData.

Fixpoint dec_tree (fuel : nat) (x : sx) : option tree :=
  match fuel with
  | O => None
  | S f =>
      match x with
      | SL [SA tg; attrs; SA text; SL kids] =>
          match as_list_of (as_pair as_str as_str) attrs, map_opt (dec_tree f) kids with
          | Some a, Some k => Some (Node tg a text k)
          | _, _ => None
          end
      | _ => None
      end
  end.

(* (tree) -> (msg?) (conformant?) *)
Definition run_fromxml (x : sx) : sx :=
  match dec_tree 8 x with
  | Some t => match msg_from_xml live_registry t with
              | Some m => SL [SL [enc_msg m]; of_bool (conformant m)]
              | None => SL [SL []; of_bool true]
              end
  | None => bad_input
  end.

(* document -> (xml status) (msg?) *)
Definition run_fromstring (x : sx) : sx :=
  match x with
  | SA doc =>
      let (st, t) := parse doc in
      SL [SN (Z.of_N st);
          match t with
          | Some t => match msg_from_xml live_registry t with Some m => SL [enc_msg m] | None => SL [] end
          | None => SL []
          end]
  | _ => bad_input
  end.

(* msg -> document (to_string) and tree (to_xml) *)
Definition run_tostring (x : sx) : sx :=
  match dec_msg x with
  | Some m => SL [SA (print_doc (msg_to_xml m)); enc_tree (msg_to_xml m)]
  | None => bad_input
  end.

Definition run_print (x : sx) : sx :=
  match dec_tree 8 x with
  | Some t => SA (print_tree t)
  | None => bad_input
  end.

From Indi Require Import Msg.Codec.

Definition enc_optmsg (o : option msg) : sx := of_opt enc_msg o.

(* ("msg" m impl_doc foreign_docs model_doc) ->
     (wfb, expected = norm m, parse impl_doc, [parse foreign], parse model_doc, reserialised doc equal?, printable?)
   ("xml" doc) -> as run_xml *)
Definition run_codec (x : sx) : sx :=
  match x with
  | SL [t; m; SA impl_doc; SL foreign] =>
      if is_tag "msg" t then
        match dec_msg m with
        | Some m =>
            let doc := to_string m in
            SL [of_bool (wfb live_registry m);
                enc_msg (norm_msg m);
                enc_optmsg (from_string live_registry impl_doc);
                SL (map (fun d => match d with SA d => enc_optmsg (from_string live_registry d) | _ => bad_input end) foreign);
                enc_optmsg (from_string live_registry doc);
                of_bool (str_eqb (to_string (norm_msg m)) doc);
                of_bool (printable m)]
        | None => bad_input
        end
      else bad_input
  | SL [t; d] => if is_tag "xml" t then run_xml d else bad_input
  | _ => bad_input
  end.
