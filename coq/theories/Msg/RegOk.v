(* Decidable conditions on the regenerated registry that the generic theorems need. *)
From Coq Require Import List NArith Bool String.
Import ListNotations.
From Indi Require Import Base.Sx Msg.Registry Msg.Equality.

Definition child_kind (R : registry) (k : str) : option str :=
  match find_mclass R k with
  | Some c => match cchild c with Some [t] => Some t | _ => None end
  | None => None
  end.

(* the constructor of kind k accepted these children (checks.children) *)
Definition ctor_accepts_children (R : registry) (k : str) (l : list part) : Prop :=
  match find_mclass R k with
  | Some c => match cchild c with
              | Some ts => forall p, In p l -> mem_str (pk p) ts = true
              | None => False
              end
  | None => False
  end.

(* C20: each class that stores children accepts exactly one part class, and no
   attribute is called _value or _children (to_dict's reserved keys) *)
Definition reserved (s : str) : bool := str_eqb s (s2l "_value") || str_eqb s (s2l "_children").

Definition reg_ok_c20 (R : registry) : bool :=
  forallb (fun c =>
    match cchild c with Some [_] | None => true | _ => false end &&
    forallb (fun f => negb (reserved (fname f))) (cfields c)) (rmsgs R).

Lemma find_last_in {A} (p : A -> bool) l x : find_last p l = Some x -> In x l.
Proof.
  induction l as [|y l IH]; simpl; [discriminate|].
  destruct (find_last p l) eqn:E.
  - intros [= ->]. right. now apply IH.
  - destruct (p y); [intros [= ->]; now left | discriminate].
Qed.

Lemma ctor_children_kinds_ok R k l v a :
  reg_ok_c20 R = true -> ctor_accepts_children R k l ->
  kinds_ok (child_kind R) {| mk := k; ma := a; mv := v; mc := Some l |}.
Proof.
  unfold reg_ok_c20, ctor_accepts_children, kinds_ok, child_kind. simpl.
  intros Hok. destruct (find_mclass R k) as [c|] eqn:F; [|contradiction].
  unfold find_mclass in F. apply find_last_in in F.
  rewrite forallb_forall in Hok. specialize (Hok _ F). apply andb_prop in Hok as [Hc _].
  destruct (cchild c) as [[|t [|t' ts]]|]; try discriminate; try contradiction.
  intros H p Hp. specialize (H p Hp). simpl in H. rewrite orb_false_r in H.
  apply str_eqb_spec in H. now subst.
Qed.

(* ---------- router: direction flags (C04, C05) ---------- *)

(* the protocol's table: tag, sent by clients?, sent by devices? *)
Definition spec_flags : list (string * bool * bool) := [
  ("getProperties", true, true); ("enableBLOB", true, false); ("pingReply", true, false);
  ("newTextVector", true, false); ("newNumberVector", true, false);
  ("newSwitchVector", true, false); ("newBLOBVector", true, false);
  ("delProperty", false, true); ("message", false, true); ("pingRequest", false, true);
  ("oneLight", false, true);
  ("defTextVector", false, true); ("defNumberVector", false, true); ("defSwitchVector", false, true);
  ("defLightVector", false, true); ("defBLOBVector", false, true);
  ("setTextVector", false, true); ("setNumberVector", false, true); ("setSwitchVector", false, true);
  ("setLightVector", false, true); ("setBLOBVector", false, true)
]%string.

Definition spec_flag_of (t : str) : option (bool * bool) :=
  match find (fun x => str_eqb (s2l (fst (fst x))) t) spec_flags with
  | Some (_, c, d) => Some (c, d)
  | None => None
  end.

(* every registered class carries the protocol's direction flags, every
   protocol message is registered, and the default policy is Never *)
Definition reg_ok_router (R : registry) : bool :=
  forallb (fun c => match spec_flag_of (ctag c) with
                    | Some (fc, fd) => Bool.eqb (cclient c) fc && Bool.eqb (cdevice c) fd
                    | None => false
                    end) (rmsgs R) &&
  forallb (fun x => match find_mclass R (s2l (fst (fst x))) with Some _ => true | None => false end) spec_flags &&
  str_eqb (rdefault_policy R) (s2l "Never").

Definition flags_of (R : registry) (t : str) : option (bool * bool) :=
  option_map (fun c => (cclient c, cdevice c)) (find_mclass R t).

Lemma reg_ok_router_flags R t c :
  reg_ok_router R = true -> find_mclass R t = Some c ->
  spec_flag_of (ctag c) = Some (cclient c, cdevice c).
Proof.
  unfold reg_ok_router. intros H F. apply andb_prop in H as [H _]. apply andb_prop in H as [H _].
  rewrite forallb_forall in H. unfold find_mclass in F. apply find_last_in in F. specialize (H _ F).
  destruct (spec_flag_of (ctag c)) as [[fc fd]|]; [|discriminate].
  apply andb_prop in H as [H1 H2]. apply Bool.eqb_prop in H1. apply Bool.eqb_prop in H2. now subst.
Qed.

(* ---------- buffer: the tag list the receive buffer looks for ---------- *)
(* Buffer().allowed_tags are exactly the registered message tags, and none contains '<' *)
Definition reg_ok_buffer (R : registry) : bool :=
  list_eqb str_eqb (rbuffer_tags R) (map ctag (rmsgs R)) &&
  forallb (fun t => negb (mem_str [60%N] (map (fun c => [c]) t))) (rbuffer_tags R).
