(* The declarative part of indi.message, as regenerated from the live code by
   harness/registry_gen.py into Generated/RegistryData.v on every run. *)
From Coq Require Import List NArith Bool String.
Import ListNotations.
From Indi Require Import Base.Sx.

Inductive check :=
| CkNone                 (* stored as given *)
| CkVocab (v : str)      (* checks.dictionary against the named vocabulary *)
| CkNumber               (* checks.number *)
| CkOther.               (* behaviour the generator could not classify *)

Record field := { fname : str; freq : bool; fcheck : check }.

Record mclass := {
  ctag : str;
  cclient : bool;             (* from_client *)
  cdevice : bool;             (* from_device *)
  cfields : list field;       (* keyword parameters stored as attributes (value/children excluded) *)
  cvalue : option field;      (* `value` keyword accepted and stored *)
  cchild : option (list str); (* `children` stored: the part tags accepted as children *)
  cjunk : bool                (* unknown keywords swallowed *)
}.

Record pclass := {
  ptag : str;
  pfields : list field;       (* besides value *)
  pvalue : field;             (* value: required?, check *)
  pjunk : bool
}.

(* observed constructor decisions for one field of one class: probe value
   (None = the keyword passed as None) and whether construction succeeded *)
Record probe := { qtag : str; qpart : bool; qfield : str; qres : list (option str * bool) }.

Record registry := {
  rmsgs : list mclass;          (* in registration order: from_xml takes the LAST match *)
  rparts : list pclass;
  rvocabs : list (str * list str);
  rprobes : list probe;
  rbuffer_tags : list str;      (* Buffer().allowed_tags *)
  rdefault_policy : str;        (* Router.DEFAULT_BLOB_POLICY *)
  rthreshold : option N         (* Buffer().max_buffer_size_before_frontal_cleanup *)
}.

Definition check_eqb (a b : check) : bool :=
  match a, b with
  | CkNone, CkNone | CkNumber, CkNumber | CkOther, CkOther => true
  | CkVocab x, CkVocab y => str_eqb x y
  | _, _ => false
  end.

(* from_xml's class lookup: the last registered class with that tag *)
Fixpoint find_last {A} (p : A -> bool) (l : list A) : option A :=
  match l with
  | [] => None
  | x :: l' => match find_last p l' with
               | Some y => Some y
               | None => if p x then Some x else None
               end
  end.

Definition find_mclass (R : registry) (t : str) : option mclass :=
  find_last (fun c => str_eqb (ctag c) t) (rmsgs R).

(* parts are looked up in a set of subclasses: order is not defined, so the tag
   must be unique for the lookup to be a function (checked by registry_ok) *)
Definition find_pclass (R : registry) (t : str) : option pclass :=
  find (fun c => str_eqb (ptag c) t) (rparts R).

Definition vocab_of (R : registry) (v : str) : list str :=
  match find (fun p => str_eqb (fst p) v) (rvocabs R) with
  | Some p => snd p
  | None => []
  end.

Definition mem_str (s : str) (l : list str) : bool := existsb (str_eqb s) l.

Lemma mem_str_In s l : mem_str s l = true <-> In s l.
Proof.
  unfold mem_str. rewrite existsb_exists. split.
  - intros [x [H E]]. apply str_eqb_spec in E. now subst.
  - intros H. exists s. split; [assumption|apply str_eqb_refl].
Qed.

Fixpoint nodup_strb (l : list str) : bool :=
  match l with
  | [] => true
  | x :: l' => negb (mem_str x l') && nodup_strb l'
  end.

Lemma nodup_strb_NoDup l : nodup_strb l = true -> NoDup l.
Proof.
  induction l as [|x l IH]; simpl; intros H; constructor.
  - apply andb_prop in H as [H _]. intros Hin. apply mem_str_In in Hin. rewrite Hin in H. discriminate.
  - apply andb_prop in H as [_ H]. auto.
Qed.
