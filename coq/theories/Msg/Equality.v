(* C20: model of IndiMessage.to_dict / __eq__ (indi/message/base.py) and proof
   that it is structural equality. *)
From Coq Require Import List NArith ZArith Bool Lia.
Import ListNotations.
From Indi Require Import Base.Sx.

(* A Python dict whose keys are attribute names and whose values are already
   str()'d, as built by to_dict: association list with unique keys. *)
Definition dict := list (str * str).

Fixpoint lookup (k : str) (d : dict) : option str :=
  match d with
  | [] => None
  | (k', v) :: d' => if str_eqb k k' then Some v else lookup k d'
  end.

Definition keys (d : dict) : list str := map fst d.

(* Python's dict.__eq__: same length and every item of a found in b. *)
Definition dict_eqb (a b : dict) : bool :=
  Nat.eqb (length a) (length b) &&
  forallb (fun kv => opt_eqb str_eqb (lookup (fst kv) b) (Some (snd kv))) a.

(* Extensional equality of the two finite maps. *)
Definition dict_equiv (a b : dict) : Prop := forall k, lookup k a = lookup k b.

Record part := { pk : str; pa : dict; pv : option str }.
Record msg := { mk : str; ma : dict; mv : option str; mc : option (list part) }.
(* mc = None : the object has no `children` attribute (non-vector kinds). *)

(* IndiMessagePart.to_dict(): attributes and `_value`; no class. *)
Definition part_dict_eqb (p q : part) : bool :=
  dict_eqb (pa p) (pa q) && opt_eqb str_eqb (pv p) (pv q).

(* IndiMessage.__eq__ : class equality and to_dict() equality, `_children`
   being the list of the children's dicts. *)
Definition msg_eqb (a b : msg) : bool :=
  str_eqb (mk a) (mk b) &&
  dict_eqb (ma a) (ma b) &&
  opt_eqb str_eqb (mv a) (mv b) &&
  opt_eqb (list_eqb part_dict_eqb) (mc a) (mc b).

(* The pinned tree's behaviour (finding F2): `_children` overwritten per child,
   so only the last child takes part, and no child = key absent. *)
Definition last_opt {A} (l : list A) : option A :=
  match rev l with [] => None | x :: _ => Some x end.
Definition msg_eqb_lastchild (a b : msg) : bool :=
  str_eqb (mk a) (mk b) &&
  dict_eqb (ma a) (ma b) &&
  opt_eqb str_eqb (mv a) (mv b) &&
  opt_eqb part_dict_eqb
    (match mc a with Some l => last_opt l | None => None end)
    (match mc b with Some l => last_opt l | None => None end).

(* ---------- dictionaries ---------- *)

Lemma lookup_in k v d : lookup k d = Some v -> In (k, v) d.
Proof.
  induction d as [|[k' v'] d IH]; simpl; [discriminate|].
  destruct (str_eqb k k') eqn:E.
  - intros [= <-]. apply str_eqb_spec in E. subst. now left.
  - intros H. right. auto.
Qed.

Lemma lookup_notin k d : ~ In k (keys d) -> lookup k d = None.
Proof.
  induction d as [|[k' v'] d IH]; simpl; [reflexivity|].
  intros H. destruct (str_eqb k k') eqn:E.
  - apply str_eqb_spec in E. subst. tauto.
  - apply IH. tauto.
Qed.

Lemma lookup_some_key k v d : lookup k d = Some v -> In k (keys d).
Proof. intros H. apply lookup_in in H. unfold keys. now apply (in_map fst) in H. Qed.

(* pigeonhole: a duplicate-free list included in a list of the same length
   covers it *)
Lemma nodup_incl_length_incl (a b : list str) :
  NoDup a -> incl a b -> length b <= length a -> incl b a.
Proof. intros Ha Hi Hl. apply NoDup_length_incl; assumption. Qed.

Lemma dict_eqb_equiv a b :
  NoDup (keys a) -> NoDup (keys b) ->
  dict_eqb a b = true <-> dict_equiv a b.
Proof.
  intros Na Nb. unfold dict_eqb, dict_equiv. split.
  - intros H. apply andb_prop in H as [Hl Hf]. apply Nat.eqb_eq in Hl.
    rewrite forallb_forall in Hf.
    assert (Hsub : forall k v, lookup k a = Some v -> lookup k b = Some v).
    { intros k v Hk. apply lookup_in in Hk. specialize (Hf _ Hk). simpl in Hf.
      destruct (lookup k b) as [w|]; simpl in Hf; [|discriminate].
      apply str_eqb_spec in Hf. now subst. }
    assert (Hincl : incl (keys a) (keys b)).
    { intros k Hk. unfold keys in Hk. apply in_map_iff in Hk as [[k' v] [<- Hin]]. simpl.
      specialize (Hf _ Hin). simpl in Hf.
      destruct (lookup k' b) eqn:E; simpl in Hf; [|discriminate].
      eapply lookup_some_key; eauto. }
    assert (Hback : incl (keys b) (keys a)).
    { apply nodup_incl_length_incl; auto. unfold keys. rewrite !map_length. lia. }
    intros k. destruct (lookup k a) as [v|] eqn:Ea.
    + symmetry. now apply Hsub.
    + destruct (lookup k b) as [w|] eqn:Eb; [|reflexivity].
      apply lookup_some_key in Eb. apply Hback in Eb.
      (* k is a key of a, so lookup k a is Some *)
      exfalso. clear - Ea Eb. induction a as [|[k' v'] a IH]; simpl in *; [contradiction|].
      destruct (str_eqb k k') eqn:E; [discriminate|].
      destruct Eb as [->|Eb]; [rewrite str_eqb_refl in E; discriminate|]. auto.
  - intros H. apply andb_true_intro. split.
    + apply Nat.eqb_eq.
      assert (I1 : incl (keys a) (keys b)).
      { intros k Hk. destruct (lookup k a) eqn:E.
        - rewrite H in E. eapply lookup_some_key; eauto.
        - exfalso. clear - Hk E. induction a as [|[k' v'] a IH]; simpl in *; [contradiction|].
          destruct (str_eqb k k') eqn:E'; [discriminate|].
          destruct Hk as [->|Hk]; [rewrite str_eqb_refl in E'; discriminate|]. auto. }
      assert (I2 : incl (keys b) (keys a)).
      { intros k Hk. destruct (lookup k b) eqn:E.
        - rewrite <- H in E. eapply lookup_some_key; eauto.
        - exfalso. clear - Hk E. induction b as [|[k' v'] b IH]; simpl in *; [contradiction|].
          destruct (str_eqb k k') eqn:E'; [discriminate|].
          destruct Hk as [->|Hk]; [rewrite str_eqb_refl in E'; discriminate|]. auto. }
      pose proof (NoDup_incl_length Na I1). pose proof (NoDup_incl_length Nb I2).
      unfold keys in *. rewrite !map_length in *. lia.
    + apply forallb_forall. intros [k v] Hin. simpl.
      assert (lookup k a = Some v) as Hk.
      { clear - Na Hin. induction a as [|[k' v'] a IH]; simpl in *; [contradiction|].
        inversion Na as [|? ? Hn Na']; subst.
        destruct Hin as [[= -> ->]|Hin].
        - now rewrite str_eqb_refl.
        - destruct (str_eqb k k') eqn:E.
          + apply str_eqb_spec in E. subst. exfalso. apply Hn.
            change k' with (fst (k', v)). now apply in_map.
          + auto. }
      rewrite <- H, Hk. simpl. apply str_eqb_refl.
Qed.

(* ---------- the structural view of a message ---------- *)

Definition wf_part (p : part) : Prop := NoDup (keys (pa p)).
Definition wf_msg (m : msg) : Prop :=
  NoDup (keys (ma m)) /\
  match mc m with Some l => Forall wf_part l | None => True end.

(* children of one message kind all have the class the registry prescribes *)
Definition kinds_ok (child_kind : str -> option str) (m : msg) : Prop :=
  match mc m with
  | Some l => forall p, In p l -> Some (pk p) = child_kind (mk m)
  | None => True
  end.

Definition part_same (p q : part) : Prop :=
  pk p = pk q /\ dict_equiv (pa p) (pa q) /\ pv p = pv q.

Definition children_same (a b : option (list part)) : Prop :=
  match a, b with
  | None, None => True
  | Some x, Some y => Forall2 part_same x y
  | _, _ => False
  end.

Definition msg_same (a b : msg) : Prop :=
  mk a = mk b /\ dict_equiv (ma a) (ma b) /\ mv a = mv b /\ children_same (mc a) (mc b).

Lemma opt_str_eqb_spec (a b : option str) : opt_eqb str_eqb a b = true <-> a = b.
Proof. apply opt_eqb_spec. apply str_eqb_spec. Qed.

Lemma children_eqb_same ck (k : str) (x y : list part) :
  Forall wf_part x -> Forall wf_part y ->
  (forall p, In p x -> Some (pk p) = ck k) ->
  (forall p, In p y -> Some (pk p) = ck k) ->
  list_eqb part_dict_eqb x y = true <-> Forall2 part_same x y.
Proof.
  revert y. induction x as [|p x IH]; intros [|q y] Wx Wy Kx Ky; simpl; split; intros H;
    try discriminate; try constructor; try (now inversion H).
  - apply andb_prop in H as [H1 H2]. unfold part_dict_eqb in H1. apply andb_prop in H1 as [Ha Hv].
    inversion Wx; inversion Wy; subst.
    split; [|split].
    + assert (Some (pk p) = Some (pk q)) as E by (rewrite (Kx p), (Ky q); simpl; auto).
      now injection E.
    + apply dict_eqb_equiv; auto.
    + now apply opt_str_eqb_spec.
  - apply andb_prop in H as [_ H2]. inversion Wx; inversion Wy; subst.
    apply IH; auto; intros; [apply Kx|apply Ky]; simpl; auto.
  - inversion H as [|? ? ? ? [Hk [Ha Hv]] Hr]; subst. inversion Wx; inversion Wy; subst.
    apply andb_true_intro. split.
    + unfold part_dict_eqb. apply andb_true_intro. split.
      * apply dict_eqb_equiv; auto.
      * now apply opt_str_eqb_spec.
    + apply IH; auto; intros; [apply Kx|apply Ky]; simpl; auto.
Qed.

Theorem msg_eqb_iff ck a b :
  wf_msg a -> wf_msg b -> kinds_ok ck a -> kinds_ok ck b ->
  msg_eqb a b = true <-> msg_same a b.
Proof.
  intros [Na Wa] [Nb Wb] Ka Kb. unfold msg_eqb, msg_same. split.
  - intros H. apply andb_prop in H as [H Hc]. apply andb_prop in H as [H Hv].
    apply andb_prop in H as [Hk Hd].
    apply str_eqb_spec in Hk. split; [exact Hk|]. split; [now apply dict_eqb_equiv|].
    split; [now apply opt_str_eqb_spec|].
    unfold children_same, kinds_ok in *.
    destruct (mc a) as [x|], (mc b) as [y|]; simpl in Hc; try discriminate; auto.
    rewrite <- Hk in Kb. eapply children_eqb_same; eauto.
  - intros [Hk [Hd [Hv Hc]]].
    apply andb_true_intro; split; [apply andb_true_intro; split; [apply andb_true_intro; split|]|].
    + now apply str_eqb_spec.
    + now apply dict_eqb_equiv.
    + now apply opt_str_eqb_spec.
    + unfold children_same, kinds_ok in *.
      destruct (mc a) as [x|], (mc b) as [y|]; simpl; try contradiction; auto.
      rewrite <- Hk in Kb. eapply children_eqb_same; eauto.
Qed.

(* ---------- perturbation corollaries (named after the property text) ---------- *)

Lemma Forall2_length_eq {A B} (R : A -> B -> Prop) x y : Forall2 R x y -> length x = length y.
Proof. induction 1; simpl; congruence. Qed.

Lemma Forall2_nth {A} (R : A -> A -> Prop) x y d i :
  Forall2 R x y -> i < length x -> R (nth i x d) (nth i y d).
Proof.
  intros H. revert i. induction H; intros i Hi; simpl in *; [lia|].
  destruct i; [assumption|]. apply IHForall2. lia.
Qed.

Section Perturbations.
Variable ck : str -> option str.
Variables a b : msg.
Hypothesis Wa : wf_msg a.
Hypothesis Wb : wf_msg b.
Hypothesis Ka : kinds_ok ck a.
Hypothesis Kb : kinds_ok ck b.

Lemma neq_of_not_same : ~ msg_same a b -> msg_eqb a b = false.
Proof.
  intros H. destruct (msg_eqb a b) eqn:E; [|reflexivity].
  exfalso. apply H. now apply (msg_eqb_iff ck).
Qed.

Theorem kind_changed_neq : mk a <> mk b -> msg_eqb a b = false.
Proof. intros H. apply neq_of_not_same. intros [E _]. contradiction. Qed.

Theorem attr_differs_neq k : lookup k (ma a) <> lookup k (ma b) -> msg_eqb a b = false.
Proof. intros H. apply neq_of_not_same. intros [_ [E _]]. apply H, E. Qed.

Theorem value_differs_neq : mv a <> mv b -> msg_eqb a b = false.
Proof. intros H. apply neq_of_not_same. intros [_ [_ [E _]]]. contradiction. Qed.

Theorem child_count_differs_neq x y :
  mc a = Some x -> mc b = Some y -> length x <> length y -> msg_eqb a b = false.
Proof.
  intros Ex Ey H. apply neq_of_not_same. intros [_ [_ [_ E]]].
  rewrite Ex, Ey in E. simpl in E. apply Forall2_length_eq in E. contradiction.
Qed.

(* any index, not just the last one *)
Theorem child_differs_neq x y i d :
  mc a = Some x -> mc b = Some y -> i < length x ->
  ~ part_same (nth i x d) (nth i y d) -> msg_eqb a b = false.
Proof.
  intros Ex Ey Hi H. apply neq_of_not_same. intros [_ [_ [_ E]]].
  rewrite Ex, Ey in E. simpl in E. apply H. now apply Forall2_nth.
Qed.
End Perturbations.

Lemma dict_equiv_refl d : dict_equiv d d.
Proof. intros k. reflexivity. Qed.

Lemma part_same_refl p : part_same p p.
Proof. repeat split. Qed.

Theorem rebuilt_copy_eq ck a : wf_msg a -> kinds_ok ck a -> msg_eqb a a = true.
Proof.
  intros W K. apply (msg_eqb_iff ck); auto. repeat split.
  unfold children_same. destruct (mc a) as [x|]; [|exact I].
  induction x; constructor; auto using part_same_refl.
Qed.

(* F2 on the pinned tree: the last-child equality identifies two messages that
   differ in their first child. *)
Definition wit_p (v : N) : part := {| pk := [1%N]; pa := [([2%N], [v])]; pv := None |}.
Definition wit_a : msg := {| mk := [3%N]; ma := []; mv := None; mc := Some [wit_p 1; wit_p 9] |}.
Definition wit_b : msg := {| mk := [3%N]; ma := []; mv := None; mc := Some [wit_p 2; wit_p 9] |}.

Lemma lastchild_equality_refuted :
  msg_eqb_lastchild wit_a wit_b = true /\ msg_eqb wit_a wit_b = false.
Proof. split; vm_compute; reflexivity. Qed.

(* ---------- runner entry ---------- *)
Definition dec_dict (x : sx) : option dict := as_list_of (as_pair as_str as_str) x.
Definition dec_part (x : sx) : option part :=
  match x with
  | SL [k; a; v] =>
      match as_str k, dec_dict a, as_opt as_str v with
      | Some k, Some a, Some v => Some {| pk := k; pa := a; pv := v |}
      | _, _, _ => None
      end
  | _ => None
  end.
Definition dec_msg (x : sx) : option msg :=
  match x with
  | SL [k; a; v; c] =>
      match as_str k, dec_dict a, as_opt as_str v, as_opt (as_list_of dec_part) c with
      | Some k, Some a, Some v, Some c => Some {| mk := k; ma := a; mv := v; mc := c |}
      | _, _, _, _ => None
      end
  | _ => None
  end.

(* input: (a b)  output: (eq lastchild_eq) *)
Definition run_eq (x : sx) : sx :=
  match as_pair dec_msg dec_msg x with
  | Some (a, b) => SL [of_bool (msg_eqb a b); of_bool (msg_eqb_lastchild a b)]
  | None => bad_input
  end.
