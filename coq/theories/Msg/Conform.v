(* C13: whatever from_xml accepts is protocol-conformant, for every XML tree,
   provided the regenerated registry passes reg_ok_c13. *)
From Coq Require Import List NArith ZArith Bool String Lia.
Import ListNotations.
From Indi Require Import Base.Sx Msg.Registry Msg.Equality Msg.RegOk Msg.Model Xml.Lex.

(* ---------- the protocol's own table (INDI DTD), independent of the code ---------- *)
Inductive vconstraint := VAny | VVocab (v : string) | VNumberOrAbsent.

Record prow := {
  w_tag : string;
  w_required : list string;               (* attributes that must be present *)
  w_vocab : list (string * string);       (* attribute -> vocabulary *)
  w_value : vconstraint;
  w_child : option string                 (* kind of child element the vector requires *)
}.

Definition vec_def (t : string) (extra_req : list string) (extra_voc : list (string * string)) : prow :=
  {| w_tag := "def" ++ t ++ "Vector"; w_required := ["device"; "name"; "state"] ++ extra_req;
     w_vocab := ("state", "State") :: extra_voc; w_value := VAny; w_child := Some ("def" ++ t) |}%string.
Definition vec_set (t : string) : prow :=
  {| w_tag := "set" ++ t ++ "Vector"; w_required := ["device"; "name"; "state"];
     w_vocab := [("state", "State")]; w_value := VAny; w_child := Some ("one" ++ t) |}%string.
Definition vec_new (t : string) : prow :=
  {| w_tag := "new" ++ t ++ "Vector"; w_required := ["device"; "name"];
     w_vocab := []; w_value := VAny; w_child := Some ("one" ++ t) |}%string.

Definition spec_msgs : list prow := [
  vec_def "Text" ["perm"] [("perm", "Permissions")];
  vec_def "Number" ["perm"] [("perm", "Permissions")];
  vec_def "Switch" ["perm"; "rule"] [("perm", "Permissions"); ("rule", "SwitchRule")];
  vec_def "Light" [] [];
  vec_def "BLOB" ["perm"] [("perm", "Permissions")];
  vec_set "Text"; vec_set "Number"; vec_set "Switch"; vec_set "Light"; vec_set "BLOB";
  vec_new "Text"; vec_new "Number"; vec_new "Switch"; vec_new "BLOB";
  {| w_tag := "getProperties"; w_required := ["version"]; w_vocab := []; w_value := VAny; w_child := None |};
  {| w_tag := "enableBLOB"; w_required := ["device"]; w_vocab := []; w_value := VVocab "BLOBEnable"; w_child := None |};
  {| w_tag := "delProperty"; w_required := ["device"]; w_vocab := []; w_value := VAny; w_child := None |};
  {| w_tag := "message"; w_required := []; w_vocab := []; w_value := VAny; w_child := None |};
  {| w_tag := "pingRequest"; w_required := ["uid"]; w_vocab := []; w_value := VAny; w_child := None |};
  {| w_tag := "pingReply"; w_required := ["uid"]; w_vocab := []; w_value := VAny; w_child := None |};
  {| w_tag := "oneLight"; w_required := ["name"]; w_vocab := []; w_value := VVocab "State"; w_child := None |}
]%string.

Definition spec_parts : list prow := [
  {| w_tag := "defText"; w_required := ["name"]; w_vocab := []; w_value := VAny; w_child := None |};
  {| w_tag := "defBLOB"; w_required := ["name"]; w_vocab := []; w_value := VAny; w_child := None |};
  {| w_tag := "defLight"; w_required := ["name"]; w_vocab := []; w_value := VVocab "State"; w_child := None |};
  {| w_tag := "defSwitch"; w_required := ["name"]; w_vocab := []; w_value := VVocab "SwitchState"; w_child := None |};
  {| w_tag := "defNumber"; w_required := ["name"; "format"; "min"; "max"; "step"]; w_vocab := [];
     w_value := VNumberOrAbsent; w_child := None |};
  {| w_tag := "oneText"; w_required := ["name"]; w_vocab := []; w_value := VAny; w_child := None |};
  {| w_tag := "oneNumber"; w_required := ["name"]; w_vocab := []; w_value := VNumberOrAbsent; w_child := None |};
  {| w_tag := "oneSwitch"; w_required := ["name"]; w_vocab := []; w_value := VVocab "SwitchState"; w_child := None |};
  {| w_tag := "oneLight"; w_required := ["name"]; w_vocab := []; w_value := VVocab "State"; w_child := None |};
  {| w_tag := "oneBLOB"; w_required := ["name"; "size"; "format"]; w_vocab := []; w_value := VAny; w_child := None |}
]%string.

Definition spec_vocabs : list (string * list string) := [
  ("State", ["Idle"; "Ok"; "Busy"; "Alert"]);
  ("Permissions", ["ro"; "wo"; "rw"]);
  ("SwitchRule", ["OneOfMany"; "AtMostOne"; "AnyOfMany"]);
  ("SwitchState", ["On"; "Off"]);
  ("BLOBEnable", ["Never"; "Also"; "Only"])
]%string.

Definition spec_vocab (v : string) : list str :=
  match find (fun p => String.eqb (fst p) v) spec_vocabs with
  | Some p => map s2l (snd p)
  | None => []
  end.

Definition find_row (rows : list prow) (t : str) : option prow :=
  find (fun w => str_eqb (s2l (w_tag w)) t) rows.

(* ---------- conformance of a message object ---------- *)
Definition value_ok (vc : vconstraint) (v : option str) : bool :=
  match vc, v with
  | VAny, _ => true
  | VVocab n, Some s => mem_str s (spec_vocab n)
  | VVocab _, None => false
  | VNumberOrAbsent, Some s => check_number s
  | VNumberOrAbsent, None => true
  end.

Definition attrs_ok (w : prow) (a : dict) : bool :=
  forallb (fun r => match lookup (s2l r) a with Some _ => true | None => false end) (w_required w) &&
  forallb (fun av => match lookup (s2l (fst av)) a with
                     | Some s => mem_str s (spec_vocab (snd av))
                     | None => false
                     end) (w_vocab w).

Definition part_conformant (p : part) : bool :=
  match find_row spec_parts (pk p) with
  | Some w => attrs_ok w (pa p) && value_ok (w_value w) (pv p)
  | None => false
  end.

Definition conformant (m : msg) : bool :=
  match find_row spec_msgs (mk m) with
  | Some w =>
      attrs_ok w (ma m) && value_ok (w_value w) (mv m) &&
      match w_child w, mc m with
      | Some ck, Some l => forallb (fun p => str_eqb (pk p) (s2l ck) && part_conformant p) l
      | None, None => true
      | None, Some l => false
      | Some _, None => false
      end
  | None => false
  end.

(* ---------- what the registry must satisfy ---------- *)
Definition field_required_named (fs : list field) (a : str) : bool :=
  existsb (fun f => str_eqb (fname f) a && freq f) fs.

Definition field_vocab_named (R : registry) (fs : list field) (a : str) (v : string) : bool :=
  existsb (fun f => str_eqb (fname f) a) fs &&
  forallb (fun f => if str_eqb (fname f) a
                    then freq f && check_eqb (fcheck f) (CkVocab (s2l v)) else true) fs.

Definition vocabs_match (R : registry) : bool :=
  forallb (fun p => list_eqb str_eqb (vocab_of R (s2l (fst p))) (map s2l (snd p))) spec_vocabs.

Definition value_field_ok (vc : vconstraint) (ck : check) : bool :=
  match vc with
  | VAny => true
  | VVocab n => check_eqb ck (CkVocab (s2l n))
  | VNumberOrAbsent => check_eqb ck CkNumber
  end.

Definition mclass_ok (R : registry) (c : mclass) : bool :=
  match find_row spec_msgs (ctag c) with
  | Some w =>
      forallb (fun a => field_required_named (cfields c) (s2l a)) (w_required w) &&
      forallb (fun av => field_vocab_named R (cfields c) (s2l (fst av)) (snd av)) (w_vocab w) &&
      match w_value w, cvalue c with
      | VAny, _ => true
      | vc, Some f => freq f && value_field_ok vc (fcheck f)
      | _, None => false
      end &&
      match w_child w, cchild c with
      | Some ck, Some [t] => str_eqb t (s2l ck)
      | None, None => true
      | _, _ => false
      end
  | None => false
  end.

Definition pclass_ok (R : registry) (c : pclass) : bool :=
  match find_row spec_parts (ptag c) with
  | Some w =>
      forallb (fun a => field_required_named (pfields c) (s2l a)) (w_required w) &&
      forallb (fun av => field_vocab_named R (pfields c) (s2l (fst av)) (snd av)) (w_vocab w) &&
      value_field_ok (w_value w) (fcheck (pvalue c))
  | None => false
  end.

(* the classification of every field is confirmed by every recorded probe *)
Definition probe_field (R : registry) (q : probe) : option check :=
  if qpart q then
    match find_pclass R (qtag q) with
    | Some c => if str_eqb (qfield q) s_value then Some (fcheck (pvalue c))
                else option_map fcheck (find (fun f => str_eqb (fname f) (qfield q)) (pfields c))
    | None => None
    end
  else
    match find_mclass R (qtag q) with
    | Some c => if str_eqb (qfield q) s_value then option_map fcheck (cvalue c)
                else option_map fcheck (find (fun f => str_eqb (fname f) (qfield q)) (cfields c))
    | None => None
    end.

Definition probes_ok (R : registry) : bool :=
  forallb (fun q =>
    match probe_field R q with
    | Some ck => forallb (fun r => Bool.eqb (snd r)
                                     (match fst r with
                                      | Some s => check_ok R ck s
                                      | None => check_none ck && negb (qpart q && negb (str_eqb (qfield q) s_value))
                                                || (match ck with CkNone => true | _ => false end)
                                      end)) (qres q)
    | None => false
    end) (rprobes R).

Definition reg_ok_c13 (R : registry) : bool :=
  forallb (mclass_ok R) (rmsgs R) && forallb (pclass_ok R) (rparts R) &&
  vocabs_match R && nodup_strb (map ptag (rparts R)).

(* ---------- proof ---------- *)

Lemma vocabs_match_spec R v :
  vocabs_match R = true -> In v (map fst spec_vocabs) ->
  vocab_of R (s2l v) = spec_vocab v.
Proof.
  unfold vocabs_match. rewrite forallb_forall. intros H Hin.
  apply in_map_iff in Hin as [[n ws] [<- Hin]]. specialize (H _ Hin). cbn [fst snd] in *.
  apply (list_eqb_spec str_eqb str_eqb_spec) in H. rewrite H.
  (* the table has unique names: check by computation on each entry *)
  simpl in Hin.
  repeat (destruct Hin as [Hin|Hin]; [injection Hin as <- <-; reflexivity|]). contradiction.
Qed.

Lemma bind_fields_sound R kw fs stored :
  bind_fields R kw fs = Some stored ->
  (forall k v, In (k, v) stored -> exists f, In f fs /\ fname f = k /\ check_ok R (fcheck f) v = true) /\
  (forall f, In f fs -> freq f = true -> exists v, In (fname f, v) stored).
Proof.
  revert stored. induction fs as [|f fs IH]; simpl; intros stored H.
  - injection H as <-. split; [intros k v []|intros f []].
  - unfold bind_field in H.
    destruct (lookup (fname f) kw) as [v|] eqn:L.
    + destruct (check_ok R (fcheck f) v) eqn:C; [|discriminate].
      destruct (bind_fields R kw fs) as [r|]; [|discriminate]. injection H as <-.
      destruct (IH r eq_refl) as [I1 I2]. split.
      * intros k w [[= <- <-]|Hin]; [exists f; auto|].
        destruct (I1 _ _ Hin) as [g [Hg [Hn Hc]]]. exists g. auto.
      * intros g [<-|Hg] Hr; [exists v; now left|].
        destruct (I2 g Hg Hr) as [w Hw]. exists w. now right.
    + destruct (freq f) eqn:Fr; [discriminate|].
      destruct (bind_fields R kw fs) as [r|]; [|discriminate]. injection H as <-.
      destruct (IH r eq_refl) as [I1 I2]. split.
      * intros k w Hin. destruct (I1 _ _ Hin) as [g [Hg [Hn Hc]]]. exists g. auto.
      * intros g [<-|Hg] Hr; [congruence|]. now apply I2.
Qed.

Lemma in_lookup_some k v (d : dict) : In (k, v) d -> lookup k d <> None.
Proof.
  induction d as [|[k' v'] d IH]; simpl; [contradiction|].
  intros [[= -> ->]|H]; [now rewrite str_eqb_refl|].
  destruct (str_eqb k k'); [discriminate|auto].
Qed.

Lemma attrs_ok_of_bind R kw fs stored w :
  vocabs_match R = true ->
  bind_fields R kw fs = Some stored ->
  forallb (fun a => field_required_named fs (s2l a)) (w_required w) = true ->
  forallb (fun av => field_vocab_named R fs (s2l (fst av)) (snd av)) (w_vocab w) = true ->
  (forall av, In av (w_vocab w) -> In (snd av) (map fst spec_vocabs)) ->
  attrs_ok w stored = true.
Proof.
  intros Vm Hb Hreq Hvoc Hknown. destruct (bind_fields_sound R kw fs stored Hb) as [S1 S2].
  unfold attrs_ok. apply andb_true_intro. split.
  - apply forallb_forall. intros a Ha. rewrite forallb_forall in Hreq. specialize (Hreq _ Ha).
    unfold field_required_named in Hreq. apply existsb_exists in Hreq as [f [Hf Hc]].
    apply andb_prop in Hc as [Hn Hr]. apply str_eqb_spec in Hn.
    destruct (S2 f Hf Hr) as [v Hv]. rewrite Hn in Hv.
    destruct (lookup (s2l a) stored) eqn:L; [reflexivity|]. exfalso. eapply in_lookup_some; eauto.
  - apply forallb_forall. intros [a vn] Ha. rewrite forallb_forall in Hvoc. specialize (Hvoc _ Ha).
    simpl in *. unfold field_vocab_named in Hvoc. apply andb_prop in Hvoc as [Hex Hall].
    apply existsb_exists in Hex as [f0 [Hf0 Hn0]]. apply str_eqb_spec in Hn0.
    rewrite forallb_forall in Hall.
    pose proof (Hall f0 Hf0) as H0. rewrite Hn0, str_eqb_refl in H0. apply andb_prop in H0 as [Hr0 _].
    destruct (S2 f0 Hf0 Hr0) as [v0 Hv0]. rewrite Hn0 in Hv0.
    destruct (lookup (s2l a) stored) as [v|] eqn:L; [|exfalso; eapply in_lookup_some; eauto].
    apply lookup_in in L. destruct (S1 _ _ L) as [g [Hg [Hgn Hgc]]].
    specialize (Hall g Hg). rewrite Hgn, str_eqb_refl in Hall. apply andb_prop in Hall as [_ Hck].
    destruct (fcheck g) as [| vv | |]; simpl in Hck; try discriminate.
    apply str_eqb_spec in Hck. subst vv. simpl in Hgc.
    rewrite (vocabs_match_spec R vn Vm) in Hgc; [exact Hgc|]. apply (Hknown (a, vn) Ha).
Qed.

(* every vocabulary named by the tables exists *)
Lemma spec_tables_closed :
  forallb (fun w => forallb (fun av => existsb (String.eqb (snd av)) (map fst spec_vocabs)) (w_vocab w))
          (spec_msgs ++ spec_parts) = true.
Proof. vm_compute. reflexivity. Qed.

Lemma row_vocabs_known rows t w :
  (forall x, In x rows -> In x (spec_msgs ++ spec_parts)) ->
  find_row rows t = Some w -> forall av, In av (w_vocab w) -> In (snd av) (map fst spec_vocabs).
Proof.
  intros Hsub F av Hav. unfold find_row in F. apply find_some in F as [Hin _].
  pose proof spec_tables_closed as C. rewrite forallb_forall in C. specialize (C w (Hsub _ Hin)).
  rewrite forallb_forall in C. specialize (C av Hav). apply existsb_exists in C as [x [Hx E]].
  apply String.eqb_eq in E. now subst.
Qed.

Lemma value_ok_of_check R vc ck (v : option str) :
  vocabs_match R = true ->
  (match vc with VVocab n => In n (map fst spec_vocabs) | _ => True end) ->
  value_field_ok vc ck = true ->
  (match v with Some s => check_ok R ck s | None => check_none ck end) = true ->
  value_ok vc v = true.
Proof.
  intros Vm Hk Hf Hc. destruct vc as [|n|]; simpl in *; [reflexivity| |].
  - destruct ck; simpl in Hf; try discriminate. apply str_eqb_spec in Hf. subst.
    destruct v as [s|]; simpl in *; [|discriminate]. now rewrite (vocabs_match_spec R n Vm Hk) in Hc.
  - destruct ck; simpl in Hf; try discriminate. destruct v; simpl in *; auto.
Qed.

Lemma spec_value_vocabs_known :
  forallb (fun w => match w_value w with
                    | VVocab n => existsb (String.eqb n) (map fst spec_vocabs) | _ => true end)
          (spec_msgs ++ spec_parts) = true.
Proof. vm_compute. reflexivity. Qed.

Lemma row_value_known rows t w :
  (forall x, In x rows -> In x (spec_msgs ++ spec_parts)) ->
  find_row rows t = Some w ->
  match w_value w with VVocab n => In n (map fst spec_vocabs) | _ => True end.
Proof.
  intros Hsub F. unfold find_row in F. apply find_some in F as [Hin _].
  pose proof spec_value_vocabs_known as C. rewrite forallb_forall in C. specialize (C w (Hsub _ Hin)).
  destruct (w_value w); auto. apply existsb_exists in C as [x [Hx E]]. apply String.eqb_eq in E. now subst.
Qed.

Lemma find_pclass_in R t pc : find_pclass R t = Some pc -> In pc (rparts R) /\ ptag pc = t.
Proof.
  unfold find_pclass. intros H. apply find_some in H as [H1 H2]. apply str_eqb_spec in H2. auto.
Qed.

Lemma find_mclass_in R t c : find_mclass R t = Some c -> In c (rmsgs R) /\ ctag c = t.
Proof.
  unfold find_mclass. intros H. split; [eapply find_last_in; eauto|].
  induction (rmsgs R) as [|x l IH]; simpl in H; [discriminate|].
  destruct (find_last (fun c0 => str_eqb (ctag c0) t) l) eqn:E.
  - injection H as ->. auto.
  - destruct (str_eqb (ctag x) t) eqn:E2; [|discriminate]. injection H as ->. now apply str_eqb_spec.
Qed.

Theorem part_from_xml_conformant R t p :
  reg_ok_c13 R = true -> part_from_xml R t = Some p -> part_conformant p = true.
Proof.
  intros Hok H. unfold reg_ok_c13 in Hok.
  apply andb_prop in Hok as [Hok _]. apply andb_prop in Hok as [Hok Vm]. apply andb_prop in Hok as [_ Hp].
  destruct t as [tg attrs text kids]. simpl in H.
  destruct (find_pclass R tg) as [pc|] eqn:F; [|discriminate].
  apply find_pclass_in in F as [Fin Ftag].
  rewrite forallb_forall in Hp. specialize (Hp _ Fin). unfold pclass_ok in Hp.
  unfold construct_part in H. destruct (mem_str s_self (keys attrs)); [discriminate|].
  destruct (bind_fields R attrs (pfields pc)) as [stored|] eqn:B; [|discriminate].
  match type of H with (if ?c then _ else _) = _ => destruct c eqn:C; [|discriminate] end.
  injection H as <-. unfold part_conformant. cbn [pk pa pv].
  destruct (find_row spec_parts (ptag pc)) as [w|] eqn:Fw; [|discriminate].
  apply andb_prop in Hp as [Hp Hv]. apply andb_prop in Hp as [Hreq Hvoc].
  apply andb_prop in C as [C _].
  apply andb_true_intro. split.
  - eapply attrs_ok_of_bind; eauto.
    eapply row_vocabs_known; [|exact Fw]. intros x Hx. apply in_or_app. now right.
  - apply (value_ok_of_check R (w_value w) (fcheck (pvalue pc))); [exact Vm| |exact Hv|].
    + eapply row_value_known; [|exact Fw]. intros x Hx. apply in_or_app. now right.
    + destruct text; exact C.
Qed.

Lemma map_opt_forall {A B} (f : A -> option B) l r :
  map_opt f l = Some r -> forall y, In y r -> exists x, In x l /\ f x = Some y.
Proof.
  revert r. induction l as [|x l IH]; simpl; intros r H y Hy.
  - injection H as <-. contradiction.
  - destruct (f x) as [b|] eqn:E; [|discriminate]. destruct (map_opt f l) as [r'|]; [|discriminate].
    injection H as <-. destruct Hy as [<-|Hy]; [exists x; auto|].
    destruct (IH r' eq_refl y Hy) as [x' [Hx' Hf]]. exists x'. auto.
Qed.

Theorem from_xml_conformant R t m :
  reg_ok_c13 R = true -> msg_from_xml R t = Some m -> conformant m = true.
Proof.
  intros Hok H. pose proof Hok as Hok0. unfold reg_ok_c13 in Hok.
  apply andb_prop in Hok as [Hok _]. apply andb_prop in Hok as [Hok Vm]. apply andb_prop in Hok as [Hm _].
  destruct t as [tg attrs text kids]. simpl in H.
  destruct (find_mclass R tg) as [c|] eqn:F; [|discriminate].
  apply find_mclass_in in F as [Fin Ftag].
  rewrite forallb_forall in Hm. specialize (Hm _ Fin). unfold mclass_ok in Hm.
  destruct (map_opt (part_from_xml R) kids) as [parts|] eqn:Mp; [|discriminate].
  match type of H with (if ?bad then _ else _) = _ => destruct bad; [discriminate|] end.
  set (kw := remove_key s_children (remove_key s_value attrs)) in *.
  unfold construct_msg in H. destruct (mem_str s_self (keys kw)); [discriminate|].
  destruct (bind_fields R kw (cfields c)) as [stored|] eqn:B; [|discriminate].
  destruct (find_row spec_msgs (ctag c)) as [w|] eqn:Fw; [|discriminate].
  apply andb_prop in Hm as [Hm Hch]. apply andb_prop in Hm as [Hm Hval]. apply andb_prop in Hm as [Hreq Hvoc].
  set (value := match text with [] => lookup s_value attrs | _ => Some (strip text) end) in *.
  set (kids' := match parts with
                | [] => match lookup s_children attrs with Some _ => Some [] | None => None end
                | _ => Some parts end) in *.
  match type of H with
  | match ?vv with _ => _ end = _ => destruct vv as [v|] eqn:Ev; [|discriminate]
  end.
  match type of H with
  | match ?cc with _ => _ end = _ => destruct cc as [ch|] eqn:Ech; [|discriminate]
  end.
  match type of H with (if ?cnd then _ else _) = _ => destruct cnd; [|discriminate] end.
  injection H as <-. unfold conformant. cbn [mk ma mv mc]. rewrite Fw.
  apply andb_true_intro. split; [apply andb_true_intro; split|].
  - eapply attrs_ok_of_bind; eauto.
    eapply row_vocabs_known; [|exact Fw]. intros x Hx. apply in_or_app. now left.
  - (* value *)
    destruct (w_value w) eqn:Wv; [reflexivity| |].
    + destruct (cvalue c) as [f|]; [|discriminate]. apply andb_prop in Hval as [Hfr Hvf].
      destruct value as [s|] eqn:Evalue.
      * destruct (check_ok R (fcheck f) s) eqn:Ck; [|discriminate]. injection Ev as <-.
        pose proof (row_value_known spec_msgs (ctag c) w) as K. rewrite Wv in K.
        apply (value_ok_of_check R (VVocab v0) (fcheck f) (Some s)); [exact Vm| |exact Hvf|exact Ck].
        apply K; [intros x Hx; apply in_or_app; now left|exact Fw].
      * rewrite Hfr in Ev. discriminate.
    + destruct (cvalue c) as [f|]; [|discriminate]. apply andb_prop in Hval as [Hfr Hvf].
      destruct value as [s|] eqn:Evalue.
      * destruct (check_ok R (fcheck f) s) eqn:Ck; [|discriminate]. injection Ev as <-.
        apply (value_ok_of_check R VNumberOrAbsent (fcheck f) (Some s)); [exact Vm|exact I|exact Hvf|exact Ck].
      * rewrite Hfr in Ev. discriminate.
  - (* children *)
    destruct (w_child w) as [ck|] eqn:Wc.
    + destruct (cchild c) as [[|t0 [|t1 ts]]|] eqn:Cc; try discriminate.
      apply str_eqb_spec in Hch. subst t0.
      destruct kids' as [l|] eqn:Ek.
      * destruct (forallb (fun p => mem_str (pk p) [s2l ck]) l) eqn:Fa; [|discriminate]. injection Ech as <-.
        apply forallb_forall. intros p Hp. rewrite forallb_forall in Fa. specialize (Fa p Hp).
        simpl in Fa. rewrite orb_false_r in Fa. rewrite Fa. simpl.
        assert (In p parts) as Hp'.
        { unfold kids' in Ek. destruct parts as [|q qs].
          - destruct (lookup s_children attrs); [injection Ek as <-; contradiction|discriminate].
          - injection Ek as <-. exact Hp. }
        destruct (map_opt_forall _ _ _ Mp p Hp') as [x [_ Hx]].
        eapply part_from_xml_conformant; eauto.
      * injection Ech as <-. reflexivity.
    + destruct (cchild c) eqn:Cc; [discriminate|]. injection Ech as <-. reflexivity.
Qed.
