(* C03: serialise-then-parse is the identity (up to: empty text = absent text). *)
From Coq Require Import List NArith ZArith Bool String Lia.
Import ListNotations.
From Indi Require Import Base.Sx Msg.Registry Msg.Equality Msg.Model Xml.Lex Xml.Print Xml.RoundTrip.

Definition dict_eqb_exact (a b : dict) : bool :=
  list_eqb (fun x y => str_eqb (fst x) (fst y) && str_eqb (snd x) (snd y)) a b.

Lemma dict_eqb_exact_spec a b : dict_eqb_exact a b = true <-> a = b.
Proof.
  apply list_eqb_spec. intros [k v] [k' v']. simpl. split.
  - intros H. apply andb_prop in H as [H1 H2]. apply str_eqb_spec in H1. apply str_eqb_spec in H2. now subst.
  - intros [= -> ->]. now rewrite !str_eqb_refl.
Qed.

(* text that survives the parser's strip() *)
Definition clean (s : str) : bool := str_eqb (strip s) s.

Definition reserved_kw (k : str) : bool :=
  str_eqb k s_self || str_eqb k s_value || str_eqb k s_children.

(* a message object as the constructors produce it: its attributes are exactly
   what binding them again stores, its value and children pass the class's checks *)
Definition wf_attrs (R : registry) (fs : list field) (a : dict) : bool :=
  match bind_fields R a fs with
  | Some stored => dict_eqb_exact stored a
  | None => false
  end &&
  forallb (fun kv => declared fs (fst kv) && negb (reserved_kw (fst kv))) a.

Definition wfb_part (R : registry) (p : part) : bool :=
  match find_pclass R (pk p) with
  | None => false
  | Some pc =>
      str_eqb (ptag pc) (pk p) &&
      wf_attrs R (pfields pc) (pa p) &&
      match pv p with
      | Some s => check_ok R (fcheck (pvalue pc)) s && clean s &&
                  (match s with [] => check_none (fcheck (pvalue pc)) | _ => true end)
      | None => check_none (fcheck (pvalue pc))
      end
  end.

Definition wfb (R : registry) (m : msg) : bool :=
  match find_mclass R (mk m) with
  | None => false
  | Some c =>
      str_eqb (ctag c) (mk m) &&
      wf_attrs R (cfields c) (ma m) &&
      match cvalue c, mv m with
      | Some f, Some s => check_ok R (fcheck f) s && clean s && negb (match s with [] => true | _ => false end)
      | Some f, None => negb (freq f)
      | None, None => true
      | None, Some _ => false
      end &&
      match cchild c, mc m with
      | Some tags, Some l => forallb (fun p => mem_str (pk p) tags && wfb_part R p) l
      | None, None => true
      | _, _ => false
      end
  end.

(* the normalisation the property allows *)
Definition norm_value (v : option str) : option str :=
  match v with Some [] => None | _ => v end.
Definition norm_part (p : part) : part := {| pk := pk p; pa := pa p; pv := norm_value (pv p) |}.
Definition norm_msg (m : msg) : msg :=
  {| mk := mk m; ma := ma m; mv := mv m; mc := option_map (map norm_part) (mc m) |}.

(* ---------- lemmas ---------- *)

Lemma lookup_not_key k (a : dict) : mem_str k (keys a) = false -> lookup k a = None.
Proof.
  induction a as [|[k' v] a IH]; simpl; [reflexivity|].
  intros H. apply orb_false_elim in H as [H1 H2]. rewrite H1. auto.
Qed.

Lemma wf_attrs_facts R fs a :
  wf_attrs R fs a = true ->
  bind_fields R a fs = Some a /\
  mem_str s_self (keys a) = false /\ mem_str s_value (keys a) = false /\ mem_str s_children (keys a) = false /\
  (forall kv, In kv a -> declared fs (fst kv) = true).
Proof.
  unfold wf_attrs. intros H. apply andb_prop in H as [H1 H2].
  destruct (bind_fields R a fs) as [stored|] eqn:B; [|discriminate].
  apply dict_eqb_exact_spec in H1. subst stored.
  rewrite forallb_forall in H2.
  assert (forall k, reserved_kw k = true -> mem_str k (keys a) = false) as Hres.
  { intros k Hk. destruct (mem_str k (keys a)) eqn:E; [|reflexivity].
    apply mem_str_In in E. unfold keys in E. apply in_map_iff in E as [[k' v] [<- Hin]].
    specialize (H2 _ Hin). simpl in *. apply andb_prop in H2 as [_ H2]. rewrite Hk in H2. discriminate. }
  split; [reflexivity|]. split; [|split; [|split]].
  - apply Hres. unfold reserved_kw. now rewrite str_eqb_refl.
  - apply Hres. unfold reserved_kw. now rewrite str_eqb_refl, orb_true_r.
  - apply Hres. unfold reserved_kw. now rewrite str_eqb_refl, !orb_true_r.
  - intros kv Hin. specialize (H2 _ Hin). now apply andb_prop in H2 as [H2 _].
Qed.

Lemma junk_ok_true fs extra junk (a more : kwargs) :
  (forall kv, In kv a -> declared fs (fst kv) = true) ->
  forallb (fun kv => mem_str (fst kv) extra) more = true ->
  junk_ok fs extra junk (a ++ more) = true.
Proof.
  intros Ha Hm. unfold junk_ok. apply orb_true_iff. right. rewrite forallb_app.
  apply andb_true_intro. split; apply forallb_forall; intros kv Hin.
  - now rewrite (Ha kv Hin).
  - rewrite forallb_forall in Hm. rewrite (Hm kv Hin). apply orb_true_r.
Qed.

Lemma remove_key_absent k (a : dict) : mem_str k (keys a) = false -> remove_key k a = a.
Proof.
  induction a as [|[k' v] a IH]; simpl; [reflexivity|].
  intros H. apply orb_false_elim in H as [H1 H2]. rewrite H1. now rewrite IH.
Qed.

Lemma strip_nonempty_clean s : clean s = true -> s <> [] -> strip s <> [].
Proof. unfold clean. intros H Hn. apply str_eqb_spec in H. now rewrite H. Qed.

Lemma part_roundtrip R p :
  nodup_strb (map ptag (rparts R)) = true ->
  wfb_part R p = true ->
  part_from_xml R (part_to_xml p) = Some (norm_part p).
Proof.
  intros _ H. unfold wfb_part in H. unfold part_to_xml, part_from_xml.
  destruct (find_pclass R (pk p)) as [pc|] eqn:F; [|discriminate].
  apply andb_prop in H as [H Hv]. apply andb_prop in H as [Ht Ha]. apply str_eqb_spec in Ht.
  destruct (wf_attrs_facts R _ _ Ha) as [B [Hs [_ [_ Hj]]]].
  unfold construct_part. rewrite Hs, B.
  assert (junk_ok (pfields pc) [s_value] (pjunk pc) (pa p) = true) as ->.
  { rewrite <- (app_nil_r (pa p)). apply junk_ok_true; [exact Hj|reflexivity]. }
  unfold norm_part. destruct (pv p) as [s|] eqn:Ev; simpl.
  - apply andb_prop in Hv as [Hv He]. apply andb_prop in Hv as [Hc Hcl].
    destruct s as [|c0 s'].
    + simpl. rewrite He. simpl. now rewrite Ht.
    + unfold clean in Hcl. apply str_eqb_spec in Hcl. rewrite Hcl, Hc. simpl. now rewrite Ht.
  - rewrite Hv. simpl. now rewrite Ht.
Qed.

Lemma parts_roundtrip R l :
  nodup_strb (map ptag (rparts R)) = true ->
  forallb (wfb_part R) l = true ->
  map_opt (part_from_xml R) (map part_to_xml l) = Some (map norm_part l).
Proof.
  intros Hn. induction l as [|p l IH]; cbn [map map_opt forallb]; intros H; [reflexivity|].
  apply andb_prop in H as [Hp Hl]. rewrite (part_roundtrip R p Hn Hp), (IH Hl). reflexivity.
Qed.

Theorem roundtrip_tree R m :
  nodup_strb (map ptag (rparts R)) = true ->
  wfb R m = true ->
  msg_from_xml R (msg_to_xml m) = Some (norm_msg m).
Proof.
  intros Hn H. unfold wfb in H. unfold msg_to_xml, msg_from_xml.
  destruct (find_mclass R (mk m)) as [c|] eqn:F; [|discriminate].
  apply andb_prop in H as [H Hch]. apply andb_prop in H as [H Hv]. apply andb_prop in H as [Ht Ha].
  apply str_eqb_spec in Ht.
  destruct (wf_attrs_facts R _ _ Ha) as [B [Hs [Hval [Hchi Hj]]]].
  (* children *)
  assert (exists l', map_opt (part_from_xml R) (match mc m with Some l => map part_to_xml l | None => [] end) = Some l' /\
                     l' = match mc m with Some l => map norm_part l | None => [] end) as [l' [Ml El]].
  { destruct (mc m) as [l|] eqn:Em.
    - destruct (cchild c) as [tags|]; [|discriminate].
      exists (map norm_part l). split; [|reflexivity]. apply parts_roundtrip; [assumption|].
      apply forallb_forall. intros p Hp. rewrite forallb_forall in Hch. specialize (Hch p Hp).
      now apply andb_prop in Hch as [_ Hch].
    - exists []. split; reflexivity. }
  rewrite Ml. rewrite (lookup_not_key _ _ Hchi).
  assert ((match l', @None str, cchild c with [], Some (_ :: _), Some _ => true | _, _, _ => false end) = false) as ->
    by (destruct l'; reflexivity).
  rewrite (remove_key_absent _ _ Hval), (remove_key_absent _ _ Hchi).
  unfold construct_msg. rewrite Hs, B.
  assert (Hkids : forall tags l, cchild c = Some tags -> mc m = Some l ->
            forallb (fun q => mem_str (pk q) tags) (map norm_part l) = true).
  { intros tags l Cc Em. rewrite Cc, Em in Hch.
    apply forallb_forall. intros q Hq. apply in_map_iff in Hq as [q0 [<- Hq0]].
    rewrite forallb_forall in Hch. specialize (Hch q0 Hq0). now apply andb_prop in Hch as [Hch _]. }
  destruct (cvalue c) as [f|] eqn:Cv; destruct (mv m) as [s|] eqn:Ev; try discriminate; simpl opt_text.
  - (* value stored and given *)
    apply andb_prop in Hv as [Hv Hne]. apply andb_prop in Hv as [Hck Hcl].
    destruct s as [|c0 s']; [discriminate|].
    unfold clean in Hcl. apply str_eqb_spec in Hcl. rewrite Hcl, Hck.
    destruct (cchild c) as [tags|] eqn:Cc; destruct (mc m) as [l|] eqn:Em; try discriminate; subst l'.
    + specialize (Hkids tags l eq_refl eq_refl).
      destruct l as [|p l]; cbn [map].
      * rewrite junk_ok_true; [|exact Hj|reflexivity].
        unfold norm_msg. rewrite Em, Ht, Ev. reflexivity.
      * cbn [map] in Hkids. rewrite Hkids.
        rewrite junk_ok_true; [|exact Hj|reflexivity].
        unfold norm_msg. rewrite Em, Ht, Ev. reflexivity.
    + rewrite junk_ok_true; [|exact Hj|reflexivity].
      unfold norm_msg. rewrite Em, Ht, Ev. reflexivity.
  - (* value stored, absent *)
    rewrite (lookup_not_key _ _ Hval). apply negb_true_iff in Hv. rewrite Hv.
    destruct (cchild c) as [tags|] eqn:Cc; destruct (mc m) as [l|] eqn:Em; try discriminate; subst l'.
    + specialize (Hkids tags l eq_refl eq_refl).
      destruct l as [|p l]; cbn [map].
      * rewrite junk_ok_true; [|exact Hj|reflexivity].
        unfold norm_msg. rewrite Em, Ht, Ev. reflexivity.
      * cbn [map] in Hkids. rewrite Hkids.
        rewrite junk_ok_true; [|exact Hj|reflexivity].
        unfold norm_msg. rewrite Em, Ht, Ev. reflexivity.
    + rewrite junk_ok_true; [|exact Hj|reflexivity].
      unfold norm_msg. rewrite Em, Ht, Ev. reflexivity.
  - (* no value attribute *)
    rewrite (lookup_not_key _ _ Hval).
    destruct (cchild c) as [tags|] eqn:Cc; destruct (mc m) as [l|] eqn:Em; try discriminate; subst l'.
    + specialize (Hkids tags l eq_refl eq_refl).
      destruct l as [|p l]; cbn [map].
      * rewrite junk_ok_true; [|exact Hj|reflexivity].
        unfold norm_msg. rewrite Em, Ht, Ev. reflexivity.
      * cbn [map] in Hkids. rewrite Hkids.
        rewrite junk_ok_true; [|exact Hj|reflexivity].
        unfold norm_msg. rewrite Em, Ht, Ev. reflexivity.
    + rewrite junk_ok_true; [|exact Hj|reflexivity].
      unfold norm_msg. rewrite Em, Ht, Ev. reflexivity.
Qed.

(* serialising the parsed message again gives the same element (hence the same
   bytes): normalisation only turns empty text into absent text, and both print
   as no text *)
Theorem reserialize_tree m : msg_to_xml (norm_msg m) = msg_to_xml m.
Proof.
  unfold msg_to_xml, norm_msg. simpl. f_equal.
  destruct (mc m) as [l|]; simpl; [|reflexivity].
  rewrite map_map. apply map_ext. intros p. unfold part_to_xml, norm_part. simpl. f_equal.
  destruct (pv p) as [[|x s]|]; reflexivity.
Qed.

(* the string level, given the XML layer's round trip (validated against
   ElementTree/expat by the correspondence; proving it for Xml.Lex/Xml.Print is
   the remaining step, see DESIGN) *)
Definition from_string (R : registry) (doc : str) : option msg :=
  match parse doc with
  | (0%N, Some t) => msg_from_xml R t
  | _ => None
  end.
Definition to_string (m : msg) : str := print_doc (msg_to_xml m).

Theorem string_roundtrip_given_xml_layer R m :
  (forall t, parse (print_doc t) = (0%N, Some t)) ->
  nodup_strb (map ptag (rparts R)) = true ->
  wfb R m = true ->
  from_string R (to_string m) = Some (norm_msg m) /\ to_string (norm_msg m) = to_string m.
Proof.
  intros Hx Hn Hw. unfold from_string, to_string. rewrite Hx. split.
  - now apply roundtrip_tree.
  - now rewrite reserialize_tree.
Qed.

(* the string level, with the XML layer's round trip proved (Xml/RoundTrip.v): what remains of the premise is that
   the message's element can be printed at all - names are XML names, attribute values and text consist of
   characters XML can carry, text without a carriage return (a parser reads that as a line feed) *)
Definition printable (m : msg) : bool := tree_okb (msg_to_xml m).

Theorem string_roundtrip R m :
  nodup_strb (map ptag (rparts R)) = true ->
  wfb R m = true -> printable m = true ->
  from_string R (to_string m) = Some (norm_msg m) /\ to_string (norm_msg m) = to_string m.
Proof.
  intros Hn Hw Hp. unfold from_string, to_string. rewrite (parse_print_b _ Hp). split.
  - now apply roundtrip_tree.
  - now rewrite reserialize_tree.
Qed.
