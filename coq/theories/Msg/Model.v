(* Model of IndiMessage.from_xml / to_xml and of the message constructors
   (keyword binding + checks) as an interpreter over the registry. *)
From Coq Require Import List NArith ZArith Bool String Lia.
Import ListNotations.
From Indi Require Import Base.Sx Msg.Registry Msg.Equality Xml.Lex.
Local Open Scope N_scope.

(* ---------- str.strip() and str.isspace ---------- *)
Definition inr (lo hi c : N) : bool := (lo <=? c) && (c <=? hi).
Definition is_space (c : N) : bool :=
  inr 9 13 c || inr 28 32 c || (c =? 133) || (c =? 160) || (c =? 5760) || inr 8192 8202 c ||
  (c =? 8232) || (c =? 8233) || (c =? 8239) || (c =? 8287) || (c =? 12288).

Fixpoint lstrip (s : str) : str :=
  match s with
  | [] => []
  | c :: s' => if is_space c then lstrip s' else s
  end.
Definition strip (s : str) : str := rev (lstrip (rev (lstrip s))).

(* ---------- checks.number: the shared NUMBER_RE ---------- *)
Definition is_dig (c : N) : bool := inr 48 57 c.
Definition is_sep (c : N) : bool := (c =? 58) || (c =? 59) || (c =? 32).   (* : ; blank *)

(* split at every separator character *)
Fixpoint split_on (p : N -> bool) (s : str) (cur : str) : list str :=
  match s with
  | [] => [rev cur]
  | c :: s' => if p c then rev cur :: split_on p s' [] else split_on p s' (c :: cur)
  end.

Definition all_digits (s : str) : bool := forallb is_dig s.
Definition is_int (s : str) : bool := negb (match s with [] => true | _ => false end) && all_digits s.
(* D+ | D+ '.' D* | '.' D+ *)
Definition is_decimal (s : str) : bool :=
  match split_on (fun c => c =? 46) s [] with
  | [a] => is_int a
  | [a; b] => (is_int a && all_digits b) || ((match a with [] => true | _ => false end) && is_int b)
  | _ => false
  end.

Definition unsigned_number (s : str) : bool :=
  match split_on is_sep s [] with
  | [d] => is_decimal d
  | [a; d] => is_int a && is_decimal d
  | [a; b; d] => is_int a && is_int b && is_decimal d
  | _ => false
  end.

Definition check_number (s : str) : bool :=
  match s with
  | c :: s' => if (c =? 45) || (c =? 43) then unsigned_number s' else unsigned_number s
  | [] => false
  end.

(* ---------- checks ---------- *)
Definition check_ok (R : registry) (ck : check) (v : str) : bool :=
  match ck with
  | CkNone => true
  | CkVocab n => mem_str v (vocab_of R n)
  | CkNumber => check_number v
  | CkOther => false
  end.

(* the same check applied to an absent value (None) *)
Definition check_none (ck : check) : bool :=
  match ck with CkNone | CkNumber => true | _ => false end.

Definition kwargs := list (str * str).

(* one declared keyword: Some (Some v) given and valid, Some None absent and optional, None = exception *)
Definition bind_field (R : registry) (kw : kwargs) (f : field) : option (option str) :=
  match lookup (fname f) kw with
  | Some v => if check_ok R (fcheck f) v then Some (Some v) else None
  | None => if freq f then None else Some None
  end.

Fixpoint bind_fields (R : registry) (kw : kwargs) (fs : list field) : option (list (str * str)) :=
  match fs with
  | [] => Some []
  | f :: fs' =>
      match bind_field R kw f, bind_fields R kw fs' with
      | Some (Some v), Some r => Some ((fname f, v) :: r)
      | Some None, Some r => Some r
      | _, _ => None
      end
  end.

Definition s_value := s2l "value".
Definition s_children := s2l "children".
Definition s_self := s2l "self".

Definition declared (fs : list field) (k : str) : bool := existsb (fun f => str_eqb (fname f) k) fs.

(* keywords nobody declared need **junk *)
Definition junk_ok (fs : list field) (extra : list str) (junk : bool) (kw : kwargs) : bool :=
  junk || forallb (fun kv => declared fs (fst kv) || mem_str (fst kv) extra) kw.

(* ---------- parts ---------- *)
Definition construct_part (R : registry) (pc : pclass) (kw : kwargs) (value : option str) : option part :=
  if mem_str s_self (keys kw) then None else
  match bind_fields R kw (pfields pc) with
  | None => None
  | Some stored =>
      let vok := match value with
                 | Some v => check_ok R (fcheck (pvalue pc)) v
                 | None => check_none (fcheck (pvalue pc))
                 end in
      if vok && junk_ok (pfields pc) [s_value] (pjunk pc) kw
      then Some {| pk := ptag pc; pa := stored; pv := value |}
      else None
  end.

Definition part_from_xml (R : registry) (t : tree) : option part :=
  match t with
  | Node tg attrs text _ =>
      match find_pclass R tg with
      | None => None
      | Some pc =>
          let value := match text with [] => None | _ => Some (strip text) end in
          construct_part R pc attrs value
      end
  end.

(* ---------- messages ---------- *)
Definition construct_msg (R : registry) (c : mclass) (kw : kwargs)
           (value : option str) (kids : option (list part)) : option msg :=
  if mem_str s_self (keys kw) then None else
  match bind_fields R kw (cfields c) with
  | None => None
  | Some stored =>
      let v := match cvalue c with
               | Some f => match value with
                           | Some s => if check_ok R (fcheck f) s then Some (Some s) else None
                           | None => if freq f then None else Some None
                           end
               | None => Some None
               end in
      let ch := match cchild c with
                | Some tags => match kids with
                               | Some l => if forallb (fun p => mem_str (pk p) tags) l then Some (Some l) else None
                               | None => Some (Some [])
                               end
                | None => Some None
                end in
      match v, ch with
      | Some v, Some ch =>
          let extra := (match cvalue c with Some _ => [s_value] | None => [] end) ++
                       (match cchild c with Some _ => [s_children] | None => [] end) in
          let given := kw ++ (match value with Some s => [(s_value, s)] | None => [] end)
                          ++ (match kids with Some _ => [(s_children, [])] | None => [] end) in
          if junk_ok (cfields c) extra (cjunk c) given
          then Some {| mk := ctag c; ma := stored; mv := v; mc := ch |}
          else None
      | _, _ => None
      end
  end.

Fixpoint remove_key (k : str) (d : kwargs) : kwargs :=
  match d with
  | [] => []
  | (k', v) :: d' => if str_eqb k k' then remove_key k d' else (k', v) :: remove_key k d'
  end.

Definition msg_from_xml (R : registry) (t : tree) : option msg :=
  match t with
  | Node tg attrs text kids =>
      match find_mclass R tg with
      | None => None
      | Some c =>
          match map_opt (part_from_xml R) kids with
          | None => None
          | Some parts =>
              (* kwargs["children"] is the tuple of parsed child elements when there
                 are any; otherwise a literal children="..." attribute reaches the
                 constructor as a string: checks.children iterates its characters,
                 so only the empty string passes (and only matters to classes that
                 store children) *)
              let attr_children := lookup s_children attrs in
              let bad := match parts, attr_children, cchild c with
                         | [], Some (_ :: _), Some _ => true
                         | _, _, _ => false
                         end in
              if bad then None else
              let value := match text with
                           | [] => lookup s_value attrs
                           | _ => Some (strip text)
                           end in
              let kids' := match parts with
                           | [] => match attr_children with Some _ => Some [] | None => None end
                           | _ => Some parts
                           end in
              construct_msg R c (remove_key s_children (remove_key s_value attrs)) value kids'
          end
      end
  end.

(* ---------- to_xml ---------- *)
Definition opt_text (v : option str) : str := match v with Some s => s | None => [] end.

Definition part_to_xml (p : part) : tree := Node (pk p) (pa p) (opt_text (pv p)) [].
Definition msg_to_xml (m : msg) : tree :=
  Node (mk m) (ma m) (opt_text (mv m))
       (match mc m with Some l => map part_to_xml l | None => [] end).

(* ---------- runner entries ---------- *)
Definition enc_part (p : part) : sx :=
  SL [SA (pk p); of_list (of_pair SA SA) (pa p); of_opt SA (pv p)].
Definition enc_msg (m : msg) : sx :=
  SL [SA (mk m); of_list (of_pair SA SA) (ma m); of_opt SA (mv m); of_opt (of_list enc_part) (mc m)].
