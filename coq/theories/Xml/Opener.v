(* A fact about the XML lexer: every start tag it reports occurs in the text, as
   '<' followed by the tag name.  With the tree builder (the root of the tree is the
   first start tag) this gives the parser premise of C02/C11 for the concrete parser:
   a text read as a message contains the opener of its root tag. *)
From Coq Require Import List NArith Bool Arith Lia.
Import ListNotations.
From Indi Require Import Base.Sx Xml.Lex.
Local Open Scope N_scope.

Definition occurs (p l : str) : Prop := exists a b, l = a ++ p ++ b.

Lemma occurs_app_r p l x : occurs p l -> occurs p (l ++ x).
Proof. intros (a & b & ->). exists a, (b ++ x). now rewrite <- !app_assoc. Qed.

Lemma occurs_suffix p a : occurs p (a ++ p).
Proof. exists a, []. now rewrite app_nil_r. Qed.

Definition LTc : N := 60.

(* what the mode remembers of the text read so far *)
Definition minv (m : mode) (l : str) : Prop :=
  match m with
  | MLt => exists a, l = a ++ [LTc]
  | MName acc => exists a, l = a ++ LTc :: rev acc
  | MAttrs tag _ _ | MAttrName tag _ _ | MAttrEq tag _ _ | MAttrValStart tag _ _ | MAttrVal _ tag _ _ _ _ | MSlash tag _ =>
      occurs (LTc :: tag) l
  | MRef _ (MAttrVal _ tag _ _ _ _) _ => occurs (LTc :: tag) l
  | _ => True
  end.

Definition tinv (ts : list token) (l : str) : Prop :=
  forall name attrs sc, In (TStart name attrs sc) ts -> occurs (LTc :: name) l.

Record linv (s : lstate) (l : str) : Prop := { li_mode : minv (md s) l; li_toks : tinv (toks s) l }.

Lemma minv_app m : forall l x,
  match m with MLt | MName _ => False | MRef _ _ _ => False | _ => True end -> minv m l -> minv m (l ++ x).
Proof.
  destruct m; cbn [minv]; intros l x H I; try exact I; try contradiction; apply occurs_app_r; exact I.
Qed.

Lemma tinv_app ts l x : tinv ts l -> tinv ts (l ++ x).
Proof. intros H n a sc Hin. apply occurs_app_r. exact (H n a sc Hin). Qed.

Lemma tinv_push_text s acc l : tinv (toks s) l -> tinv (push_text s acc) l.
Proof.
  unfold push_text. destruct acc as [|c0 r]; [auto|]. intros H nm a0 sc [Hin|Hin]; [discriminate|exact (H nm a0 sc Hin)].
Qed.

Lemma emit_start_inv s tag attrs sc l :
  tinv (toks s) l -> occurs (LTc :: tag) l -> linv (emit_start s tag attrs sc) l.
Proof.
  intros T O. unfold emit_start.
  assert (T' : tinv (TStart tag (rev attrs) sc :: toks s) l).
  { intros n a sc0 [Hin|Hin]; [injection Hin as <- _ _; exact O|exact (T n a sc0 Hin)]. }
  destruct sc; [destruct (stack s)|]; constructor; cbn [md toks minv]; auto.
Qed.

Ltac modes := cbn [md toks with_md st_err st_unsup minv stack seen_root].

Lemma lex_step_inv s c l : linv s l -> linv (lex_step s c) (l ++ [c]).
Proof.
  intros [M T]. pose proof (tinv_app _ _ [c] T) as T'. unfold lex_step.
  destruct (md s) as [|acc rb cr| |acc|tag attrs nw|tag attrs acc|tag attrs an|tag attrs an|q tag attrs an acc cr|cx back acc|tag attrs|acc|name| | |] eqn:Em;
    cbn [minv] in M.
  - (* MProlog *)
    destruct (is_ws c); [constructor; [rewrite Em; exact I|exact T']|].
    destruct (c =? 60) eqn:E; constructor; modes; auto. apply N.eqb_eq in E. subst. now exists l.
  - (* MContent *)
    destruct (c =? 60) eqn:E.
    + constructor; modes; [apply N.eqb_eq in E; subst; now exists l|apply tinv_push_text; exact T'].
    + repeat match goal with |- context [if ?b then _ else _] => destruct b end; constructor; modes; auto.
  - (* MLt *)
    destruct M as [a ->].
    repeat match goal with |- context [if ?b then _ else _] => destruct b | |- context [match stack s with _ => _ end] => destruct (stack s) end;
      constructor; modes; auto.
    all: try (exists a; cbn [rev app]; now rewrite <- app_assoc).
  - (* MName *)
    destruct M as [a ->].
    assert (O : occurs (LTc :: rev acc) ((a ++ LTc :: rev acc) ++ [c])).
    { exists a, [c]. now rewrite <- app_assoc. }
    destruct (c =? 58); [constructor; modes; auto|].
    destruct (is_name_char c).
    { constructor; modes; auto. exists a. cbn [rev]. rewrite <- !app_assoc. reflexivity. }
    destruct (is_ws c); [constructor; modes; auto|].
    destruct (c =? 47); [constructor; modes; auto|].
    destruct (c =? 62); [apply emit_start_inv; auto|constructor; modes; auto].
  - (* MAttrs *)
    pose proof (occurs_app_r _ _ [c] M) as O.
    repeat match goal with |- context [if ?b then _ else _] => destruct b end; try (apply emit_start_inv; auto); constructor; modes; auto.
  - (* MAttrName *)
    pose proof (occurs_app_r _ _ [c] M) as O.
    repeat match goal with |- context [if ?b then _ else _] => destruct b end; constructor; modes; auto.
  - (* MAttrEq *)
    pose proof (occurs_app_r _ _ [c] M) as O.
    repeat match goal with |- context [if ?b then _ else _] => destruct b end; constructor; modes; rewrite ?Em; cbn [minv]; auto.
  - (* MAttrValStart *)
    pose proof (occurs_app_r _ _ [c] M) as O.
    repeat match goal with |- context [if ?b then _ else _] => destruct b end; constructor; modes; rewrite ?Em; cbn [minv]; auto.
  - (* MAttrVal *)
    pose proof (occurs_app_r _ _ [c] M) as O.
    repeat match goal with |- context [if ?b then _ else _] => destruct b end; constructor; modes; auto.
  - (* MRef *)
    destruct (c =? 59).
    + destruct (resolve_ref (rev acc)); [|constructor; modes; auto].
      destruct back; try (constructor; modes; auto; fail).
      constructor; modes; auto. apply occurs_app_r. exact M.
    + destruct (is_name_char c || (c =? 35)); constructor; modes; auto.
      destruct back; auto. apply occurs_app_r. exact M.
  - (* MSlash *)
    pose proof (occurs_app_r _ _ [c] M) as O.
    destruct (c =? 62); [apply emit_start_inv; auto|constructor; modes; auto].
  - (* MEndName *)
    repeat match goal with |- context [if ?b then _ else _] => destruct b | |- context [match ?x with _ => _ end] => destruct x end;
      constructor; modes; auto; intros nm a0 sc0 [Hin|Hin]; try discriminate; exact (T' nm a0 sc0 Hin).
  - (* MEndWs *)
    repeat match goal with |- context [if ?b then _ else _] => destruct b | |- context [match ?x with _ => _ end] => destruct x end;
      constructor; modes; rewrite ?Em; cbn [minv]; auto; intros nm a0 sc0 [Hin|Hin]; try discriminate; exact (T' nm a0 sc0 Hin).
  - (* MEpilog *)
    destruct (is_ws c); [constructor; [rewrite Em; exact I|exact T']|].
    destruct (c =? 60) eqn:E; constructor; modes; auto. apply N.eqb_eq in E. subst. now exists l.
  - constructor; [rewrite Em; exact I|exact T'].
  - constructor; [rewrite Em; exact I|exact T'].
Qed.

Lemma lex_inv l : linv (lex l) l.
Proof.
  unfold lex.
  assert (G : forall l s pre, linv s pre -> linv (fold_left lex_step l s) (pre ++ l)).
  { induction l0 as [|c l0 IH]; intros s pre H; cbn [fold_left]; [rewrite app_nil_r; exact H|].
    replace (pre ++ c :: l0) with ((pre ++ [c]) ++ l0) by (rewrite <- app_assoc; reflexivity).
    apply IH. apply lex_step_inv. exact H. }
  apply (G l init []). constructor; cbn; [exact I|intros n a sc []].
Qed.

(* ---------- the root of the tree is the first start tag ---------- *)
Definition frame_tag (f : frame) : str := let '(t, _, _, _, _) := f in t.

Fixpoint first_start (ts : list token) : option str :=
  match ts with
  | [] => None
  | TStart n _ _ :: _ => Some n
  | _ :: r => first_start r
  end.

Definition tree_tag (t : tree) : str := match t with Node tg _ _ _ => tg end.

Lemma build_root ts : forall st tr,
  build ts st = Some tr ->
  match st with
  | [] => first_start ts = Some (tree_tag tr)
  | _ => frame_tag (last st ([], [], [], false, [])) = tree_tag tr
  end.
Proof.
  induction ts as [|tk ts IH]; intros st tr H; [discriminate|]. cbn [build] in H.
  destruct tk as [name attrs sc|name|s].
  - destruct sc.
    + destruct st as [|[[[[t a] tx] hc] k] st'].
      * injection H as <-. reflexivity.
      * specialize (IH _ _ H). cbn [last] in *. destruct st'; exact IH.
    + specialize (IH _ _ H). destruct st as [|f st']; [cbn in IH; cbn [first_start]; now rewrite IH|]. cbn [last] in *. destruct st'; exact IH.
  - destruct st as [|[[[[t a] tx] hc] k] st']; [discriminate|].
    destruct st' as [|[[[[t2 a2] tx2] hc2] k2] st''].
    + injection H as <-. reflexivity.
    + specialize (IH _ _ H). cbn [last] in *. destruct st''; exact IH.
  - destruct st as [|[[[[t a] tx] hc] k] st'].
    + specialize (IH _ _ H). exact IH.
    + destruct hc; specialize (IH _ _ H); cbn [last] in *; destruct st'; exact IH.
Qed.

Lemma first_start_in ts n : first_start ts = Some n -> exists a sc, In (TStart n a sc) ts.
Proof.
  induction ts as [|tk ts IH]; [discriminate|]. destruct tk as [name attrs sc|name|s]; cbn [first_start].
  - intros [= <-]. exists attrs, sc. now left.
  - intro H. destruct (IH H) as (a & sc & Hin). exists a, sc. now right.
  - intro H. destruct (IH H) as (a & sc & Hin). exists a, sc. now right.
Qed.

Lemma strip_prefix_suffix p : forall l r, strip_prefix p l = Some r -> exists a, l = a ++ r.
Proof.
  induction p as [|x p IH]; intros l r H; cbn [strip_prefix] in H.
  - injection H as <-. now exists [].
  - destruct l as [|y l]; [discriminate|]. destruct (x =? y); [|discriminate]. destruct (IH _ _ H) as [a ->]. now exists (y :: a).
Qed.

Lemma strip_decl_suffix l : exists a, l = a ++ strip_decl l.
Proof.
  unfold strip_decl. destruct (strip_prefix decl_dq l) as [r|] eqn:E1; [exact (strip_prefix_suffix _ _ _ E1)|].
  destruct (strip_prefix decl_sq l) as [r|] eqn:E2; [exact (strip_prefix_suffix _ _ _ E2)|]. now exists [].
Qed.

(* a text parsed as a complete document contains '<' followed by the tag of the root *)
Theorem root_tag_occurs l t :
  parse l = (0, Some t) -> occurs (LTc :: tree_tag t) l.
Proof.
  unfold parse. intro H. injection H as Hs Hb. rewrite Hs in Hb. cbn in Hb.
  pose proof (build_root _ [] t Hb) as R. cbn in R.
  destruct (first_start_in _ _ R) as (a & sc & Hin). apply in_rev in Hin.
  destruct (lex_inv (strip_decl l)) as [_ T]. specialize (T _ _ _ Hin).
  destruct (strip_decl_suffix l) as [pre Hl]. destruct T as (x & y & Hy). exists (pre ++ x), y. rewrite Hl at 1. rewrite Hy. now rewrite <- app_assoc.
Qed.
