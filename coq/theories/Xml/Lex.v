(* Streaming model of the XML subset the library meets (expat as used by
   ElementTree.fromstring): lexer folded over code points, explicit tag stack,
   tree builder reproducing ElementTree's .text rule.  Validated against expat
   by the correspondence (Xml layer); see DESIGN section 3. *)
From Coq Require Import List NArith ZArith Bool Arith.
Import ListNotations.
From Indi Require Import Base.Sx.
Local Open Scope N_scope.

Definition inr (lo hi c : N) : bool := (lo <=? c) && (c <=? hi).
Definition is_ws (c:N) : bool := (c =? 32) || (c =? 9) || (c =? 10) || (c =? 13).
Definition is_digit (c:N) := inr 48 57 c.
Definition is_name_start (c:N) : bool :=
  inr 65 90 c || inr 97 122 c || (c =? 95) || inr 192 214 c || inr 216 246 c || inr 248 255 c.
Definition is_name_char (c:N) : bool := is_name_start c || is_digit c || (c =? 45) || (c =? 46) || (c =? 183).
(* XML Char *)
Definition is_xml_char (c:N) : bool :=
  (c =? 9) || (c =? 10) || (c =? 13) || inr 32 55295 c || inr 57344 65533 c || inr 65536 1114111 c.

Inductive token :=
| TStart (name : str) (attrs : list (str * str)) (selfclose : bool)
| TEnd (name : str)
| TText (s : str).

Inductive ctx := CText | CAttr (q : N) (tag : str) (attrs : list (str*str)) (aname : str).

Inductive mode :=
| MProlog                      (* before root, only whitespace seen *)
| MContent (acc : str) (rb : nat) (cr : bool)  (* inside root; acc reversed text; rb = # of trailing ']' ; cr = last char was CR *)
| MLt                          (* just saw '<' *)
| MName (acc : str)            (* start tag name, reversed *)
| MAttrs (tag : str) (attrs : list (str*str)) (need_ws : bool)
| MAttrName (tag : str) (attrs : list (str*str)) (acc : str)
| MAttrEq (tag : str) (attrs : list (str*str)) (aname : str)   (* ws after name, before '=' *)
| MAttrValStart (tag : str) (attrs : list (str*str)) (aname : str)
| MAttrVal (q : N) (tag : str) (attrs : list (str*str)) (aname : str) (acc : str) (cr : bool)
| MRef (c : ctx) (back : mode) (acc : str)     (* after '&', acc reversed; back = mode to return to *)
| MSlash (tag : str) (attrs : list (str*str))  (* saw '/' in start tag, expect '>' *)
| MEndName (acc : str)
| MEndWs (name : str)
| MEpilog
| MError
| MUnsupported.

Record lstate := { md : mode; stack : list str; toks : list token (* reversed *); seen_root : bool }.

Definition st_err (s : lstate) := {| md := MError; stack := stack s; toks := toks s; seen_root := seen_root s |}.
Definition st_unsup (s : lstate) := {| md := MUnsupported; stack := stack s; toks := toks s; seen_root := seen_root s |}.
Definition with_md (s : lstate) (m : mode) := {| md := m; stack := stack s; toks := toks s; seen_root := seen_root s |}.

Fixpoint assoc_mem (k : str) (l : list (str*str)) : bool :=
  match l with [] => false | (k',_)::l' => str_eqb k k' || assoc_mem k l' end.

(* decimal / hex char reference value; None = malformed *)
Fixpoint dec_val (l : str) (acc : N) : option N :=
  match l with [] => Some acc | c :: l' => if is_digit c then dec_val l' (acc*10 + (c-48)) else None end.
Definition hex_digit (c:N) : option N :=
  if is_digit c then Some (c-48) else if inr 97 102 c then Some (c-87) else if inr 65 70 c then Some (c-55) else None.
Fixpoint hex_val (l : str) (acc : N) : option N :=
  match l with [] => Some acc | c :: l' => match hex_digit c with Some d => hex_val l' (acc*16+d) | None => None end end.

(* entity body (not reversed) -> char *)
Definition resolve_ref (body : str) : option N :=
  match body with
  | [108;116] => Some 60 | [103;116] => Some 62 | [97;109;112] => Some 38
  | [113;117;111;116] => Some 34 | [97;112;111;115] => Some 39
  | 35 :: 120 :: (_ :: _) as r => match hex_val (tl (tl body)) 0 with Some v => if is_xml_char v then Some v else None | None => None end
  | 35 :: (_ :: _) as r => match dec_val (tl body) 0 with Some v => if is_xml_char v then Some v else None | None => None end
  | _ => None
  end.

Definition push_text (s : lstate) (acc : str) : list token :=
  match acc with [] => toks s | _ => TText (rev acc) :: toks s end.

Definition emit_start (s : lstate) (tag : str) (attrs : list (str*str)) (selfc : bool) : lstate :=
  let t := TStart tag (rev attrs) selfc :: toks s in
  if selfc then
    match stack s with
    | [] => {| md := MEpilog; stack := []; toks := t; seen_root := true |}
    | _ => {| md := MContent [] 0 false; stack := stack s; toks := t; seen_root := true |}
    end
  else {| md := MContent [] 0 false; stack := tag :: stack s; toks := t; seen_root := true |}.

Definition has_colon (l : str) := existsb (fun c => c =? 58) l.
Definition is_xmlns (l : str) := str_eqb l [120;109;108;110;115].

Definition lex_step (s : lstate) (c : N) : lstate :=
  match md s with
  | MError | MUnsupported => s
  | MProlog =>
      if is_ws c then s else if c =? 60 then with_md s MLt else st_err s
  | MEpilog =>
      if is_ws c then s else if c =? 60 then with_md s MLt else st_err s
  | MLt =>
      if (c =? 33) || (c =? 63) then st_unsup s
      else if c =? 47 then (match stack s with [] => st_err s | _ => with_md s (MEndName []) end)
      else if c =? 58 then st_unsup s
      else if is_name_start c then (if seen_root s && (match stack s with [] => true | _ => false end) then st_err s else with_md s (MName [c]))
      else st_err s
  | MName acc =>
      if c =? 58 then st_unsup s
      else if is_name_char c then with_md s (MName (c :: acc))
      else if is_ws c then with_md s (MAttrs (rev acc) [] false)
      else if c =? 47 then with_md s (MSlash (rev acc) [])
      else if c =? 62 then emit_start s (rev acc) [] false
      else st_err s
  | MAttrs tag attrs need_ws =>
      if is_ws c then with_md s (MAttrs tag attrs false)
      else if c =? 47 then with_md s (MSlash tag attrs)
      else if c =? 62 then emit_start s tag attrs false
      else if need_ws then st_err s
      else if c =? 58 then st_unsup s
      else if is_name_start c then with_md s (MAttrName tag attrs [c])
      else st_err s
  | MAttrName tag attrs acc =>
      if c =? 58 then st_unsup s
      else if is_name_char c then with_md s (MAttrName tag attrs (c :: acc))
      else if is_ws c then with_md s (MAttrEq tag attrs (rev acc))
      else if c =? 61 then with_md s (MAttrValStart tag attrs (rev acc))
      else st_err s
  | MAttrEq tag attrs an =>
      if is_ws c then s else if c =? 61 then with_md s (MAttrValStart tag attrs an) else st_err s
  | MAttrValStart tag attrs an =>
      if is_ws c then s
      else if (c =? 34) || (c =? 39) then
        (if is_xmlns an then st_unsup s else if assoc_mem an attrs then st_err s else with_md s (MAttrVal c tag attrs an [] false))
      else st_err s
  | MAttrVal q tag attrs an acc cr =>
      if c =? q then with_md s (MAttrs tag ((an, rev acc) :: attrs) true)
      else if c =? 60 then st_err s
      else if c =? 38 then with_md s (MRef (CAttr q tag attrs an) (MAttrVal q tag attrs an acc false) [])
      else if c =? 13 then with_md s (MAttrVal q tag attrs an (32 :: acc) true)
      else if c =? 10 then (if cr then with_md s (MAttrVal q tag attrs an acc false) else with_md s (MAttrVal q tag attrs an (32 :: acc) false))
      else if c =? 9 then with_md s (MAttrVal q tag attrs an (32 :: acc) false)
      else if is_xml_char c then with_md s (MAttrVal q tag attrs an (c :: acc) false)
      else st_err s
  | MRef cx back acc =>
      if c =? 59 then
        match resolve_ref (rev acc) with
        | Some v =>
            match back with
            | MAttrVal q tag attrs an a _ => with_md s (MAttrVal q tag attrs an (v :: a) false)
            | MContent a _ _ => with_md s (MContent (v :: a) 0 false)
            | _ => st_err s
            end
        | None => st_err s
        end
      else if is_name_char c || (c =? 35) then with_md s (MRef cx back (c :: acc))
      else st_err s
  | MSlash tag attrs => if c =? 62 then emit_start s tag attrs true else st_err s
  | MContent acc rb cr =>
      if c =? 60 then {| md := MLt; stack := stack s; toks := push_text s acc; seen_root := seen_root s |}
      else if c =? 38 then with_md s (MRef CText (MContent acc 0 false) [])
      else if c =? 62 then (if Nat.leb 2 rb then st_err s else with_md s (MContent (c :: acc) 0 false))
      else if c =? 93 then with_md s (MContent (c :: acc) (S rb) false)
      else if c =? 13 then with_md s (MContent (10 :: acc) 0 true)
      else if c =? 10 then (if cr then with_md s (MContent acc 0 false) else with_md s (MContent (c :: acc) 0 false))
      else if is_xml_char c then with_md s (MContent (c :: acc) 0 false)
      else st_err s
  | MEndName acc =>
      if c =? 58 then st_unsup s
      else if is_name_char c then
        (match acc with [] => if is_name_start c then with_md s (MEndName [c]) else st_err s | _ => with_md s (MEndName (c :: acc)) end)
      else if is_ws c then (match acc with [] => st_err s | _ => with_md s (MEndWs (rev acc)) end)
      else if c =? 62 then
        (match acc, stack s with
         | _ :: _, top :: rest =>
             if str_eqb (rev acc) top then
               {| md := match rest with [] => MEpilog | _ => MContent [] 0 false end; stack := rest; toks := TEnd top :: toks s; seen_root := true |}
             else st_err s
         | _, _ => st_err s end)
      else st_err s
  | MEndWs name =>
      if is_ws c then s
      else if c =? 62 then
        (match stack s with
         | top :: rest =>
             if str_eqb name top then
               {| md := match rest with [] => MEpilog | _ => MContent [] 0 false end; stack := rest; toks := TEnd top :: toks s; seen_root := true |}
             else st_err s
         | [] => st_err s end)
      else st_err s
  end.

Definition init : lstate := {| md := MProlog; stack := []; toks := []; seen_root := false |}.
Definition lex (l : str) : lstate := fold_left lex_step l init.

(* result code: 0 = complete doc, 1 = error, 2 = unsupported, 3 = incomplete *)
Definition status (s : lstate) : N :=
  match md s with
  | MEpilog => 0 | MError => 1 | MUnsupported => 2 | _ => 3 end.

(* tree *)
Inductive tree := Node (tag : str) (attrs : list (str*str)) (text : str) (kids : list tree).

(* build: stack of (tag, attrs, text-before-first-child (ET .text), has_child, kids reversed) *)
Definition frame := (str * list (str*str) * str * bool * list tree)%type.
Fixpoint build (ts : list token) (st : list frame) : option tree :=
  match ts with
  | [] => None
  | TStart tag attrs selfc :: ts' =>
      if selfc then
        match st with
        | [] => Some (Node tag attrs [] [])
        | (t,a,tx,_,k) :: st' => build ts' ((t,a,tx,true, Node tag attrs [] [] :: k) :: st')
        end
      else build ts' ((tag, attrs, [], false, []) :: st)
  | TText s :: ts' =>
      match st with
      | (t,a,tx,false,k) :: st' => build ts' ((t,a,tx ++ s,false,k) :: st')
      | _ => build ts' st     (* tail text ignored (ET .tail) *)
      end
  | TEnd _ :: ts' =>
      match st with
      | [(t,a,tx,_,k)] => Some (Node t a tx (rev k))
      | (t,a,tx,_,k) :: (t2,a2,tx2,_,k2) :: st' => build ts' ((t2,a2,tx2,true, Node t a tx (rev k) :: k2) :: st')
      | [] => None
      end
  end.

(* optional declaration at offset 0: <?xml version="1.0"?> in either quote style *)
Fixpoint strip_prefix (p l : str) : option str :=
  match p, l with
  | [], _ => Some l
  | a :: p', b :: l' => if a =? b then strip_prefix p' l' else None
  | _ :: _, [] => None
  end.
Definition decl_dq : str := [60;63;120;109;108;32;118;101;114;115;105;111;110;61;34;49;46;48;34;63;62].
Definition decl_sq : str := [60;63;120;109;108;32;118;101;114;115;105;111;110;61;39;49;46;48;39;63;62].
Definition strip_decl (l : str) : str :=
  match strip_prefix decl_dq l with
  | Some r => r
  | None => match strip_prefix decl_sq l with Some r => r | None => l end
  end.

Definition parse (l : str) : N * option tree :=
  let s := lex (strip_decl l) in (status s, if status s =? 0 then build (rev (toks s)) [] else None).

(* ---------- runner entry: input atom (document), output (status tree?) ---------- *)
Fixpoint enc_tree (t : tree) : sx :=
  match t with
  | Node tag attrs text kids =>
      SL [SA tag; SL (map (fun kv => SL [SA (fst kv); SA (snd kv)]) attrs); SA text;
          SL ((fix go (l : list tree) := match l with [] => [] | k :: l' => enc_tree k :: go l' end) kids)]
  end.
Definition run_xml (x : sx) : sx :=
  match x with
  | SA doc => let (st, t) := parse doc in
              SL [SN (Z.of_N st); match t with Some t => SL [enc_tree t] | None => SL [] end]
  | _ => bad_input
  end.
