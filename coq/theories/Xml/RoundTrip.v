(* The XML layer round trip: printing a tree (ElementTree.tostring as the library uses it)
   and parsing the text (the lexer and the tree builder) gives the tree back, for trees
   whose names and characters XML can carry. *)
From Coq Require Import List NArith ZArith Bool Arith Lia.
Import ListNotations.
From Indi Require Import Base.Sx Xml.Lex Xml.Print.
Local Open Scope N_scope.

Definition run (s : lstate) (l : str) : lstate := fold_left lex_step l s.

Lemma run_app s a b : run s (a ++ b) = run (run s a) b.
Proof. unfold run. apply fold_left_app. Qed.

Lemma run_cons s c l : run s (c :: l) = run (lex_step s c) l.
Proof. reflexivity. Qed.

(* ---------- decimal character references ---------- *)
Lemma dec_val_app a : forall b acc, dec_val (a ++ b) acc = match dec_val a acc with Some v => dec_val b v | None => None end.
Proof.
  induction a as [|c a IH]; intros b acc; cbn [app dec_val]; [reflexivity|]. destruct (is_digit c); [apply IH|reflexivity].
Qed.

Lemma is_digit_48 d : d < 10 -> is_digit (48 + d) = true.
Proof. intro H. unfold is_digit, inr. apply andb_true_iff. split; apply N.leb_le; lia. Qed.

Lemma dec_val_digit d r pre : d < 10 -> dec_val ((48 + d) :: r) pre = dec_val r (pre * 10 + d).
Proof. intro H. cbn [dec_val]. rewrite (is_digit_48 d H). f_equal. lia. Qed.

Lemma dec_go_spec fuel : forall n acc,
  n < 2 ^ N.of_nat fuel ->
  exists k, forall pre, dec_val (dec_go fuel n acc) pre = dec_val acc (pre * 10 ^ k + n).
Proof.
  induction fuel as [|f IH]; intros n acc Hn.
  - cbn in Hn. assert (n = 0) by lia. subst. exists 0. intro pre. cbn [dec_go]. change (10 ^ 0) with 1. f_equal. lia.
  - cbn [dec_go]. destruct (N.ltb_spec n 10) as [Hlt|Hge].
    + exists 1. intro pre. assert (n mod 10 = n) as -> by (apply N.mod_small; exact Hlt).
      rewrite (dec_val_digit n acc pre Hlt). change (10 ^ 1) with 10. reflexivity.
    + assert (Hd : n / 10 < 2 ^ N.of_nat f).
      { rewrite Nnat.Nat2N.inj_succ, N.pow_succ_r' in Hn.
        apply N.div_lt_upper_bound; [lia|]. lia. }
      destruct (IH (n / 10) ((48 + n mod 10) :: acc) Hd) as [k Hk]. exists (k + 1). intro pre. rewrite Hk.
      assert (Hm : n mod 10 < 10) by (apply N.mod_lt; lia).
      rewrite (dec_val_digit (n mod 10) acc _ Hm). f_equal.
      rewrite N.pow_add_r. cbn [N.pow]. pose proof (N.div_mod n 10 ltac:(lia)). nia.
Qed.

Lemma size_nat_bound n : n < 2 ^ N.of_nat (S (N.size_nat n)).
Proof.
  destruct n as [|p]; [cbn; lia|]. cbn [N.size_nat].
  assert (G : forall q, N.pos q < 2 ^ N.of_nat (Pos.size_nat q)).
  { induction q as [q IH|q IH|]; cbn [Pos.size_nat]; rewrite ?Nnat.Nat2N.inj_succ, ?N.pow_succ_r'; try lia. }
  specialize (G p). rewrite Nnat.Nat2N.inj_succ, N.pow_succ_r'. lia.
Qed.

Lemma print_dec_val n : dec_val (print_dec n) 0 = Some n.
Proof.
  unfold print_dec. destruct (dec_go_spec (S (N.size_nat n)) n [] (size_nat_bound n)) as [k Hk].
  rewrite Hk. cbn [dec_val]. f_equal.
Qed.

Lemma print_dec_nonempty n : exists c r, print_dec n = c :: r /\ is_digit c = true.
Proof.
  unfold print_dec. cbn [dec_go].
  assert (G : forall fuel m acc, (exists c r, acc = c :: r /\ is_digit c = true) -> exists c r, dec_go fuel m acc = c :: r /\ is_digit c = true).
  { induction fuel as [|f IH]; intros m acc H; cbn [dec_go]; [exact H|].
    destruct (m <? 10); [|apply IH]; eexists; eexists; split; try reflexivity; apply is_digit_48; apply N.mod_lt; lia. }
  destruct (n <? 10).
  - eexists; eexists; split; [reflexivity|]. apply is_digit_48. apply N.mod_lt. lia.
  - apply G. eexists; eexists; split; [reflexivity|]. apply is_digit_48. apply N.mod_lt. lia.
Qed.

Lemma print_dec_digits n : Forall (fun c => is_digit c = true) (print_dec n).
Proof.
  unfold print_dec.
  assert (G : forall fuel m acc, Forall (fun c => is_digit c = true) acc -> Forall (fun c => is_digit c = true) (dec_go fuel m acc)).
  { induction fuel as [|f IH]; intros m acc H; cbn [dec_go]; [exact H|].
    assert (D : is_digit (48 + m mod 10) = true) by (apply is_digit_48; apply N.mod_lt; lia).
    destruct (m <? 10); [constructor; assumption|apply IH; constructor; assumption]. }
  apply G. constructor.
Qed.

(* ---------- states ---------- *)
Definition st (m : mode) (stk : list str) (tk : list token) (sr : bool) : lstate :=
  {| md := m; stack := stk; toks := tk; seen_root := sr |}.

Definition ref_char (c : N) : bool := is_name_char c || (c =? 35).

(* inside a reference: characters accumulate until ';' *)
Lemma run_ref cx back l : forall acc stk tk sr,
  Forall (fun c => ref_char c = true /\ c <> 59) l ->
  run (st (MRef cx back acc) stk tk sr) l = st (MRef cx back (rev l ++ acc)) stk tk sr.
Proof.
  induction l as [|c l IH]; intros acc stk tk sr H; [reflexivity|]. inversion H as [|? ? [Hc Hn] Hr]; subst.
  rewrite run_cons. unfold lex_step at 1. cbn [md st].
  assert ((c =? 59) = false) as -> by (apply N.eqb_neq; exact Hn). unfold ref_char in Hc. rewrite Hc.
  unfold with_md. cbn [stack toks seen_root st]. fold (st (MRef cx back (c :: acc)) stk tk sr).
  rewrite IH by exact Hr. cbn [rev]. rewrite <- app_assoc. reflexivity.
Qed.

Lemma digit_cases d : is_digit d = true ->
  d = 48 \/ d = 49 \/ d = 50 \/ d = 51 \/ d = 52 \/ d = 53 \/ d = 54 \/ d = 55 \/ d = 56 \/ d = 57.
Proof. unfold is_digit, inr. intro H. apply andb_prop in H as [H1 H2]. apply N.leb_le in H1. apply N.leb_le in H2. lia. Qed.

Lemma resolve_dec ds : ds <> [] -> Forall (fun c => is_digit c = true) ds ->
  resolve_ref (35 :: ds) = match dec_val ds 0 with Some v => if is_xml_char v then Some v else None | None => None end.
Proof.
  intros Hne H. destruct ds as [|d0 r]; [contradiction|]. inversion H as [|? ? Hd _]; subst.
  destruct (digit_cases d0 Hd) as [->|[->|[->|[->|[->|[->|[->|[->|[->| ->]]]]]]]]]; reflexivity.
Qed.

Lemma is_digit_name d : is_digit d = true -> ref_char d = true /\ d <> 59.
Proof.
  intro H. destruct (digit_cases d H) as [->|[->|[->|[->|[->|[->|[->|[->|[->| ->]]]]]]]]]; split; try reflexivity; discriminate.
Qed.

(* a decimal character reference, in text or in an attribute value *)
Lemma run_charref cx back c stk tk sr :
  is_xml_char c = true ->
  run (st (MRef cx back []) stk tk sr) (35 :: print_dec c ++ [59]) =
  lex_step (st (MRef cx back (rev (35 :: print_dec c))) stk tk sr) 59.
Proof.
  intro Hx. change (35 :: print_dec c ++ [59]) with ((35 :: print_dec c) ++ [59]). rewrite run_app.
  rewrite run_ref.
  - rewrite app_nil_r. reflexivity.
  - constructor; [split; [reflexivity|discriminate]|]. eapply Forall_impl; [|exact (print_dec_digits c)]. intros d Hd. exact (is_digit_name d Hd).
Qed.

Lemma resolve_charref c : is_xml_char c = true -> resolve_ref (35 :: print_dec c) = Some c.
Proof.
  intro Hx. rewrite resolve_dec.
  - rewrite print_dec_val, Hx. reflexivity.
  - destruct (print_dec_nonempty c) as (d & r & -> & _). discriminate.
  - apply print_dec_digits.
Qed.

(* ---------- element text ---------- *)
Definition text_ok (c : N) : Prop := is_xml_char c = true /\ c <> 13.

Lemma content_char acc rb stk tk sr c :
  text_ok c ->
  exists rb', run (st (MContent acc rb false) stk tk sr) (esc_text_char c) = st (MContent (c :: acc) rb' false) stk tk sr.
Proof.
  intros [Hx H13]. unfold esc_text_char.
  destruct (c =? 38) eqn:E38; [apply N.eqb_eq in E38; subst; exists 0%nat; reflexivity|].
  destruct (c =? 60) eqn:E60; [apply N.eqb_eq in E60; subst; exists 0%nat; reflexivity|].
  destruct (c =? 62) eqn:E62; [apply N.eqb_eq in E62; subst; exists 0%nat; reflexivity|].
  destruct (128 <=? c) eqn:E128.
  - exists 0%nat. unfold charref. cbn [app]. rewrite run_cons. unfold lex_step at 1. cbn [md st].
    assert ((38 =? 60) = false) as -> by reflexivity. assert ((38 =? 38) = true) as -> by reflexivity.
    unfold with_md. cbn [stack toks seen_root st]. fold (st (MRef CText (MContent acc 0 false) []) stk tk sr).
    rewrite (run_charref CText (MContent acc 0 false) c stk tk sr Hx). unfold lex_step. cbn [md st].
    assert ((59 =? 59) = true) as -> by reflexivity. rewrite rev_involutive, (resolve_charref c Hx). reflexivity.
  - unfold run. cbn [fold_left]. unfold lex_step. cbn [md st]. rewrite E60, E38, E62.
    assert ((c =? 13) = false) as -> by (apply N.eqb_neq; exact H13).
    destruct (c =? 93); [eexists; reflexivity|].
    destruct (c =? 10); [eexists; reflexivity|]. rewrite Hx. eexists. reflexivity.
Qed.

Lemma content_text l : forall acc rb stk tk sr,
  Forall text_ok l ->
  exists rb', run (st (MContent acc rb false) stk tk sr) (esc_text l) = st (MContent (rev l ++ acc) rb' false) stk tk sr.
Proof.
  induction l as [|c l IH]; intros acc rb stk tk sr H; [exists rb; reflexivity|]. inversion H as [|? ? Hc Hr]; subst.
  unfold esc_text. cbn [flat_map]. fold (esc_text l). rewrite run_app.
  destruct (content_char acc rb stk tk sr c Hc) as [rb1 ->]. destruct (IH (c :: acc) rb1 stk tk sr Hr) as [rb2 ->].
  exists rb2. cbn [rev]. rewrite <- app_assoc. reflexivity.
Qed.

(* ---------- attribute values ---------- *)
Lemma attr_char tag attrs an acc stk tk sr c :
  is_xml_char c = true ->
  run (st (MAttrVal 34 tag attrs an acc false) stk tk sr) (esc_attr_char c) = st (MAttrVal 34 tag attrs an (c :: acc) false) stk tk sr.
Proof.
  intro Hx. unfold esc_attr_char.
  destruct (c =? 38) eqn:E38; [apply N.eqb_eq in E38; subst; reflexivity|].
  destruct (c =? 60) eqn:E60; [apply N.eqb_eq in E60; subst; reflexivity|].
  destruct (c =? 62) eqn:E62; [apply N.eqb_eq in E62; subst; reflexivity|].
  destruct (c =? 34) eqn:E34; [apply N.eqb_eq in E34; subst; reflexivity|].
  destruct (c =? 10) eqn:E10; [apply N.eqb_eq in E10; subst; reflexivity|].
  destruct (c =? 13) eqn:E13; [apply N.eqb_eq in E13; subst; reflexivity|].
  destruct (c =? 9) eqn:E9; [apply N.eqb_eq in E9; subst; reflexivity|].
  destruct (128 <=? c) eqn:E128.
  - unfold charref. cbn [app]. rewrite run_cons. unfold lex_step at 1. cbn [md st].
    assert ((38 =? 34) = false) as -> by reflexivity. assert ((38 =? 60) = false) as -> by reflexivity. assert ((38 =? 38) = true) as -> by reflexivity.
    unfold with_md. cbn [stack toks seen_root st].
    fold (st (MRef (CAttr 34 tag attrs an) (MAttrVal 34 tag attrs an acc false) []) stk tk sr).
    rewrite (run_charref _ _ c stk tk sr Hx). unfold lex_step. cbn [md st].
    assert ((59 =? 59) = true) as -> by reflexivity. rewrite rev_involutive, (resolve_charref c Hx). reflexivity.
  - unfold run. cbn [fold_left]. unfold lex_step. cbn [md st]. rewrite E34, E60, E38, E13, E10, E9, Hx. reflexivity.
Qed.

Lemma attr_value l : forall tag attrs an acc stk tk sr,
  Forall (fun c => is_xml_char c = true) l ->
  run (st (MAttrVal 34 tag attrs an acc false) stk tk sr) (esc_attr l) = st (MAttrVal 34 tag attrs an (rev l ++ acc) false) stk tk sr.
Proof.
  induction l as [|c l IH]; intros tag attrs an acc stk tk sr H; [reflexivity|]. inversion H as [|? ? Hc Hr]; subst.
  unfold esc_attr. cbn [flat_map]. fold (esc_attr l). rewrite run_app, (attr_char tag attrs an acc stk tk sr c Hc), (IH _ _ _ _ _ _ _ Hr).
  cbn [rev]. rewrite <- app_assoc. reflexivity.
Qed.

(* ---------- names ---------- *)
Definition name_ok (n : str) : Prop :=
  match n with
  | [] => False
  | c :: r => is_name_start c = true /\ Forall (fun x => is_name_char x = true) r
  end.

Lemma name_start_facts c : is_name_start c = true ->
  (c =? 33) = false /\ (c =? 63) = false /\ (c =? 47) = false /\ (c =? 58) = false /\ is_name_char c = true /\ is_ws c = false /\
  (c =? 62) = false /\ (c =? 61) = false.
Proof.
  intro H. unfold is_name_char. rewrite H. cbn [orb].
  unfold is_name_start, inr in H.
  repeat match goal with |- _ /\ _ => split end; try reflexivity;
    try (apply N.eqb_neq; intro E; subst; vm_compute in H; discriminate).
  unfold is_ws. repeat match goal with |- context [?a =? ?b] => destruct (N.eqb_spec a b) as [->|_]; [vm_compute in H; discriminate|] end. reflexivity.
Qed.

Lemma name_char_facts c : is_name_char c = true ->
  (c =? 58) = false /\ is_ws c = false /\ (c =? 47) = false /\ (c =? 62) = false /\ (c =? 61) = false.
Proof.
  intro H. unfold is_name_char, is_name_start, is_digit, inr in H.
  repeat match goal with |- _ /\ _ => split end;
    try (apply N.eqb_neq; intro E; subst; vm_compute in H; discriminate).
  unfold is_ws. repeat match goal with |- context [?a =? ?b] => destruct (N.eqb_spec a b) as [->|_]; [vm_compute in H; discriminate|] end. reflexivity.
Qed.

Lemma run_name r : forall acc stk tk sr,
  Forall (fun x => is_name_char x = true) r ->
  run (st (MName acc) stk tk sr) r = st (MName (rev r ++ acc)) stk tk sr.
Proof.
  induction r as [|c r IH]; intros acc stk tk sr H; [reflexivity|]. inversion H as [|? ? Hc Hr]; subst.
  rewrite run_cons. unfold lex_step at 1. cbn [md st]. destruct (name_char_facts c Hc) as (E58 & _). rewrite E58, Hc.
  unfold with_md. cbn [stack toks seen_root st]. fold (st (MName (c :: acc)) stk tk sr). rewrite IH by exact Hr.
  cbn [rev]. rewrite <- app_assoc. reflexivity.
Qed.

Lemma run_attr_name r : forall tag attrs acc stk tk sr,
  Forall (fun x => is_name_char x = true) r ->
  run (st (MAttrName tag attrs acc) stk tk sr) r = st (MAttrName tag attrs (rev r ++ acc)) stk tk sr.
Proof.
  induction r as [|c r IH]; intros tag attrs acc stk tk sr H; [reflexivity|]. inversion H as [|? ? Hc Hr]; subst.
  rewrite run_cons. unfold lex_step at 1. cbn [md st]. destruct (name_char_facts c Hc) as (E58 & _). rewrite E58, Hc.
  unfold with_md. cbn [stack toks seen_root st]. fold (st (MAttrName tag attrs (c :: acc)) stk tk sr). rewrite IH by exact Hr.
  cbn [rev]. rewrite <- app_assoc. reflexivity.
Qed.

(* ---------- one attribute, a list of attributes ---------- *)
Definition attr_ok (seen : list (str * str)) (kv : str * str) : Prop :=
  name_ok (fst kv) /\ is_xmlns (fst kv) = false /\ assoc_mem (fst kv) seen = false /\
  Forall (fun c => is_xml_char c = true) (snd kv).

Lemma run_attr tag seen nw stk tk sr kv :
  attr_ok seen kv ->
  run (st (MAttrs tag seen nw) stk tk sr) (print_attr kv) = st (MAttrs tag (kv :: seen) true) stk tk sr.
Proof.
  destruct kv as [k v]. intros (Hn & Hx & Hm & Hv). cbn [fst snd] in *. unfold print_attr. cbn [fst snd].
  destruct k as [|c r]; [contradiction|]. destruct Hn as [Hc Hr].
  destruct (name_start_facts c Hc) as (_ & _ & E47 & E58 & Hnc & Hws & E62 & E61).
  cbn [app]. rewrite run_cons. unfold lex_step at 1. cbn [md st]. assert (is_ws 32 = true) as -> by reflexivity.
  unfold with_md. cbn [stack toks seen_root st]. fold (st (MAttrs tag seen false) stk tk sr).
  rewrite run_cons. unfold lex_step at 1. cbn [md st]. rewrite Hws, E47, E62, E58, Hc.
  unfold with_md. cbn [stack toks seen_root st]. fold (st (MAttrName tag seen [c]) stk tk sr).
  rewrite run_app, (run_attr_name r tag seen [c] stk tk sr Hr).
  cbn [app]. rewrite run_cons. unfold lex_step at 1. cbn [md st].
  assert ((61 =? 58) = false) as -> by reflexivity. assert (is_name_char 61 = false) as -> by reflexivity.
  assert (is_ws 61 = false) as -> by reflexivity. assert ((61 =? 61) = true) as -> by reflexivity.
  unfold with_md. cbn [stack toks seen_root st].
  assert (Hk : rev (rev r ++ [c]) = c :: r) by (rewrite rev_app_distr, rev_involutive; reflexivity). rewrite Hk.
  fold (st (MAttrValStart tag seen (c :: r)) stk tk sr).
  rewrite run_cons. unfold lex_step at 1. cbn [md st]. assert (is_ws 34 = false) as -> by reflexivity.
  assert (((34 =? 34) || (34 =? 39)) = true) as -> by reflexivity. rewrite Hx, Hm.
  unfold with_md. cbn [stack toks seen_root st]. fold (st (MAttrVal 34 tag seen (c :: r) [] false) stk tk sr).
  rewrite run_app, (attr_value v tag seen (c :: r) [] stk tk sr Hv). rewrite app_nil_r.
  unfold run. cbn [fold_left]. unfold lex_step. cbn [md st]. assert ((34 =? 34) = true) as -> by reflexivity.
  rewrite rev_involutive. reflexivity.
Qed.

Fixpoint attrs_ok (seen : list (str * str)) (l : list (str * str)) : Prop :=
  match l with
  | [] => True
  | kv :: r => attr_ok seen kv /\ attrs_ok (kv :: seen) r
  end.

Lemma run_attrs l : forall tag seen nw stk tk sr,
  attrs_ok seen l ->
  run (st (MAttrs tag seen nw) stk tk sr) (flat_map print_attr l) =
  st (MAttrs tag (rev l ++ seen) (match l with [] => nw | _ => true end)) stk tk sr.
Proof.
  induction l as [|kv l IH]; intros tag seen nw stk tk sr H; [reflexivity|]. destruct H as [Ha Hr].
  cbn [flat_map]. rewrite run_app, (run_attr tag seen nw stk tk sr kv Ha), (IH tag (kv :: seen) true stk tk sr Hr).
  cbn [rev]. rewrite <- app_assoc. cbn [app]. destruct l; reflexivity.
Qed.

(* ---------- a start tag ---------- *)
Definition after_close (stk : list str) : mode := match stk with [] => MEpilog | _ => MContent [] 0 false end.

(* from just after '<': the name, the attributes, and the end of the tag *)
Lemma run_start_tag (tag : str) (attrs : list (str * str)) (selfc : bool) (stk : list str) tk sr :
  name_ok tag -> attrs_ok [] attrs -> (sr && match stk with [] => true | _ => false end) = false ->
  run (st MLt stk tk sr) (tag ++ flat_map print_attr attrs ++ (if selfc then [32; 47; 62] else [62])) =
  emit_start (st MLt stk tk sr) tag (rev attrs) selfc.
Proof.
  intros Hn Ha Hroot. destruct tag as [|c r]; [contradiction|]. destruct Hn as [Hc Hr].
  destruct (name_start_facts c Hc) as (E33 & E63 & E47 & E58 & Hnc & Hws & E62 & E61).
  cbn [app]. rewrite run_cons. unfold lex_step at 1. cbn [md st stack seen_root]. rewrite E33, E63, E47, E58, Hc. cbn [orb]. rewrite Hroot.
  unfold with_md. cbn [stack toks seen_root st]. fold (st (MName [c]) stk tk sr).
  rewrite run_app, (run_name r [c] stk tk sr Hr).
  assert (Hk : rev (rev r ++ [c]) = c :: r) by (rewrite rev_app_distr, rev_involutive; reflexivity).
  destruct attrs as [|kv attrs].
  - cbn [flat_map app rev]. destruct selfc.
    + unfold run. cbn [fold_left]. unfold lex_step. cbn [md st with_md stack toks seen_root].
      assert ((32 =? 58) = false) as -> by reflexivity. assert (is_name_char 32 = false) as -> by reflexivity. assert (is_ws 32 = true) as -> by reflexivity.
      cbn [md]. assert (is_ws 47 = false) as -> by reflexivity. assert ((47 =? 47) = true) as -> by reflexivity.
      cbn [md]. assert ((62 =? 62) = true) as -> by reflexivity. rewrite Hk. reflexivity.
    + unfold run. cbn [fold_left]. unfold lex_step. cbn [md st].
      assert ((62 =? 58) = false) as -> by reflexivity. assert (is_name_char 62 = false) as -> by reflexivity. assert (is_ws 62 = false) as -> by reflexivity.
      assert ((62 =? 47) = false) as -> by reflexivity. assert ((62 =? 62) = true) as -> by reflexivity. rewrite Hk. reflexivity.
  - (* the first attribute's leading space takes the lexer from the name to the attribute list *)
    destruct Ha as [Ha0 Har]. cbn [flat_map]. rewrite <- app_assoc, run_app.
    assert (F : run (st (MName (rev r ++ [c])) stk tk sr) (print_attr kv) = st (MAttrs (c :: r) [kv] true) stk tk sr).
    { pose proof (run_attr (c :: r) [] false stk tk sr kv Ha0) as RA.
      unfold print_attr in *. cbn [app] in *. rewrite run_cons in RA. rewrite run_cons.
      assert (lex_step (st (MName (rev r ++ [c])) stk tk sr) 32 = lex_step (st (MAttrs (c :: r) [] false) stk tk sr) 32) as ->; [|exact RA].
      unfold lex_step. cbn [md st]. assert ((32 =? 58) = false) as -> by reflexivity. assert (is_name_char 32 = false) as -> by reflexivity.
      assert (is_ws 32 = true) as -> by reflexivity. rewrite Hk. reflexivity. }
    rewrite F. rewrite run_app, (run_attrs attrs (c :: r) [kv] true stk tk sr Har).
    assert (Hm : match attrs with [] => true | _ => true end = true) by (destruct attrs; reflexivity). rewrite Hm.
    cbn [rev].
    destruct selfc.
    + unfold run. cbn [fold_left]. unfold lex_step. cbn [md st with_md stack toks seen_root].
      assert (is_ws 32 = true) as -> by reflexivity. cbn [md]. assert (is_ws 47 = false) as -> by reflexivity. assert ((47 =? 47) = true) as -> by reflexivity.
      cbn [md]. assert ((62 =? 62) = true) as -> by reflexivity. reflexivity.
    + unfold run. cbn [fold_left]. unfold lex_step. cbn [md st]. assert (is_ws 62 = false) as -> by reflexivity.
      assert ((62 =? 47) = false) as -> by reflexivity. assert ((62 =? 62) = true) as -> by reflexivity. reflexivity.
Qed.

(* ---------- trees ---------- *)
Fixpoint tokens (t : tree) : list token :=
  match t with
  | Node tag attrs text kids =>
      match text, kids with
      | [], [] => [TStart tag attrs true]
      | _, _ => TStart tag attrs false :: (match text with [] => [] | _ => [TText text] end) ++
                (fix go (l : list tree) : list token := match l with [] => [] | k :: l' => tokens k ++ go l' end) kids ++
                [TEnd tag]
      end
  end.

Definition kids_tokens (l : list tree) : list token :=
  (fix go (l : list tree) : list token := match l with [] => [] | k :: l' => tokens k ++ go l' end) l.
Definition kids_text (l : list tree) : str :=
  (fix go (l : list tree) : str := match l with [] => [] | k :: l' => print_tree k ++ go l' end) l.

Fixpoint tree_ok (t : tree) : Prop :=
  match t with
  | Node tag attrs text kids =>
      name_ok tag /\ attrs_ok [] attrs /\ Forall text_ok text /\
      (fix go (l : list tree) : Prop := match l with [] => True | k :: l' => tree_ok k /\ go l' end) kids
  end.
Definition kids_ok (l : list tree) : Prop :=
  (fix go (l : list tree) : Prop := match l with [] => True | k :: l' => tree_ok k /\ go l' end) l.

Lemma tree_ind' (P : tree -> Prop) :
  (forall tag attrs text kids, Forall P kids -> P (Node tag attrs text kids)) -> forall t, P t.
Proof.
  intro H. fix IH 1. intros [tag attrs text kids]. apply H.
  induction kids as [|k kids IHk]; constructor; [apply IH|exact IHk].
Qed.

(* the end tag *)
Definition flush (acc : str) (tk : list token) : list token := match acc with [] => tk | _ => TText (rev acc) :: tk end.

Lemma lt_in_content acc rb stk tk sr :
  lex_step (st (MContent acc rb false) stk tk sr) 60 = st MLt stk (flush acc tk) sr.
Proof. unfold lex_step. cbn [md st]. assert ((60 =? 60) = true) as -> by reflexivity. unfold push_text, flush. cbn [toks st stack seen_root]. destruct acc; reflexivity. Qed.

Lemma run_end_name c r stk tk sr :
  is_name_start c = true -> Forall (fun x => is_name_char x = true) r ->
  run (st MLt ((c :: r) :: stk) tk sr) (47 :: (c :: r) ++ [62]) = st (after_close stk) stk (TEnd (c :: r) :: tk) true.
Proof.
  intros Hc Hr. destruct (name_start_facts c Hc) as (_ & _ & _ & E58 & Hnc & Hws & E62 & _).
  rewrite run_cons. unfold lex_step at 1. cbn [md st stack]. assert (((47 =? 33) || (47 =? 63)) = false) as -> by reflexivity.
  assert ((47 =? 47) = true) as -> by reflexivity. unfold with_md. cbn [stack toks seen_root st]. fold (st (MEndName []) ((c :: r) :: stk) tk sr).
  cbn [app]. rewrite run_cons. unfold lex_step at 1. cbn [md st]. rewrite E58, Hnc, Hc. unfold with_md. cbn [stack toks seen_root st].
  fold (st (MEndName [c]) ((c :: r) :: stk) tk sr).
  assert (G : forall l acc0, Forall (fun x => is_name_char x = true) l -> acc0 <> [] ->
              run (st (MEndName acc0) ((c :: r) :: stk) tk sr) l = st (MEndName (rev l ++ acc0)) ((c :: r) :: stk) tk sr).
  { induction l as [|x l IH]; intros acc0 Hl Hne; [reflexivity|]. inversion Hl as [|? ? Hx Hl']; subst.
    rewrite run_cons. unfold lex_step at 1. cbn [md st]. destruct (name_char_facts x Hx) as (Ex58 & _). rewrite Ex58, Hx.
    destruct acc0 as [|a0 r0]; [contradiction|]. unfold with_md. cbn [stack toks seen_root st].
    fold (st (MEndName (x :: a0 :: r0)) ((c :: r) :: stk) tk sr). rewrite IH; [|exact Hl'|discriminate].
    cbn [rev]. rewrite <- app_assoc. reflexivity. }
  rewrite run_app, (G r [c] Hr ltac:(discriminate)).
  unfold run. cbn [fold_left]. unfold lex_step. cbn [md st stack].
  assert ((62 =? 58) = false) as -> by reflexivity. assert (is_name_char 62 = false) as -> by reflexivity.
  assert (is_ws 62 = false) as -> by reflexivity. assert ((62 =? 62) = true) as -> by reflexivity.
  assert (Hk : rev (rev r ++ [c]) = c :: r) by (rewrite rev_app_distr, rev_involutive; reflexivity).
  destruct (rev r ++ [c]) as [|z zs] eqn:Ez; [destruct (rev r); discriminate|]. rewrite Hk, str_eqb_refl.
  unfold after_close. destruct stk; reflexivity.
Qed.

Lemma run_end_tag tag stk tk sr acc rb :
  name_ok tag ->
  run (st (MContent acc rb false) (tag :: stk) tk sr) ([60; 47] ++ tag ++ [62]) =
  st (after_close stk) stk (TEnd tag :: flush acc tk) true.
Proof.
  intro Hn. destruct tag as [|c r]; [contradiction|]. destruct Hn as [Hc Hr].
  cbn [app]. rewrite run_cons, lt_in_content. exact (run_end_name c r stk (flush acc tk) sr Hc Hr).
Qed.

(* ---------- a whole element ---------- *)
Definition nonroot_ok (sr : bool) (stk : list str) : Prop := (sr && match stk with [] => true | _ => false end) = false.

Definition tree_runs (t : tree) : Prop :=
  forall stk tk sr, nonroot_ok sr stk ->
  run (st MLt stk tk sr) (tl (print_tree t)) = st (after_close stk) stk (rev (tokens t) ++ tk) true.

Lemma print_tree_head t : exists r, print_tree t = 60 :: r.
Proof. destruct t as [tag attrs text kids]. cbn [print_tree app]. eexists. reflexivity. Qed.

Lemma run_kids kids : Forall tree_runs kids ->
  forall top stk acc rb tk sr,
  run (st (MContent acc rb false) (top :: stk) tk sr) (kids_text kids) =
  match kids with
  | [] => st (MContent acc rb false) (top :: stk) tk sr
  | _ => st (MContent [] 0 false) (top :: stk) (rev (kids_tokens kids) ++ flush acc tk) true
  end.
Proof.
  induction 1 as [|k kids Hk _ IH]; intros top stk acc rb tk sr; [reflexivity|].
  change (kids_text (k :: kids)) with (print_tree k ++ kids_text kids).
  change (kids_tokens (k :: kids)) with (tokens k ++ kids_tokens kids).
  rewrite run_app. destruct (print_tree_head k) as [r Hr]. pose proof (Hk (top :: stk) (flush acc tk) sr) as Hk'.
  rewrite Hr in *. cbn [tl] in Hk'. rewrite run_cons, lt_in_content, Hk'; [|unfold nonroot_ok; apply andb_false_r].
  cbn [after_close]. rewrite (IH top stk [] 0%nat (rev (tokens k) ++ flush acc tk) true).
  destruct kids as [|k2 kids2]; [cbn [kids_tokens]; rewrite app_nil_r; reflexivity|].
  cbn [flush]. rewrite rev_app_distr, <- app_assoc. reflexivity.
Qed.

Lemma app_cons_mid (a b : str) c x : a ++ b ++ c :: x = (a ++ b ++ [c]) ++ x.
Proof. rewrite <- !app_assoc. reflexivity. Qed.

Lemma tree_ok_runs t : tree_ok t -> tree_runs t.
Proof.
  induction t as [tag attrs text kids IH] using tree_ind'. intros Hok stk tk sr Hnr.
  cbn [tree_ok] in Hok. destruct Hok as (Hn & Ha & Ht & Hk). change (kids_ok kids) in Hk.
  assert (Hkr : Forall tree_runs kids).
  { clear -IH Hk. induction kids as [|k kids IHk]; [constructor|]. inversion IH; subst. destruct Hk as [Hk1 Hk2]. constructor; auto. }
  cbn [print_tree tokens]. change ((fix go (l : list tree) : str := match l with [] => [] | k :: l' => print_tree k ++ go l' end) kids) with (kids_text kids).
  change ((fix go (l : list tree) : list token := match l with [] => [] | k :: l' => tokens k ++ go l' end) kids) with (kids_tokens kids).
  cbn [app tl].
  destruct text as [|c0 text0]; [destruct kids as [|k0 kids0]|].
  - (* empty element *)
    rewrite (run_start_tag tag attrs true stk tk sr Hn Ha Hnr). unfold emit_start. cbn [stack toks st]. rewrite rev_involutive.
    cbn [rev app]. unfold after_close. destruct stk; reflexivity.
  - (* children only *)
    cbn [esc_text flat_map app]. rewrite app_cons_mid. change (60 :: 47 :: tag ++ [62]) with ([60; 47] ++ tag ++ [62]).
    pose proof (run_start_tag tag attrs false stk tk sr Hn Ha Hnr) as RS. cbv iota in RS. rewrite run_app, RS. clear RS. unfold emit_start. cbn [stack toks st]. rewrite rev_involutive.
    fold (st (MContent [] 0 false) (tag :: stk) (TStart tag attrs false :: tk) true).
    rewrite run_app, (run_kids (k0 :: kids0) Hkr tag stk [] 0%nat _ true). cbn [flush].
    rewrite (run_end_tag tag stk _ true [] 0%nat Hn). cbn [flush]. f_equal.
    cbn [app rev]. rewrite !rev_app_distr. cbn [rev app]. rewrite <- !app_assoc. reflexivity.
  - (* text, perhaps children *)
    rewrite app_cons_mid. change (60 :: 47 :: tag ++ [62]) with ([60; 47] ++ tag ++ [62]).
    pose proof (run_start_tag tag attrs false stk tk sr Hn Ha Hnr) as RS. cbv iota in RS. rewrite run_app, RS. clear RS. unfold emit_start. cbn [stack toks st]. rewrite rev_involutive.
    fold (st (MContent [] 0 false) (tag :: stk) (TStart tag attrs false :: tk) true).
    rewrite run_app. destruct (content_text (c0 :: text0) [] 0%nat (tag :: stk) (TStart tag attrs false :: tk) true Ht) as [rb' ->].
    rewrite app_nil_r. rewrite run_app, (run_kids kids Hkr tag stk (rev (c0 :: text0)) rb' _ true).
    assert (Hne : rev (c0 :: text0) <> []) by (cbn [rev]; destruct (rev text0); discriminate).
    destruct kids as [|k0 kids0].
    + rewrite (run_end_tag tag stk _ true (rev (c0 :: text0)) rb' Hn). f_equal.
      unfold flush. destruct (rev (c0 :: text0)) as [|z zs] eqn:Ez; [contradiction|]. rewrite <- Ez, rev_involutive.
      cbn [kids_tokens app rev]. reflexivity.
    + rewrite (run_end_tag tag stk _ true [] 0%nat Hn). cbn [flush]. f_equal.
      unfold flush. destruct (rev (c0 :: text0)) as [|z zs] eqn:Ez; [contradiction|]. rewrite <- Ez, rev_involutive.
      cbn [app rev]. rewrite !rev_app_distr. cbn [rev app]. rewrite <- !app_assoc. reflexivity.
Qed.

(* ---------- the builder ---------- *)
Definition add_child (f : frame) (t : tree) : frame := let '(tg, a, tx, _, k) := f in (tg, a, tx, true, t :: k).

Definition tree_builds (t : tree) : Prop :=
  forall rest f stk, build (tokens t ++ rest) (f :: stk) = build rest (add_child f t :: stk).

Lemma build_kids kids : Forall tree_builds kids ->
  forall rest tg a tx hc k stk,
  build (kids_tokens kids ++ rest) ((tg, a, tx, hc, k) :: stk) =
  build rest ((tg, a, tx, (match kids with [] => hc | _ => true end), rev kids ++ k) :: stk).
Proof.
  induction 1 as [|c kids Hc _ IH]; intros rest tg a tx hc k stk; [reflexivity|].
  change (kids_tokens (c :: kids)) with (tokens c ++ kids_tokens kids). rewrite <- app_assoc, (Hc _ (tg, a, tx, hc, k) stk).
  cbn [add_child]. rewrite IH. cbn [rev]. rewrite <- app_assoc. destruct kids; reflexivity.
Qed.

Lemma tree_ok_builds t : tree_builds t.
Proof.
  induction t as [tag attrs text kids IH] using tree_ind'. intros rest f stk. destruct f as [[[[tg a] tx] hc] k].
  cbn [tokens]. change ((fix go (l : list tree) : list token := match l with [] => [] | k :: l' => tokens k ++ go l' end) kids) with (kids_tokens kids).
  destruct text as [|c0 text0]; [destruct kids as [|k0 kids0]|].
  - reflexivity.
  - cbn [app build]. rewrite <- app_assoc, (build_kids (k0 :: kids0) IH). cbn [app build rev]. rewrite app_nil_r, rev_app_distr, rev_involutive. reflexivity.
  - cbn [app build]. rewrite <- app_assoc, (build_kids kids IH). cbn [app build]. rewrite app_nil_r, rev_involutive. destruct kids; reflexivity.
Qed.

Lemma build_root_tree t : build (tokens t) [] = Some t.
Proof.
  destruct t as [tag attrs text kids]. cbn [tokens].
  change ((fix go (l : list tree) : list token := match l with [] => [] | k :: l' => tokens k ++ go l' end) kids) with (kids_tokens kids).
  assert (Hk : Forall tree_builds kids) by (apply Forall_forall; intros x _; apply tree_ok_builds).
  destruct text as [|c0 text0]; [destruct kids as [|k0 kids0]|].
  - reflexivity.
  - cbn [app build]. rewrite (build_kids (k0 :: kids0) Hk). cbn [build]. rewrite app_nil_r, rev_involutive. reflexivity.
  - cbn [app build]. rewrite (build_kids kids Hk). cbn [build]. rewrite app_nil_r, rev_involutive. reflexivity.
Qed.

(* ---------- the document ---------- *)
Lemma strip_prefix_app p x : strip_prefix p (p ++ x) = Some x.
Proof. induction p as [|a p IH]; [reflexivity|]. cbn [app strip_prefix]. now rewrite N.eqb_refl. Qed.

Theorem parse_print t : tree_ok t -> parse (print_doc t) = (0, Some t).
Proof.
  intro Hok. unfold parse, print_doc, strip_decl. rewrite strip_prefix_app.
  destruct (print_tree_head t) as [r Hr]. rewrite Hr. unfold lex. fold (run init ([10] ++ (60 :: r) ++ [10])).
  change ([10] ++ (60 :: r) ++ [10]) with (10 :: 60 :: (r ++ [10])).
  assert (S1 : run init (10 :: 60 :: r ++ [10]) = run (st MLt [] [] false) (r ++ [10])) by reflexivity.
  rewrite S1, run_app. pose proof (tree_ok_runs t Hok [] [] false ltac:(reflexivity)) as R. rewrite Hr in R. cbn [tl] in R. rewrite R.
  cbn [after_close]. unfold run. cbn [fold_left]. unfold lex_step. cbn [md st]. assert (is_ws 10 = true) as -> by reflexivity.
  unfold status. cbn [md st toks]. rewrite app_nil_r, rev_involutive, build_root_tree. reflexivity.
Qed.

(* ---------- the condition, decidable ---------- *)
Definition name_okb (n : str) : bool :=
  match n with [] => false | c :: r => is_name_start c && forallb is_name_char r end.
Definition text_okb (s : str) : bool := forallb (fun c => is_xml_char c && negb (c =? 13)) s.
Fixpoint attrs_okb (seen : list (str * str)) (l : list (str * str)) : bool :=
  match l with
  | [] => true
  | kv :: r => name_okb (fst kv) && negb (is_xmlns (fst kv)) && negb (assoc_mem (fst kv) seen) && forallb is_xml_char (snd kv) &&
               attrs_okb (kv :: seen) r
  end.
Fixpoint tree_okb (t : tree) : bool :=
  match t with
  | Node tag attrs text kids =>
      name_okb tag && attrs_okb [] attrs && text_okb text &&
      (fix go (l : list tree) : bool := match l with [] => true | k :: l' => tree_okb k && go l' end) kids
  end.

Lemma name_okb_ok n : name_okb n = true -> name_ok n.
Proof.
  destruct n as [|c r]; [discriminate|]. cbn [name_okb name_ok]. intro H. apply andb_prop in H as [H1 H2]. split; [exact H1|].
  apply Forall_forall. rewrite forallb_forall in H2. exact H2.
Qed.

Lemma attrs_okb_ok l : forall seen, attrs_okb seen l = true -> attrs_ok seen l.
Proof.
  induction l as [|kv l IH]; intros seen H; [exact I|]. cbn [attrs_okb] in H.
  apply andb_prop in H as [H H5]. apply andb_prop in H as [H H4]. apply andb_prop in H as [H H3]. apply andb_prop in H as [H1 H2].
  split; [|exact (IH _ H5)]. repeat split.
  - exact (name_okb_ok _ H1).
  - apply negb_true_iff. exact H2.
  - apply negb_true_iff. exact H3.
  - apply Forall_forall. rewrite forallb_forall in H4. exact H4.
Qed.

Lemma text_okb_ok s : text_okb s = true -> Forall text_ok s.
Proof.
  unfold text_okb. intro H. apply Forall_forall. rewrite forallb_forall in H. intros c Hc. specialize (H c Hc).
  apply andb_prop in H as [H1 H2]. split; [exact H1|]. apply negb_true_iff in H2. apply N.eqb_neq. exact H2.
Qed.

Lemma tree_okb_ok t : tree_okb t = true -> tree_ok t.
Proof.
  induction t as [tag attrs text kids IH] using tree_ind'. cbn [tree_okb tree_ok]. intro H.
  apply andb_prop in H as [H H4]. apply andb_prop in H as [H H3]. apply andb_prop in H as [H1 H2].
  split; [exact (name_okb_ok _ H1)|]. split; [exact (attrs_okb_ok _ _ H2)|]. split; [exact (text_okb_ok _ H3)|].
  clear -IH H4. induction kids as [|k kids IHk]; [exact I|]. inversion IH as [|? ? Pk Pr]; subst. apply andb_prop in H4 as [Hk Hr].
  split; [exact (Pk Hk)|exact (IHk Pr Hr)].
Qed.

(* printing then parsing is the identity on every printable tree *)
Theorem parse_print_b t : tree_okb t = true -> parse (print_doc t) = (0, Some t).
Proof. intro H. apply parse_print, tree_okb_ok, H. Qed.
