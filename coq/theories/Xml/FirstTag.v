(* A text that begins with '<' and is read as a complete document begins with '<' followed by the tag of the
   root element: the name read right after the first '<' is the name of the first start tag, and the root of the
   built tree is the first start tag. *)
From Coq Require Import List NArith Bool Arith Lia.
Import ListNotations.
From Indi Require Import Base.Sx Xml.Lex Xml.Opener Xml.RoundTrip.
Local Open Scope N_scope.

(* the tag a start tag in progress carries *)
Definition tag_in_progress (m : mode) : option str :=
  match m with
  | MAttrs tag _ _ | MAttrName tag _ _ | MAttrEq tag _ _ | MAttrValStart tag _ _ | MAttrVal _ tag _ _ _ _ | MSlash tag _ => Some tag
  | MRef _ (MAttrVal _ tag _ _ _ _) _ => Some tag
  | _ => None
  end.

Definition dead (m : mode) : bool := match m with MError | MUnsupported => true | _ => false end.

(* until the first token is out, the first start tag in progress is n; afterwards the first token is TStart n *)
Definition finv (n : str) (s : lstate) : Prop :=
  match toks s with
  | [] => tag_in_progress (md s) = Some n \/ dead (md s) = true
  | _ => exists a sc, last (toks s) (TText []) = TStart n a sc
  end.

Lemma last_cons_ne {A} (x : A) l d : l <> [] -> last (x :: l) d = last l d.
Proof. destruct l; [contradiction|reflexivity]. Qed.

Lemma emit_start_finv n s attrs sc :
  toks s = [] -> finv n (emit_start s n attrs sc).
Proof.
  intro Ht. unfold emit_start, finv. rewrite Ht.
  destruct sc; [destruct (stack s)|]; cbn [toks last]; eauto.
Qed.

Lemma finv_later n s s' x :
  toks s <> [] -> finv n s -> toks s' = x :: toks s -> finv n s'.
Proof.
  unfold finv. intros Hne H Ht. rewrite Ht. destruct (toks s) as [|t0 r] eqn:E; [contradiction|].
  destruct H as (a & sc & H). exists a, sc. rewrite <- H. apply last_cons_ne. discriminate.
Qed.

Lemma lex_step_finv n s c : finv n s -> finv n (lex_step s c).
Proof.
  intro H. destruct (toks s) as [|t0 r] eqn:Et.
  - (* no token yet *)
    unfold finv in H. rewrite Et in H. unfold lex_step.
    destruct H as [H|H].
    + destruct (md s) eqn:Em; cbn [tag_in_progress] in H; try discriminate; try (injection H as ->);
        repeat match goal with
               | |- context [if ?b then _ else _] => destruct b
               | |- context [match resolve_ref ?x with _ => _ end] => destruct (resolve_ref x)
               end;
        try (apply emit_start_finv; exact Et);
        unfold finv; cbn [toks with_md st_err st_unsup md]; rewrite ?Et; cbn [tag_in_progress dead]; auto.
      all: try (rewrite Em; cbn [tag_in_progress]; auto).
      all: try (match goal with Hm : match ?b with MAttrVal _ _ _ _ _ _ => _ | _ => _ end = Some _ |- _ =>
                  destruct b; try discriminate Hm; injection Hm as -> end;
                cbn [toks with_md st_err md]; rewrite ?Et; cbn [tag_in_progress dead]; auto).
    + destruct (md s) eqn:Em; cbn [dead] in H; try discriminate; unfold finv; rewrite Et; right; rewrite Em; reflexivity.
  - (* the first token is out: it stays the last of the reversed list *)
    assert (Hne : toks s <> []) by (rewrite Et; discriminate).
    assert (G : toks (lex_step s c) = toks s \/ exists x, toks (lex_step s c) = x :: toks s).
    { unfold lex_step.
      destruct (md s);
        repeat match goal with
               | |- context [if ?b then _ else _] => destruct b
               | |- context [match stack s with _ => _ end] => destruct (stack s)
               | |- context [match resolve_ref ?x with _ => _ end] => destruct (resolve_ref x)
               | |- context [match ?m with MProlog => _ | _ => _ end] => destruct m
               | |- context [match ?a with [] => _ | _ :: _ => _ end] => destruct a
               end;
        unfold emit_start, push_text;
        repeat match goal with
               | |- context [if ?b then _ else _] => destruct b
               | |- context [match stack s with _ => _ end] => destruct (stack s)
               | |- context [match ?a with [] => _ | _ :: _ => _ end] => destruct a
               end;
        cbn [toks with_md st_err st_unsup]; eauto. }
    destruct G as [G|[x G]].
    + unfold finv in *. rewrite G. rewrite Et in *. exact H.
    + exact (finv_later n s _ x Hne H G).
Qed.

Lemma run_finv n l : forall s, finv n s -> finv n (run s l).
Proof. induction l as [|c l IH]; intros s H; [exact H|]. rewrite run_cons. apply IH, lex_step_finv, H. Qed.

Lemma dead_stays l : forall s, dead (md s) = true -> dead (md (run s l)) = true.
Proof.
  induction l as [|c l IH]; intros s H; [exact H|]. rewrite run_cons. apply IH.
  unfold lex_step. destruct (md s) eqn:E; cbn [dead] in H; try discriminate; rewrite E; reflexivity.
Qed.

Lemma dead_not_complete s : dead (md s) = true -> status s <> 0.
Proof. unfold status. destruct (md s); cbn [dead]; intros H; try discriminate H; discriminate. Qed.

Lemma complete_has_first n s :
  finv n s -> status s = 0 -> first_start (rev (toks s)) = Some n.
Proof.
  unfold finv, status. intros H St. destruct (toks s) as [|t0 r] eqn:Et.
  - destruct H as [H|H]; destruct (md s); cbn [tag_in_progress dead] in H; try discriminate; discriminate St.
  - destruct H as (a & sc & H).
    assert (E : exists pre, t0 :: r = pre ++ [TStart n a sc]).
    { assert (Hn : t0 :: r <> []) by discriminate. destruct (exists_last Hn) as (pre & x & E). exists pre. rewrite E in H |- *.
      rewrite last_last in H. now rewrite H. }
    destruct E as [pre ->]. rewrite rev_app_distr. reflexivity.
Qed.

(* from just after the first character of the name *)
Lemma name_phase : forall r1 acc s,
  md s = MName acc -> toks s = [] -> status (run s r1) = 0 ->
  exists n1 rest, r1 = n1 ++ rest /\ first_start (rev (toks (run s r1))) = Some (rev acc ++ n1).
Proof.
  induction r1 as [|c r1 IH]; intros acc s Hm Ht St.
  - exfalso. cbn in St. unfold status in St. rewrite Hm in St. discriminate.
  - rewrite run_cons in St |- *.
    assert (Dead : dead (md (lex_step s c)) = true -> False).
    { intro D. exact (dead_not_complete _ (dead_stays r1 _ D) St). }
    assert (Fin : forall n, finv n (lex_step s c) -> exists n1 rest, c :: r1 = n1 ++ rest /\ first_start (rev (toks (run (lex_step s c) r1))) = Some (n ++ n1) -> True) by (intros; exists [], []; auto).
    clear Fin.
    unfold lex_step in *. rewrite Hm in *.
    destruct (c =? 58); [exfalso; apply Dead; reflexivity|].
    destruct (is_name_char c).
    + destruct (IH (c :: acc) (with_md s (MName (c :: acc))) eq_refl Ht St) as (n1 & rest & -> & F).
      exists (c :: n1), rest. split; [reflexivity|]. rewrite F. cbn [rev]. now rewrite <- app_assoc.
    + assert (Done : forall s', finv (rev acc) s' -> status (run s' r1) = 0 ->
                       exists n1 rest, c :: r1 = n1 ++ rest /\ first_start (rev (toks (run s' r1))) = Some (rev acc ++ n1)).
      { intros s' F S'. exists [], (c :: r1). split; [reflexivity|]. rewrite app_nil_r. exact (complete_has_first _ _ (run_finv _ r1 _ F) S'). }
      destruct (is_ws c); [apply Done; [unfold finv; cbn [toks with_md md]; rewrite Ht; left; reflexivity|exact St]|].
      destruct (c =? 47); [apply Done; [unfold finv; cbn [toks with_md md]; rewrite Ht; left; reflexivity|exact St]|].
      destruct (c =? 62); [apply Done; [apply emit_start_finv; exact Ht|exact St]|].
      exfalso. apply Dead. reflexivity.
Qed.

(* a complete document that begins with '<' begins with '<' and the tag of its root *)
Theorem document_begins_with_its_root_tag r t :
  status (Lex.lex (60 :: r)) = 0 -> build (rev (toks (Lex.lex (60 :: r)))) [] = Some t ->
  exists rest, r = tree_tag t ++ rest.
Proof.
  intros St Hb.
  assert (L : Lex.lex (60 :: r) = run (st MLt [] [] false) r) by reflexivity.
  rewrite L in *.
  destruct r as [|c r1]; [cbn in St; discriminate|].
  rewrite run_cons in St, Hb.
  assert (Dead : dead (md (lex_step (st MLt [] [] false) c)) = true -> False).
  { intro D. exact (dead_not_complete _ (dead_stays r1 _ D) St). }
  unfold lex_step in *. cbn [md st stack seen_root andb] in *.
  destruct ((c =? 33) || (c =? 63)); [exfalso; apply Dead; reflexivity|].
  destruct (c =? 47); [exfalso; apply Dead; reflexivity|].
  destruct (c =? 58); [exfalso; apply Dead; reflexivity|].
  destruct (is_name_start c); [|exfalso; apply Dead; reflexivity].
  destruct (name_phase r1 [c] (with_md (st MLt [] [] false) (MName [c])) eq_refl eq_refl St) as (n1 & rest & -> & F).
  pose proof (build_root _ [] t Hb) as R. cbn [frame_tag] in R. rewrite F in R. injection R as R.
  exists rest. rewrite <- R. reflexivity.
Qed.
