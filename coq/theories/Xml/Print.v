(* Model of xml.etree.ElementTree.tostring(element) as used by
   IndiMessage.to_string: ASCII output, character references for code points
   >= 128, text escapes & < >, attribute escapes & < > dquote TAB LF CR, empty
   elements written <t />. *)
From Coq Require Import List NArith ZArith Bool Arith.
Import ListNotations.
From Indi Require Import Base.Sx Xml.Lex.
Local Open Scope N_scope.

Fixpoint dec_go (fuel : nat) (n : N) (acc : str) : str :=
  match fuel with
  | O => acc
  | S f => let d := 48 + n mod 10 in
           if n <? 10 then d :: acc else dec_go f (n / 10) (d :: acc)
  end.
Definition print_dec (n : N) : str := dec_go (S (N.size_nat n)) n [].

Definition charref (c : N) : str := [38; 35] ++ print_dec c ++ [59].

Definition esc_text_char (c : N) : str :=
  if c =? 38 then [38;97;109;112;59]          (* &amp; *)
  else if c =? 60 then [38;108;116;59]        (* &lt; *)
  else if c =? 62 then [38;103;116;59]        (* &gt; *)
  else if 128 <=? c then charref c
  else [c].

Definition esc_attr_char (c : N) : str :=
  if c =? 38 then [38;97;109;112;59]
  else if c =? 60 then [38;108;116;59]
  else if c =? 62 then [38;103;116;59]
  else if c =? 34 then [38;113;117;111;116;59]   (* &quot; *)
  else if c =? 10 then [38;35;49;48;59]          (* &#10; *)
  else if c =? 13 then [38;35;49;51;59]          (* &#13; *)
  else if c =? 9 then [38;35;48;57;59]           (* &#09; *)
  else if 128 <=? c then charref c
  else [c].

Definition esc_text (s : str) : str := flat_map esc_text_char s.
Definition esc_attr (s : str) : str := flat_map esc_attr_char s.

Definition print_attr (kv : str * str) : str :=
  [32] ++ fst kv ++ [61; 34] ++ esc_attr (snd kv) ++ [34].

Fixpoint print_tree (t : tree) : str :=
  match t with
  | Node tag attrs text kids =>
      [60] ++ tag ++ flat_map print_attr attrs ++
      match text, kids with
      | [], [] => [32; 47; 62]                                  (* space slash gt *)
      | _, _ => [62] ++ esc_text text ++
                (fix go (l : list tree) : str :=
                   match l with [] => [] | k :: l' => print_tree k ++ go l' end) kids ++
                [60; 47] ++ tag ++ [62]
      end
  end.

(* IndiMessage.to_string: declaration, element, newline *)
Definition print_doc (t : tree) : str := decl_dq ++ [10] ++ print_tree t ++ [10].
