(* Model of indi/transport/buffer.py (Buffer.append / process and helpers),
   generic in the two parsers it calls. *)
From Coq Require Import List NArith Bool Arith Lia.
Import ListNotations.
From Indi Require Import Base.Sx.

Fixpoint prefixb (p s : str) : bool :=
  match p, s with
  | [], _ => true
  | a :: p', b :: s' => N.eqb a b && prefixb p' s'
  | _ :: _, [] => false
  end.

(* str.find: index of the first occurrence *)
Fixpoint find (p s : str) : option nat :=
  if prefixb p s then Some 0 else
  match s with
  | [] => None
  | _ :: s' => option_map S (find p s')
  end.

(* str.rfind of one character *)
Fixpoint rfind1 (c : N) (s : str) : option nat :=
  match s with
  | [] => None
  | a :: s' => match rfind1 c s' with
               | Some k => Some (S k)
               | None => if N.eqb a c then Some 0 else None
               end
  end.

Definition LT : N := 60.
Definition GT : N := 62.

(* what the two parsers say about a candidate prefix *)
Inductive pres (msg : Type) :=
| PNotXml                 (* ET.fromstring raises ParseError *)
| PInvalid                (* well-formed, but IndiMessage.from_string raises *)
| PMsg (m : msg).
Arguments PNotXml {msg}.
Arguments PInvalid {msg}.
Arguments PMsg {msg} m.

Inductive fres (msg : Type) :=
| FNone                   (* (None, None): nothing complete yet *)
| FSkip (e : nat)         (* (None, end): complete element that is no message *)
| FFound (m : msg) (e : nat).
Arguments FNone {msg}.
Arguments FSkip {msg} e.
Arguments FFound {msg} m e.

Section Buffer.
Variable msg : Type.
Variable parse : str -> pres msg.
Variable tags : list str.                  (* allowed_tags *)

Definition omin (a b : option nat) : option nat :=
  match a, b with
  | Some x, Some y => Some (Nat.min x y)
  | Some x, None => Some x
  | None, y => y
  end.

Definition first_opener (d : str) : option nat :=
  fold_left (fun acc t => omin acc (find (LT :: t) d)) tags None.

(* _cleanup_buffer *)
Definition cleanup (d : str) : str :=
  match first_opener d with
  | Some k => skipn k d
  | None => match rfind1 LT d with
            | Some k => skipn k d
            | None => []
            end
  end.

(* _cleanup_beginning *)
Definition cleanup_beginning (d : str) : str := cleanup (tl d).

(* _find_message_in_buffer: while end < len(data) - 1: end = data.find(">", end) ... *)
Fixpoint find_message_loop (fuel : nat) (data : str) (e : nat) : fres msg :=
  match fuel with
  | O => FNone
  | S f =>
    if Nat.ltb (S e) (length data) then
      match find [GT] (skipn e data) with
      | None => FNone
      | Some k => let e' := S (e + k) in
                  match parse (firstn e' data) with
                  | PMsg m => FFound m e'
                  | PInvalid => FSkip e'
                  | PNotXml => find_message_loop f data e'
                  end
      end
    else FNone
  end.
Definition find_message (data : str) : fres msg := find_message_loop (S (length data)) data 0.

Inductive outcome := Done | OutOfFuel.

(* the while loop of process(); acc = messages handed to the callback, newest first *)
Fixpoint process_loop (fuel : nat) (thr : option nat) (d : str) (acc : list msg) : outcome * str * list msg :=
  match fuel with
  | O => (OutOfFuel, d, acc)
  | S f =>
    match d with
    | [] => (Done, d, acc)
    | _ =>
      match find_message d with
      | FFound m e => process_loop f thr (cleanup (skipn e d)) (m :: acc)
      | FSkip e => process_loop f thr (cleanup (skipn e d)) acc
      | FNone =>
        match thr with
        | Some t => if Nat.ltb t (length d) then process_loop f thr (cleanup_beginning d) acc
                    else (Done, d, acc)
        | None => (Done, d, acc)
        end
      end
    end
  end.

Definition process (thr : option nat) (d : str) : outcome * str * list msg :=
  let d0 := cleanup d in
  let '(o, d', acc) := process_loop (S (length d0)) thr d0 [] in (o, d', rev acc).

(* a connection: append(piece); process(callback) for each piece read *)
Fixpoint feed (thr : option nat) (data : str) (pieces : list str) : list (outcome * list msg) * str :=
  match pieces with
  | [] => ([], data)
  | p :: ps =>
      let '(o, d', ms) := process thr (data ++ p) in
      let (rest, dfin) := feed thr d' ps in
      ((o, ms) :: rest, dfin)
  end.
End Buffer.
