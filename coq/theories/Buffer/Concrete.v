(* The parser premise of C02 / C11 for the concrete parser (XML model + message model +
   the live registry): a text read as a message contains the opener of a known tag. *)
From Coq Require Import List NArith ZArith Bool Arith Lia.
Import ListNotations.
From Indi Require Import Base.Sx Buffer.Model Buffer.Props Buffer.Junk Buffer.Run Msg.Registry Msg.RegOk Msg.Equality Msg.Model Xml.Lex Xml.Opener
  Generated.RegistryData.

Lemma prefixb_self p b : prefixb p (p ++ b) = true.
Proof. induction p as [|a p IH]; cbn; [reflexivity|]. now rewrite N.eqb_refl, IH. Qed.

Lemma occurs_find p s : p <> [] -> occurs p s -> find p s <> None.
Proof.
  intros Hp (a & b & ->) Hn. pose proof (find_spec p (a ++ p ++ b)) as Sp. rewrite Hn in Sp.
  destruct (Sp (List.length a)) as [H|H]; [|contradiction].
  rewrite skipn_app, skipn_all, Nat.sub_diag in H. cbn [skipn app] in H. rewrite prefixb_self in H. discriminate.
Qed.

Lemma msg_from_xml_tag R t m : msg_from_xml R t = Some m -> exists c, find_mclass R (tree_tag t) = Some c.
Proof. destruct t as [tg attrs text kids]. cbn [msg_from_xml tree_tag]. destruct (find_mclass R tg) as [c|]; [eauto|discriminate]. Qed.

Lemma find_last_pred {A} (p : A -> bool) l x : find_last p l = Some x -> p x = true.
Proof.
  induction l as [|y l IH]; cbn [find_last]; [discriminate|].
  destruct (find_last p l) as [z|]; [intros [= <-]; apply IH; reflexivity|].
  destruct (p y) eqn:E; [intros [= <-]; exact E|discriminate].
Qed.

Theorem concrete_parse_needs_opener :
  parse_needs_opener msg concrete_parse (rbuffer_tags live_registry).
Proof.
  intros s m H. unfold concrete_parse in H.
  destruct (parse s) as [[|p] [t|]] eqn:Ep; try discriminate.
  destruct (msg_from_xml live_registry t) as [m0|] eqn:Em; [|discriminate].
  destruct (msg_from_xml_tag _ _ _ Em) as [c Fc].
  exists (tree_tag t). split.
  - (* the root tag is a registered message tag, and the buffer looks for exactly those *)
    assert (Hb : reg_ok_buffer live_registry = true) by (vm_compute; reflexivity).
    unfold reg_ok_buffer in Hb. apply andb_prop in Hb as [Hb _]. apply (list_eqb_spec str_eqb str_eqb_spec) in Hb. rewrite Hb.
    unfold find_mclass in Fc. pose proof (find_last_in _ _ _ Fc) as Hin. pose proof (find_last_pred _ _ _ Fc) as Hp. cbn in Hp.
    apply str_eqb_spec in Hp. rewrite <- Hp. apply in_map. exact Hin.
  - apply occurs_find; [discriminate|]. exact (root_tag_occurs s t Ep).
Qed.

(* the live buffer's tags contain no '<' *)
Theorem live_tags_clean : tags_clean (rbuffer_tags live_registry).
Proof.
  assert (Hb : reg_ok_buffer live_registry = true) by (vm_compute; reflexivity).
  unfold reg_ok_buffer in Hb. apply andb_prop in Hb as [_ Hb]. rewrite forallb_forall in Hb.
  intros t Ht Hin. specialize (Hb t Ht). apply negb_true_iff in Hb.
  assert (G : mem_str [60%N] (map (fun c => [c]) t) = true).
  { apply mem_str_In. apply in_map_iff. exists LT. split; [reflexivity|exact Hin]. }
  rewrite G in Hb. discriminate.
Qed.
