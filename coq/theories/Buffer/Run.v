(* runner entries for the buffer model: parser given as a table of recorded
   answers (control logic against ANY text), or the concrete XML + message model *)
From Coq Require Import List NArith ZArith Bool String.
Import ListNotations.
From Indi Require Import Base.Sx Buffer.Model Buffer.Junk Buffer.Framing Msg.Registry Msg.Equality Msg.Model Msg.Run Xml.Lex
  Generated.RegistryData.

Definition table := list (str * (N * Z)).    (* prefix -> (code 0 not xml / 1 invalid / 2 message, id) *)

Fixpoint tlookup (s : str) (t : table) : option (N * Z) :=
  match t with
  | [] => None
  | (k, v) :: t' => if str_eqb k s then Some v else tlookup s t'
  end.

Definition table_parse (t : table) (s : str) : pres Z :=
  match tlookup s t with
  | Some (0%N, _) => PNotXml
  | Some (1%N, _) => PInvalid
  | Some (_, i) => PMsg i
  | None => PMsg (-999)%Z      (* the implementation never asked this: control flow differs *)
  end.

Definition concrete_parse (s : str) : pres msg :=
  match parse s with
  | (0%N, Some t) => match msg_from_xml live_registry t with Some m => PMsg m | None => PInvalid end
  | _ => PNotXml
  end.

Definition dec_entry (x : sx) : option (str * (N * Z)) :=
  match x with
  | SL [SA k; c; i] => match as_N c, as_Z i with Some c, Some i => Some (k, (c, i)) | _, _ => None end
  | _ => None
  end.

Definition enc_outcome (o : outcome) : sx := match o with Done => SN 0 | OutOfFuel => SN 1 end.

(* (thr? tags pieces table) -> ((outcome ids)... ) final-data-length *)
Definition run_buffer_table (x : sx) : sx :=
  match x with
  | SL [thr; tags; pieces; tb] =>
      match as_opt as_nat thr, as_list_of as_str tags, as_list_of as_str pieces, as_list_of dec_entry tb with
      | Some thr, Some tags, Some pieces, Some tb =>
          let (outs, dfin) := feed Z (table_parse tb) tags thr [] pieces in
          SL [of_list (fun om => SL [enc_outcome (fst om); of_list SN (snd om)]) outs; of_nat (List.length dfin)]
      | _, _, _, _ => bad_input
      end
  | _ => bad_input
  end.

Definition run_buffer_concrete (x : sx) : sx :=
  match x with
  | SL [thr; pieces] =>
      match as_opt as_nat thr, as_list_of as_str pieces with
      | Some thr, Some pieces =>
          let (outs, dfin) := feed msg concrete_parse (rbuffer_tags live_registry) thr [] pieces in
          SL [of_list (fun om => SL [enc_outcome (fst om); of_list enc_msg (snd om)]) outs; of_nat (List.length dfin)]
      | _, _ => bad_input
      end
  | _ => bad_input
  end.

(* (c s) -> is c a corrupt front before s, by the concrete parser?  and does s start with a known opener? *)
Definition run_corrupt (x : sx) : sx :=
  match x with
  | SL [SA c; SA s] =>
      SL [of_bool (corruptb msg concrete_parse c s);
          of_bool (match first_opener (rbuffer_tags live_registry) s with Some O => true | _ => false end)]
  | _ => bad_input
  end.

(* (thr? m) -> does m pass every clause of Framing.spelling for the concrete parser? *)
Definition run_spellcheck (x : sx) : sx :=
  match x with
  | SL [thr; SA m] =>
      match as_opt as_nat thr with
      | Some thr => match spell_check msg concrete_parse (rbuffer_tags live_registry) thr m with
                    | Some M => SL [enc_msg M]
                    | None => SL []
                    end
      | None => bad_input
      end
  | _ => bad_input
  end.

(* ("table" ...) | ("concrete" ...) | ("corrupt" ...) | ("spell" ...) *)
Definition run_buffer (x : sx) : sx :=
  match x with
  | SL [t; a] => if is_tag "table" t then run_buffer_table a
                 else if is_tag "concrete" t then run_buffer_concrete a
                 else if is_tag "corrupt" t then run_corrupt a
                 else if is_tag "spell" t then run_spellcheck a else bad_input
  | _ => bad_input
  end.
