(* The spelling premise of C02, proved for the concrete parser: the element text that
   to_string produces for a constructible message is a complete spelling of it - the
   concrete parser reads it as that message, reads no proper prefix of it as anything, it
   begins with a registered opener and ends with a single '>'.  With this the framing
   theorem holds for the concrete parser and every stream of printed messages with
   nothing left to assume but their size against the threshold. *)
From Coq Require Import List NArith ZArith Bool Arith Lia.
Import ListNotations.
From Indi Require Import Base.Sx Buffer.Model Buffer.Props Buffer.Junk Buffer.Framing Buffer.Run Buffer.Concrete Buffer.Multi
  Msg.Registry Msg.RegOk Msg.Equality Msg.Model Msg.Codec Xml.Lex Xml.Print Xml.RoundTrip Xml.Opener Xml.FirstTag Generated.RegistryData.
Local Open Scope N_scope.

(* ---------- the lexer is done exactly once: after the root has closed only blanks are accepted ---------- *)
Definition epi_inv (s : lstate) : Prop := md s = MEpilog -> stack s = [] /\ seen_root s = true.

Lemma lex_step_epi s c : epi_inv s -> epi_inv (lex_step s c).
Proof.
  intro I. unfold epi_inv, lex_step.
  destruct (md s) eqn:Em;
    repeat match goal with
           | |- context [if ?b then _ else _] => destruct b
           | |- context [match stack s with _ => _ end] => destruct (stack s)
           | |- context [match resolve_ref ?x with _ => _ end] => destruct (resolve_ref x)
           | |- context [match ?m with MProlog => _ | _ => _ end] => destruct m
           | |- context [match ?a with [] => _ | _ :: _ => _ end] => destruct a
           end;
    unfold emit_start;
    repeat match goal with
           | |- context [if ?b then _ else _] => destruct b
           | |- context [match stack s with _ => _ end] => destruct (stack s)
           end;
    cbn [md with_md st_err st_unsup stack seen_root]; try (intro H; discriminate H); try (intros _; split; reflexivity);
    try (rewrite Em; intro H; discriminate H); try exact I.
Qed.

Lemma run_epi l : forall s, epi_inv s -> epi_inv (run s l).
Proof. induction l as [|c l IH]; intros s I; [exact I|]. rewrite run_cons. apply IH, lex_step_epi, I. Qed.

Lemma run_error l : forall s, md s = MError \/ md s = MUnsupported -> md (run s l) = MError \/ md (run s l) = MUnsupported.
Proof.
  induction l as [|c l IH]; intros s H; [exact H|]. rewrite run_cons. apply IH.
  unfold lex_step. destruct H as [H|H]; rewrite H; [left|right]; exact H.
Qed.

Lemma lt_after_root_is_dead s l :
  md s = MLt -> stack s = [] -> seen_root s = true -> md (run s l) <> MEpilog.
Proof.
  intros Hm Hs Hr. destruct l as [|c l]; [cbn; rewrite Hm; discriminate|].
  rewrite run_cons.
  assert (E : md (lex_step s c) = MError \/ md (lex_step s c) = MUnsupported).
  { unfold lex_step. rewrite Hm, Hs, Hr. cbn [andb].
    repeat match goal with |- context [if ?b then _ else _] => destruct b eqn:? end; cbn [md st_err st_unsup andb]; auto; discriminate. }
  destruct (run_error l _ E) as [H|H]; rewrite H; discriminate.
Qed.

Lemma only_blanks_after_the_root l : forall s,
  md s = MEpilog -> stack s = [] -> seen_root s = true -> md (run s l) = MEpilog -> Forall (fun c => is_ws c = true) l.
Proof.
  induction l as [|c l IH]; intros s Hm Hs Hr H; [constructor|].
  rewrite run_cons in H. unfold lex_step in H. rewrite Hm in H.
  destruct (is_ws c) eqn:W.
  - constructor; [exact W|]. exact (IH s Hm Hs Hr H).
  - exfalso. destruct (c =? 60).
    + revert H. apply lt_after_root_is_dead; [reflexivity|exact Hs|exact Hr].
    + destruct (run_error l (st_err s) (or_introl eq_refl)) as [E|E]; rewrite E in H; discriminate.
Qed.

(* a text whose last character is not a blank has no proper prefix that is a complete document *)
Theorem no_proper_prefix_is_complete (p q : str) c :
  is_ws c = false -> status (fold_left lex_step (p ++ q ++ [c]) Lex.init) = 0 -> status (fold_left lex_step p Lex.init) <> 0.
Proof.
  intros Hc H0 Hp.
  change (fold_left lex_step (p ++ q ++ [c]) Lex.init) with (run Lex.init (p ++ q ++ [c])) in H0.
  change (fold_left lex_step p Lex.init) with (run Lex.init p) in Hp.
  rewrite run_app in H0.
  assert (Md : forall s, status s = 0 -> md s = MEpilog).
  { intros s. unfold status. destruct (md s); try discriminate; reflexivity. }
  pose proof (Md _ Hp) as Mp. pose proof (Md _ H0) as M0.
  assert (I : epi_inv (run Lex.init p)) by (apply run_epi; intro H; discriminate H).
  destruct (I Mp) as [Hs Hr].
  pose proof (only_blanks_after_the_root _ _ Mp Hs Hr M0) as F.
  apply Forall_app in F as [_ F]. inversion F as [|? ? Hw _]; subst. congruence.
Qed.

(* ---------- the printed element ---------- *)
Local Close Scope N_scope.

Lemma strip_decl_elem c r : N.eqb c 63 = false -> strip_decl (60%N :: c :: r) = 60%N :: c :: r.
Proof.
  intro H. unfold strip_decl, decl_dq, decl_sq. cbn [strip_prefix]. rewrite N.eqb_refl, (N.eqb_sym 63 c), H. reflexivity.
Qed.

Lemma shape_gen (tag tag2 A B C D : str) c0 tr ti c1 :
  tag = c0 :: tr -> tag2 = ti ++ [c1] ->
  [60%N] ++ tag ++ A ++ B ++ C ++ D ++ [60%N; 47%N] ++ tag2 ++ [62%N] = 60%N :: c0 :: (tr ++ A ++ B ++ C ++ D ++ [60%N; 47%N] ++ ti) ++ [c1; 62%N].
Proof. intros -> ->. cbn [app]. rewrite <- !app_assoc. cbn [app]. rewrite <- ?app_assoc. reflexivity. Qed.

Lemma exists_last_cons {A} (x : A) l : exists l' y, x :: l = l' ++ [y] /\ In y (x :: l).
Proof.
  revert x. induction l as [|z l IH]; intro x; [exists [], x; split; [reflexivity|now left]|].
  destruct (IH z) as (l' & y & E & Hin). exists (x :: l'), y. split; [cbn [app]; now rewrite E|now right].
Qed.

(* '<', a name start, ..., one character that is not '>', '>' *)
Lemma print_tree_shape t : tree_ok t ->
  exists c0 body c1, print_tree t = 60%N :: c0 :: body ++ [c1; 62%N] /\ is_name_start c0 = true /\ c1 <> 62%N.
Proof.
  destruct t as [tag attrs text kids]. intros (Hn & _). destruct tag as [|c0 tr] eqn:Et; [contradiction|]. destruct Hn as [Hs Hr].
  assert (Hslash : exists body, [60%N] ++ (c0 :: tr) ++ flat_map print_attr attrs ++ [32%N; 47%N; 62%N] = 60%N :: c0 :: body ++ [47%N; 62%N]).
  { exists (tr ++ flat_map print_attr attrs ++ [32%N]). cbn [app]. do 2 f_equal. rewrite <- !app_assoc. reflexivity. }
  destruct (exists_last_cons c0 tr) as (ti & c1 & El & Hin).
  assert (Hc1 : c1 <> 62%N).
  { assert (is_name_char c1 = true) as Hc.
    { destruct Hin as [<-|Hin]; [apply (name_start_facts c0 Hs)|]. rewrite Forall_forall in Hr. exact (Hr _ Hin). }
    destruct (name_char_facts c1 Hc) as (_ & _ & _ & H62 & _). now apply N.eqb_neq. }
  cbn [print_tree].
  destruct text as [|x text]; [destruct kids as [|k kids]|].
  - destruct Hslash as [body Hb]. exists c0, body, 47%N. split; [exact Hb|split; [exact Hs|discriminate]].
  - eexists c0, _, c1. split; [|split; [exact Hs|exact Hc1]].
    apply shape_gen; [reflexivity|exact El].
  - eexists c0, _, c1. split; [|split; [exact Hs|exact Hc1]].
    apply shape_gen; [reflexivity|exact El].
Qed.

Lemma lex_elem r : Lex.lex (60%N :: r) = run (st MLt [] [] false) r.
Proof. reflexivity. Qed.

(* printing an element and parsing the text - no declaration, no newline - gives the tree back *)
Theorem parse_print_tree t : tree_ok t -> Lex.parse (print_tree t) = (0%N, Some t).
Proof.
  intro Hok. destruct (print_tree_shape t Hok) as (c0 & body & c1 & E & Hs & _).
  pose proof (tree_ok_runs t Hok [] [] false eq_refl) as R. rewrite E in R. cbn [tl] in R.
  unfold Lex.parse. rewrite E, strip_decl_elem by apply (name_start_facts c0 Hs).
  rewrite lex_elem, R. cbn [after_close]. unfold status. cbn [md st toks N.eqb]. rewrite app_nil_r, rev_involutive, build_root_tree. reflexivity.
Qed.

Lemma firstn_elem k c0 (rest : str) : (0 < k)%nat ->
  firstn k (60%N :: c0 :: rest) = [60%N] \/ exists r, firstn k (60%N :: c0 :: rest) = 60%N :: c0 :: r.
Proof. destruct k as [|[|k]]; intro H; [lia|now left|right; cbn [firstn]; eauto]. Qed.

(* ... and no proper prefix of the text is a complete document *)
Theorem no_prefix_of_a_printed_element_parses t k :
  tree_ok t -> (0 < k < length (print_tree t))%nat -> fst (Lex.parse (firstn k (print_tree t))) <> 0%N.
Proof.
  intros Hok Hk. destruct (print_tree_shape t Hok) as (c0 & body & c1 & E & Hs & _).
  pose proof (parse_print_tree t Hok) as P. unfold Lex.parse in P. rewrite E in P.
  rewrite strip_decl_elem in P by apply (name_start_facts c0 Hs). injection P as P _.
  rewrite E in Hk |- *. unfold Lex.parse. cbn [fst].
  set (m := 60%N :: c0 :: body ++ [c1; 62%N]) in *.
  assert (Hsd : strip_decl (firstn k m) = firstn k m).
  { unfold m. destruct (firstn_elem k c0 (body ++ [c1; 62%N]) ltac:(lia)) as [->|[r ->]]; [reflexivity|].
    apply strip_decl_elem, (name_start_facts c0 Hs). }
  rewrite Hsd.
  assert (Hm : m = firstn k m ++ skipn k (60%N :: c0 :: body ++ [c1]) ++ [62%N]).
  { unfold m. change (60%N :: c0 :: body ++ [c1; 62%N]) with ((60%N :: c0 :: body) ++ [c1] ++ [62%N]).
    rewrite (app_assoc _ [c1]). change ((60%N :: c0 :: body) ++ [c1]) with (60%N :: c0 :: body ++ [c1]).
    set (b := 60%N :: c0 :: body ++ [c1]).
    assert (Hb : (k <= length b)%nat).
    { unfold m in Hk. unfold b. cbn [length] in *. rewrite app_length in *. cbn [length] in *. lia. }
    rewrite firstn_app. replace (k - length b)%nat with 0%nat by lia. rewrite firstn_O, app_nil_r.
    rewrite app_assoc, firstn_skipn. reflexivity. }
  unfold Lex.lex in P |- *. rewrite Hm in P.
  exact (no_proper_prefix_is_complete _ _ 62%N eq_refl P).
Qed.

(* ---------- the spelling premise, for the concrete parser ---------- *)
Notation live_tags := (rbuffer_tags live_registry).

Lemma live_part_tags_unique : nodup_strb (map ptag (rparts live_registry)) = true.
Proof. vm_compute. reflexivity. Qed.

Lemma wfb_tag_registered m : wfb live_registry m = true -> In (mk m) live_tags.
Proof.
  unfold wfb. destruct (find_mclass live_registry (mk m)) as [c|] eqn:Fc; [|discriminate]. intros _.
  assert (Hb : reg_ok_buffer live_registry = true) by (vm_compute; reflexivity).
  unfold reg_ok_buffer in Hb. apply andb_prop in Hb as [Hb _]. apply (list_eqb_spec str_eqb str_eqb_spec) in Hb. rewrite Hb.
  unfold find_mclass in Fc. pose proof (find_last_in _ _ _ Fc) as Hin. pose proof (find_last_pred _ _ _ Fc) as Hp. cbn in Hp.
  apply str_eqb_spec in Hp. rewrite <- Hp. apply in_map. exact Hin.
Qed.

Lemma opener_at_0 (tags : list str) t rest : In t tags -> starts_with_opener tags (LT :: t ++ rest).
Proof.
  intro Hin. unfold starts_with_opener, first_opener.
  assert (F : find (LT :: t) (LT :: t ++ rest) = Some 0).
  { cbn [find]. change (LT :: t ++ rest) with ((LT :: t) ++ rest). now rewrite prefixb_self. }
  destruct (fold_omin_le _ 0 t 0 tags None Hin F (le_n 0)) as [n [Hn E]]. rewrite E. f_equal. lia.
Qed.

Lemma ends_spec (pre : str) c1 : c1 <> 62%N ->
  let m := pre ++ [c1; 62%N] in 2 <= length m /\ nth (length m - 1) m 0%N = GT /\ nth (length m - 2) m 0%N <> GT.
Proof.
  intros Hc m. unfold m. rewrite app_length. cbn [length]. split; [lia|split].
  - replace (length pre + 2 - 1) with (length pre + 1) by lia. rewrite app_nth2_plus. reflexivity.
  - replace (length pre + 2 - 2) with (length pre + 0) by lia. rewrite app_nth2_plus. exact Hc.
Qed.

(* the element text of a message as it travels *)
Definition wire_text (m : msg) : str := print_tree (msg_to_xml m).
Definition fits (thr : option nat) (m : msg) : Prop := forall t, thr = Some t -> length (wire_text m) <= t.

Theorem printed_message_is_a_spelling thr m :
  wfb live_registry m = true -> printable m = true -> fits thr m ->
  spelling msg concrete_parse live_tags thr (norm_msg m) (wire_text m).
Proof.
  intros Hw Hp Hf. unfold wire_text. assert (Hok : tree_ok (msg_to_xml m)) by (apply tree_okb_ok; exact Hp).
  constructor.
  - unfold concrete_parse. rewrite (parse_print_tree _ Hok), (roundtrip_tree live_registry m live_part_tags_unique Hw). reflexivity.
  - intros k Hk. pose proof (no_prefix_of_a_printed_element_parses _ k Hok Hk) as H. unfold concrete_parse.
    destruct (Lex.parse (firstn k (print_tree (msg_to_xml m)))) as [[|p] [t0|]]; cbn [fst] in H; try reflexivity; contradiction.
  - unfold msg_to_xml. cbn [print_tree]. change ([60%N] ++ mk m ++ ?r) with (LT :: mk m ++ r).
    apply opener_at_0, wfb_tag_registered, Hw.
  - destruct (print_tree_shape _ Hok) as (c0 & body & c1 & E & _ & Hc1). rewrite E.
    change (60%N :: c0 :: body ++ [c1; 62%N]) with ((60%N :: c0 :: body) ++ [c1; 62%N]). exact (ends_spec _ c1 Hc1).
  - exact Hf.
Qed.

(* ---------- a whole stream, as to_string writes it ---------- *)
Definition between : str := [10%N] ++ decl_dq ++ [10%N].

Fixpoint segs_after (ms : list msg) : list (seg msg) :=
  match ms with
  | [] => [SJunk msg [10%N]]
  | m :: r => SJunk msg between :: SMsg msg (norm_msg m) (wire_text m) :: segs_after r
  end.
Definition segs (ms : list msg) : list (seg msg) :=
  match ms with
  | [] => []
  | m :: r => SJunk msg (decl_dq ++ [10%N]) :: SMsg msg (norm_msg m) (wire_text m) :: segs_after r
  end.

Lemma flatten_segs_after ms : flatten msg (segs_after ms) = [10%N] ++ concat (map to_string ms).
Proof.
  induction ms as [|m r IH]; [reflexivity|].
  cbn [segs_after]. unfold flatten in *. cbn [map concat seg_text]. rewrite IH.
  unfold between, to_string, print_doc, wire_text. rewrite <- !app_assoc. reflexivity.
Qed.

Lemma flatten_segs ms : flatten msg (segs ms) = concat (map to_string ms).
Proof.
  destruct ms as [|m r]; [reflexivity|]. cbn [segs]. pose proof (flatten_segs_after r) as H. unfold flatten in *.
  cbn [map concat seg_text]. rewrite H. unfold to_string, print_doc, wire_text. rewrite <- !app_assoc. reflexivity.
Qed.

Lemma msgs_segs_after ms : msgs msg (segs_after ms) = map norm_msg ms.
Proof. induction ms as [|m r IH]; [reflexivity|]. cbn [segs_after msgs map]. now rewrite IH. Qed.

Lemma msgs_segs ms : msgs msg (segs ms) = map norm_msg ms.
Proof. destruct ms as [|m r]; [reflexivity|]. cbn [segs msgs map]. now rewrite msgs_segs_after. Qed.

Definition opener_freeb (X : str) : bool :=
  forallb (fun t => match find (LT :: t) X with None => true | Some _ => false end) live_tags.
Lemma opener_freeb_ok X : opener_freeb X = true -> opener_free live_tags X.
Proof.
  unfold opener_freeb. rewrite forallb_forall. intros H t Ht. specialize (H t Ht). destruct (find (LT :: t) X); [discriminate|reflexivity].
Qed.

Definition sendable thr (m : msg) : Prop := wfb live_registry m = true /\ printable m = true /\ fits thr m.

Lemma wf_segs_after thr ms : Forall (sendable thr) ms -> wf msg concrete_parse live_tags thr (segs_after ms).
Proof.
  induction 1 as [|m r (Hw & Hp & Hf) _ IH]; cbn [segs_after wf].
  - split; [apply opener_freeb_ok; vm_compute; reflexivity|auto].
  - split; [apply opener_freeb_ok; vm_compute; reflexivity|]. split; [exact I|]. split; [|exact IH].
    exact (printed_message_is_a_spelling thr m Hw Hp Hf).
Qed.

Lemma wf_segs thr ms : Forall (sendable thr) ms -> wf msg concrete_parse live_tags thr (segs ms).
Proof.
  intros H. destruct H as [|m r (Hw & Hp & Hf) Hr]; cbn [segs wf]; [exact I|].
  split; [apply opener_freeb_ok; vm_compute; reflexivity|]. split; [exact I|]. split; [|exact (wf_segs_after thr r Hr)].
  exact (printed_message_is_a_spelling thr m Hw Hp Hf).
Qed.

(* Whatever constructible messages are written with to_string one after the other, and however
   the bytes are cut into pieces: the buffer, with the concrete parser and the live tags, hands
   over exactly those messages (empty text = absent text), in order, and every call terminates. *)
Theorem every_stream_of_written_messages_is_read_back thr ms pieces :
  Forall (sendable thr) ms -> concat pieces = concat (map to_string ms) ->
  let '(outs, dfin) := feed msg concrete_parse live_tags thr [] pieces in
  Forall (fun om => fst om = Done) outs /\ deliveries msg outs = map norm_msg ms.
Proof.
  intros Hs E. rewrite <- flatten_segs in E.
  pose proof (framing_complete msg concrete_parse live_tags thr live_tags_clean concrete_parse_needs_opener pieces (segs ms) (wf_segs thr ms Hs) E) as F.
  destruct (feed msg concrete_parse live_tags thr [] pieces) as [outs dfin]. now rewrite msgs_segs in F.
Qed.

(* ... and promptly: after any number of pieces, every message whose last byte has arrived has been handed over *)
Theorem written_messages_are_delivered_promptly thr ms pieces u :
  Forall (sendable thr) ms -> concat pieces ++ u = concat (map to_string ms) ->
  let '(outs, dfin) := feed msg concrete_parse live_tags thr [] pieces in
  exists l', wf msg concrete_parse live_tags thr l' /\ dfin ++ u = flatten msg l' /\
             map norm_msg ms = deliveries msg outs ++ msgs msg l' /\ nothing_overdue msg l' dfin.
Proof.
  intros Hs E. rewrite <- flatten_segs in E.
  assert (O0 : nothing_overdue msg (segs ms) []).
  { destruct ms as [|m r]; cbn [segs nothing_overdue]; [exact I|]. left. cbn. lia. }
  pose proof (framing msg concrete_parse live_tags thr live_tags_clean concrete_parse_needs_opener pieces (segs ms) [] u (wf_segs thr ms Hs) E O0) as F.
  destruct (feed msg concrete_parse live_tags thr [] pieces) as [outs dfin]. destruct F as [_ F]. now rewrite msgs_segs in F.
Qed.

(* ---------- any spelling the parser accepts ---------- *)
(* The canonical text is one spelling among many (other quotes, blanks, entity forms, attribute orders).  What
   framing needs of a spelling does not depend on how it is written: ANY text that the concrete parser reads as
   message M, that begins with the opener of a registered tag and ends with '>', is a spelling of M. *)
Local Open Scope N_scope.

Definition closing_mode (m : mode) : bool :=
  match m with MSlash _ _ | MEndName _ | MEndWs _ => true | _ => false end.

(* the step that completes the document on a non-blank character leaves a mode in which a tag is being closed *)
Lemma epilog_entered_from_a_closing_mode s c :
  is_ws c = false -> md s <> MEpilog -> md (lex_step s c) = MEpilog -> closing_mode (md s) = true.
Proof.
  intros Hw Hn. unfold lex_step.
  destruct (md s) eqn:Em; cbn [closing_mode]; try reflexivity; try (intro H; exfalso; revert H);
    try rewrite Hw;
    repeat match goal with
           | |- context [if ?b then _ else _] => destruct b
           | |- context [match stack s with _ => _ end] => destruct (stack s)
           | |- context [match resolve_ref ?x with _ => _ end] => destruct (resolve_ref x)
           | |- context [match ?m with MProlog => _ | _ => _ end] => destruct m
           | |- context [match ?a with [] => _ | _ :: _ => _ end] => destruct a
           end;
    unfold emit_start;
    repeat match goal with
           | |- context [if ?b then _ else _] => destruct b
           | |- context [match stack s with _ => _ end] => destruct (stack s)
           end;
    cbn [md with_md st_err st_unsup]; try discriminate; try (rewrite Em; discriminate); try (intros _; contradiction).
Qed.

(* ... and '>' never leaves the lexer in such a mode *)
Lemma gt_leaves_no_closing_mode s : closing_mode (md (lex_step s 62)) = false.
Proof.
  unfold lex_step.
  destruct (md s) eqn:Em; cbn [closing_mode md]; try (rewrite Em; reflexivity);
    repeat match goal with
           | |- context [62 =? ?b] => let v := eval vm_compute in (62 =? b) in change (62 =? b) with v
           | |- context [is_ws 62] => change (is_ws 62) with false
           | |- context [is_name_char 62] => change (is_name_char 62) with false
           | |- context [is_name_start 62] => change (is_name_start 62) with false
           | |- context [is_xml_char 62] => change (is_xml_char 62) with true
           end;
    cbn [orb andb];
    repeat match goal with
           | |- context [if ?b then _ else _] => destruct b
           | |- context [match stack s with _ => _ end] => destruct (stack s)
           | |- context [match resolve_ref ?x with _ => _ end] => destruct (resolve_ref x)
           | |- context [match ?m with MProlog => _ | _ => _ end] => destruct m
           | |- context [match ?a with [] => _ | _ :: _ => _ end] => destruct a
           end;
    unfold emit_start;
    repeat match goal with
           | |- context [if ?b then _ else _] => destruct b
           | |- context [match stack s with _ => _ end] => destruct (stack s)
           end;
    cbn [md with_md st_err st_unsup closing_mode]; try reflexivity; try (rewrite Em; reflexivity).
Qed.

Lemma complete_text_does_not_end_in_two_gt (pre : str) :
  status (fold_left lex_step (pre ++ [62; 62]) Lex.init) <> 0.
Proof.
  intro H. change (fold_left lex_step (pre ++ [62; 62]) Lex.init) with (run Lex.init (pre ++ [62] ++ [62])) in H.
  rewrite app_assoc, run_app in H. cbn [run fold_left] in H.
  set (s1 := run Lex.init (pre ++ [62])) in *.
  assert (M : md (lex_step s1 62) = MEpilog) by (unfold status in H; destruct (md (lex_step s1 62)); try discriminate; reflexivity).
  assert (S1 : s1 = lex_step (run Lex.init pre) 62) by (unfold s1; rewrite run_app; reflexivity).
  pose proof (gt_leaves_no_closing_mode (run Lex.init pre)) as G. rewrite <- S1 in G.
  destruct (md s1) eqn:E1; cbn [closing_mode] in G; try discriminate;
    try (assert (C : closing_mode (md s1) = true) by (apply (epilog_entered_from_a_closing_mode s1 62 eq_refl); [rewrite E1; discriminate|exact M]);
         rewrite E1 in C; discriminate).
  (* md s1 = MEpilog: then '>' is an error *)
  unfold lex_step in M. rewrite E1 in M. change (is_ws 62) with false in M. cbn in M. discriminate.
Qed.

Local Close Scope N_scope.

Lemma live_tags_are_names : forallb (fun t => match t with [] => false | c :: _ => negb (N.eqb c 63) end) live_tags = true.
Proof. vm_compute. reflexivity. Qed.

Lemma last_two (m : str) : 2 <= length m -> exists pre a b, m = pre ++ [a; b].
Proof.
  intro H. assert (Hn : m <> []) by (intros ->; cbn in H; lia).
  destruct (exists_last Hn) as (m1 & b & ->). rewrite app_length in H. cbn [length] in H.
  assert (Hn1 : m1 <> []) by (intros ->; cbn in H; lia).
  destruct (exists_last Hn1) as (pre & a & ->).
  exists pre, a, b. now rewrite <- app_assoc.
Qed.

Theorem accepted_text_is_a_spelling thr (m : str) (M : msg) tag rest :
  concrete_parse m = PMsg M ->
  In tag live_tags -> m = LT :: tag ++ rest ->
  nth (length m - 1) m 0%N = GT ->
  (forall t, thr = Some t -> length m <= t) ->
  spelling msg concrete_parse live_tags thr M m.
Proof.
  intros HP Htag Hm Hlast Hfit.
  (* the tag is a name: the text does not begin with a declaration, nor does any of its prefixes *)
  pose proof live_tags_are_names as LN. rewrite forallb_forall in LN. specialize (LN tag Htag).
  destruct tag as [|c0 tr]; [discriminate|]. apply negb_true_iff in LN.
  assert (Hm' : m = 60%N :: c0 :: (tr ++ rest)) by (rewrite Hm; reflexivity).
  (* the lexer accepts the whole text *)
  assert (St : status (fold_left lex_step m Lex.init) = 0%N).
  { unfold concrete_parse, Lex.parse in HP. rewrite Hm' in HP. rewrite (strip_decl_elem c0 _ LN) in HP. rewrite <- Hm' in HP.
    unfold Lex.lex in HP. destruct (status (fold_left lex_step m Lex.init)) eqn:E; [reflexivity|].
    cbn in HP. discriminate. }
  assert (Len : 2 <= length m) by (rewrite Hm'; cbn [length]; lia).
  destruct (last_two m Len) as (pre & a & b & Hab).
  assert (Hb : b = 62%N).
  { rewrite Hab in Hlast. rewrite app_length in Hlast. cbn [length] in Hlast.
    replace (length pre + 2 - 1) with (length pre + 1) in Hlast by lia. rewrite app_nth2_plus in Hlast. exact Hlast. }
  subst b.
  assert (Ha : a <> 62%N).
  { intros ->. rewrite Hab in St. exact (complete_text_does_not_end_in_two_gt pre St). }
  constructor.
  - exact HP.
  - intros k Hk.
    assert (Hsd : strip_decl (firstn k m) = firstn k m).
    { rewrite Hm'. destruct (firstn_elem k c0 (tr ++ rest) ltac:(lia)) as [->|[r ->]]; [reflexivity|]. exact (strip_decl_elem c0 r LN). }
    assert (Hsplit : m = firstn k m ++ skipn k (pre ++ [a]) ++ [62%N]).
    { rewrite Hab at 1. change [a; 62%N] with ([a] ++ [62%N]). rewrite app_assoc.
      assert (Hkb : k <= length (pre ++ [a])).
      { rewrite Hab in Hk. rewrite !app_length in *. cbn [length] in *. lia. }
      rewrite Hab. change [a; 62%N] with ([a] ++ [62%N]). rewrite (app_assoc pre [a]).
      rewrite firstn_app. replace (k - length (pre ++ [a])) with 0 by lia. rewrite firstn_O, app_nil_r.
      rewrite app_assoc, firstn_skipn. reflexivity. }
    rewrite Hsplit in St.
    pose proof (no_proper_prefix_is_complete (firstn k m) (skipn k (pre ++ [a])) 62%N eq_refl St) as Np.
    unfold concrete_parse, Lex.parse. rewrite Hsd. unfold Lex.lex.
    destruct (status (fold_left lex_step (firstn k m) Lex.init)) eqn:E; [contradiction|]. reflexivity.
  - rewrite Hm. exact (opener_at_0 live_tags (c0 :: tr) rest Htag).
  - rewrite Hab. exact (ends_spec pre a Ha).
  - exact Hfit.
Qed.

(* the same with nothing said about the tag: a text that begins with '<' and anything but '?', is read as a
   message and ends with '>' begins with a registered tag (Xml/FirstTag.v), hence is a spelling *)
Lemma registered_root_tag t M : msg_from_xml live_registry t = Some M -> In (tree_tag t) live_tags.
Proof.
  intro Em. destruct (msg_from_xml_tag _ _ _ Em) as [c Fc].
  assert (Hb : reg_ok_buffer live_registry = true) by (vm_compute; reflexivity).
  unfold reg_ok_buffer in Hb. apply andb_prop in Hb as [Hb _]. apply (list_eqb_spec str_eqb str_eqb_spec) in Hb. rewrite Hb.
  unfold find_mclass in Fc. pose proof (find_last_in _ _ _ Fc) as Hin. pose proof (find_last_pred _ _ _ Fc) as Hp. cbn in Hp.
  apply str_eqb_spec in Hp. rewrite <- Hp. apply in_map. exact Hin.
Qed.

Lemma accepted_element_begins_with_a_registered_tag (m : str) (M : msg) c r :
  concrete_parse m = PMsg M -> m = LT :: c :: r -> c <> 63%N ->
  exists tag rest, In tag live_tags /\ m = LT :: tag ++ rest.
Proof.
  intros HP Hm Hc. apply N.eqb_neq in Hc.
  assert (Hm' : m = 60%N :: c :: r) by (rewrite Hm; reflexivity).
  unfold concrete_parse, Lex.parse in HP. rewrite Hm' in HP. rewrite (strip_decl_elem c r Hc) in HP.
  destruct (status (Lex.lex (60%N :: c :: r))) eqn:St; [|cbn in HP; discriminate].
  cbn [N.eqb] in HP.
  destruct (build (rev (toks (Lex.lex (60%N :: c :: r)))) []) as [t|] eqn:Hb; [|discriminate].
  destruct (msg_from_xml live_registry t) as [M'|] eqn:Em; [|discriminate].
  destruct (document_begins_with_its_root_tag (c :: r) t St Hb) as [rest E].
  exists (tree_tag t), rest. split; [exact (registered_root_tag t M' Em)|]. rewrite Hm', E. reflexivity.
Qed.

Theorem accepted_element_text_is_a_spelling thr (m : str) (M : msg) c r :
  concrete_parse m = PMsg M -> m = LT :: c :: r -> c <> 63%N ->
  nth (length m - 1) m 0%N = GT ->
  (forall t, thr = Some t -> length m <= t) ->
  spelling msg concrete_parse live_tags thr M m.
Proof.
  intros HP Hm Hc Hlast Hfit.
  destruct (accepted_element_begins_with_a_registered_tag m M c r HP Hm Hc) as (tag & rest & Htag & E).
  exact (accepted_text_is_a_spelling thr m M tag rest HP Htag E Hlast Hfit).
Qed.

(* a stream of such texts with junk between them *)
Definition accepted_spelling (thr : option nat) (M : msg) (m : str) : Prop :=
  concrete_parse m = PMsg M /\
  (exists tag rest, In tag live_tags /\ m = LT :: tag ++ rest) /\
  nth (length m - 1) m 0%N = GT /\
  (forall t, thr = Some t -> length m <= t).

Fixpoint stream_ok (thr : option nat) (l : list (seg msg)) : Prop :=
  match l with
  | [] => True
  | SJunk _ J :: r => opener_free live_tags J /\ (match r with SJunk _ _ :: _ => False | _ => True end) /\ stream_ok thr r
  | SMsg _ M m :: r => accepted_spelling thr M m /\ stream_ok thr r
  end.

Lemma stream_ok_wf thr l : stream_ok thr l -> wf msg concrete_parse live_tags thr l.
Proof.
  induction l as [|[J|M m] l IH]; cbn [stream_ok wf]; [auto| |].
  - intros (A & B & C). split; [exact A|split; [exact B|exact (IH C)]].
  - intros ((P & (tag & rest & Ht & Hm) & Hl & Hf) & C). split; [|exact (IH C)].
    exact (accepted_text_is_a_spelling thr m M tag rest P Ht Hm Hl Hf).
Qed.

(* C02 for the concrete parser, whatever the spelling: messages as ANY texts the parser accepts (beginning with
   their opener, ending with '>', within the threshold), any junk free of openers between them, any pieces *)
Theorem any_accepted_stream_is_framed thr pieces l :
  stream_ok thr l -> concat pieces = flatten msg l ->
  let '(outs, dfin) := feed msg concrete_parse live_tags thr [] pieces in
  Forall (fun om => fst om = Done) outs /\ deliveries msg outs = msgs msg l.
Proof.
  intros Hs E.
  exact (framing_complete msg concrete_parse live_tags thr live_tags_clean concrete_parse_needs_opener pieces l (stream_ok_wf thr l Hs) E).
Qed.

Theorem any_accepted_stream_is_framed_promptly thr pieces l u :
  stream_ok thr l -> concat pieces ++ u = flatten msg l -> nothing_overdue msg l [] ->
  let '(outs, dfin) := feed msg concrete_parse live_tags thr [] pieces in
  exists l', wf msg concrete_parse live_tags thr l' /\ dfin ++ u = flatten msg l' /\
             msgs msg l = deliveries msg outs ++ msgs msg l' /\ nothing_overdue msg l' dfin.
Proof.
  intros Hs E O.
  pose proof (framing msg concrete_parse live_tags thr live_tags_clean concrete_parse_needs_opener pieces l [] u (stream_ok_wf thr l Hs) E O) as F.
  destruct (feed msg concrete_parse live_tags thr [] pieces) as [outs dfin]. exact (proj2 F).
Qed.

(* several connections served by one process: the connection whose own pieces cut an accepted stream is framed as
   if it were alone, whatever arrives on the others, in whatever order, and wherever their streams end *)
Theorem each_connection_is_framed_whatever_the_others_receive (thr : nat -> option nat) arr l c :
  stream_ok (thr c) l -> List.concat (of_conn c arr) = flatten msg l ->
  let outs := of_conn c (fst (serve msg concrete_parse live_tags thr (fun _ => []) arr)) in
  Forall (fun om => fst om = Done) outs /\ deliveries msg outs = msgs msg l.
Proof.
  intros Hs E. cbv zeta.
  rewrite (proj1 (serve_isolates msg concrete_parse live_tags thr arr (fun _ => []) c)).
  cbv beta.
  pose proof (any_accepted_stream_is_framed (thr c) (of_conn c arr) l Hs E) as H.
  unfold str in *.
  destruct (feed msg concrete_parse live_tags (thr c) [] (of_conn c arr)) as [outs dfin]. exact H.
Qed.
