(* C11, second half: junk that contains no known-tag opener is skipped without
   effect, and a corrupt front is abandoned once more than the threshold has
   arrived.  Generic in the parser (one fact about it is assumed where needed and
   discharged for the concrete parser elsewhere). *)
From Coq Require Import List NArith Bool Arith Lia.
Import ListNotations.
From Indi Require Import Base.Sx Buffer.Model Buffer.Props.

(* ---------- occurrences ---------- *)
Lemma prefixb_app_l p : forall s t, prefixb p s = true -> prefixb p (s ++ t) = true.
Proof.
  induction p as [|a p IH]; intros s t; simpl; [reflexivity|].
  destruct s as [|b s]; [discriminate|]. simpl. intros H. apply andb_prop in H as [H1 H2].
  rewrite H1. simpl. now apply IH.
Qed.

(* find p s = Some k: p occurs at k and nowhere before *)
Lemma find_spec p s :
  match find p s with
  | Some k => prefixb p (skipn k s) = true /\ forall j, j < k -> prefixb p (skipn j s) = false
  | None => forall j, prefixb p (skipn j s) = false \/ p = []
  end.
Proof.
  induction s as [|a s IH]; cbn [find].
  - destruct (prefixb p []) eqn:E.
    + split; [exact E|intros j Hj; lia].
    + intros j. left. now rewrite skipn_nil.
  - destruct (prefixb p (a :: s)) eqn:E.
    + split; [exact E|intros j Hj; lia].
    + destruct (find p s) as [k|]; simpl.
      * destruct IH as [I1 I2]. split; [exact I1|]. intros [|j] Hj; [exact E|]. simpl. apply I2. lia.
      * intros [|j]; [left; exact E|]. simpl. apply IH.
Qed.

Lemma find_none_iff p s : p <> [] -> (find p s = None <-> forall j, prefixb p (skipn j s) = false).
Proof.
  intros Hp. pose proof (find_spec p s) as H. destruct (find p s) as [k|].
  - split; [discriminate|]. intros Hall. destruct H as [H _]. rewrite Hall in H. discriminate.
  - split; [|reflexivity]. intros _ j. destruct (H j); [assumption|contradiction].
Qed.

Lemma tl_skipn {A} (l : list A) : forall i, tl (skipn i l) = skipn (S i) l.
Proof.
  induction l as [|a l IH]; intros i.
  - now rewrite !skipn_nil.
  - destruct i as [|i]; [reflexivity|]. rewrite !skipn_cons. apply IH.
Qed.

Lemma opener_ne t : LT :: t <> [].
Proof. discriminate. Qed.

Lemma find_first p s n :
  prefixb p (skipn n s) = true -> exists k, k <= n /\ find p s = Some k.
Proof.
  intros H. destruct p as [|a p]; [exists 0; split; [lia|destruct s; reflexivity]|].
  pose proof (find_spec (a :: p) s) as F. destruct (find (a :: p) s) as [k|].
  - exists k. split; [|reflexivity]. destruct F as [_ F].
    destruct (Nat.le_gt_cases k n); [assumption|]. rewrite F in H by assumption. discriminate.
  - destruct (F n) as [F'|F']; [rewrite F' in H; discriminate|discriminate].
Qed.

(* an opener "<tag" with no second '<' cannot straddle the start of a text that begins with '<' *)
Lemma no_straddle t r y' :
  ~ In LT t -> r <> [] -> prefixb (LT :: t) (r ++ LT :: y') = true -> prefixb (LT :: t) r = true.
Proof.
  intros Hn Hr. destruct r as [|c r]; [contradiction|]. clear Hr. simpl.
  intros H. apply andb_prop in H as [Hc H]. rewrite Hc. simpl.
  revert r H. induction t as [|x t IH]; intros r H; [reflexivity|].
  destruct r as [|d r]; simpl in *.
  - apply andb_prop in H as [Hx _]. apply N.eqb_eq in Hx. exfalso. apply Hn. left. now subst.
  - apply andb_prop in H as [Hx H]. rewrite Hx. simpl. apply IH; [|exact H].
    intros Hin. apply Hn. now right.
Qed.

Lemma find_app_clean t X y' :
  ~ In LT t -> find (LT :: t) X = None ->
  find (LT :: t) (X ++ LT :: y') = option_map (Nat.add (length X)) (find (LT :: t) (LT :: y')).
Proof.
  intros Hn. remember (find (LT :: t) (LT :: y')) as fy eqn:Hfy.
  induction X as [|a X IH]; intros HX.
  - simpl app. rewrite <- Hfy. destruct fy; reflexivity.
  - cbn [find] in HX. destruct (prefixb (LT :: t) (a :: X)) eqn:E; [discriminate|].
    destruct (find (LT :: t) X) eqn:FX; [discriminate|].
    cbn [app find].
    destruct (prefixb (LT :: t) (a :: X ++ LT :: y')) eqn:E2.
    + exfalso. change (a :: X ++ LT :: y') with ((a :: X) ++ LT :: y') in E2.
      apply no_straddle in E2; [congruence|assumption|discriminate].
    + rewrite IH by reflexivity. destruct fy; reflexivity.
Qed.

Lemma rfind1_app c X y :
  rfind1 c (X ++ y) = match rfind1 c y with
                      | Some j => Some (length X + j)
                      | None => rfind1 c X
                      end.
Proof.
  induction X as [|a X IH]; simpl.
  - destruct (rfind1 c y); reflexivity.
  - rewrite IH. destruct (rfind1 c y); [reflexivity|]. reflexivity.
Qed.

Section Junk.
Variable msg : Type.
Variable parse : str -> pres msg.
Variable tags : list str.

Notation cleanup := (cleanup tags).
Notation first_opener := (first_opener tags).
Notation process := (process msg parse tags).
Notation process_loop := (process_loop msg parse tags).
Notation find_message := (find_message msg parse).

Definition tags_clean : Prop := forall t, In t tags -> ~ In LT t.
Definition opener_free (X : str) : Prop := forall t, In t tags -> find (LT :: t) X = None.

Lemma omin_shift n a b :
  omin (option_map (Nat.add n) a) (option_map (Nat.add n) b) = option_map (Nat.add n) (omin a b).
Proof. destruct a, b; simpl; try reflexivity. f_equal. lia. Qed.

Lemma first_opener_app_clean X y' :
  tags_clean -> opener_free X ->
  first_opener (X ++ LT :: y') = option_map (Nat.add (length X)) (first_opener (LT :: y')).
Proof.
  intros Hc Hf. unfold Model.first_opener.
  assert (forall acc,
    fold_left (fun a t => omin a (find (LT :: t) (X ++ LT :: y'))) tags (option_map (Nat.add (length X)) acc) =
    option_map (Nat.add (length X)) (fold_left (fun a t => omin a (find (LT :: t) (LT :: y'))) tags acc)) as H.
  { unfold tags_clean, opener_free in *. induction tags as [|t ts IH]; intros acc; simpl; [reflexivity|].
    rewrite find_app_clean by (auto with datatypes).
    rewrite omin_shift. apply IH; intros; auto with datatypes. }
  exact (H None).
Qed.

(* L: junk in front of a text that starts with '<' is invisible to clean-up *)
Theorem cleanup_skips_junk X y' :
  tags_clean -> opener_free X -> cleanup (X ++ LT :: y') = cleanup (LT :: y').
Proof.
  intros Hc Hf. unfold Model.cleanup. rewrite first_opener_app_clean by assumption.
  destruct (first_opener (LT :: y')) as [k|]; cbn [option_map].
  - rewrite skipn_app. rewrite skipn_all2 by lia. cbn [app].
    replace (length X + k - length X) with k by lia. reflexivity.
  - rewrite rfind1_app.
    assert (exists j, rfind1 LT (LT :: y') = Some j) as [j Hj].
    { simpl. destruct (rfind1 LT y'); eauto. }
    rewrite Hj. rewrite skipn_app. rewrite skipn_all2 by lia. cbn [app].
    replace (length X + j - length X) with j by lia. reflexivity.
Qed.

(* hence a whole process() call does not see it: no effect on what is delivered,
   when, or on what is retained *)
Theorem junk_prefix_transparent thr X y' :
  tags_clean -> opener_free X -> process thr (X ++ LT :: y') = process thr (LT :: y').
Proof. intros Hc Hf. unfold Model.process. now rewrite cleanup_skips_junk. Qed.

(* opener-freeness passes to suffixes *)
Lemma opener_free_suffix X s : opener_free X -> suffix s X -> opener_free s.
Proof.
  intros Hf [k ->] t Ht. specialize (Hf t Ht).
  apply (proj2 (find_none_iff _ _ (opener_ne t))). intros j.
  rewrite (find_none_iff _ _ (opener_ne t)) in Hf. rewrite skipn_skipn. apply Hf.
Qed.

(* the parser fact: a text accepted as a message contains a known-tag opener
   (its root element's tag is a registered message tag) *)
Definition parse_needs_opener : Prop :=
  forall s m, parse s = PMsg m -> exists t, In t tags /\ find (LT :: t) s <> None.

Lemma find_firstn_none p s e : p <> [] -> find p s = None -> find p (firstn e s) = None.
Proof.
  intros Hp H. apply (proj2 (find_none_iff _ _ Hp)). intros j.
  rewrite (find_none_iff _ _ Hp) in H. specialize (H j).
  destruct (prefixb p (skipn j (firstn e s))) eqn:E; [|reflexivity].
  rewrite <- (firstn_skipn e s) in H.
  destruct (Nat.le_gt_cases j (length (firstn e s))) as [Hj|Hj].
  - rewrite skipn_app in H. replace (j - length (firstn e s)) with 0 in H by lia. simpl in H.
    rewrite (prefixb_app_l _ _ _ E) in H. discriminate.
  - rewrite skipn_all2 in E by lia. destruct p; [contradiction|discriminate].
Qed.

Lemma process_loop_silent fuel thr : forall d acc,
  parse_needs_opener -> opener_free d ->
  snd (process_loop fuel thr d acc) = acc.
Proof.
  induction fuel as [|f IH]; intros d acc Hp Hf; [reflexivity|]. cbn [Model.process_loop].
  destruct d as [|c d0]; [reflexivity|]. set (d := c :: d0) in *.
  pose proof (find_message_spec msg parse d) as Hs.
  destruct (find_message d) as [|e|m e].
  - destruct thr as [t|]; [|reflexivity]. destruct (Nat.ltb t (length d)); [|reflexivity].
    apply IH; [assumption|]. eapply opener_free_suffix; [exact Hf|apply cleanup_beginning_suffix].
  - apply IH; [assumption|]. eapply opener_free_suffix; [exact Hf|].
    eapply suffix_trans; [apply cleanup_suffix|apply suffix_skipn].
  - exfalso. destruct Hs as [_ Hs]. destruct (Hp _ _ Hs) as [t [Ht Hne]].
    apply Hne. apply find_firstn_none; [apply opener_ne|]. now apply Hf.
Qed.

(* junk alone never produces a delivery, and what it leaves behind is junk again *)
Theorem junk_only_silent thr X :
  parse_needs_opener -> opener_free X ->
  snd (process thr X) = [] /\ opener_free (snd (fst (process thr X))).
Proof.
  intros Hp Hf. pose proof (process_spec msg parse tags thr X) as Sp.
  unfold Model.process in *.
  assert (opener_free (cleanup X)) as Hc by (eapply opener_free_suffix; [exact Hf|apply cleanup_suffix]).
  pose proof (process_loop_silent (S (length (cleanup X))) thr (cleanup X) [] Hp Hc) as Hs.
  destruct (process_loop (S (length (cleanup X))) thr (cleanup X) []) as [[o d'] acc].
  simpl in *. subst acc. split; [reflexivity|].
  destruct Sp as [_ [S2 _]]. exact (opener_free_suffix X d' Hf S2).
Qed.

(* ---------- recovery after a corrupt front ---------- *)

Lemma process_loop_fuel f1 : forall f2 thr d acc,
  length d < f1 -> length d < f2 -> process_loop f1 thr d acc = process_loop f2 thr d acc.
Proof.
  induction f1 as [|f1 IH]; intros f2 thr d acc H1 H2; [lia|].
  destruct f2 as [|f2]; [lia|]. cbn [Model.process_loop].
  destruct d as [|c d0]; [reflexivity|]. set (d := c :: d0) in *.
  pose proof (find_message_spec msg parse d) as Hs.
  destruct (find_message d) as [|e|m e].
  - destruct thr as [t|]; [|reflexivity]. destruct (Nat.ltb t (length d)); [|reflexivity].
    pose proof (suffix_length _ _ (cleanup_beginning_suffix tags d)) as Hl.
    assert (length (Model.cleanup_beginning tags d) < length d).
    { unfold Model.cleanup_beginning. pose proof (cleanup_len tags (tl d)). unfold d in *. cbn [tl length] in *. lia. }
    apply IH; lia.
  - destruct Hs as [He _]. pose proof (cleanup_len tags (skipn e d)) as Hl. rewrite skipn_length in Hl.
    apply IH; lia.
  - destruct Hs as [He _]. pose proof (cleanup_len tags (skipn e d)) as Hl. rewrite skipn_length in Hl.
    apply IH; lia.
Qed.

(* the front at offset i of c ++ s yields nothing: no message parses from there,
   and an element that is skipped ends inside c *)
Definition front_dead (c s : str) (i : nat) : Prop :=
  match find_message (skipn i (c ++ s)) with
  | FNone => True
  | FSkip e => i + e <= length c
  | FFound _ _ => False
  end.
Definition corrupt (c s : str) : Prop := forall i, i < length c -> front_dead c s i.

(* decidable form, evaluated by the runner on generated truncations *)
Definition front_deadb (c s : str) (i : nat) : bool :=
  match find_message (skipn i (c ++ s)) with
  | FNone => true
  | FSkip e => Nat.leb (i + e) (length c)
  | FFound _ _ => false
  end.
Definition corruptb (c s : str) : bool := forallb (front_deadb c s) (seq 0 (length c)).

Lemma corruptb_corrupt c s : corruptb c s = true -> corrupt c s.
Proof.
  unfold corruptb, corrupt. rewrite forallb_forall. intros H i Hi.
  specialize (H i). rewrite in_seq in H. specialize (H ltac:(lia)).
  unfold front_deadb, front_dead in *. destruct (find_message (skipn i (c ++ s))); auto.
  - now apply Nat.leb_le.
  - discriminate.
Qed.

Definition starts_with_opener (s : str) : Prop := first_opener s = Some 0.

Lemma fold_omin_some0 d : forall ts acc,
  fold_left (fun a t => omin a (find (LT :: t) d)) ts acc = Some 0 ->
  acc = Some 0 \/ exists t, In t ts /\ find (LT :: t) d = Some 0.
Proof.
  induction ts as [|t ts IH]; intros acc H; simpl in *; [now left|].
  destruct (IH _ H) as [Hacc|[t' [Ht' Hf']]].
  - destruct acc as [a|], (find (LT :: t) d) as [k|] eqn:Fk; simpl in Hacc.
    + injection Hacc as Hm. destruct (Nat.min_dec a k) as [E|E]; rewrite E in Hm.
      * left. now subst.
      * right. exists t. split; [now left|]. now subst.
    + now left.
    + right. exists t. split; [now left|]. now injection Hacc as ->.
    + discriminate.
  - right. exists t'. split; [now right|assumption].
Qed.

Lemma fold_omin_keep d n : forall ts acc m0,
  acc = Some m0 -> m0 <= n ->
  exists m, m <= n /\ fold_left (fun a t => omin a (find (LT :: t) d)) ts acc = Some m.
Proof.
  induction ts as [|t ts IH]; intros acc m0 -> Hm0; simpl; [eauto|].
  destruct (find (LT :: t) d) as [k|]; simpl.
  - apply (IH _ (Nat.min m0 k)); [reflexivity|lia].
  - apply (IH _ m0); [reflexivity|assumption].
Qed.

Lemma fold_omin_le d n t k : forall ts acc,
  In t ts -> find (LT :: t) d = Some k -> k <= n ->
  exists m, m <= n /\ fold_left (fun a t' => omin a (find (LT :: t') d)) ts acc = Some m.
Proof.
  induction ts as [|t' ts IH]; intros acc Hin Fk Hk; [contradiction|]. simpl.
  destruct Hin as [->|Hin].
  - rewrite Fk. destruct acc as [a|]; simpl.
    + apply (fold_omin_keep d n ts _ (Nat.min a k)); [reflexivity|lia].
    + apply (fold_omin_keep d n ts _ k); [reflexivity|assumption].
  - now apply IH.
Qed.

Lemma first_opener_le X s :
  starts_with_opener s -> exists k, k <= length X /\ first_opener (X ++ s) = Some k.
Proof.
  unfold starts_with_opener, Model.first_opener. intros H.
  destruct (fold_omin_some0 s tags None H) as [E|[t [Ht Ft]]]; [discriminate|].
  pose proof (find_spec (LT :: t) s) as Fs. rewrite Ft in Fs. destruct Fs as [Hpre _]. simpl in Hpre.
  assert (prefixb (LT :: t) (skipn (length X) (X ++ s)) = true) as Hocc.
  { rewrite skipn_app, skipn_all, Nat.sub_diag. exact Hpre. }
  destruct (find_first _ _ _ Hocc) as [k [Hk Fk]].
  exact (fold_omin_le (X ++ s) (length X) t k tags None Ht Fk Hk).
Qed.

Theorem recovery thr_t c s :
  corrupt c s -> starts_with_opener s -> thr_t < length s ->
  forall n i acc, length c - i <= n -> i <= length c ->
  forall f1 f2, length (skipn i (c ++ s)) < f1 -> length s < f2 ->
  (i = length c \/ front_dead c s i) ->
  process_loop f1 (Some thr_t) (skipn i (c ++ s)) acc = process_loop f2 (Some thr_t) s acc.
Proof.
  intros Hcor Hop Hlen. induction n as [|n IH]; intros i acc Hn Hi f1 f2 Hf1 Hf2 Hfront.
  - assert (i = length c) as -> by lia. rewrite skipn_app, skipn_all, Nat.sub_diag. simpl.
    rewrite skipn_app, skipn_all, Nat.sub_diag in Hf1. simpl in Hf1. now apply process_loop_fuel.
  - destruct (Nat.eq_dec i (length c)) as [->|Hne].
    { rewrite skipn_app, skipn_all, Nat.sub_diag. simpl.
      rewrite skipn_app, skipn_all, Nat.sub_diag in Hf1. simpl in Hf1. now apply process_loop_fuel. }
    destruct Hfront as [E|Hfront]; [contradiction|].
    assert (i < length c) as Hilt by lia.
    set (d := skipn i (c ++ s)) in *.
    assert (length d = length c - i + length s) as Hdl.
    { unfold d. rewrite skipn_length, app_length. lia. }
    destruct f1 as [|f1]; [lia|]. cbn [Model.process_loop].
    destruct d as [|x d0] eqn:Ed; [simpl in Hdl; lia|]. rewrite <- Ed in *.
    unfold front_dead in Hfront. fold d in Hfront.
    (* where the front lands next: cleanup (skipn j (c ++ s)) with i < j <= |c| *)
    assert (forall j, i < j -> j <= length c ->
              exists j', j <= j' /\ j' <= length c /\ cleanup (skipn j (c ++ s)) = skipn j' (c ++ s)) as Hland.
    { intros j Hij Hjc. rewrite skipn_app. replace (j - length c) with 0 by lia. simpl.
      destruct (first_opener_le (skipn j c) s Hop) as [k [Hk Fk]]. rewrite skipn_length in Hk.
      unfold Model.cleanup. rewrite Fk. exists (j + k). split; [lia|]. split; [lia|].
      rewrite <- skipn_skipn. rewrite (skipn_app j). replace (j - length c) with 0 by lia. reflexivity. }
    destruct (find_message d) as [|e|m e] eqn:Fm; [| |contradiction].
    + assert (Nat.ltb thr_t (length d) = true) as -> by (apply Nat.ltb_lt; lia).
      unfold Model.cleanup_beginning.
      assert (tl d = skipn (S i) (c ++ s)) as -> by (unfold d; apply tl_skipn).
      destruct (Hland (S i) ltac:(lia) ltac:(lia)) as [j' [H1 [H2 ->]]].
      apply IH; try lia.
      * rewrite skipn_length, app_length. rewrite Hdl in Hf1. lia.
      * destruct (Nat.eq_dec j' (length c)); [now left|right]. apply Hcor. lia.
    + pose proof (find_message_spec msg parse d) as Hs. rewrite Fm in Hs. destruct Hs as [He _].
      assert (skipn e d = skipn (i + e) (c ++ s)) as -> by (unfold d; now rewrite skipn_skipn).
      destruct (Hland (i + e) ltac:(lia) Hfront) as [j' [H1 [H2 ->]]].
      apply IH; try lia.
      * rewrite skipn_length, app_length. rewrite Hdl in Hf1. lia.
      * destruct (Nat.eq_dec j' (length c)); [now left|right]. apply Hcor. lia.
Qed.

Theorem recovery_from_start t c s acc f1 f2 :
  corrupt c s -> starts_with_opener s -> t < length s ->
  length (c ++ s) < f1 -> length s < f2 ->
  process_loop f1 (Some t) (c ++ s) acc = process_loop f2 (Some t) s acc.
Proof.
  intros Hc Ho Hl H1 H2.
  apply (recovery t c s Hc Ho Hl (length c) 0 acc); try lia; try assumption.
  destruct c as [|x c']; [now left|right]. apply Hc. simpl. lia.
Qed.
End Junk.
