(* C11: what holds of the receive buffer for ANY parser (hence for expat +
   the message classes, whatever they do) and any input text. *)
From Coq Require Import List NArith Bool Arith Lia.
Import ListNotations.
From Indi Require Import Base.Sx Buffer.Model.

Section Generic.
Variable msg : Type.
Variable parse : str -> pres msg.
Variable tags : list str.

Notation cleanup := (cleanup tags).
Notation cleanup_beginning := (cleanup_beginning tags).
Notation find_message := (find_message msg parse).
Notation process_loop := (process_loop msg parse tags).
Notation process := (process msg parse tags).
Notation feed := (feed msg parse tags).

(* ---------- suffixes ---------- *)
Lemma skipn_skipn {A} (x y : nat) (l : list A) : skipn x (skipn y l) = skipn (y + x) l.
Proof.
  revert l. induction y as [|y IH]; intros l; simpl; [reflexivity|].
  destruct l as [|a l]; [now rewrite skipn_nil|]. apply IH.
Qed.

Definition suffix (s d : str) : Prop := exists k, s = skipn k d.

Lemma suffix_refl d : suffix d d.
Proof. exists 0. reflexivity. Qed.

Lemma suffix_skipn k d : suffix (skipn k d) d.
Proof. now exists k. Qed.

Lemma suffix_trans a b c : suffix a b -> suffix b c -> suffix a c.
Proof. intros [i ->] [j ->]. exists (j + i). now rewrite skipn_skipn. Qed.

Lemma suffix_nil d : suffix [] d.
Proof. exists (length d). now rewrite skipn_all. Qed.

Lemma suffix_tl d : suffix (tl d) d.
Proof. exists 1. destruct d; reflexivity. Qed.

Lemma suffix_length s d : suffix s d -> length s <= length d.
Proof. intros [k ->]. rewrite skipn_length. lia. Qed.

Lemma suffix_app s d p : suffix s d -> suffix (s ++ p) (d ++ p).
Proof.
  intros [k ->]. destruct (Nat.le_gt_cases k (length d)) as [H|H].
  - exists k. rewrite skipn_app. replace (k - length d) with 0 by lia. reflexivity.
  - rewrite skipn_all2 by lia. simpl. exists (length d). rewrite skipn_app, skipn_all, Nat.sub_diag. reflexivity.
Qed.

Lemma cleanup_suffix d : suffix (cleanup d) d.
Proof.
  unfold Model.cleanup. destruct (first_opener tags d); [apply suffix_skipn|].
  destruct (rfind1 LT d); [apply suffix_skipn|apply suffix_nil].
Qed.

Lemma cleanup_len d : length (cleanup d) <= length d.
Proof. apply suffix_length, cleanup_suffix. Qed.

Lemma cleanup_beginning_suffix d : suffix (cleanup_beginning d) d.
Proof. unfold Model.cleanup_beginning. eapply suffix_trans; [apply cleanup_suffix|apply suffix_tl]. Qed.

(* ---------- find ---------- *)
Lemma prefixb_len p : forall l, prefixb p l = true -> length p <= length l.
Proof.
  induction p as [|x p IHp]; intros l; simpl; [lia|].
  destruct l; [discriminate|]. intros H. apply andb_prop in H as [_ H]. apply IHp in H. simpl. lia.
Qed.

Lemma find_some_lt p s k : find p s = Some k -> k + length p <= length s.
Proof.
  revert k. induction s as [|a s IH]; intros k.
  - cbn [find]. destruct (prefixb p []) eqn:E; [|discriminate]. intros [= <-]. apply prefixb_len in E. simpl in *. lia.
  - cbn [find]. destruct (prefixb p (a :: s)) eqn:E.
    + intros [= <-]. apply prefixb_len in E. lia.
    + destruct (find p s) eqn:F; simpl; [|discriminate]. intros [= <-]. specialize (IH _ eq_refl). simpl. lia.
Qed.

Lemma find_message_loop_spec fuel data : forall e,
  match find_message_loop msg parse fuel data e with
  | FFound m e' => e < e' <= length data /\ parse (firstn e' data) = PMsg m
  | FSkip e' => e < e' <= length data /\ parse (firstn e' data) = PInvalid
  | FNone => True
  end.
Proof.
  induction fuel as [|f IH]; intros e; cbn [find_message_loop]; [exact I|].
  destruct (Nat.ltb (S e) (length data)) eqn:L; [|exact I].
  destruct (find [GT] (skipn e data)) as [k|] eqn:F; [|exact I].
  apply find_some_lt in F. rewrite skipn_length in F. cbn [length] in F.
  destruct (parse (firstn (S (e + k)) data)) eqn:P.
  - specialize (IH (S (e + k))). destruct (find_message_loop msg parse f data (S (e + k))); auto.
    + destruct IH as [I1 I2]. split; [lia|assumption].
    + destruct IH as [I1 I2]. split; [lia|assumption].
  - split; [lia|assumption].
  - split; [lia|assumption].
Qed.

Lemma find_message_spec data :
  match find_message data with
  | FFound m e => 0 < e <= length data /\ parse (firstn e data) = PMsg m
  | FSkip e => 0 < e <= length data /\ parse (firstn e data) = PInvalid
  | FNone => True
  end.
Proof. unfold Model.find_message. apply (find_message_loop_spec (S (length data)) data 0). Qed.

(* ---------- one process() call ---------- *)

(* everything the loop does, as an invariant-carrying statement:
   it terminates within its fuel, the data left is a suffix of the data it
   started from, under a threshold at most that long, and every message handed
   over was parsed from a contiguous piece of that data *)
Definition genuine (d : str) (m : msg) : Prop :=
  exists i e, parse (firstn e (skipn i d)) = PMsg m.

Lemma genuine_suffix s d m : suffix s d -> genuine s m -> genuine d m.
Proof. intros [k ->] [i [e H]]. exists (k + i), e. now rewrite skipn_skipn in H. Qed.

Lemma process_loop_spec fuel thr : forall d acc,
  length d < fuel ->
  let '(o, d', acc') := process_loop fuel thr d acc in
  o = Done /\ suffix d' d /\
  (forall t, thr = Some t -> length d' <= t) /\
  (exists new, acc' = new ++ acc /\ forall m, In m new -> genuine d m).
Proof.
  induction fuel as [|f IH]; intros d acc Hl; [lia|]. cbn [Model.process_loop].
  destruct d as [|c d0]; [split; [reflexivity|]; split; [apply suffix_refl|]; split; [intros; simpl; lia|exists []; split; [reflexivity|intros m []]]|].
  set (d := c :: d0) in *.
  pose proof (find_message_spec d) as Hf.
  destruct (find_message d) as [|e|m e].
  - destruct thr as [t|].
    + destruct (Nat.ltb t (length d)) eqn:L.
      * pose proof (cleanup_beginning_suffix d) as Hs.
        assert (length (cleanup_beginning d) < f) as Hlt.
        { unfold Model.cleanup_beginning. pose proof (cleanup_len (tl d)). unfold d in *. cbn [tl length] in *. lia. }
        specialize (IH (cleanup_beginning d) acc Hlt).
        destruct (process_loop f (Some t) (cleanup_beginning d) acc) as [[o d'] acc'].
        destruct IH as [I1 [I2 [I3 [new [I4 I5]]]]].
        split; [assumption|]. split; [eapply suffix_trans; eauto|]. split; [assumption|].
        exists new. split; [assumption|]. intros m Hm. eapply genuine_suffix; eauto.
      * apply Nat.ltb_ge in L. split; [reflexivity|]. split; [apply suffix_refl|].
        split; [intros t' [= <-]; exact L|]. exists []. split; [reflexivity|intros m []].
    + split; [reflexivity|]. split; [apply suffix_refl|]. split; [intros t' [=]|].
      exists []. split; [reflexivity|intros m []].
  - destruct Hf as [He _].
    pose proof (cleanup_suffix (skipn e d)) as Hs.
    assert (length (cleanup (skipn e d)) < f) as Hlt.
    { pose proof (cleanup_len (skipn e d)). rewrite skipn_length in *. unfold d in *. cbn [length] in *. lia. }
    specialize (IH (cleanup (skipn e d)) acc Hlt).
    destruct (process_loop f thr (cleanup (skipn e d)) acc) as [[o d'] acc'].
    destruct IH as [I1 [I2 [I3 [new [I4 I5]]]]].
    assert (suffix (cleanup (skipn e d)) d) as Hsd by (eapply suffix_trans; [exact Hs|apply suffix_skipn]).
    split; [assumption|]. split; [eapply suffix_trans; eauto|]. split; [assumption|].
    exists new. split; [assumption|]. intros m Hm. eapply genuine_suffix; eauto.
  - destruct Hf as [He Hp].
    pose proof (cleanup_suffix (skipn e d)) as Hs.
    assert (length (cleanup (skipn e d)) < f) as Hlt.
    { pose proof (cleanup_len (skipn e d)). rewrite skipn_length in *. unfold d in *. cbn [length] in *. lia. }
    specialize (IH (cleanup (skipn e d)) (m :: acc) Hlt).
    destruct (process_loop f thr (cleanup (skipn e d)) (m :: acc)) as [[o d'] acc'].
    destruct IH as [I1 [I2 [I3 [new [I4 I5]]]]].
    assert (suffix (cleanup (skipn e d)) d) as Hsd by (eapply suffix_trans; [exact Hs|apply suffix_skipn]).
    split; [assumption|]. split; [eapply suffix_trans; eauto|]. split; [assumption|].
    exists (new ++ [m]). split; [now rewrite <- app_assoc|].
    intros m' Hm'. apply in_app_or in Hm' as [Hm'|[<-|[]]].
    + eapply genuine_suffix; eauto.
    + exists 0, e. exact Hp.
Qed.

Theorem process_spec thr d :
  let '(o, d', ms) := process thr d in
  o = Done /\ suffix d' d /\ (forall t, thr = Some t -> length d' <= t) /\
  (forall m, In m ms -> genuine d m).
Proof.
  unfold Model.process.
  pose proof (process_loop_spec (S (length (cleanup d))) thr (cleanup d) [] (Nat.lt_succ_diag_r _)) as H.
  destruct (process_loop (S (length (cleanup d))) thr (cleanup d) []) as [[o d'] acc].
  destruct H as [H1 [H2 [H3 [new [H4 H5]]]]]. rewrite app_nil_r in H4. subst acc.
  split; [assumption|]. split; [eapply suffix_trans; [exact H2|apply cleanup_suffix]|]. split; [assumption|].
  intros m Hm. apply in_rev in Hm. eapply genuine_suffix; [apply cleanup_suffix|auto].
Qed.

(* ---------- a whole connection: any pieces ---------- *)
Lemma genuine_app d p m : genuine d m -> genuine (d ++ p) m.
Proof.
  intros [i [e H]].
  exists i, (Nat.min e (length (skipn i d))).
  rewrite skipn_app, firstn_app.
  replace (Nat.min e (length (skipn i d)) - length (skipn i d)) with 0 by lia.
  rewrite firstn_O, app_nil_r.
  destruct (Nat.le_gt_cases e (length (skipn i d))) as [Hle|Hgt].
  - rewrite Nat.min_l by assumption. exact H.
  - rewrite Nat.min_r by lia. rewrite firstn_all. rewrite firstn_all2 in H by lia. exact H.
Qed.

Theorem feed_spec thr : forall pieces data,
  let '(outs, dfin) := feed thr data pieces in
  Forall (fun om => fst om = Done /\ forall m, In m (snd om) -> genuine (data ++ concat pieces) m) outs /\
  suffix dfin (data ++ concat pieces).
Proof.
  induction pieces as [|p ps IH]; intros data; cbn [Model.feed concat].
  - rewrite app_nil_r. split; [constructor|apply suffix_refl].
  - pose proof (process_spec thr (data ++ p)) as Hp.
    destruct (process thr (data ++ p)) as [[o d'] ms]. destruct Hp as [P1 [P2 [P3 P4]]].
    specialize (IH d'). destruct (feed thr d' ps) as [rest dfin]. destruct IH as [I1 I2].
    assert (suffix (d' ++ concat ps) (data ++ p ++ concat ps)) as Hsuf.
    { rewrite app_assoc. now apply suffix_app. }
    split.
    + constructor.
      * simpl. split; [assumption|]. intros m Hm. rewrite app_assoc. apply genuine_app. auto.
      * eapply Forall_impl; [|exact I1]. intros [o' ms'] [Q1 Q2]. simpl in *. split; [assumption|].
        intros m Hm. eapply genuine_suffix; [exact Hsuf|auto].
    + eapply suffix_trans; eauto.
Qed.

Theorem feed_retained thr t : thr = Some t -> forall pieces data,
  pieces <> [] -> length (snd (feed thr data pieces)) <= t.
Proof.
  intros Ht. induction pieces as [|p ps IH]; intros data Hne; [contradiction|].
  cbn [Model.feed].
  pose proof (process_spec thr (data ++ p)) as Hp.
  destruct (process thr (data ++ p)) as [[o d'] ms]. destruct Hp as [_ [_ [P3 _]]].
  destruct ps as [|p2 ps2].
  - cbn [Model.feed]. simpl. now apply P3.
  - specialize (IH d' ltac:(discriminate)).
    destruct (feed thr d' (p2 :: ps2)) as [rest dfin]. simpl in *. exact IH.
Qed.
End Generic.
