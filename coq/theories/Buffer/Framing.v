(* C02: framing is lossless, ordered, prompt and independent of fragmentation.
   Generic in the parser: the facts needed about each message spelling are the
   predicate [spelling]; they are decidable and evaluated by the runner on every
   generated spelling (and are theorems-to-be of the concrete XML layer). *)
From Coq Require Import List NArith Bool Arith Lia.
Import ListNotations.
From Indi Require Import Base.Sx Buffer.Model Buffer.Props Buffer.Junk.

Local Arguments N.eqb : simpl never.

Section Framing.
Variable msg : Type.
Variable parse : str -> pres msg.
Variable tags : list str.
Variable thr : option nat.

Notation cleanup := (cleanup tags).
Notation first_opener := (first_opener tags).
Notation process := (process msg parse tags).
Notation process_loop := (process_loop msg parse tags).
Notation find_message := (find_message msg parse).
Notation opener_free := (opener_free tags).
Notation starts_with_opener := (starts_with_opener tags).

Hypothesis Htags : tags_clean tags.
Hypothesis Hneeds : parse_needs_opener msg parse tags.

(* m is a complete spelling of message M *)
Record spelling (M : msg) (m : str) : Prop := {
  sp_parses : parse m = PMsg M;
  sp_prefix_free : forall k, 0 < k < length m -> parse (firstn k m) = PNotXml;
  sp_opener : starts_with_opener m;
  sp_ends : 2 <= length m /\ nth (length m - 1) m 0%N = GT /\ nth (length m - 2) m 0%N <> GT;
  sp_fits : forall t, thr = Some t -> length m <= t
}.

(* decidable form: Some M iff m passes every clause of [spelling] for M *)
Definition is_notxml (r : pres msg) : bool := match r with PNotXml => true | _ => false end.
Definition spell_check (m : str) : option msg :=
  match parse m with
  | PMsg M =>
      if forallb (fun k => is_notxml (parse (firstn k m))) (seq 1 (length m - 1)) &&
         (match first_opener m with Some O => true | _ => false end) &&
         Nat.leb 2 (length m) && N.eqb (nth (length m - 1) m 0%N) GT &&
         negb (N.eqb (nth (length m - 2) m 0%N) GT) &&
         (match thr with Some t => Nat.leb (length m) t | None => true end)
      then Some M else None
  | _ => None
  end.

Lemma spell_check_sound m M : spell_check m = Some M -> spelling M m.
Proof.
  unfold spell_check. destruct (parse m) as [| |M'] eqn:P; try discriminate.
  match goal with |- (if ?c then _ else _) = _ -> _ => destruct c eqn:C; [|discriminate] end.
  intros [= <-].
  apply andb_prop in C as [C Hfit]. apply andb_prop in C as [C Hprev]. apply andb_prop in C as [C Hlast].
  apply andb_prop in C as [C Hlen]. apply andb_prop in C as [Hpf Hop].
  constructor.
  - exact P.
  - intros k Hk. rewrite forallb_forall in Hpf. specialize (Hpf k). rewrite in_seq in Hpf.
    specialize (Hpf ltac:(lia)). destruct (parse (firstn k m)); [reflexivity|discriminate|discriminate].
  - unfold Junk.starts_with_opener. destruct (first_opener m) as [[|n]|]; [reflexivity|discriminate|discriminate].
  - apply Nat.leb_le in Hlen. apply N.eqb_eq in Hlast. apply negb_true_iff, N.eqb_neq in Hprev. auto.
  - intros t Ht. rewrite Ht in Hfit. now apply Nat.leb_le.
Qed.

Inductive seg := SJunk (J : str) | SMsg (M : msg) (m : str).

Definition seg_text (s : seg) : str := match s with SJunk J => J | SMsg _ m => m end.
Definition flatten (l : list seg) : str := concat (map seg_text l).
Fixpoint msgs (l : list seg) : list msg :=
  match l with
  | [] => []
  | SJunk _ :: r => msgs r
  | SMsg M _ :: r => M :: msgs r
  end.

(* junk is opener-free and is followed by a message or by nothing *)
Fixpoint wf (l : list seg) : Prop :=
  match l with
  | [] => True
  | SJunk J :: r => opener_free J /\ (match r with SJunk _ :: _ => False | _ => True end) /\ wf r
  | SMsg M m :: r => spelling M m /\ wf r
  end.

(* the retained text r covers no complete message of l: the next delivery is not overdue *)
Fixpoint nothing_overdue (l : list seg) (r : str) : Prop :=
  match l with
  | [] => True
  | SJunk J :: rest => length r <= length J \/ nothing_overdue rest (skipn (length J) r)
  | SMsg _ m :: _ => length r < length m
  end.

(* ---------- scanning a complete spelling ---------- *)
Lemma find_gt_none_or_some (s : str) : find [GT] s = None \/ exists k, find [GT] s = Some k.
Proof. destruct (find [GT] s); eauto. Qed.

Lemma find1_spec c (s : str) k :
  find [c] s = Some k -> nth k s 0%N = c /\ k < length s /\ forall j, j < k -> nth j s 0%N <> c.
Proof.
  revert k. induction s as [|a s IH]; intros k; cbn [find prefixb].
  - discriminate.
  - destruct (N.eqb c a) eqn:E; simpl.
    + intros [= <-]. apply N.eqb_eq in E. subst. simpl. split; [reflexivity|split; [lia|intros; lia]].
    + destruct (find [c] s) as [k'|] eqn:F; simpl; [|discriminate]. intros [= <-].
      destruct (IH k' eq_refl) as [I1 [I2 I3]]. simpl. split; [assumption|]. split; [lia|].
      intros [|j] Hj; simpl.
      * apply N.eqb_neq in E. congruence.
      * apply I3. lia.
Qed.

Lemma find1_none c (s : str) : find [c] s = None -> forall j, j < length s -> nth j s 0%N <> c.
Proof.
  induction s as [|a s IH]; cbn [find prefixb]; intros H j Hj; [simpl in Hj; lia|].
  destruct (N.eqb c a) eqn:E; simpl in H; [discriminate|].
  destruct (find [c] s) eqn:F; simpl in H; [discriminate|].
  destruct j as [|j]; simpl; [apply N.eqb_neq in E; congruence|]. apply IH; [reflexivity|simpl in Hj; lia].
Qed.

Lemma nth_skipn {A} (l : list A) i j d : nth j (skipn i l) d = nth (i + j) l d.
Proof.
  revert i. induction l as [|a l IH]; intros [|i]; simpl; auto.
  - now destruct j.
Qed.

Lemma nth_app_l {A} (l r : list A) j d : j < length l -> nth j (l ++ r) d = nth j l d.
Proof. intros H. now rewrite app_nth1. Qed.

(* the scan over m ++ rest, started anywhere strictly inside m, finds M at |m| *)
Lemma scan_finds M m rest : spelling M m ->
  forall fuel e, length m - e <= fuel -> e < length m - 1 ->
  (forall k, e < k < length m -> parse (firstn k (m ++ rest)) = PNotXml) ->
  find_message_loop msg parse (S fuel) (m ++ rest) e = FFound M (length m).
Proof.
  intros Sp. destruct (sp_ends _ _ Sp) as [Hlen [Hlast Hprev]].
  induction fuel as [|fuel IH]; intros e Hf He Hpf; [lia|].
  cbn [find_message_loop].
  assert (Nat.ltb (S e) (length (m ++ rest)) = true) as -> by (apply Nat.ltb_lt; rewrite app_length; lia).
  (* the next '>' at or after e exists and is at most |m|-1 *)
  destruct (find_gt_none_or_some (skipn e (m ++ rest))) as [Fn|[k Fk]].
  - exfalso. apply (find1_none _ _ Fn (length m - 1 - e)).
    + rewrite skipn_length, app_length. lia.
    + rewrite nth_skipn. replace (e + (length m - 1 - e)) with (length m - 1) by lia.
      rewrite nth_app_l by lia. exact Hlast.
  - rewrite Fk. destruct (find1_spec _ _ _ Fk) as [K1 [K2 K3]].
    rewrite nth_skipn in K1.
    assert (e + k <= length m - 1) as Hk.
    { destruct (Nat.le_gt_cases (e + k) (length m - 1)); [assumption|]. exfalso.
      apply (K3 (length m - 1 - e)); [lia|].
      rewrite nth_skipn. replace (e + (length m - 1 - e)) with (length m - 1) by lia.
      rewrite nth_app_l by lia. exact Hlast. }
    destruct (Nat.eq_dec (e + k) (length m - 1)) as [Heq|Hne].
    + replace (S (e + k)) with (length m) by lia.
      rewrite firstn_app, firstn_all, Nat.sub_diag, firstn_O, app_nil_r. now rewrite (sp_parses _ _ Sp).
    + rewrite Hpf by lia.
      apply IH; try lia.
      * (* S (e+k) < |m| - 1: the character at |m|-2 is not '>' *)
        destruct (Nat.eq_dec (e + k) (length m - 2)) as [E2|E2]; [|lia].
        exfalso. apply Hprev. rewrite <- E2. rewrite nth_app_l in K1 by lia. exact K1.
      * intros k' Hk'. apply Hpf. lia.
Qed.

Lemma find_message_complete M m rest : spelling M m -> find_message (m ++ rest) = FFound M (length m).
Proof.
  intros Sp. destruct (sp_ends _ _ Sp) as [Hlen _]. unfold Model.find_message.
  rewrite app_length. replace (S (length m + length rest)) with (S (length m + length rest)) by reflexivity.
  apply (scan_finds M m rest Sp (length m + length rest) 0); try lia.
  intros k Hk. rewrite firstn_app. replace (k - length m) with 0 by lia. rewrite firstn_O, app_nil_r.
  apply (sp_prefix_free _ _ Sp). lia.
Qed.

(* a proper prefix of a spelling yields nothing *)
Lemma scan_partial M m : spelling M m ->
  forall p, (exists q, m = p ++ q /\ q <> []) ->
  forall fuel e, find_message_loop msg parse fuel p e <> FNone -> False.
Proof.
  intros Sp p [q [Hm Hq]] fuel. induction fuel as [|fuel IH]; intros e H; [now apply H|].
  cbn [find_message_loop] in H.
  destruct (Nat.ltb (S e) (length p)) eqn:L; [|now apply H]. apply Nat.ltb_lt in L.
  destruct (find [GT] (skipn e p)) as [k|] eqn:F; [|now apply H].
  apply find_some_lt in F. rewrite skipn_length in F. cbn [length] in F.
  assert (length p < length m) as Hpl.
  { rewrite Hm, app_length. destruct q; [contradiction|simpl; lia]. }
  assert (parse (firstn (S (e + k)) p) = PNotXml) as Hp.
  { replace (firstn (S (e + k)) p) with (firstn (S (e + k)) m).
    - apply (sp_prefix_free _ _ Sp). lia.
    - rewrite Hm, firstn_app. replace (S (e + k) - length p) with 0 by lia. now rewrite firstn_O, app_nil_r. }
  rewrite Hp in H. now apply (IH (S (e + k))).
Qed.

Lemma find_message_partial M m p : spelling M m -> (exists q, m = p ++ q /\ q <> []) -> find_message p = FNone.
Proof.
  intros Sp Hp. unfold Model.find_message.
  destruct (find_message_loop msg parse (S (length p)) p 0) eqn:E; [reflexivity| |];
    exfalso; eapply (scan_partial M m Sp p Hp (S (length p)) 0); rewrite E; discriminate.
Qed.

(* ---------- clean-up on structured text ---------- *)
Lemma cleanup_opener s : starts_with_opener s -> cleanup s = s.
Proof. unfold Junk.starts_with_opener, Model.cleanup. now intros ->. Qed.

Lemma starts_opener_app s r : starts_with_opener s -> starts_with_opener (s ++ r).
Proof.
  unfold Junk.starts_with_opener. intros H.
  destruct (first_opener_le tags [] s H) as [k [Hk Fk]]. simpl in *. assert (k = 0) by lia. subst.
  (* an occurrence at 0 in s is an occurrence at 0 in s ++ r *)
  unfold Model.first_opener in *.
  destruct (fold_omin_some0 s tags None H) as [E|[t [Ht Ft]]]; [discriminate|].
  pose proof (find_spec (LT :: t) s) as Fs. rewrite Ft in Fs. destruct Fs as [Hpre _]. simpl skipn in Hpre.
  assert (find (LT :: t) (s ++ r) = Some 0) as F0.
  { destruct s as [|a s']; [discriminate|]. cbn [app find]. change (a :: s' ++ r) with ((a :: s') ++ r).
    now rewrite (prefixb_app_l _ _ _ Hpre). }
  destruct (fold_omin_le (s ++ r) 0 t 0 tags None Ht F0 (le_n 0)) as [m0 [Hm0 Hf]].
  assert (m0 = 0) by lia. now subst.
Qed.

Lemma spelling_head M m : spelling M m -> exists y', m = LT :: y'.
Proof.
  intros Sp. pose proof (sp_opener _ _ Sp) as H. unfold Junk.starts_with_opener, Model.first_opener in H.
  destruct (fold_omin_some0 m tags None H) as [E|[t [Ht Ft]]]; [discriminate|].
  pose proof (find_spec (LT :: t) m) as Fs. rewrite Ft in Fs. destruct Fs as [Hpre _]. simpl in Hpre.
  destruct m as [|a m']; [discriminate|]. apply andb_prop in Hpre as [Ha _]. apply N.eqb_eq in Ha. subst. eauto.
Qed.

Lemma in_skipn_in {A} (c : A) : forall l j, In c (skipn j l) -> In c l.
Proof.
  induction l as [|a l IH]; intros j H; [now rewrite skipn_nil in H|].
  destruct j as [|j]; [exact H|]. right. now apply (IH j).
Qed.

Lemma prefix_short_in (t : str) : forall (p' q : str) c,
  prefixb t (p' ++ q) = true -> length p' <= length t -> In c p' -> In c t.
Proof.
  induction t as [|x t IH]; intros p' q c H Hl Hin.
  - destruct p'; [contradiction|simpl in Hl; lia].
  - destruct p' as [|y p'']; [contradiction|]. cbn [app prefixb] in H. apply andb_prop in H as [Hx Hr].
    apply N.eqb_eq in Hx. subst y. destruct Hin as [->|Hin]; [now left|right].
    apply (IH p'' q c Hr); [simpl in Hl; lia|exact Hin].
Qed.

(* a non-empty proper prefix of a spelling survives clean-up unchanged *)
Lemma cleanup_partial M m p q : spelling M m -> m = p ++ q -> p <> [] -> cleanup p = p.
Proof.
  intros Sp Hm Hp. pose proof (sp_opener _ _ Sp) as Ho.
  unfold Junk.starts_with_opener, Model.first_opener in Ho.
  destruct (fold_omin_some0 m tags None Ho) as [E|[t [Ht Ft]]]; [discriminate|].
  pose proof (find_spec (LT :: t) m) as Fs. rewrite Ft in Fs. destruct Fs as [Hpre _]. simpl skipn in Hpre.
  destruct (Nat.le_gt_cases (length (LT :: t)) (length p)) as [Hlong|Hshort].
  - (* the whole opener lies inside p *)
    apply cleanup_opener. unfold Junk.starts_with_opener, Model.first_opener.
    assert (prefixb (LT :: t) p = true) as Hpp.
    { subst m. clear - Hpre Hlong. revert p Hpre Hlong. generalize (LT :: t) as o.
      induction o as [|x o IH]; intros p Hpre Hl; [reflexivity|].
      destruct p as [|y p]; [simpl in Hl; lia|]. simpl in *. apply andb_prop in Hpre as [H1 H2].
      rewrite H1. simpl. apply IH; [assumption|lia]. }
    assert (find (LT :: t) p = Some 0) as F0 by (destruct p; [contradiction|]; cbn [find]; now rewrite Hpp).
    destruct (fold_omin_le p 0 t 0 tags None Ht F0 (le_n 0)) as [m0 [Hm0 Hf]].
    assert (m0 = 0) by lia. now subst.
  - (* p is a proper prefix of the opener "<tag": a single '<', at position 0 *)
    assert (exists p', p = LT :: p' /\ ~ In LT p') as [p' [-> Hnl]].
    { subst m. destruct p as [|y p']; [contradiction|]. cbn [app prefixb] in Hpre. apply andb_prop in Hpre as [Hy Hrest].
      apply N.eqb_eq in Hy. subst y. exists p'. split; [reflexivity|].
      intros Hin. apply (Htags t Ht). cbn [length] in Hshort.
      apply (prefix_short_in t p' q LT Hrest); [lia|exact Hin]. }
    unfold Model.cleanup.
    assert (rfind1 LT (LT :: p') = Some 0) as Hr.
    { simpl. assert (rfind1 LT p' = None) as ->; [|reflexivity].
      clear - Hnl. induction p' as [|z p IH]; [reflexivity|]. simpl.
      rewrite IH by (intros H; apply Hnl; now right).
      destruct (N.eqb z LT) eqn:E; [|reflexivity]. apply N.eqb_eq in E. exfalso. apply Hnl. now left. }
    destruct (first_opener (LT :: p')) as [k|] eqn:Fo.
    + (* an opener inside a text with a single '<' can only start at 0 *)
      unfold Model.first_opener in Fo.
      assert (k = 0) as ->; [|reflexivity].
      assert (forall ts acc k0, fold_left (fun a t' => omin a (find (LT :: t') (LT :: p'))) ts acc = Some k0 ->
                (acc = Some k0 \/ k0 = 0) ) as G.
      { induction ts as [|t' ts IH]; intros acc k0 Hf; cbn [fold_left] in Hf; [now left|].
        destruct (IH _ _ Hf) as [Ha|Hz]; [|now right].
        destruct (find (LT :: t') (LT :: p')) as [j|] eqn:Fj.
        - assert (j = 0) as ->.
          { pose proof (find_spec (LT :: t') (LT :: p')) as Fs. rewrite Fj in Fs. destruct Fs as [Hocc _].
            destruct j as [|j]; [reflexivity|]. exfalso. cbn [skipn] in Hocc.
            destruct (skipn j p') as [|z r] eqn:Es; [discriminate|]. cbn [prefixb] in Hocc.
            apply andb_prop in Hocc as [Hz _]. apply N.eqb_eq in Hz. subst z.
            apply Hnl. assert (In LT (skipn j p')) by (rewrite Es; now left).
            exact (in_skipn_in _ _ _ H). }
          destruct acc as [a|]; cbn [omin] in Ha; injection Ha as Ha.
          + destruct (Nat.min_dec a 0) as [E|E]; rewrite E in Ha; [left; now subst|right; now subst].
          + right. now subst.
        - destruct acc; cbn [omin] in Ha; [now left|discriminate]. }
      destruct (G tags None k Fo) as [E|E]; [discriminate|assumption].
    + now rewrite Hr.
Qed.

(* ---------- the loop carries its accumulator ---------- *)
Lemma process_loop_acc fuel : forall d acc,
  process_loop fuel thr d acc =
  let '(o, d', a) := process_loop fuel thr d [] in (o, d', a ++ acc).
Proof.
  induction fuel as [|f IH]; intros d acc; [reflexivity|]. cbn [Model.process_loop].
  destruct d as [|c d0]; [reflexivity|].
  destruct (find_message (c :: d0)) as [|e|m e].
  - destruct thr as [t|]; [|reflexivity]. destruct (Nat.ltb t (length (c :: d0))); [|reflexivity]. apply IH.
  - apply IH.
  - rewrite IH. rewrite (IH _ [m]).
    destruct (process_loop f thr (cleanup (skipn e (c :: d0))) []) as [[o d'] a].
    now rewrite <- app_assoc.
Qed.

(* process on text that begins with a complete spelling: deliver it, go on with the rest *)
Lemma process_complete M m rest : spelling M m ->
  process thr (m ++ rest) =
  let '(o, d', ms) := process thr rest in (o, d', M :: ms).
Proof.
  intros Sp. destruct (sp_ends _ _ Sp) as [Hlen _].
  assert (process_loop (S (length (m ++ rest))) thr (m ++ rest) [] =
          process_loop (length (m ++ rest)) thr (cleanup rest) [M]) as Hstep.
  { cbn [Model.process_loop].
    destruct (m ++ rest) as [|c d0] eqn:Ed; [destruct m; simpl in *; [lia|discriminate]|].
    rewrite <- Ed. rewrite (find_message_complete M m rest Sp).
    rewrite skipn_app, skipn_all, Nat.sub_diag. reflexivity. }
  unfold Model.process at 1.
  rewrite (cleanup_opener _ (starts_opener_app _ rest (sp_opener _ _ Sp))).
  rewrite Hstep, process_loop_acc.
  rewrite (process_loop_fuel msg parse tags (length (m ++ rest)) (S (length (cleanup rest))) thr (cleanup rest) []).
  - unfold Model.process.
    destruct (Model.process_loop msg parse tags (S (length (cleanup rest))) thr (cleanup rest) []) as [[o d'] a].
    rewrite rev_app_distr. reflexivity.
  - pose proof (cleanup_len tags rest). rewrite app_length. lia.
  - lia.
Qed.

Lemma process_nil : process thr [] = (Done, [], []).
Proof.
  unfold Model.process. pose proof (cleanup_len tags []) as H.
  destruct (cleanup []) as [|c r]; [reflexivity|simpl in H; lia].
Qed.

Lemma process_partial M m p q : spelling M m -> m = p ++ q -> q <> [] -> process thr p = (Done, p, []).
Proof.
  intros Sp Hm Hq. destruct p as [|c p0]; [apply process_nil|]. set (p := c :: p0) in *.
  unfold Model.process. rewrite (cleanup_partial M m p q Sp Hm ltac:(discriminate)).
  cbn [Model.process_loop]. unfold p at 1.
  fold p. rewrite (find_message_partial M m p Sp (ex_intro _ q (conj Hm Hq))).
  destruct thr as [t|] eqn:Et; [|reflexivity].
  assert (Nat.ltb t (length p) = false) as ->; [|reflexivity].
  apply Nat.ltb_ge. pose proof (sp_fits _ _ Sp t Et) as Hf. rewrite Hm, app_length in Hf. lia.
Qed.

(* ---------- one process() call on any arrived prefix of a well-formed stream ---------- *)
Theorem framing_one_call : forall l d u,
  wf l -> d ++ u = flatten l ->
  exists r ms l',
    process thr d = (Done, r, ms) /\
    wf l' /\ r ++ u = flatten l' /\ msgs l = ms ++ msgs l' /\ nothing_overdue l' r.
Proof.
  induction l as [|s l IH]; intros d u W E.
  - unfold flatten in E. simpl in E. apply app_eq_nil in E as [-> ->].
    exists [], [], []. rewrite process_nil. repeat split; auto.
  - destruct s as [J|M m]; cbn [wf] in W.
    + destruct W as [HJ [Hnext W]]. unfold flatten in E. cbn [map concat seg_text] in E. fold (flatten l) in E.
      destruct (Nat.le_gt_cases (length d) (length J)) as [Hle|Hgt].
      * (* d is a prefix of the junk: silent *)
        assert (exists Jr, J = d ++ Jr /\ u = Jr ++ flatten l) as [Jr [HJr Hu]].
        { exists (skipn (length d) J). split.
          - rewrite <- (firstn_skipn (length d) J) at 1. f_equal.
            apply (f_equal (firstn (length d))) in E. rewrite firstn_app, firstn_all, Nat.sub_diag, firstn_O, app_nil_r in E.
            rewrite firstn_app in E. replace (length d - length J) with 0 in E by lia. rewrite firstn_O, app_nil_r in E. now symmetry.
          - apply (f_equal (skipn (length d))) in E. rewrite skipn_app, skipn_all, Nat.sub_diag in E. simpl in E.
            rewrite skipn_app in E. replace (length d - length J) with 0 in E by lia. exact E. }
        assert (opener_free d) as Hd.
        { intros t Ht. specialize (HJ t Ht). rewrite HJr in HJ.
          pose proof (find_firstn_none (LT :: t) (d ++ Jr) (length d) (opener_ne t) HJ) as H.
          now rewrite firstn_app, firstn_all, Nat.sub_diag, firstn_O, app_nil_r in H. }
        pose proof (junk_only_silent msg parse tags thr d Hneeds Hd) as [Hsil Hfree].
        pose proof (process_spec msg parse tags thr d) as Sp.
        destruct (process thr d) as [[o r] ms]. simpl in Hsil, Hfree. subst ms.
        destruct Sp as [-> [Hsuf _]].
        exists r, [], (SJunk (r ++ Jr) :: l). split; [reflexivity|]. split; [|split; [|split]].
        -- cbn [wf]. split; [|split; [exact Hnext|exact W]].
           (* r ++ Jr is a suffix of J *)
           apply (opener_free_suffix tags J); [exact HJ|]. rewrite HJr. now apply suffix_app.
        -- unfold flatten. cbn [map concat seg_text]. fold (flatten l). rewrite Hu. now rewrite app_assoc.
        -- reflexivity.
        -- cbn [nothing_overdue]. left. rewrite app_length. lia.
      * (* the junk has arrived completely and more behind it *)
        assert (exists d', d = J ++ d' /\ d' <> [] /\ d' ++ u = flatten l) as [d' [Hd [Hne E']]].
        { exists (skipn (length J) d). split; [|split].
          - rewrite <- (firstn_skipn (length J) d) at 1. f_equal.
            apply (f_equal (firstn (length J))) in E. rewrite firstn_app in E.
            replace (length J - length d) with 0 in E by lia. rewrite firstn_O, app_nil_r in E.
            rewrite firstn_app, firstn_all, Nat.sub_diag, firstn_O, app_nil_r in E. exact E.
          - intros Hn. apply (f_equal (@length N)) in Hn. rewrite skipn_length in Hn. simpl in Hn. lia.
          - apply (f_equal (skipn (length J))) in E. rewrite skipn_app in E.
            replace (length J - length d) with 0 in E by lia. simpl in E.
            rewrite skipn_app, skipn_all, Nat.sub_diag in E. simpl in E. exact E. }
        (* what follows junk is a message: d' starts with '<' *)
        destruct l as [|[J2|M2 m2] l2]; [unfold flatten in E'; simpl in E'; apply app_eq_nil in E' as [? ?]; contradiction|contradiction|].
        cbn [wf] in W. destruct W as [Sp2 W2].
        destruct (spelling_head _ _ Sp2) as [y2 Hm2].
        assert (exists y', d' = LT :: y') as [y' Hy'].
        { unfold flatten in E'. cbn [map concat seg_text] in E'. rewrite Hm2 in E'.
          destruct d' as [|c y']; [contradiction|]. simpl in E'. injection E' as -> _. eauto. }
        destruct (IH d' u (conj Sp2 W2) E') as [r [ms [l' [P [Wl' [Fl' [Ml' Ol']]]]]]].
        exists r, ms, l'. split; [|auto].
        rewrite Hd, Hy'. rewrite (junk_prefix_transparent msg parse tags thr J y' Htags HJ). now rewrite <- Hy'.
    + destruct W as [Sp W]. unfold flatten in E. cbn [map concat seg_text] in E. fold (flatten l) in E.
      destruct (Nat.le_gt_cases (length m) (length d)) as [Hge|Hlt].
      * (* the message is complete in d *)
        assert (exists d', d = m ++ d' /\ d' ++ u = flatten l) as [d' [Hd E']].
        { exists (skipn (length m) d). split.
          - rewrite <- (firstn_skipn (length m) d) at 1. f_equal.
            apply (f_equal (firstn (length m))) in E. rewrite firstn_app in E.
            replace (length m - length d) with 0 in E by lia. rewrite firstn_O, app_nil_r in E.
            rewrite firstn_app, firstn_all, Nat.sub_diag, firstn_O, app_nil_r in E. exact E.
          - apply (f_equal (skipn (length m))) in E. rewrite skipn_app in E.
            replace (length m - length d) with 0 in E by lia. simpl in E.
            rewrite skipn_app, skipn_all, Nat.sub_diag in E. simpl in E. exact E. }
        destruct (IH d' u W E') as [r [ms [l' [P [Wl' [Fl' [Ml' Ol']]]]]]].
        exists r, (M :: ms), l'. split; [|split; [|split; [|split]]]; auto.
        -- rewrite Hd, (process_complete M m d' Sp), P. reflexivity.
        -- cbn [msgs]. now rewrite Ml'.
      * (* only a proper prefix has arrived *)
        assert (exists q, m = d ++ q /\ q <> [] /\ u = q ++ flatten l) as [q [Hm [Hq Hu]]].
        { exists (skipn (length d) m). split; [|split].
          - rewrite <- (firstn_skipn (length d) m) at 1. f_equal.
            apply (f_equal (firstn (length d))) in E. rewrite firstn_app, firstn_all, Nat.sub_diag, firstn_O, app_nil_r in E.
            rewrite firstn_app in E. replace (length d - length m) with 0 in E by lia. rewrite firstn_O, app_nil_r in E. now symmetry.
          - intros Hn. apply (f_equal (@length N)) in Hn. rewrite skipn_length in Hn. simpl in Hn. lia.
          - apply (f_equal (skipn (length d))) in E. rewrite skipn_app, skipn_all, Nat.sub_diag in E. simpl in E.
            rewrite skipn_app in E. replace (length d - length m) with 0 in E by lia. exact E. }
        exists d, [], (SMsg M m :: l). split; [exact (process_partial M m d q Sp Hm Hq)|].
        split; [cbn [wf]; auto|]. split; [|split].
        -- unfold flatten. cbn [map concat seg_text]. fold (flatten l). rewrite Hu, Hm. now rewrite <- app_assoc.
        -- reflexivity.
        -- cbn [nothing_overdue]. exact Hlt.
Qed.

(* ---------- any partition into pieces ---------- *)
Fixpoint deliveries (outs : list (outcome * list msg)) : list msg :=
  match outs with [] => [] | (_, ms) :: r => ms ++ deliveries r end.

Theorem framing : forall pieces l data u,
  wf l -> data ++ concat pieces ++ u = flatten l -> nothing_overdue l data ->
  let '(outs, dfin) := feed msg parse tags thr data pieces in
  Forall (fun om => fst om = Done) outs /\
  exists l', wf l' /\ dfin ++ u = flatten l' /\ msgs l = deliveries outs ++ msgs l' /\ nothing_overdue l' dfin.
Proof.
  induction pieces as [|p ps IH]; intros l data u W E O; cbn [Model.feed].
  - split; [constructor|]. exists l. simpl in E. repeat split; auto.
  - cbn [concat] in E.
    assert ((data ++ p) ++ (concat ps ++ u) = flatten l) as E1 by (now rewrite <- !app_assoc in *).
    destruct (framing_one_call l (data ++ p) (concat ps ++ u) W E1) as [r [ms [l1 [P [W1 [F1 [M1 O1]]]]]]].
    rewrite P. specialize (IH l1 r u W1 F1 O1).
    destruct (feed msg parse tags thr r ps) as [rest dfin].
    destruct IH as [I1 [l' [W' [F' [M' O']]]]].
    split; [constructor; [reflexivity|exact I1]|].
    exists l'. repeat split; auto. cbn [deliveries]. rewrite M1, M'. now rewrite app_assoc.
Qed.

(* once the whole text has arrived nothing is held back: every message has been delivered *)
Lemma flatten_msg_length M m l : spelling M m -> 2 <= length (flatten (SMsg M m :: l)).
Proof.
  intros Sp. unfold flatten. cbn [map concat seg_text]. rewrite app_length. destruct (sp_ends _ _ Sp) as [H _]. lia.
Qed.

Lemma nothing_overdue_whole l : wf l -> nothing_overdue l (flatten l) -> msgs l = [].
Proof.
  induction l as [|[J|M m] l IH]; intros W O; [reflexivity| |].
  - cbn [wf] in W. destruct W as (_ & Hnext & W). cbn [msgs]. cbn [nothing_overdue] in O.
    unfold flatten in O. cbn [map concat seg_text] in O. fold (flatten l) in O.
    destruct O as [O|O].
    + rewrite app_length in O. destruct l as [|[J2|M2 m2] l2]; [reflexivity|contradiction|].
      cbn [wf] in W. destruct W as [Sp2 _]. pose proof (flatten_msg_length M2 m2 l2 Sp2). lia.
    + rewrite skipn_app, skipn_all, Nat.sub_diag in O. cbn [skipn app] in O. exact (IH W O).
  - exfalso. cbn [nothing_overdue] in O. unfold flatten in O. cbn [map concat seg_text] in O. rewrite app_length in O. lia.
Qed.

Theorem framing_complete : forall pieces l,
  wf l -> concat pieces = flatten l ->
  let '(outs, dfin) := feed msg parse tags thr [] pieces in
  Forall (fun om => fst om = Done) outs /\ deliveries outs = msgs l.
Proof.
  intros pieces l W E.
  assert (E0 : [] ++ concat pieces ++ [] = flatten l) by (now rewrite app_nil_r).
  assert (O0 : nothing_overdue l []).
  { destruct l as [|[J|M m] l0]; cbn [nothing_overdue]; [exact I|left; cbn; lia|].
    cbn [wf] in W. destruct W as [Sp _]. destruct (sp_ends _ _ Sp) as [H _]. cbn [length]. lia. }
  pose proof (framing pieces l [] [] W E0 O0) as F.
  destruct (feed msg parse tags thr [] pieces) as [outs dfin].
  destruct F as [D (l' & W' & F' & M' & O')]. split; [exact D|].
  rewrite app_nil_r in F'. rewrite F' in O'. rewrite (nothing_overdue_whole l' W' O'), app_nil_r in M'. now symmetry.
Qed.
End Framing.
