(* Several connections served by one process: every connection has a buffer of its own, so what a
   connection delivers is what it would deliver alone - whatever arrives on the others, in whatever
   order, and wherever their streams end. *)
From Coq Require Import List NArith Bool Arith Lia.
Import ListNotations.
From Indi Require Import Base.Sx Buffer.Model.

Section Multi.
Variable msg : Type.
Variable parse : str -> pres msg.
Variable tags : list str.
Variable thr : nat -> option nat.          (* each connection's threshold *)

Definition bufs := nat -> str.
Definition upd (b : bufs) (c : nat) (d : str) : bufs := fun k => if Nat.eqb k c then d else b k.

Lemma upd_same b c d : upd b c d c = d.
Proof. unfold upd. now rewrite Nat.eqb_refl. Qed.
Lemma upd_other b c d k : Nat.eqb k c = false -> upd b c d k = b k.
Proof. unfold upd. now intros ->. Qed.

(* the pieces in the order in which they reach the process: (connection, piece) *)
Fixpoint serve (b : bufs) (arr : list (nat * str)) : list (nat * (outcome * list msg)) * bufs :=
  match arr with
  | [] => ([], b)
  | (c, p) :: r =>
      let '(o, d', ms) := process msg parse tags (thr c) (b c ++ p) in
      let (rest, bf) := serve (upd b c d') r in
      ((c, (o, ms)) :: rest, bf)
  end.

Definition of_conn {A} (c : nat) (l : list (nat * A)) : list A :=
  map snd (filter (fun x => Nat.eqb (fst x) c) l).

Theorem serve_isolates : forall arr b c,
  of_conn c (fst (serve b arr)) = fst (feed msg parse tags (thr c) (b c) (of_conn c arr)) /\
  snd (serve b arr) c = snd (feed msg parse tags (thr c) (b c) (of_conn c arr)).
Proof.
  induction arr as [|[c' p] r IH]; intros b c; [split; reflexivity|].
  cbn [serve].
  destruct (process msg parse tags (thr c') (b c' ++ p)) as [[o d'] ms] eqn:Ep.
  destruct (serve (upd b c' d') r) as [rest bf] eqn:Es.
  specialize (IH (upd b c' d') c). rewrite Es in IH. cbn [fst snd] in IH |- *.
  unfold of_conn in *. cbn [filter fst].
  destruct (Nat.eqb c' c) eqn:E.
  - apply Nat.eqb_eq in E. subst c'. cbn [map snd feed]. rewrite Ep.
    rewrite !upd_same in IH.
    destruct (feed msg parse tags (thr c) d' (map snd (filter (fun x => Nat.eqb (fst x) c) r))) as [rest' dfin].
    cbn [fst snd] in *. destruct IH as [IH1 IH2]. split; [now rewrite IH1|exact IH2].
  - rewrite Nat.eqb_sym in E. rewrite !(upd_other b c' d' c E) in IH. exact IH.
Qed.
End Multi.
