(* Model of indi/routing/router.py: registration, BLOB policy table, fan-out. *)
From Coq Require Import List NArith Bool Lia.
Import ListNotations.
From Indi Require Import Base.Sx.

Definition ep := N.                       (* an endpoint object (device or client) *)
Definition dname := option str.           (* message.device *)

Inductive policy := Never | Also | Only.
Definition policy_eqb (a b : policy) : bool :=
  match a, b with Never, Never | Also, Also | Only, Only => true | _, _ => false end.

(* Device.accepts: a named driver or a catch-all (Proxy-style) device *)
Inductive acc := AccNamed (n : str) | AccAll.
Definition accepts (a : acc) (d : dname) : bool :=
  match a with
  | AccAll => true
  | AccNamed n => match d with None => true | Some x => str_eqb x n end
  end.

(* what the router looks at in a message *)
Record rmsg := {
  r_from_client : bool;
  r_from_device : bool;
  r_enable : option policy;    (* Some p: the message is enableBLOB with value p *)
  r_blob : bool;               (* BLOB payload update (setBLOBVector) *)
  r_dev : dname
}.

Definition ptable := list (dname * policy).
Record rstate := {
  devices : list (ep * acc);
  clients : list ep;
  blob : list (ep * ptable)      (* blob_routing *)
}.
Definition init : rstate := {| devices := []; clients := []; blob := [] |}.

Definition dname_eqb (a b : dname) : bool := opt_eqb str_eqb a b.
Lemma dname_eqb_spec a b : dname_eqb a b = true <-> a = b.
Proof. apply opt_eqb_spec, str_eqb_spec. Qed.

Fixpoint alookup {K V} (e : K -> K -> bool) (k : K) (l : list (K * V)) : option V :=
  match l with
  | [] => None
  | (k', v) :: l' => if e k k' then Some v else alookup e k l'
  end.
Fixpoint aremove {K V} (e : K -> K -> bool) (k : K) (l : list (K * V)) : list (K * V) :=
  match l with
  | [] => []
  | (k', v) :: l' => if e k k' then aremove e k l' else (k', v) :: aremove e k l'
  end.
Definition aset {K V} (e : K -> K -> bool) (k : K) (v : V) (l : list (K * V)) : list (K * V) :=
  (k, v) :: aremove e k l.

Fixpoint remove_first (x : ep) (l : list ep) : list ep :=
  match l with
  | [] => []
  | y :: l' => if N.eqb x y then l' else y :: remove_first x l'
  end.

Definition policy_of (s : rstate) (c : ep) (d : dname) : policy :=
  match alookup N.eqb c (blob s) with
  | Some t => match alookup dname_eqb d t with Some p => p | None => Never end
  | None => Never
  end.

Definition allow (p : policy) (is_blob : bool) : bool :=
  match p with Never => negb is_blob | Also => true | Only => is_blob end.

Definition is_sender (e : ep) (sender : option ep) : bool :=
  match sender with Some s => N.eqb e s | None => false end.

Inductive out := ToDev (e : ep) | ToCl (e : ep).

Definition enable_step (s : rstate) (m : rmsg) (sender : option ep) : rstate :=
  match r_enable m, sender with
  | Some p, Some c =>
      match alookup N.eqb c (blob s) with
      | Some t => {| devices := devices s; clients := clients s;
                     blob := aset N.eqb c (aset dname_eqb (r_dev m) p t) (blob s) |}
      | None => s
      end
  | _, _ => s
  end.

Definition dev_outs (s : rstate) (m : rmsg) (sender : option ep) : list out :=
  if r_from_client m then
    map (fun d => ToDev (fst d))
        (filter (fun d => negb (is_sender (fst d) sender) && accepts (snd d) (r_dev m)) (devices s))
  else [].

Definition cl_outs (s : rstate) (m : rmsg) (sender : option ep) : list out :=
  if r_from_device m then
    map ToCl
        (filter (fun c => negb (is_sender c sender) && allow (policy_of s c (r_dev m)) (r_blob m)) (clients s))
  else [].

Definition process (s : rstate) (m : rmsg) (sender : option ep) : rstate * list out :=
  let s1 := if r_from_client m then enable_step s m sender else s in
  (s1, dev_outs s1 m sender ++ cl_outs s1 m sender).

Inductive op :=
| RegDev (e : ep) (a : acc)
| RegCl (e : ep)
| UnregCl (e : ep)
| Send (sender : option ep) (m : rmsg).

Definition step (s : rstate) (o : op) : rstate * list out :=
  match o with
  | RegDev e a => ({| devices := devices s ++ [(e, a)]; clients := clients s; blob := blob s |}, [])
  | RegCl e => ({| devices := devices s; clients := clients s ++ [e];
                   blob := aset N.eqb e [] (blob s) |}, [])
  | UnregCl e => ({| devices := devices s; clients := remove_first e (clients s);
                     blob := aremove N.eqb e (blob s) |}, [])
  | Send sender m => process s m sender
  end.

Definition run (h : list op) : rstate := fold_left (fun s o => fst (step s o)) h init.
