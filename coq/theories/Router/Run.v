(* runner entry for the router model *)
From Coq Require Import List NArith ZArith Bool String.
Import ListNotations.
From Indi Require Import Base.Sx Router.Model.

Definition dec_policy (x : sx) : option policy :=
  if is_tag "Never" x then Some Never else if is_tag "Also" x then Some Also
  else if is_tag "Only" x then Some Only else None.

Definition dec_acc (x : sx) : option acc :=
  match x with
  | SL [] => Some AccAll
  | SL [SA n] => Some (AccNamed n)
  | _ => None
  end.

Definition dec_rmsg (x : sx) : option rmsg :=
  match x with
  | SL [fc; fd; en; bl; dv] =>
      match as_bool fc, as_bool fd, as_opt dec_policy en, as_bool bl, as_opt as_str dv with
      | Some fc, Some fd, Some en, Some bl, Some dv =>
          Some {| r_from_client := fc; r_from_device := fd; r_enable := en; r_blob := bl; r_dev := dv |}
      | _, _, _, _, _ => None
      end
  | _ => None
  end.

Definition dec_op (x : sx) : option op :=
  match x with
  | SL [t; e; a] =>
      if is_tag "regdev" t then
        match as_N e, dec_acc a with Some e, Some a => Some (RegDev e a) | _, _ => None end
      else if is_tag "send" t then
        match as_opt as_N e, dec_rmsg a with Some s, Some m => Some (Send s m) | _, _ => None end
      else None
  | SL [t; e] =>
      if is_tag "regcl" t then option_map RegCl (as_N e)
      else if is_tag "unreg" t then option_map UnregCl (as_N e)
      else None
  | _ => None
  end.

Definition enc_out (o : out) : sx :=
  match o with
  | ToDev e => SL [tag "d"; of_N e]
  | ToCl e => SL [tag "c"; of_N e]
  end.

Fixpoint run_ops (s : rstate) (ops : list op) : list sx :=
  match ops with
  | [] => [SL [of_list of_N (clients s); of_list (fun r => of_N (fst r)) (blob s)]]
  | o :: r => let (s', outs) := step s o in of_list enc_out outs :: run_ops s' r
  end.

(* input: list of ops; output: per op the deliveries, then (clients, policy-table keys) *)
Definition run_router (x : sx) : sx :=
  match as_list_of dec_op x with
  | Some ops => SL (run_ops init ops)
  | None => bad_input
  end.
