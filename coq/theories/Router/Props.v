(* C04 / C05: delivery theorems for the router model, for every state and every history. *)
From Coq Require Import List NArith Bool Lia.
Import ListNotations.
From Indi Require Import Base.Sx Router.Model.

(* ---------- association lists ---------- *)
Section Assoc.
Context {K V : Type} (e : K -> K -> bool).
Hypothesis e_spec : forall a b, e a b = true <-> a = b.

Lemma e_refl a : e a a = true. Proof. now apply e_spec. Qed.
Lemma e_neq a b : a <> b -> e a b = false.
Proof. intros H. destruct (e a b) eqn:E; [apply e_spec in E; contradiction|reflexivity]. Qed.

Lemma alookup_aremove_same k (l : list (K * V)) : alookup e k (aremove e k l) = None.
Proof.
  induction l as [|[k' v] l IH]; simpl; [reflexivity|].
  destruct (e k k') eqn:E; [exact IH|]. simpl. now rewrite E.
Qed.

Lemma alookup_aremove_other k k' (l : list (K * V)) :
  k <> k' -> alookup e k (aremove e k' l) = alookup e k l.
Proof.
  intros H. induction l as [|[k2 v] l IH]; simpl; [reflexivity|].
  destruct (e k' k2) eqn:E.
  - apply e_spec in E. subst. rewrite (e_neq _ _ H). exact IH.
  - simpl. destruct (e k k2); [reflexivity|exact IH].
Qed.

Lemma alookup_aset_same k v (l : list (K * V)) : alookup e k (aset e k v l) = Some v.
Proof. unfold aset. simpl. now rewrite e_refl. Qed.

Lemma alookup_aset_other k k' v (l : list (K * V)) :
  k <> k' -> alookup e k (aset e k' v l) = alookup e k l.
Proof. intros H. unfold aset. simpl. rewrite (e_neq _ _ H). now apply alookup_aremove_other. Qed.
End Assoc.

Arguments aset {K V} e k v l : simpl never.

Lemma Neqb_spec a b : N.eqb a b = true <-> a = b. Proof. apply N.eqb_eq. Qed.

(* ---------- one message, any state ---------- *)

Lemma in_map_ToDev d (l : list (ep * acc)) :
  In (ToDev d) (map (fun x => ToDev (fst x)) l) <-> exists a, In (d, a) l.
Proof.
  rewrite in_map_iff. split.
  - intros [[d' a] [E H]]. simpl in E. injection E as ->. now exists a.
  - intros [a H]. now exists (d, a).
Qed.

Lemma NoDup_map_filter {A B} (f : A -> B) (p : A -> bool) (l : list A) :
  NoDup (map f l) -> NoDup (map f (filter p l)).
Proof.
  induction l as [|x l IH]; simpl; intros H; [constructor|].
  inversion H as [|? ? Hn Hd]; subst. destruct (p x); [|auto].
  simpl. constructor; [|auto].
  intros Hin. apply Hn. apply in_map_iff in Hin as [y [E Hy]]. apply filter_In in Hy as [Hy _].
  rewrite <- E. now apply in_map.
Qed.

Lemma NoDup_map_inj {A B} (f : A -> B) (l : list A) :
  (forall x y, f x = f y -> x = y) -> NoDup l -> NoDup (map f l).
Proof.
  intros Hf. induction 1 as [|x l Hn Hd IH]; simpl; constructor; [|exact IH].
  intros Hin. apply in_map_iff in Hin as [y [E Hy]]. apply Hf in E. now subst.
Qed.

Lemma is_sender_false e s : is_sender e s = false <-> s <> Some e.
Proof.
  destruct s as [x|]; simpl.
  - rewrite N.eqb_neq. split; intros H; congruence.
  - split; [discriminate|reflexivity].
Qed.

Section OneMessage.
Variable s : rstate.
Variable m : rmsg.
Variable sender : option ep.
Let s1 := fst (process s m sender).
Let outs := snd (process s m sender).

Lemma outs_eq : outs = dev_outs s1 m sender ++ cl_outs s1 m sender.
Proof. reflexivity. Qed.

Lemma enable_step_devices : devices (enable_step s m sender) = devices s.
Proof. unfold enable_step. destruct (r_enable m), sender; try reflexivity. now destruct (alookup _ _ _). Qed.
Lemma enable_step_clients : clients (enable_step s m sender) = clients s.
Proof. unfold enable_step. destruct (r_enable m), sender; try reflexivity. now destruct (alookup _ _ _). Qed.

Lemma s1_devices : devices s1 = devices s.
Proof. unfold s1, process. simpl. destruct (r_from_client m); [apply enable_step_devices|reflexivity]. Qed.
Lemma s1_clients : clients s1 = clients s.
Proof. unfold s1, process. simpl. destruct (r_from_client m); [apply enable_step_clients|reflexivity]. Qed.

(* C04: which devices get the message *)
Theorem to_device_iff d :
  In (ToDev d) outs <->
  r_from_client m = true /\ sender <> Some d /\
  exists a, In (d, a) (devices s) /\ accepts a (r_dev m) = true.
Proof.
  rewrite outs_eq, in_app_iff. split.
  - intros [H|H].
    + unfold dev_outs in H. destruct (r_from_client m) eqn:F; [|contradiction].
      apply in_map_ToDev in H as [a H]. apply filter_In in H as [H1 H2]. simpl in H2.
      apply andb_prop in H2 as [H2 H3]. apply negb_true_iff, is_sender_false in H2.
      rewrite s1_devices in H1. split; [reflexivity|]. split; [assumption|]. now exists a.
    + unfold cl_outs in H. destruct (r_from_device m); [|contradiction].
      apply in_map_iff in H as [c [E _]]. discriminate.
  - intros [F [Hs [a [Hin Ha]]]]. left. unfold dev_outs. rewrite F.
    apply in_map_ToDev. exists a. apply filter_In. rewrite s1_devices. split; [assumption|].
    simpl. rewrite Ha, andb_true_r. now apply negb_true_iff, is_sender_false.
Qed.

Theorem device_deliveries_nodup :
  NoDup (map fst (devices s)) -> NoDup (dev_outs s1 m sender).
Proof.
  intros H. unfold dev_outs. destruct (r_from_client m); [|constructor].
  rewrite s1_devices.
  assert (E : forall l : list (ep * acc), map (fun d => ToDev (fst d)) l = map ToDev (map fst l))
    by (intros l; now rewrite map_map).
  rewrite E. apply NoDup_map_inj; [intros x y [=]; assumption|].
  now apply NoDup_map_filter.
Qed.

(* C05: which clients get the message *)
Theorem to_client_iff c :
  In (ToCl c) outs <->
  r_from_device m = true /\ sender <> Some c /\ In c (clients s) /\
  allow (policy_of s1 c (r_dev m)) (r_blob m) = true.
Proof.
  rewrite outs_eq, in_app_iff. split.
  - intros [H|H].
    + unfold dev_outs in H. destruct (r_from_client m); [|contradiction].
      apply in_map_iff in H as [x [E _]]. discriminate.
    + unfold cl_outs in H. destruct (r_from_device m) eqn:F; [|contradiction].
      apply in_map_iff in H as [c' [E H]]. injection E as ->.
      apply filter_In in H as [H1 H2]. apply andb_prop in H2 as [H2 H3].
      apply negb_true_iff, is_sender_false in H2. rewrite s1_clients in H1. auto.
  - intros [F [Hs [Hin Ha]]]. right. unfold cl_outs. rewrite F.
    apply in_map. apply filter_In. rewrite s1_clients. split; [assumption|].
    rewrite Ha, andb_true_r. now apply negb_true_iff, is_sender_false.
Qed.

Theorem client_deliveries_nodup : NoDup (clients s) -> NoDup (cl_outs s1 m sender).
Proof.
  intros H. unfold cl_outs. destruct (r_from_device m); [|constructor].
  rewrite s1_clients. apply NoDup_map_inj; [intros x y [=]; assumption|].
  now apply NoDup_filter.
Qed.

(* exactly once = in the list and the list is duplicate-free *)
Theorem deliveries_nodup :
  NoDup (map fst (devices s)) -> NoDup (clients s) -> NoDup outs.
Proof.
  intros Hd Hc. rewrite outs_eq.
  assert (forall l1 l2 : list out, NoDup l1 -> NoDup l2 ->
            (forall x, In x l1 -> In x l2 -> False) -> NoDup (l1 ++ l2)) as Happ.
  { induction l1 as [|x l1 IH]; simpl; intros l2 H1 H2 Hx; [assumption|].
    inversion H1; subst. constructor.
    - rewrite in_app_iff. intros [H|H]; [contradiction|]. eapply Hx; [left; reflexivity|exact H].
    - apply IH; auto. intros y Hy1 Hy2. eapply Hx; [right; exact Hy1|exact Hy2]. }
  apply Happ; [now apply device_deliveries_nodup|now apply client_deliveries_nodup|].
  intros x H1 H2. unfold dev_outs in H1. unfold cl_outs in H2.
  destruct (r_from_client m); [|contradiction]. destruct (r_from_device m); [|contradiction].
  apply in_map_iff in H1 as [? [<- _]]. apply in_map_iff in H2 as [? [E _]]. discriminate.
Qed.

Theorem device_bound_not_relayed c : r_from_device m = false -> ~ In (ToCl c) outs.
Proof. intros F H. apply to_client_iff in H as [F' _]. congruence. Qed.

Theorem client_bound_not_to_devices d : r_from_client m = false -> ~ In (ToDev d) outs.
Proof. intros F H. apply to_device_iff in H as [F' _]. congruence. Qed.

Theorem never_back_to_sender e : sender = Some e -> ~ In (ToDev e) outs /\ ~ In (ToCl e) outs.
Proof.
  intros Hs. split; intros H.
  - apply to_device_iff in H as [_ [H _]]. congruence.
  - apply to_client_iff in H as [_ [H _]]. congruence.
Qed.
End OneMessage.

(* ---------- policy table over histories ---------- *)

(* h is the history in reverse order (most recent first) *)
Fixpoint registered_rev (h : list op) (c : ep) : bool :=
  match h with
  | [] => false
  | RegCl e :: r => if N.eqb e c then true else registered_rev r c
  | UnregCl e :: r => if N.eqb e c then false else registered_rev r c
  | _ :: r => registered_rev r c
  end.

(* the specification: latest enableBLOB(c, d, p) sent while c was registered,
   since c's latest registration; default Never *)
Fixpoint last_enable_rev (h : list op) (c : ep) (d : dname) : policy :=
  match h with
  | [] => Never
  | RegCl e :: r => if N.eqb e c then Never else last_enable_rev r c d
  | UnregCl e :: r => if N.eqb e c then Never else last_enable_rev r c d
  | Send (Some sd) m :: r =>
      match r_enable m with
      | Some p => if r_from_client m && N.eqb sd c && dname_eqb (r_dev m) d && registered_rev r c
                  then p else last_enable_rev r c d
      | None => last_enable_rev r c d
      end
  | _ :: r => last_enable_rev r c d
  end.

Definition run_rev (h : list op) : rstate := fold_right (fun o s => fst (step s o)) init h.

Lemma run_run_rev h : run h = run_rev (rev h).
Proof. unfold run, run_rev. now rewrite fold_left_rev_right. Qed.

(* a client is registered only while unregistered (what the transports do) *)
Fixpoint wf_rev (h : list op) : Prop :=
  match h with
  | [] => True
  | RegCl e :: r => registered_rev r e = false /\ wf_rev r
  | _ :: r => wf_rev r
  end.

Lemma process_clients s m sd : clients (fst (process s m sd)) = clients s.
Proof. unfold process. simpl. destruct (r_from_client m); [apply enable_step_clients|reflexivity]. Qed.

Lemma in_remove_first x y l : In x (remove_first y l) -> In x l.
Proof.
  induction l as [|z l IH]; simpl; [auto|]. destruct (N.eqb y z); [auto|].
  intros [H|H]; auto.
Qed.

Lemma remove_first_NoDup y l : NoDup l -> NoDup (remove_first y l) /\ ~ In y (remove_first y l).
Proof.
  induction 1 as [|z l Hn Hd IH]; simpl; [split; [constructor|auto]|].
  destruct (N.eqb y z) eqn:E.
  - apply N.eqb_eq in E. subst. auto.
  - destruct IH as [I1 I2]. split.
    + constructor; [|assumption]. intros H. apply Hn. eapply in_remove_first; eauto.
    + intros [H|H]; [apply N.eqb_neq in E; congruence|contradiction].
Qed.

Lemma remove_first_other x y l : x <> y -> In x l -> In x (remove_first y l).
Proof.
  intros Hne. induction l as [|z l IH]; simpl; [auto|].
  destruct (N.eqb y z) eqn:E.
  - apply N.eqb_eq in E. subst. intros [H|H]; [congruence|assumption].
  - intros [H|H]; [left; assumption|right; auto].
Qed.

(* registered_rev is membership in the client list, and the table has a row
   for exactly the registered clients *)
Lemma registered_inv h :
  wf_rev h ->
  NoDup (clients (run_rev h)) /\
  (forall c, registered_rev h c = true <-> In c (clients (run_rev h))) /\
  (forall c, registered_rev h c = true <-> alookup N.eqb c (blob (run_rev h)) <> None).
Proof.
  induction h as [|o h IH]; cbn [run_rev fold_right wf_rev registered_rev].
  - intros _. split; [constructor|]. split; intros c; split; try discriminate; try contradiction;
      simpl; congruence.
  - intros W. fold (run_rev h). destruct o as [e a|e|e|sd m]; cbn [step fst clients blob devices] in *.
    + destruct (IH W) as [I1 [I2 I3]]. auto.
    + destruct W as [Wn W]. destruct (IH W) as [I1 [I2 I3]]. split; [|split].
      * assert (~ In e (clients (run_rev h))) as Hn.
        { intros H. apply I2 in H. congruence. }
        clear - I1 Hn. induction (clients (run_rev h)) as [|x l IHl]; simpl.
        -- constructor; [auto|constructor].
        -- inversion I1; subst. constructor.
           ++ rewrite in_app_iff. simpl. intros [H|[H|[]]]; [contradiction|]. subst. apply Hn. now left.
           ++ apply IHl; auto. intros H. apply Hn. now right.
      * intros c. rewrite in_app_iff. simpl. destruct (N.eqb e c) eqn:E.
        -- apply N.eqb_eq in E. subst. split; auto.
        -- rewrite I2. apply N.eqb_neq in E. split; [auto|]. intros [H|[H|[]]]; [assumption|congruence].
      * intros c. destruct (N.eqb e c) eqn:E.
        -- apply N.eqb_eq in E. subst. rewrite (alookup_aset_same N.eqb Neqb_spec). split; [discriminate|reflexivity].
        -- apply N.eqb_neq in E. rewrite (alookup_aset_other N.eqb Neqb_spec) by congruence. apply I3.
    + destruct (IH W) as [I1 [I2 I3]]. destruct (remove_first_NoDup e _ I1) as [R1 R2]. split; [exact R1|split].
      * intros c. destruct (N.eqb e c) eqn:E.
        -- apply N.eqb_eq in E. subst. split; [discriminate|contradiction].
        -- apply N.eqb_neq in E. rewrite I2. split.
           ++ apply remove_first_other. congruence.
           ++ apply in_remove_first.
      * intros c. destruct (N.eqb e c) eqn:E.
        -- apply N.eqb_eq in E. subst. rewrite (alookup_aremove_same N.eqb). split; [discriminate|congruence].
        -- apply N.eqb_neq in E. rewrite (alookup_aremove_other N.eqb Neqb_spec) by congruence. apply I3.
    + destruct (IH W) as [I1 [I2 I3]]. rewrite process_clients. split; [exact I1|split; [exact I2|]].
      intros c. rewrite I3. unfold process. cbn [fst]. destruct (r_from_client m); [|reflexivity].
      unfold enable_step. destruct (r_enable m) as [p|]; [|reflexivity]. destruct sd as [x|]; [|reflexivity].
      destruct (alookup N.eqb x (blob (run_rev h))) as [t|] eqn:L; [|reflexivity]. cbn [blob].
      destruct (N.eq_dec c x) as [->|Hne].
      * rewrite (alookup_aset_same N.eqb Neqb_spec), L. split; discriminate.
      * now rewrite (alookup_aset_other N.eqb Neqb_spec).
Qed.

Theorem clients_nodup h : wf_rev h -> NoDup (clients (run_rev h)).
Proof. intros W. now destruct (registered_inv h W). Qed.

Theorem policy_is_last_setting h c d :
  wf_rev h -> policy_of (run_rev h) c d = last_enable_rev h c d.
Proof.
  induction h as [|o h IH]; cbn [run_rev fold_right wf_rev last_enable_rev]; [reflexivity|].
  intros W. fold (run_rev h). destruct o as [e a|e|e|sd m]; cbn [step fst clients blob devices] in *.
  - now apply IH.
  - destruct W as [_ W]. unfold policy_of in *. cbn [blob]. destruct (N.eqb e c) eqn:E.
    + apply N.eqb_eq in E. subst. now rewrite (alookup_aset_same N.eqb Neqb_spec).
    + apply N.eqb_neq in E. rewrite (alookup_aset_other N.eqb Neqb_spec) by congruence. now apply IH.
  - unfold policy_of in *. cbn [blob]. destruct (N.eqb e c) eqn:E.
    + apply N.eqb_eq in E. subst. now rewrite (alookup_aremove_same N.eqb).
    + apply N.eqb_neq in E. rewrite (alookup_aremove_other N.eqb Neqb_spec) by congruence. now apply IH.
  - specialize (IH W). destruct (registered_inv h W) as [_ [_ I3]].
    unfold process. cbn [fst]. destruct sd as [x|].
    + destruct (r_enable m) as [p|] eqn:En.
      * destruct (r_from_client m) eqn:F; cbn [andb]; [|exact IH].
        unfold enable_step. rewrite En.
        destruct (alookup N.eqb x (blob (run_rev h))) as [t|] eqn:L.
        -- destruct (N.eqb x c) eqn:E; cbn [andb].
           ++ apply N.eqb_eq in E. subst x.
              assert (registered_rev h c = true) as Hr by (apply I3; congruence). rewrite Hr, andb_true_r.
              unfold policy_of. cbn [blob]. rewrite (alookup_aset_same N.eqb Neqb_spec).
              destruct (dname_eqb (r_dev m) d) eqn:Ed.
              ** apply dname_eqb_spec in Ed. subst d.
                 now rewrite (alookup_aset_same dname_eqb dname_eqb_spec).
              ** assert (d <> r_dev m) as Hne.
                 { intros ->. rewrite (proj2 (dname_eqb_spec _ _) eq_refl) in Ed. discriminate. }
                 rewrite (alookup_aset_other dname_eqb dname_eqb_spec) by assumption.
                 rewrite <- IH. unfold policy_of. now rewrite L.
           ++ apply N.eqb_neq in E. unfold policy_of. cbn [blob].
              rewrite (alookup_aset_other N.eqb Neqb_spec) by congruence. exact IH.
        -- (* sender has no row: unregistered, ignored *)
           destruct (N.eqb x c) eqn:E; cbn [andb]; [|exact IH].
           apply N.eqb_eq in E. subst x.
           assert (registered_rev h c = false) as Hr.
           { destruct (registered_rev h c) eqn:R; [|reflexivity]. apply I3 in R. congruence. }
           rewrite Hr, andb_false_r. exact IH.
      * destruct (r_from_client m); [|exact IH]. unfold enable_step. now rewrite En.
    + destruct (r_from_client m); [|exact IH].
      unfold enable_step. now destruct (r_enable m).
Qed.

(* a setting by one client for one device touches no other pair *)
Theorem policy_independent s m sd c d :
  (forall p, r_enable m = Some p -> sd <> Some c \/ r_dev m <> d) ->
  policy_of (fst (process s m sd)) c d = policy_of s c d.
Proof.
  intros H. unfold process. simpl. destruct (r_from_client m); [|reflexivity].
  unfold enable_step. destruct (r_enable m) as [p|]; [|reflexivity].
  destruct sd as [x|]; [|reflexivity].
  destruct (alookup N.eqb x (blob s)) as [t|] eqn:L; [|reflexivity].
  unfold policy_of. simpl. destruct (N.eqb c x) eqn:E.
  - apply N.eqb_eq in E. subst x. rewrite L.
    destruct (H p eq_refl) as [Hc|Hd]; [congruence|].
    rewrite (alookup_aset_other dname_eqb dname_eqb_spec) by congruence. reflexivity.
  - apply N.eqb_neq in E. now rewrite (alookup_aremove_other N.eqb Neqb_spec).
Qed.

Theorem unregister_forgets s c d : policy_of (fst (step s (UnregCl c))) c d = Never.
Proof. unfold policy_of. simpl. now rewrite (alookup_aremove_same N.eqb). Qed.

Theorem reconnect_defaults s c d : policy_of (fst (step s (RegCl c))) c d = Never.
Proof. unfold policy_of. simpl. now rewrite N.eqb_refl. Qed.
