(* C01: every operation of the library is orderly - within one operation no ordinary message about a
   property follows a BLOB update about the same property.  What a driver publishes comes from two
   places only: a definition (never a BLOB update) and an update, which is a BLOB update exactly for
   BLOB properties; an operation on one property publishes updates only, or one definition followed
   by updates; enabling a group and answering getProperties go through properties of different
   names.  Hence the hypothesis of the two-connection theorem holds of every history. *)
From Coq Require Import List NArith Bool String Lia.
Import ListNotations.
From Indi Require Import Base.Sx Msg.Equality Msg.Model Driver.Model Driver.Props Client.Model Client.Props
  System.Converge System.Ops System.Model System.Deliver System.Reorder.

Definition kind_blob (k : vkind) : bool := match k with KBlob => true | _ => false end.

Lemma set_msg_blob d g v m : set_msg d g v = Some m -> is_blob_msg m = kind_blob (v_kind v).
Proof. unfold set_msg. destruct (vec_on g v); [|discriminate]. intros [= <-]. unfold is_blob_msg. cbn [mk]. destruct (v_kind v); reflexivity. Qed.

Lemma def_msg_not_blob d g v : is_blob_msg (def_msg d g v) = false.
Proof. unfold def_msg, is_blob_msg. destruct (vec_on g v); cbn [mk]; [destruct (v_kind v)|]; reflexivity. Qed.

(* ---------- traces ---------- *)
Definition quiet_tr (tr : list outev) : Prop := pubs tr = [].
Definition uniform_on (dn vn : str) (b : bool) (tr : list outev) : Prop :=
  Forall (fun m => is_blob_msg m = b /\ about dn vn m) (pubs tr).
Definition same_vec (v' v : vec) : Prop := v_kind v' = v_kind v /\ v_name v' = v_name v.

Lemma uniform_app dn vn b t1 t2 : uniform_on dn vn b t1 -> uniform_on dn vn b t2 -> uniform_on dn vn b (t1 ++ t2).
Proof. unfold uniform_on. rewrite pubs_app. intros H1 H2. apply Forall_app. auto. Qed.

Lemma quiet_uniform dn vn b tr : quiet_tr tr -> uniform_on dn vn b tr.
Proof. unfold quiet_tr, uniform_on. intros ->. constructor. Qed.

Lemma quiet_app t1 t2 : quiet_tr t1 -> quiet_tr t2 -> quiet_tr (t1 ++ t2).
Proof. unfold quiet_tr. rewrite pubs_app. intros -> ->. reflexivity. Qed.

Lemma read_elem_quiet e : quiet_tr (snd (read_elem e)).
Proof.
  unfold read_elem.
  assert (G : forall hs acc, quiet_tr (snd acc) -> quiet_tr (snd (fold_left (fun acc h =>
               let '(e', tr) := acc in
               match h_event h with
               | ERead =>
                   if h_coro h then (e', tr ++ [Spawn (h_id h) None])
                   else (match h_refresh h with
                         | Some v => {| e_key := e_key e'; e_name := e_name e'; e_label := e_label e'; e_enabled := e_enabled e';
                                        e_value := v; e_fmt := e_fmt e'; e_min := e_min e'; e_max := e_max e'; e_step := e_step e';
                                        e_handlers := e_handlers e' |}
                         | None => e'
                         end, tr ++ [Call (h_id h) None None])
               | _ => acc
               end) hs acc))).
  { induction hs as [|h hs IH]; intros acc Q; [exact Q|]. cbn [fold_left]. apply IH. destruct acc as [e' tr]. cbn [snd] in *.
    destruct (h_event h); try exact Q. destruct (h_coro h); cbn [snd]; apply quiet_app; try exact Q; reflexivity. }
  apply G. reflexivity.
Qed.

Lemma read_elems_quiet es : quiet_tr (snd (read_elems es)).
Proof.
  induction es as [|e r IH]; [reflexivity|]. cbn [read_elems]. destruct (e_enabled e).
  - pose proof (read_elem_quiet e) as Q. destruct (read_elem e) as [e' t1]. destruct (read_elems r) as [r' t2]. cbn [snd] in *. now apply quiet_app.
  - destruct (read_elems r) as [r' t2]. exact IH.
Qed.

Lemma dispatch_quiet k hs a b : quiet_tr (fst (dispatch_event k hs a b)).
Proof.
  unfold dispatch_event.
  assert (G : forall hs acc, quiet_tr (fst acc) -> quiet_tr (fst (fold_left (fun acc h =>
               let '(tr, veto) := acc in
               if match h_event h, k with EWrite, EWrite | EChange, EChange => true | _, _ => false end then
                 if h_coro h then (tr ++ [Spawn (h_id h) b], veto)
                 else (tr ++ [Call (h_id h) a b], veto || h_veto h)
               else acc) hs acc))).
  { induction hs0 as [|h hs0 IH]; intros acc Q; [exact Q|]. cbn [fold_left]. apply IH. destruct acc as [tr veto]. cbn [fst] in *.
    destruct (match h_event h, k with EWrite, EWrite | EChange, EChange => true | _, _ => false end); [|exact Q].
    destruct (h_coro h); cbn [fst]; apply quiet_app; try exact Q; reflexivity. }
  apply G. reflexivity.
Qed.

(* ---------- the actions on one property ---------- *)
Notation U d v := (uniform_on (d_name d) (v_name v) (kind_blob (v_kind v))).

Lemma same_vec_refl v : same_vec v v. Proof. split; reflexivity. Qed.
Lemma same_vec_trans a b c : same_vec a b -> same_vec b c -> same_vec a c.
Proof. intros [A1 A2] [B1 B2]. split; congruence. Qed.
Lemma U_same d v v' tr : same_vec v' v -> U d v' tr -> U d v tr.
Proof. intros [K N]. now rewrite K, N. Qed.

Lemma publish_set_uniform d g v : U d v (snd (publish_set d g v)) /\ same_vec (fst (publish_set d g v)) v.
Proof.
  unfold publish_set. destruct (vec_on g v); [|split; [constructor|apply same_vec_refl]].
  pose proof (read_elems_quiet (v_elems v)) as Q. destruct (read_elems (v_elems v)) as [es tr]. cbn [fst snd] in *.
  split; [|split; reflexivity]. apply uniform_app; [apply quiet_uniform, Q|].
  destruct (set_msg d g (with_elems v es)) as [m|] eqn:E; [|constructor].
  unfold uniform_on. cbn. constructor; [|constructor]. split; [exact (set_msg_blob d g _ m E)|exact (set_msg_about d g _ m E)].
Qed.

Lemma assign_uniform d g v i x : U d v (snd (assign d g v i x)) /\ same_vec (fst (assign d g v i x)) v.
Proof.
  unfold assign. destruct (nth_error (v_elems v) i) as [e|]; [|split; [constructor|apply same_vec_refl]].
  pose proof (publish_set_uniform d g (with_elems v (store v i x))) as [Uu K]. cbn [v_kind v_name with_elems] in Uu.
  destruct (publish_set d g (with_elems v (store v i x))) as [v2 tr]. cbn [fst snd] in *. split; [|exact K].
  apply uniform_app; [exact Uu|]. destruct (value_eqb _ _); [constructor|]. apply quiet_uniform, dispatch_quiet.
Qed.

Lemma set_value_uniform d g v i x : U d v (snd (set_value d g v i x)) /\ same_vec (fst (set_value d g v i x)) v.
Proof.
  unfold set_value. destruct (nth_error (v_elems v) i) as [e|]; [|split; [constructor|apply same_vec_refl]].
  pose proof (dispatch_quiet EWrite (e_handlers e) None (Some x)) as Q.
  destruct (dispatch_event EWrite (e_handlers e) None (Some x)) as [tr veto]. cbn [fst] in Q.
  destruct veto; [split; [apply quiet_uniform, Q|apply same_vec_refl]|].
  pose proof (assign_uniform d g v i x) as [Uu K]. destruct (assign d g v i x) as [v' tr']. cbn [fst snd] in *.
  split; [|exact K]. apply uniform_app; [apply quiet_uniform, Q|exact Uu].
Qed.

Lemma selected_loop_uniform d g v sel : U d v (snd (selected_loop d g v sel)) /\ same_vec (fst (selected_loop d g v sel)) v.
Proof.
  unfold selected_loop. generalize (seq 0 (List.length (v_elems v))). intro l.
  assert (G : forall acc, U d v (snd acc) /\ same_vec (fst acc) v ->
              let r := fold_left (fun acc j =>
                 let '(v', tr) := acc in
                 let want := existsb (Nat.eqb j) sel in
                 match nth_error (v_elems v') j with
                 | Some e => if Bool.eqb (sw_of e) want then acc else let (v'', tr') := assign d g v' j (VSw want) in (v'', tr ++ tr')
                 | None => acc
                 end) l acc in
              U d v (snd r) /\ same_vec (fst r) v).
  { induction l as [|j l IH]; intros acc H; [exact H|]. cbn [fold_left]. apply IH. destruct acc as [v' tr]. cbn [fst snd] in *.
    destruct H as [Uu K]. destruct (nth_error (v_elems v') j); [|auto]. destruct (Bool.eqb _ _); [auto|].
    pose proof (assign_uniform d g v' j (VSw (existsb (Nat.eqb j) sel))) as [U' K'].
    destruct (assign d g v' j _) as [v'' tr']. cbn [fst snd] in *.
    split; [apply uniform_app; [exact Uu|exact (U_same d v v' tr' K U')]|exact (same_vec_trans _ _ _ K' K)]. }
  apply (G (v, [])). split; [constructor|apply same_vec_refl].
Qed.

Lemma apply_children_uniform d g v ch : U d v (snd (apply_children d g v ch)) /\ same_vec (fst (apply_children d g v ch)) v.
Proof.
  unfold apply_children.
  assert (G : forall ch acc, U d v (snd acc) /\ same_vec (fst acc) v ->
              let r := fold_left (fun acc p =>
               let '(v', tr) := acc in
               match lookup (s2l "name") (pa p) with
               | Some n =>
                   match index_of n (v_elems v') 0 with
                   | Some i => match value_of_child (v_kind v') p with
                               | Some x => let (v'', tr') := set_value d g v' i x in (v'', tr ++ tr')
                               | None => acc
                               end
                   | None => acc
                   end
               | None => acc
               end) ch acc in
              U d v (snd r) /\ same_vec (fst r) v).
  { induction ch0 as [|p ch0 IH]; intros acc H; [exact H|]. cbn [fold_left]. apply IH. destruct acc as [v' tr]. cbn [fst snd] in *.
    destruct H as [Uu K]. destruct (lookup (s2l "name") (pa p)) as [n|]; [|auto].
    destruct (index_of n (v_elems v') 0) as [i|]; [|auto]. destruct (value_of_child (v_kind v') p) as [x|]; [|auto].
    pose proof (set_value_uniform d g v' i x) as [U' K'].
    destruct (set_value d g v' i x) as [v'' tr']. cbn [fst snd] in *.
    split; [apply uniform_app; [exact Uu|exact (U_same d v v' tr' K U')]|exact (same_vec_trans _ _ _ K' K)]. }
  apply (G ch (v, [])). split; [constructor|apply same_vec_refl].
Qed.

Lemma publish_def_uniform d g v :
  uniform_on (d_name d) (v_name v) false (snd (publish_def d g v)) /\ same_vec (fst (publish_def d g v)) v.
Proof.
  assert (One : forall v', v_name v' = v_name v -> uniform_on (d_name d) (v_name v) false [Publish (def_msg d g v')]).
  { intros v' Hn. unfold uniform_on. cbn. constructor; [|constructor]. split; [apply def_msg_not_blob|rewrite <- Hn; apply def_msg_about]. }
  unfold publish_def. destruct (vec_on g v); [|split; [apply One; reflexivity|apply same_vec_refl]].
  assert (R : forall es tr, quiet_tr tr ->
                uniform_on (d_name d) (v_name v) false (tr ++ [Publish (def_msg d g (with_elems v es))]) /\ same_vec (with_elems v es) v).
  { intros es tr Q. split; [apply uniform_app; [apply quiet_uniform; exact Q|apply One; reflexivity]|split; reflexivity]. }
  pose proof (read_elems_quiet (v_elems v)) as Q.
  destruct (v_kind v); destruct (read_elems (v_elems v)) as [es tr]; cbn [fst snd] in *; try (apply R; exact Q).
  split; [apply One; reflexivity|apply same_vec_refl].
Qed.

(* ---------- from the shape of a trace to the hypothesis of the two-connection theorem ---------- *)
Lemma about_unique dn v1 v2 m : about dn v1 m -> about dn v2 m -> v1 = v2.
Proof. intros (_ & A & _) (_ & B & _). congruence. Qed.

Lemma orderly_app dn a : forall b,
  blob_updates_last dn a -> blob_updates_last dn b ->
  (forall m vn, In m a -> is_blob_msg m = true -> about dn vn m -> none_about dn vn (filter (fun x => negb (is_blob_msg x)) b)) ->
  blob_updates_last dn (a ++ b).
Proof.
  induction a as [|m a IH]; intros b Ha Hb Hx; [exact Hb|]. cbn [app blob_updates_last] in *. destruct Ha as [Hm Ha].
  split; [|apply IH; [exact Ha|exact Hb|intros m' vn Hin; apply Hx; now right]].
  destruct (is_blob_msg m) eqn:Eb; [|exact Hm]. destruct Hm as (vn & Am & Hn). exists vn. split; [exact Am|].
  rewrite filter_app. apply Forall_app. split; [exact Hn|]. apply (Hx m vn); [now left|exact Eb|exact Am].
Qed.

Lemma nonblob_orderly dn ms : Forall (fun m => is_blob_msg m = false /\ exists vn, about dn vn m) ms -> blob_updates_last dn ms.
Proof. induction 1 as [|m ms [Hb Ha] _ IH]; cbn [blob_updates_last]; [exact I|]. rewrite Hb. auto. Qed.

Lemma blob_run_orderly dn vn ms : Forall (fun m => is_blob_msg m = true /\ about dn vn m) ms -> blob_updates_last dn ms.
Proof.
  induction 1 as [|m ms [Hb Ha] Hr IH]; cbn [blob_updates_last]; [exact I|]. rewrite Hb. split; [|exact IH].
  exists vn. split; [exact Ha|]. rewrite (filter_all_false (fun x => negb (is_blob_msg x)) ms); [constructor|].
  eapply Forall_impl; [|exact Hr]. intros x [Hx _]. cbn. now rewrite Hx.
Qed.

(* all about one property: ordinary messages, then BLOB updates *)
Lemma sorted_orderly dn vn a b :
  Forall (fun m => is_blob_msg m = false /\ about dn vn m) a -> Forall (fun m => is_blob_msg m = true /\ about dn vn m) b ->
  blob_updates_last dn (a ++ b).
Proof.
  intros Ha Hb. apply orderly_app.
  - apply nonblob_orderly. eapply Forall_impl; [|exact Ha]. intros m [H1 H2]. eauto.
  - exact (blob_run_orderly dn vn b Hb).
  - intros m v Hin Hbl _. rewrite Forall_forall in Ha. destruct (Ha m Hin) as [C _]. congruence.
Qed.

Lemma uniform_orderly dn vn b tr : uniform_on dn vn b tr -> blob_updates_last dn (pubs tr).
Proof.
  intro H. destruct b.
  - rewrite <- (app_nil_l (pubs tr)). apply (sorted_orderly dn vn [] (pubs tr)); [constructor|exact H].
  - rewrite <- (app_nil_r (pubs tr)). apply (sorted_orderly dn vn (pubs tr) []); [exact H|constructor].
Qed.

Lemma def_then_sets_orderly dn vn b t1 t2 :
  uniform_on dn vn false t1 -> uniform_on dn vn b t2 -> blob_updates_last dn (pubs (t1 ++ t2)).
Proof.
  intros H1 H2. destruct b.
  - rewrite pubs_app. exact (sorted_orderly dn vn _ _ H1 H2).
  - apply (uniform_orderly dn vn false). now apply uniform_app.
Qed.

(* ---------- one named property ---------- *)
Lemma on_vec_trace d n f :
  (forall g v, v_name (fst (f g v)) = v_name v) -> NoDup (names_of d) ->
  snd (on_vec d n f) = match find_gv n (d_groups d) with Some (g, v) => snd (f g v) | None => [] end.
Proof.
  intros Hf Hnd. unfold on_vec. pose proof (upd_vec_spec d (d_groups d) n f Hf Hnd) as [_ B].
  destruct (upd_vec d (d_groups d) n f) as [[gs tr] ok]. exact B.
Qed.

Lemma on_vec_orderly d n f :
  NoDup (names_of d) ->
  (forall g v, v_name (fst (f g v)) = v_name v) ->
  (forall g v, blob_updates_last (d_name d) (pubs (snd (f g v)))) ->
  blob_updates_last (d_name d) (pubs (snd (on_vec d n f))).
Proof.
  intros Hnd Hf Ho. rewrite (on_vec_trace d n f Hf Hnd). destruct (find_gv n (d_groups d)) as [[g v]|]; [apply Ho|exact I].
Qed.

(* without any hypothesis on names: whatever holds of every message f may publish holds of what on_vec publishes *)
Lemma upd_vec_in_forall (P : msg -> Prop) vs n f :
  (forall v, Forall P (pubs (snd (f v)))) -> Forall P (pubs (snd (fst (upd_vec_in vs n f)))).
Proof.
  intro H. induction vs as [|v vs IH]; cbn [upd_vec_in]; [constructor|].
  destruct (str_eqb (v_name v) n).
  - specialize (H v). destruct (f v) as [v' tr]. exact H.
  - destruct (upd_vec_in vs n f) as [[r' tr] ok]. exact IH.
Qed.

Lemma on_vec_forall (P : msg -> Prop) d n f :
  (forall g v, Forall P (pubs (snd (f g v)))) -> Forall P (pubs (snd (on_vec d n f))).
Proof.
  intro H. unfold on_vec.
  assert (G : forall gs, Forall P (pubs (snd (fst (upd_vec d gs n f))))).
  { induction gs as [|g gs IH]; cbn [upd_vec]; [constructor|].
    pose proof (upd_vec_in_forall P (g_vecs g) n (f g) (H g)) as Hg.
    destruct (upd_vec_in (g_vecs g) n (f g)) as [[vs tr] ok]. cbn [fst snd] in Hg.
    destruct ok; [exact Hg|]. destruct (upd_vec d gs n f) as [[r' tr'] ok']. exact IH. }
  specialize (G (d_groups d)). destruct (upd_vec d (d_groups d) n f) as [[gs tr] ok]. exact G.
Qed.

Lemma on_vec_name d n f : d_name (fst (on_vec d n f)) = d_name d.
Proof. unfold on_vec. destruct (upd_vec d (d_groups d) n f) as [[gs tr] ok]. reflexivity. Qed.

(* ---------- several properties in a row: enabling a group, answering getProperties ---------- *)
Lemma seg_sorted ws d gv : blob_updates_last (d_name d) (seg ws d gv).
Proof.
  unfold seg. destruct ws.
  - destruct (set_msg d (fst gv) (snd gv)) as [m|] eqn:E.
    + pose proof (set_msg_blob d _ _ m E) as Hb. pose proof (set_msg_about d _ _ m E) as Ha.
      change (def_msg d (fst gv) (snd gv) :: [m]) with ([def_msg d (fst gv) (snd gv)] ++ [m]).
      destruct (kind_blob (v_kind (snd gv))).
      * apply (sorted_orderly (d_name d) (v_name (snd gv))); (constructor; [|constructor]); split; auto using def_msg_not_blob, def_msg_about.
      * apply nonblob_orderly. constructor; [split; [apply def_msg_not_blob|eexists; apply def_msg_about]|].
        constructor; [split; [exact Hb|eexists; exact Ha]|constructor].
    + apply nonblob_orderly. constructor; [split; [apply def_msg_not_blob|eexists; apply def_msg_about]|constructor].
  - apply nonblob_orderly. constructor; [split; [apply def_msg_not_blob|eexists; apply def_msg_about]|constructor].
Qed.

Lemma segments_orderly ws d : forall L : list (grp * vec),
  NoDup (map (fun gv => v_name (snd gv)) L) -> blob_updates_last (d_name d) (flat_map (seg ws d) L).
Proof.
  induction L as [|gv L IH]; intro Hnd; [exact I|]. cbn [flat_map map] in *. inversion Hnd as [|? ? Hnot Hr]; subst.
  apply orderly_app; [apply seg_sorted|exact (IH Hr)|].
  intros m vn Hin _ Am.
  pose proof (seg_about ws d gv) as SA. rewrite Forall_forall in SA. pose proof (about_unique _ _ _ _ Am (SA m Hin)) as ->.
  apply Forall_forall. intros x Hx. apply filter_In in Hx as [Hx _]. apply in_flat_map in Hx as (gv' & Hgv' & Hx).
  exists (v_name (snd gv')). pose proof (seg_about ws d gv') as SA'. rewrite Forall_forall in SA'. split; [exact (SA' x Hx)|].
  intro E. apply Hnot. rewrite <- E. apply (in_map (fun gv => v_name (snd gv)) L gv'). exact Hgv'.
Qed.

Lemma def_all_nonblob d : forall names acc tr,
  d_name acc = d_name d ->
  Forall (fun m => is_blob_msg m = false /\ exists vn, about (d_name d) vn m) (pubs tr) ->
  Forall (fun m => is_blob_msg m = false /\ exists vn, about (d_name d) vn m) (pubs (snd (def_all d names acc tr))).
Proof.
  induction names as [|n r IH]; intros acc tr Hn H; [exact H|]. cbn [def_all].
  pose proof (on_vec_forall (fun m => is_blob_msg m = false /\ exists vn, about (d_name d) vn m) acc n (fun g v => publish_def acc g v)) as F.
  pose proof (on_vec_name acc n (fun g v => publish_def acc g v)) as Nm.
  destruct (on_vec acc n (fun g v => publish_def acc g v)) as [acc' tr']. cbn [fst snd] in *.
  apply IH; [congruence|]. rewrite pubs_app. apply Forall_app. split; [exact H|]. apply F.
  intros g v. destruct (publish_def_uniform acc g v) as [Uu _]. eapply Forall_impl; [|exact Uu].
  intros m [Hb Ha]. split; [exact Hb|]. exists (v_name v). rewrite <- Hn. exact Ha.
Qed.

(* ---------- every operation ---------- *)
Theorem step_orderly d o : dev_ok d -> op_typed d o -> blob_updates_last (d_name d) (pubs (snd (step d o))).
Proof.
  intros [Dn Dv] T.
  destruct o as [vn i x|vn i x|vn sel|vn st|vn b|gk b|vn i b|m]; cbn [step].
  - apply on_vec_orderly; [exact Dn|intros g v; apply (assign_uniform d g v i x)|].
    intros g v. exact (uniform_orderly _ _ _ _ (proj1 (assign_uniform d g v i x))).
  - apply on_vec_orderly; [exact Dn|intros g v; apply (set_value_uniform d g v i x)|].
    intros g v. exact (uniform_orderly _ _ _ _ (proj1 (set_value_uniform d g v i x))).
  - apply on_vec_orderly; [exact Dn|intros g v; apply (selected_loop_uniform d g v sel)|].
    intros g v. exact (uniform_orderly _ _ _ _ (proj1 (selected_loop_uniform d g v sel))).
  - apply on_vec_orderly; [exact Dn|intros g v; apply (publish_set_uniform d g (with_state v st))|].
    intros g v. exact (uniform_orderly _ _ _ _ (proj1 (publish_set_uniform d g (with_state v st)))).
  - (* enabling or disabling one property: its definition, then its update *)
    assert (A : forall g v,
              let r := (let v0 := with_venabled v b in let (v1, t1) := publish_def d g v0 in let (v2, t2) := publish_set d g v1 in (v2, t1 ++ t2)) in
              v_name (fst r) = v_name v /\ blob_updates_last (d_name d) (pubs (snd r))).
    { intros g v. cbv zeta.
      destruct (publish_def_uniform d g (with_venabled v b)) as [U1 K1]. destruct (publish_def d g (with_venabled v b)) as [v1 t1]. cbn [fst snd] in *.
      destruct (publish_set_uniform d g v1) as [U2 K2]. destruct (publish_set d g v1) as [v2 t2]. cbn [fst snd] in *.
      destruct K1 as [K1k K1n], K2 as [K2k K2n]. cbn [v_name v_kind with_venabled] in *. split; [congruence|].
      rewrite K1n in U2. exact (def_then_sets_orderly _ _ _ _ _ U1 U2). }
    apply on_vec_orderly; [exact Dn|intros g v; exact (proj1 (A g v))|intros g v; exact (proj2 (A g v))].
  - (* a whole group *)
    assert (Nh : forall g v, In (g, v) (all_vecs d) -> no_handlers v) by (intros g v H; exact (proj2 (Dv g v H))).
    pose proof (enable_group_spec d gk b Nh) as Sp. cbn [step] in Sp. rewrite Sp. cbn [fst snd]. rewrite group_trace.
    apply segments_orderly. rewrite map_map. cbn [snd].
    clear -Dn. unfold names_of in Dn. induction (all_vecs d) as [|x l IH]; [constructor|]. cbn [map] in Dn. inversion Dn as [|? ? Hnot Hr]; subst.
    cbn [filter]. destruct (str_eqb (g_key (fst x)) gk); [|apply IH, Hr]. cbn [map]. constructor; [|apply IH, Hr].
    intro Hin. apply Hnot. apply in_map_iff in Hin. destruct Hin as (y & Hy & Hi). apply filter_In in Hi. destruct Hi as [Hi _].
    rewrite <- Hy. apply (in_map (fun gv => v_name (snd gv)) l y). exact Hi.
  - destruct T.
  - (* a message from a client *)
    unfold from_client. destruct (str_eqb (mk m) (s2l "getProperties")).
    + assert (All : forall names, blob_updates_last (d_name d) (pubs (snd (def_all d names d [])))).
      { intro names. apply nonblob_orderly. apply def_all_nonblob; [reflexivity|constructor]. }
      destruct (lookup (s2l "name") (ma m)) as [n|]; [|apply All]. destruct n as [|c0 n0]; [apply All|].
      apply on_vec_orderly; [exact Dn|intros g v; apply (publish_def_uniform d g v)|].
      intros g v. exact (uniform_orderly _ _ _ _ (proj1 (publish_def_uniform d g v))).
    + destruct (kind_of_new (mk m)) as [k|]; [|exact I]. destruct (lookup (s2l "name") (ma m)) as [n|]; [|exact I].
      apply on_vec_orderly; [exact Dn| |].
      * intros g v. destruct (vkind_eqb k (v_kind v)); [apply (apply_children_uniform d g v)|reflexivity].
      * intros g v. destruct (vkind_eqb k (v_kind v)); [|exact I].
        exact (uniform_orderly _ _ _ _ (proj1 (apply_children_uniform d g v _))).
Qed.

(* hence every typed history is orderly *)
Theorem typed_ops_are_orderly ops : forall d, dev_ok d -> ops_typed d ops -> orderly_ops d ops.
Proof.
  induction ops as [|o r IH]; intros d D T; [exact I|]. destruct T as [To Tr]. cbn [orderly_ops].
  split; [exact To|]. split; [exact (step_orderly d o D To)|]. apply IH; [|exact Tr].
  (* the device after the operation is still well formed: from step_synced, with the mirror of a fresh handshake *)
  assert (S0 : synced (feed [] (pubs (snd (from_client d (getprops None None))))) d).
  { apply handshake_synced; [exact D|intros cd []|reflexivity]. }
  exact (proj1 (step_synced d o _ D S0 To)).
Qed.

(* the history theorem of the composed system, with nothing left to assume about the order of messages *)
Theorem network_client_history_typed ops s c e d :
  one_client s c (d_name d) -> cl_in_ctl c = [] -> cl_in_blob c = [] ->
  find_dev s e = Some d -> e <> cl_ctl c -> e <> cl_blob c ->
  dev_ok d -> net_synced (cl_mirror c) d -> ops_typed d ops ->
  exists c',
    sy_cls (fold_left (fun s o => sstep s (SDrv e o)) ops s) = [c'] /\
    net_synced (cl_mirror c') (fst (run d ops)) /\
    find_dev (fold_left (fun s o => sstep s (SDrv e o)) ops s) e = Some (fst (run d ops)) /\
    cl_in_ctl c' = [] /\ cl_in_blob c' = [].
Proof.
  intros O I1 I2 Fd H1 H2 D S T.
  exact (network_client_history_two_connections ops s c e d O I1 I2 Fd H1 H2 D S (typed_ops_are_orderly ops d D T)).
Qed.
