(* C01, operation level: every driver-side operation publishes messages that keep a
   mirror which was in sync with the device in sync with the device as it is afterwards.
   "In sync" = for every property name, the mirror's entry is what a definition of the
   property as it now is would create (absent when the property is not exposed); for BLOB
   properties the comparison leaves the payloads out (known finding K2). *)
From Coq Require Import List NArith Bool String Lia.
Import ListNotations.
From Indi Require Import Base.Sx Msg.Equality Msg.RegOk Driver.Switch Driver.Model Driver.Props Driver.Events Driver.Write
     Client.Model Client.Props Client.Update System.Converge.

(* ---------- mirrors ---------- *)
Definition mirror_wf (mi : mirror) : Prop := forall cd, In cd mi -> NoDup (map cv_name (cd_vecs cd)).

Definition feed (mi : mirror) (ms : list msg) : mirror := fold_left (fun mi m => mirror_of (apply mi m)) ms mi.

Section Dicts.
Context {A : Type} (key : A -> str).
Lemma nodup_dset x l : NoDup (map key l) -> NoDup (map key (dset key x l)).
Proof.
  induction l as [|y l IH]; intro H; cbn [dset map]; [constructor; [intros []|constructor]|].
  inversion H as [|? ? Hnot Hr]; subst.
  destruct (str_eqb (key y) (key x)) eqn:E.
  - apply str_eqb_spec in E. cbn [map]. rewrite <- E. exact H.
  - cbn [map]. constructor; [|apply IH, Hr].
    intro Hin. apply in_map_iff in Hin. destruct Hin as (z & Hz & Hi).
    assert (In z (x :: l)).
    { clear -Hi. induction l as [|w l IH]; cbn [dset] in Hi; [destruct Hi as [<-|[]]; now left|].
      destruct (str_eqb (key w) (key x)); [destruct Hi as [<-|Hi]; [now left|right; now right]|].
      destruct Hi as [<-|Hi]; [right; now left|]. destruct (IH Hi) as [->|H]; [now left|right; now right]. }
    destruct H0 as [->|H0].
    + apply str_eqb_neq in E. congruence.
    + apply Hnot. rewrite <- Hz. apply in_map. exact H0.
Qed.

Lemma in_ddel z k l : In z (ddel key k l) -> In z l.
Proof.
  induction l as [|y l IH]; cbn [ddel]; [auto|]. destruct (str_eqb (key y) k); [intro; now right|].
  intros [<-|H]; [now left|right; auto].
Qed.

Lemma nodup_ddel k l : NoDup (map key l) -> NoDup (map key (ddel key k l)).
Proof.
  induction l as [|y l IH]; intro H; cbn [ddel]; [constructor|]. inversion H as [|? ? Hnot Hr]; subst.
  destruct (str_eqb (key y) k); [exact Hr|]. cbn [map]. constructor; [|apply IH, Hr].
  intro Hin. apply in_map_iff in Hin. destruct Hin as (z & Hz & Hi). apply Hnot. rewrite <- Hz. apply in_map. eapply in_ddel. exact Hi.
Qed.

Lemma in_dset z x l : In z (dset key x l) -> z = x \/ In z l.
Proof.
  induction l as [|y l IH]; cbn [dset]; [intros [<-|[]]; now left|].
  destruct (str_eqb (key y) (key x)); [intros [<-|H]; [now left|right; now right]|].
  intros [<-|H]; [right; now left|]. destruct (IH H); [now left|right; now right].
Qed.
End Dicts.

Lemma elems_of_def_names ps : NoDup (map ce_name (elems_of_def ps)).
Proof.
  unfold elems_of_def.
  assert (G : forall acc, NoDup (map ce_name acc) -> NoDup (map ce_name (fold_left (fun acc p => dset ce_name (elem_of_def p) acc) ps acc))).
  { induction ps as [|p r IH]; intros acc H; cbn [fold_left]; [exact H|]. apply IH. now apply nodup_dset. }
  apply G. constructor.
Qed.

Lemma apply_wf mi m : mirror_wf mi -> mirror_wf (mirror_of (apply mi m)).
Proof.
  intros W. unfold apply, mirror_of.
  destruct (attr_of "device" (ma m)) as [dn|]; [|exact W].
  destruct (def_kind (mk m)) as [k|].
  - destruct (dget cd_name dn mi) as [d|] eqn:Ed; cbn [fst]; intros cd Hin; apply in_dset in Hin; destruct Hin as [->|Hin]; try (apply W; exact Hin);
      cbn [cd_vecs Client.Model.with_vecs].
    + apply nodup_dset. apply W. clear -Ed. induction mi as [|x mi IH]; [discriminate|]. cbn [dget] in Ed.
      destruct (str_eqb (cd_name x) dn); [injection Ed as <-; now left|right; auto].
    + constructor; [intros []|constructor].
  - destruct (set_kind (mk m)) as [k|].
    + destruct (dget cd_name dn mi) as [d|] eqn:Ed; [|exact W].
      destruct (attr_of "name" (ma m)) as [vn|]; [|exact W].
      destruct (dget cv_name vn (cd_vecs d)) as [v|]; [|exact W].
      destruct (vkind_eqb k (cv_kind v)); [|exact W].
      destruct (upd_elems dn vn k _ (cv_elems v)) as [es ev2]. cbn [fst].
      intros cd Hin. apply in_dset in Hin. destruct Hin as [->|Hin]; [|apply W; exact Hin].
      cbn [cd_vecs Client.Model.with_vecs]. apply nodup_dset. apply W.
      clear -Ed. induction mi as [|x mi IH]; [discriminate|]. cbn [dget] in Ed.
      destruct (str_eqb (cd_name x) dn); [injection Ed as <-; now left|right; auto].
    + destruct (str_eqb (mk m) (s2l "delProperty")); [|exact W].
      destruct (attr_of "name" (ma m)) as [vn|].
      * destruct (dget cd_name dn mi) as [d|] eqn:Ed; [|exact W]. cbn [fst].
        intros cd Hin. apply in_dset in Hin. destruct Hin as [->|Hin]; [|apply W; exact Hin].
        cbn [cd_vecs Client.Model.with_vecs]. apply nodup_ddel. apply W.
        clear -Ed. induction mi as [|x mi IH]; [discriminate|]. cbn [dget] in Ed.
        destruct (str_eqb (cd_name x) dn); [injection Ed as <-; now left|right; auto].
      * cbn [fst]. intros cd Hin. apply W. eapply in_ddel. exact Hin.
Qed.

Lemma feed_wf ms : forall mi, mirror_wf mi -> mirror_wf (feed mi ms).
Proof. induction ms as [|m ms IH]; intros mi W; [exact W|]. cbn [feed fold_left]. apply IH, apply_wf, W. Qed.

(* ---------- a message about one property touches no other entry ---------- *)
Definition about (dn vn : str) (m : msg) : Prop :=
  attr_of "device" (ma m) = Some dn /\ attr_of "name" (ma m) = Some vn /\
  spec_flag_of (mk m) = Some (false, true).          (* a message drivers send, clients do not *)

Lemma apply_frame mi m dn vn dn' vn' :
  about dn vn m -> mirror_wf mi -> (dn' <> dn \/ vn' <> vn) ->
  get_vec (mirror_of (apply mi m)) dn' vn' = get_vec mi dn' vn'.
Proof.
  intros (Hd & Hn & _) W Hne.
  destruct (def_kind (mk m)) as [k|] eqn:Dk.
  - apply (def_frame mi m k dn dn' vn' Dk Hd). destruct Hne as [H|H]; [now left|right].
    unfold vec_of_def. cbn [cv_name]. rewrite Hn. exact H.
  - destruct (set_kind (mk m)) as [k|] eqn:Sk.
    + apply (update_frame mi m k dn dn' vn' Dk Sk Hd). destruct Hne as [H|H]; [now left|right]. rewrite Hn. congruence.
    + destruct (str_eqb (mk m) (s2l "delProperty")) eqn:Dl.
      * destruct (dget cd_name dn mi) as [cd|] eqn:Ed.
        -- destruct (list_eq_dec N.eq_dec dn' dn) as [->|Hdn].
           ++ destruct Hne as [H|H]; [contradiction|].
              assert (Hin : In cd mi).
              { clear -Ed. induction mi as [|x mi IH]; [discriminate|]. cbn [dget] in Ed.
                destruct (str_eqb (cd_name x) dn); [injection Ed as <-; now left|right; auto]. }
              exact (proj1 (proj2 (del_named mi m dn vn cd Dk Sk Dl Hd Hn Ed (W cd Hin))) vn' H).
           ++ unfold apply, mirror_of, get_vec. rewrite Hd, Dk, Sk, Dl, Hn, Ed. cbn [fst].
              rewrite (dget_dset_other cd_name); [reflexivity|]. cbn. pose proof (dget_key cd_name _ _ _ Ed). congruence.
        -- unfold apply, mirror_of. rewrite Hd, Dk, Sk, Dl, Hn, Ed. reflexivity.
      * rewrite (other_messages_ignored mi m Dk Sk Dl). reflexivity.
Qed.

Lemma feed_frame ms dn vn dn' vn' : forall mi,
  Forall (about dn vn) ms -> mirror_wf mi -> (dn' <> dn \/ vn' <> vn) ->
  get_vec (feed mi ms) dn' vn' = get_vec mi dn' vn'.
Proof.
  induction ms as [|m ms IH]; intros mi Ha W Hne; [reflexivity|]. inversion Ha; subst. cbn [feed fold_left].
  fold (feed (mirror_of (apply mi m)) ms). rewrite IH; [|assumption|apply apply_wf, W|assumption].
  now apply (apply_frame mi m dn vn).
Qed.

(* ---------- in sync, for one property ---------- *)
Definition erase (e : celem) : celem := with_cvalue e (CRaw None).

Definition blind (c : cvec) : cvec :=
  match cv_kind c with
  | KBlob => {| cv_name := cv_name c; cv_kind := cv_kind c; cv_group := cv_group c; cv_label := cv_label c;
                cv_message := cv_message c; cv_state := cv_state c; cv_elems := map erase (cv_elems c) |}
  | _ => c
  end.

Definition target (d : dev) (g : grp) (v : vec) : option cvec := if vec_on g v then Some (blind (shown d g v)) else None.

Definition entry_ok (mi : mirror) (d : dev) (g : grp) (v : vec) : Prop :=
  option_map blind (get_vec mi (d_name d) (v_name v)) = target d g v.

Lemma dget_In {A} (key : A -> str) k l x : dget key k l = Some x -> In x l.
Proof.
  induction l as [|y l IH]; [discriminate|]. cbn [dget]. destruct (str_eqb (key y) k); [intros [= <-]; now left|right; auto].
Qed.

Lemma erase_eq es1 : forall es2,
  map ce_name es1 = map ce_name es2 -> map ce_label es1 = map ce_label es2 -> map erase es1 = map erase es2.
Proof.
  induction es1 as [|a r IH]; intros [|b r2] Hn Hl; try discriminate; [reflexivity|].
  cbn [map] in *. injection Hn as Hn Hnr. injection Hl as Hl Hlr. f_equal; [|apply IH; assumption].
  unfold erase, with_cvalue. now rewrite Hn, Hl.
Qed.

Lemma erase_names es : map ce_name (map erase es) = map ce_name es.
Proof. rewrite map_map. reflexivity. Qed.
Lemma erase_labels es : map ce_label (map erase es) = map ce_label es.
Proof. rewrite map_map. reflexivity. Qed.

(* a property as far as the sync lemmas need it: distinct element names, values of the property's kind *)
Record vwf (v : vec) : Prop := {
  w_names : NoDup (map e_name (v_elems v));
  w_typed : v_kind v <> KBlob -> Forall no_blob (v_elems v)
}.

(* E1: a definition brings the entry in sync from any state *)
Lemma entry_by_definition mi d g v :
  mirror_wf mi -> entry_ok (mirror_of (apply mi (def_msg d g v))) d g v.
Proof.
  intro W. unfold entry_ok, target. destruct (vec_on g v) eqn:Hon.
  - rewrite (sync_by_definition mi d g v Hon). reflexivity.
  - rewrite (sync_by_removal mi d g v Hon); [reflexivity|]. intros cd Hd. apply W. eapply dget_In. exact Hd.
Qed.

Lemma def_msg_about d g v : about (d_name d) (v_name v) (def_msg d g v).
Proof.
  unfold about. destruct (vec_on g v) eqn:Hon.
  - destruct (def_msg_attrs d g v Hon) as (A & B & C). rewrite C. repeat split; auto. destruct (v_kind v); reflexivity.
  - destruct (del_msg_attrs d g v Hon) as (A & B & C). rewrite C. repeat split; auto.
Qed.

Lemma set_msg_about d g v m : set_msg d g v = Some m -> about (d_name d) (v_name v) m.
Proof. unfold set_msg. destruct (vec_on g v); [|discriminate]. intros [= <-]. repeat split; try reflexivity. cbn [mk]. destruct (v_kind v); reflexivity. Qed.

Lemma shown_kind d g v : vec_on g v = true -> NoDup (map e_name (v_elems v)) -> cv_kind (shown d g v) = v_kind v.
Proof. intros H1 H2. rewrite (shown_fields d g v H1 H2). reflexivity. Qed.

Lemma blind_kind c : cv_kind (blind c) = cv_kind c.
Proof. unfold blind. destruct (cv_kind c) eqn:E; try exact E; reflexivity. Qed.

Lemma blind_not_blob c : cv_kind c <> KBlob -> blind c = c.
Proof. unfold blind. destruct (cv_kind c); try reflexivity. contradiction. Qed.

(* E2: from the in-sync state, the update of the property after a change of state and values only *)
Lemma entry_by_update mi d g v v' :
  mirror_wf mi -> vwf v -> vwf v' -> same_frame v v' -> vec_on g v' = vec_on g v ->
  entry_ok mi d g v ->
  entry_ok (feed mi (match set_msg d g v' with Some m => [m] | None => [] end)) d g v'.
Proof.
  intros W [Nv Tv] [Nv' Tv'] SF Hon E. pose proof SF as [Sn Sk Sl Se Sel].
  unfold entry_ok, target in *. rewrite <- Sn. rewrite Hon.
  unfold set_msg. rewrite Hon. destruct (vec_on g v) eqn:Hv; [|exact E].
  cbn [feed fold_left].
  destruct (get_vec mi (d_name d) (v_name v)) as [c|] eqn:Eg; [|discriminate]. cbn [option_map] in E. injection E as E.
  assert (Hv' : vec_on g v' = true) by (rewrite Hon; reflexivity).
  assert (Hdec : v_kind v = KBlob \/ v_kind v <> KBlob) by (destruct (v_kind v); ((now left) || (right; discriminate))).
  destruct Hdec as [Kv|Kv].
  2: { assert (Ks : cv_kind (shown d g v) <> KBlob) by (rewrite (shown_kind d g v Hv Nv); exact Kv).
       assert (Kc : cv_kind c <> KBlob).
       { intro H. apply Ks. rewrite <- (blind_kind (shown d g v)), <- E, blind_kind. exact H. }
       rewrite (blind_not_blob c Kc), (blind_not_blob _ Ks) in E. subst c.
       rewrite (sync_by_update mi d g v v' _ Kv SF Hv Hv' Nv (Tv' ltac:(rewrite <- Sk; exact Kv)) Eg ltac:(unfold set_msg; rewrite Hv'; reflexivity)).
       reflexivity. }
  (* BLOB: everything but the payloads *)
  assert (Kc : cv_kind c = KBlob) by (rewrite <- blind_kind, E, blind_kind, (shown_kind d g v Hv Nv); exact Kv).
  rewrite (shown_fields d g v Hv Nv) in E. rewrite (shown_fields d g v' Hv' Nv').
  unfold blind in E at 2. cbn [cv_kind] in E. rewrite Kv in E.
  unfold blind at 2. cbn [cv_kind]. rewrite <- Sk, Kv.
  unfold blind in E. rewrite Kc in E. cbn [cv_name cv_kind cv_group cv_label cv_message cv_state cv_elems] in E.
  injection E as E1 E3 E4 E5 E6 E7.
  assert (Ncn : NoDup (map ce_name (cv_elems c))).
  { rewrite <- erase_names, E7, erase_names, map_map. cbn [celem_of ce_name]. apply nodup_filter_names, Nv. }
  set (m := {| mk := tagk "set" (v_kind v') "Vector";
               ma := [attr "device" (d_name d); attr "name" (v_name v'); attr "state" (v_state v')] ++
                     match v_kind v' with KLight => [] | _ => [attr "timeout" (v_timeout v')] end;
               mv := None; mc := Some (filter_map (one_part (v_kind v')) (filter e_enabled (v_elems v'))) |}).
  pose proof (update_effect mi m (v_kind v') (d_name d) (v_name v) c) as U.
  assert (M1 : def_kind (mk m) = None) by (unfold m; cbn [mk]; apply def_kind_set).
  assert (M2 : set_kind (mk m) = Some (v_kind v')) by (unfold m; cbn [mk]; apply set_kind_set).
  assert (M3 : attr_of "device" (ma m) = Some (d_name d)) by reflexivity.
  assert (M4 : attr_of "name" (ma m) = Some (v_name v)) by (rewrite Sn; reflexivity).
  assert (M5 : attr_of "state" (ma m) = Some (v_state v')) by reflexivity.
  assert (Kk : vkind_eqb (v_kind v') (cv_kind c) = true) by (rewrite Kc, <- Sk, Kv; reflexivity).
  specialize (U M1 M2 M3 M4 Eg Kk Ncn). rewrite M5 in U.
  unfold m in U at 1. rewrite <- Sk, Kv in U. cbn [app] in U. cbn [app].
  rewrite U. cbn [option_map]. f_equal. unfold blind, with_celems. cbn [cv_kind cv_name cv_group cv_label cv_message cv_state cv_elems].
  rewrite Kc. rewrite E1, E3, E4, E5, <- Sn, <- Sl. f_equal.
  destruct (upd_maps_shape KBlob (match mc m with Some l => l | None => [] end) (cv_elems c)) as [Un Ul].
  apply erase_eq.
  - rewrite Un. rewrite <- erase_names, E7, erase_names. rewrite !map_map. cbn [celem_of ce_name].
    pose proof (forall2_filter _ _ Sel) as F2. clear -F2. induction F2 as [|a b r r' [H1 H2] _ IH]; [reflexivity|]. cbn [map]. now rewrite H1, IH.
  - rewrite Ul. rewrite <- erase_labels, E7, erase_labels. rewrite !map_map. cbn [celem_of ce_label].
    pose proof (forall2_filter _ _ Sel) as F2. clear -F2. induction F2 as [|a b r r' [H1 H2] _ IH]; [reflexivity|]. cbn [map]. now rewrite H2, IH.
Qed.

(* ---------- the driver's vector-level actions, for properties without handlers ---------- *)
Definition no_handlers (v : vec) : Prop := Forall (fun e => e_handlers e = []) (v_elems v).

Definition pubs (tr : list outev) : list msg := flat_map (fun o => match o with Publish m => [m] | _ => [] end) tr.

Lemma pubs_app a b : pubs (a ++ b) = pubs a ++ pubs b.
Proof. unfold pubs. apply flat_map_app. Qed.

Lemma feed_app mi a b : feed mi (a ++ b) = feed (feed mi a) b.
Proof. unfold feed. apply fold_left_app. Qed.

Lemma nh_quiet v : no_handlers v -> quiet_vec v.
Proof. unfold no_handlers, quiet_vec. intro H. eapply Forall_impl; [|exact H]. intros e He. unfold quiet_elem. rewrite He. reflexivity. Qed.

Lemma publish_set_nh d g v : no_handlers v ->
  publish_set d g v = (v, match set_msg d g v with Some m => [Publish m] | None => [] end).
Proof.
  intro H. unfold publish_set, set_msg. destruct (vec_on g v) eqn:Hon; [|reflexivity].
  rewrite (read_elems_quiet _ (nh_quiet v H)). rewrite with_elems_id. cbn [app]. unfold set_msg. rewrite Hon. reflexivity.
Qed.

Lemma publish_def_nh d g v : no_handlers v -> publish_def d g v = (v, [Publish (def_msg d g v)]).
Proof. intro H. apply publish_def_quiet, nh_quiet, H. Qed.

(* what storing a value keeps *)
Lemma put_at_frame es : forall k i x,
  Forall2 (fun e e' => e_name e = e_name e' /\ e_label e = e_label e' /\ e_enabled e = e_enabled e') es (put_at es k i x) /\
  (Forall (fun e => e_handlers e = []) es -> Forall (fun e => e_handlers e = []) (put_at es k i x)).
Proof.
  induction es as [|e r IH]; intros k i x; cbn [put_at]; [split; [constructor|auto]|].
  destruct (Nat.eqb k i).
  - split.
    + constructor; [destruct e; auto|]. clear. induction r; constructor; auto.
    + intro H. inversion H; subst. constructor; [destruct e; assumption|assumption].
  - destruct (IH (S k) i x) as [A B]. split; [constructor; auto|]. intro H. inversion H; subst. constructor; auto.
Qed.

Lemma put_sw_frame es : forall bs,
  Forall2 (fun e e' => e_name e = e_name e' /\ e_label e = e_label e' /\ e_enabled e = e_enabled e') es (put_sw es bs) /\
  (Forall (fun e => e_handlers e = []) es -> Forall (fun e => e_handlers e = []) (put_sw es bs)) /\
  (Forall no_blob es -> Forall no_blob (put_sw es bs)).
Proof.
  induction es as [|e r IH]; intros bs; destruct bs as [|b bs]; cbn [put_sw].
  - repeat split; auto.
  - repeat split; auto.
  - repeat split; auto. clear. induction (e :: r); constructor; auto.
  - destruct (IH bs) as (A & B & C). repeat split.
    + constructor; [destruct (e_value e); destruct e; auto|exact A].
    + intro H. inversion H; subst. constructor; [destruct (e_value e); destruct e; assumption|auto].
    + intro H. inversion H; subst. constructor; [|auto]. unfold no_blob in *. destruct (e_value e) eqn:Ev; try assumption; destruct e; cbn in *; try rewrite Ev; auto.
Qed.

Definition typed (k : vkind) (x : value) : Prop :=
  match k, x with
  | KBlob, _ => True
  | _, VBlob _ => False
  | _, _ => True
  end.

Lemma store_frame v i x :
  Forall2 (fun e e' => e_name e = e_name e' /\ e_label e = e_label e' /\ e_enabled e = e_enabled e') (v_elems v) (store v i x) /\
  (no_handlers v -> Forall (fun e => e_handlers e = []) (store v i x)).
Proof.
  destruct x as [s|n|b|s|o]; try (rewrite store_put by exact I; apply put_at_frame).
  unfold store. destruct (put_sw_frame (v_elems v) (set_one (dec_rule_str (v_rule v)) i b (map sw_of (v_elems v)))) as (A & B & _). auto.
Qed.

Lemma put_at_typed es : forall k i x, (match x with VBlob _ => False | _ => True end) -> Forall no_blob es -> Forall no_blob (put_at es k i x).
Proof.
  induction es as [|e r IH]; intros k i x Hx H; cbn [put_at]; [constructor|]. inversion H; subst.
  destruct (Nat.eqb k i); constructor; auto.
Qed.

Lemma store_typed v i x : typed (v_kind v) x -> (v_kind v <> KBlob -> Forall no_blob (v_elems v)) ->
  v_kind v <> KBlob -> Forall no_blob (store v i x).
Proof.
  intros Ht Hv Hk. specialize (Hv Hk). destruct x as [s|n|b|s|o].
  1,2,4: (rewrite store_put by exact I; apply put_at_typed; [exact I|exact Hv]).
  - unfold store. apply put_sw_frame, Hv.
  - destruct (v_kind v); try contradiction; destruct Ht.
Qed.

Lemma forall2_nodup es es' :
  Forall2 (fun e e' => e_name e = e_name e' /\ e_label e = e_label e' /\ e_enabled e = e_enabled e') es es' ->
  NoDup (map e_name es) -> NoDup (map e_name es').
Proof. intros F H. rewrite <- (forall2_names _ _ F). exact H. Qed.

(* the outcome of one vector-level action, seen from a mirror *)
Record step_ok (d : dev) (g : grp) (mi : mirror) (v : vec) (r : vec * list outev) : Prop := {
  so_entry : entry_ok (feed mi (pubs (snd r))) d g (fst r);
  so_about : Forall (about (d_name d) (v_name v)) (pubs (snd r));
  so_wf : vwf (fst r);
  so_nh : no_handlers (fst r);
  so_name : v_name (fst r) = v_name v;
  so_kind : v_kind (fst r) = v_kind v
}.

Lemma same_frame_refl v : same_frame v v.
Proof. constructor; try reflexivity. induction (v_elems v); constructor; auto. Qed.

(* publishing an update after a change of state and values *)
Lemma set_after_change d g mi v v' :
  mirror_wf mi -> vwf v -> no_handlers v -> vwf v' -> no_handlers v' -> same_frame v v' -> v_enabled v' = v_enabled v ->
  entry_ok mi d g v -> step_ok d g mi v (publish_set d g v').
Proof.
  intros W Wv Nh Wv' Nh' SF En E. rewrite (publish_set_nh d g v' Nh').
  assert (Hon : vec_on g v' = vec_on g v) by (unfold vec_on; now rewrite En).
  pose proof (entry_by_update mi d g v v' W Wv Wv' SF Hon E) as E2.
  constructor; cbn [fst snd]; try assumption.
  - destruct (set_msg d g v') as [m|]; exact E2.
  - destruct (set_msg d g v') as [m|] eqn:Em; [|constructor]. cbn. constructor; [|constructor].
    rewrite (sf_name _ _ SF). exact (set_msg_about d g v' m Em).
  - symmetry. apply (sf_name _ _ SF).
  - symmetry. apply (sf_kind _ _ SF).
Qed.

Lemma with_elems_frame v es :
  Forall2 (fun e e' => e_name e = e_name e' /\ e_label e = e_label e' /\ e_enabled e = e_enabled e') (v_elems v) es ->
  same_frame v (with_elems v es).
Proof. intro F. constructor; try reflexivity. exact F. Qed.

Lemma assign_nh d g v i x e :
  no_handlers v -> nth_error (v_elems v) i = Some e ->
  assign d g v i x = publish_set d g (with_elems v (store v i x)).
Proof.
  intros Nh He. destruct (assign_contract d g v i x e He) as [A _]. cbv zeta in A. rewrite A.
  assert (e_handlers e = []) as ->.
  { unfold no_handlers in Nh. rewrite Forall_forall in Nh. exact (Nh e (nth_error_In _ _ He)). }
  cbn [filter map]. destruct (value_eqb _ _); rewrite app_nil_r; destruct (publish_set d g (with_elems v (store v i x))); reflexivity.
Qed.

Lemma set_value_nh d g v i x e :
  no_handlers v -> nth_error (v_elems v) i = Some e -> set_value d g v i x = assign d g v i x.
Proof.
  intros Nh He. rewrite (write_contract d g v i x e He). cbv zeta.
  assert (e_handlers e = []) as ->.
  { unfold no_handlers in Nh. rewrite Forall_forall in Nh. exact (Nh e (nth_error_In _ _ He)). }
  cbn [existsb filter map app]. destruct (assign d g v i x). reflexivity.
Qed.

Lemma noop_ok d g mi v : vwf v -> no_handlers v -> entry_ok mi d g v -> step_ok d g mi v (v, []).
Proof. intros. constructor; cbn; auto. Qed.

Lemma assign_ok d g mi v i x :
  mirror_wf mi -> vwf v -> no_handlers v -> typed (v_kind v) x -> entry_ok mi d g v ->
  step_ok d g mi v (assign d g v i x).
Proof.
  intros W Wv Nh Tx E. destruct (nth_error (v_elems v) i) as [e|] eqn:He.
  - rewrite (assign_nh d g v i x e Nh He). destruct (store_frame v i x) as [F H].
    apply set_after_change; try assumption.
    + constructor; cbn [v_elems with_elems v_kind]; [exact (forall2_nodup _ _ F (w_names _ Wv))|].
      intro Hk. apply store_typed; [exact Tx|exact (w_typed _ Wv)|exact Hk].
    + unfold no_handlers. cbn [v_elems with_elems]. exact (H Nh).
    + apply with_elems_frame, F.
    + reflexivity.
  - unfold assign. rewrite He. now apply noop_ok.
Qed.

Lemma set_value_ok d g mi v i x :
  mirror_wf mi -> vwf v -> no_handlers v -> typed (v_kind v) x -> entry_ok mi d g v ->
  step_ok d g mi v (set_value d g v i x).
Proof.
  intros W Wv Nh Tx E. destruct (nth_error (v_elems v) i) as [e|] eqn:He.
  - rewrite (set_value_nh d g v i x e Nh He). now apply assign_ok.
  - unfold set_value. rewrite He. now apply noop_ok.
Qed.

(* sequencing two actions on the same property *)
Lemma seq_ok d g mi v r1 (F : vec -> vec * list outev) :
  mirror_wf mi -> step_ok d g mi v r1 ->
  (forall mi', mirror_wf mi' -> entry_ok mi' d g (fst r1) -> step_ok d g mi' (fst r1) (F (fst r1))) ->
  step_ok d g mi v (fst (F (fst r1)), snd r1 ++ snd (F (fst r1))).
Proof.
  intros W [E1 A1 W1 N1 Nm1 K1] H.
  destruct (H (feed mi (pubs (snd r1))) (feed_wf _ _ W) E1) as [E2 A2 W2 N2 Nm2 K2].
  constructor; cbn [fst snd]; try assumption.
  - rewrite pubs_app, feed_app. exact E2.
  - rewrite pubs_app. apply Forall_app. split; [exact A1|]. rewrite Nm1 in A2. exact A2.
  - congruence.
  - congruence.
Qed.

Lemma fold_ok {A} d g mi v0 (step : vec * list outev -> A -> vec * list outev) (xs : list A) :
  mirror_wf mi ->
  (forall acc x, step_ok d g mi v0 acc ->
     exists r, step acc x = (fst r, snd acc ++ snd r) /\
               (forall mi', mirror_wf mi' -> entry_ok mi' d g (fst acc) -> step_ok d g mi' (fst acc) r)) ->
  forall acc, step_ok d g mi v0 acc -> step_ok d g mi v0 (fold_left step xs acc).
Proof.
  intros W Hs. induction xs as [|x xs IH]; intros acc Ha; [exact Ha|]. cbn [fold_left]. apply IH.
  destruct (Hs acc x Ha) as (r & -> & Hr).
  exact (seq_ok d g mi v0 acc (fun _ => r) W Ha Hr).
Qed.

Lemma with_state_ok d g mi v st :
  mirror_wf mi -> vwf v -> no_handlers v -> entry_ok mi d g v -> step_ok d g mi v (publish_set d g (with_state v st)).
Proof.
  intros W Wv Nh E. apply set_after_change; try assumption.
  - destruct Wv as [A B]. constructor; assumption.
  - constructor; try reflexivity. cbn [v_elems with_state]. induction (v_elems v); constructor; auto.
  - reflexivity.
Qed.

Lemma selected_ok d g mi v sel :
  mirror_wf mi -> vwf v -> no_handlers v -> entry_ok mi d g v -> step_ok d g mi v (selected_loop d g v sel).
Proof.
  intros W Wv Nh E. unfold selected_loop. apply fold_ok; [exact W| |now apply noop_ok].
  intros [v' tr] j Ha. cbn [fst snd].
  destruct (nth_error (v_elems v') j) as [e|] eqn:He.
  - destruct (Bool.eqb (sw_of e) (existsb (Nat.eqb j) sel)).
    + exists (v', []). split; [now rewrite app_nil_r|]. intros mi' W' E'. apply noop_ok; [exact (so_wf _ _ _ _ _ Ha)|exact (so_nh _ _ _ _ _ Ha)|exact E'].
    + exists (assign d g v' j (VSw (existsb (Nat.eqb j) sel))). split; [destruct (assign d g v' j _); reflexivity|].
      intros mi' W' E'. apply assign_ok; [exact W'|exact (so_wf _ _ _ _ _ Ha)|exact (so_nh _ _ _ _ _ Ha)| |exact E'].
      unfold typed. destruct (v_kind v'); exact I.
  - exists (v', []). split; [now rewrite app_nil_r|]. intros mi' W' E'. apply noop_ok; [exact (so_wf _ _ _ _ _ Ha)|exact (so_nh _ _ _ _ _ Ha)|exact E'].
Qed.

Lemma value_of_child_typed k p x : value_of_child k p = Some x -> typed k x.
Proof.
  destruct k; cbn [value_of_child]; intro H.
  - injection H as <-. exact I.
  - destruct (pv p) as [s|]; [|discriminate]. destruct (num_of_text s); [injection H as <-; exact I|discriminate].
  - destruct (pv p) as [s|]; [|discriminate]. destruct (str_eqb s s_On); [injection H as <-; exact I|].
    destruct (str_eqb s s_Off); [injection H as <-; exact I|discriminate].
  - discriminate.
  - exact I.
Qed.

Lemma apply_children_ok d g mi v ch :
  mirror_wf mi -> vwf v -> no_handlers v -> entry_ok mi d g v -> step_ok d g mi v (apply_children d g v ch).
Proof.
  intros W Wv Nh E. rewrite apply_children_fold. apply fold_ok; [exact W| |now apply noop_ok].
  intros [v' tr] p Ha. cbn [fst snd]. unfold step_child.
  assert (No : forall mi', mirror_wf mi' -> entry_ok mi' d g v' -> step_ok d g mi' v' (v', [])).
  { intros mi' W' E'. apply noop_ok; [exact (so_wf _ _ _ _ _ Ha)|exact (so_nh _ _ _ _ _ Ha)|exact E']. }
  destruct (lookup (s2l "name") (pa p)) as [n|]; [|exists (v', []); split; [now rewrite app_nil_r|exact No]].
  destruct (index_of n (v_elems v') 0) as [i|]; [|exists (v', []); split; [now rewrite app_nil_r|exact No]].
  destruct (value_of_child (v_kind v') p) as [x|] eqn:Ex; [|exists (v', []); split; [now rewrite app_nil_r|exact No]].
  exists (set_value d g v' i x). split; [destruct (set_value d g v' i x); reflexivity|].
  intros mi' W' E'. apply set_value_ok; [exact W'|exact (so_wf _ _ _ _ _ Ha)|exact (so_nh _ _ _ _ _ Ha)|exact (value_of_child_typed _ _ _ Ex)|exact E'].
Qed.

(* (re)defining a property - after enabling or disabling it, or its group - brings the entry in sync from any state *)
Lemma redefine_ok d g mi v0 v :
  mirror_wf mi -> vwf v -> no_handlers v -> v_name v = v_name v0 -> v_kind v = v_kind v0 ->
  step_ok d g mi v0 (v, [Publish (def_msg d g v)] ++ snd (publish_set d g v)).
Proof.
  intros W Wv Nh Hn Hk.
  pose proof (entry_by_definition mi d g v W) as E1.
  pose proof (set_after_change d g (mirror_of (apply mi (def_msg d g v))) v v (apply_wf _ _ W) Wv Nh Wv Nh (same_frame_refl v) eq_refl E1) as S.
  destruct S as [E2 A2 _ _ _ _]. rewrite (publish_set_nh d g v Nh) in *. cbn [fst snd] in *.
  constructor; cbn [fst snd].
  - rewrite pubs_app. cbn [pubs flat_map app]. cbn [feed fold_left]. exact E2.
  - rewrite pubs_app. cbn [pubs flat_map app]. constructor; [rewrite <- Hn; apply def_msg_about|]. rewrite <- Hn. exact A2.
  - exact Wv.
  - exact Nh.
  - exact Hn.
  - exact Hk.
Qed.

(* ---------- locating the property in the device ---------- *)
Lemma NoDup_app_remove_l {A} (l l' : list A) : NoDup (l ++ l') -> NoDup l'.
Proof. induction l as [|a l IH]; cbn; [auto|]. intro H. inversion H; subst. auto. Qed.
Lemma NoDup_app_remove_r {A} (l l' : list A) : NoDup (l ++ l') -> NoDup l.
Proof.
  induction l as [|a l IH]; cbn; [constructor|]. intro H. inversion H as [|? ? Hnot Hr]; subst. constructor; [|auto].
  intro Hin. apply Hnot. apply in_or_app. now left.
Qed.
Lemma upd_vec_in_spec vs n (f : vec -> vec * list outev) :
  (forall v, v_name (fst (f v)) = v_name v) -> NoDup (map v_name vs) ->
  upd_vec_in vs n f =
  (map (fun v => if named n v then fst (f v) else v) vs,
   match find (named n) vs with Some v => snd (f v) | None => [] end,
   match find (named n) vs with Some _ => true | None => false end).
Proof.
  intros Hf. induction vs as [|v vs IH]; intro Hnd; cbn [upd_vec_in map find]; [reflexivity|].
  inversion Hnd as [|? ? Hnot Hr]; subst. change (named n v) with (str_eqb (v_name v) n). destruct (str_eqb (v_name v) n) eqn:E.
  - destruct (f v) as [v' tr] eqn:Ef. cbn [fst snd]. f_equal. f_equal. f_equal.
    transitivity (map (fun x : vec => x) vs); [symmetry; apply map_id|]. apply map_ext_in. intros x Hx.
    unfold named. destruct (str_eqb (v_name x) n) eqn:E2; [|reflexivity].
    apply str_eqb_spec in E. apply str_eqb_spec in E2. exfalso. apply Hnot. rewrite E, <- E2. apply in_map. exact Hx.
  - rewrite (IH Hr). reflexivity.
Qed.

Definition hit (n : str) (f : grp -> vec -> vec * list outev) (g : grp) (v : vec) : vec := if named n v then fst (f g v) else v.

Lemma find_named_none vs n : ~ In n (map v_name vs) -> find (named n) vs = None.
Proof.
  induction vs as [|v vs IH]; intro H; [reflexivity|]. cbn [find]. unfold named at 1.
  destruct (str_eqb (v_name v) n) eqn:E; [apply str_eqb_spec in E; exfalso; apply H; left; exact E|].
  apply IH. intro Hin. apply H. now right.
Qed.

Lemma upd_vec_spec d gs n (f : grp -> vec -> vec * list outev) :
  (forall g v, v_name (fst (f g v)) = v_name v) ->
  NoDup (map (fun gv => v_name (snd gv)) (flat_map (fun g => map (fun v => (g, v)) (g_vecs g)) gs)) ->
  fst (fst (upd_vec d gs n f)) = map (fun g => Driver.Model.with_vecs g (map (hit n f g) (g_vecs g))) gs /\
  snd (fst (upd_vec d gs n f)) = match find_gv n gs with Some (g, v) => snd (f g v) | None => [] end.
Proof.
  intros Hf. induction gs as [|g gs IH]; intro Hnd; cbn [upd_vec map flat_map]; [split; reflexivity|].
  cbn [flat_map] in Hnd. rewrite map_app, map_map in Hnd. cbn [snd] in Hnd.
  assert (Hg : NoDup (map v_name (g_vecs g))) by (eapply NoDup_app_remove_r; exact Hnd).
  assert (Hr : NoDup (map (fun gv => v_name (snd gv)) (flat_map (fun g0 => map (fun v => (g0, v)) (g_vecs g0)) gs)))
    by (eapply NoDup_app_remove_l; exact Hnd).
  rewrite (upd_vec_in_spec (g_vecs g) n (f g) (Hf g) Hg).
  unfold find_gv. cbn [flat_map]. rewrite find_app, find_map_pair.
  destruct (find (named n) (g_vecs g)) as [v|] eqn:Fv; cbn [fst snd option_map].
  - split; [|reflexivity]. f_equal.
    (* no later group has a property of that name *)
    transitivity (map (fun g0 : grp => g0) gs); [symmetry; apply map_id|]. apply map_ext_in. intros g0 Hg0.
    rewrite <- (with_vecs_id g0) at 1. f_equal.
    transitivity (map (fun x : vec => x) (g_vecs g0)); [symmetry; apply map_id|]. apply map_ext_in. intros x Hx.
    unfold hit, named. destruct (str_eqb (v_name x) n) eqn:E2; [|reflexivity]. exfalso.
    apply find_some in Fv. destruct Fv as [Hv Hnv]. unfold named in Hnv. apply str_eqb_spec in Hnv. apply str_eqb_spec in E2.
    assert (In (v_name v) (map v_name (g_vecs g))) by (apply in_map; exact Hv).
    assert (In (v_name x) (map (fun gv : grp * vec => v_name (snd gv)) (flat_map (fun g1 => map (fun v0 => (g1, v0)) (g_vecs g1)) gs))).
    { apply in_map_iff. exists (g0, x). split; [reflexivity|]. apply in_flat_map. exists g0. split; [exact Hg0|]. apply in_map. exact Hx. }
    revert Hnd. clear -H H0 Hnv E2. intro Hnd. rewrite <- E2 in Hnv.
    induction (map v_name (g_vecs g)) as [|a l IHl]; [destruct H|]. cbn [app] in Hnd. inversion Hnd as [|? ? Hnot Hrest]; subst.
    destruct H as [->|H]; [apply Hnot; apply in_or_app; right; rewrite Hnv; exact H0|exact (IHl H Hrest)].
  - destruct (IH Hr) as [A B]. destruct (upd_vec d gs n f) as [[r' tr'] ok']. cbn [fst snd] in *. split.
    + f_equal; [|exact A]. rewrite <- (with_vecs_id g) at 1. f_equal.
      transitivity (map (fun x : vec => x) (g_vecs g)); [symmetry; apply map_id|]. apply map_ext_in. intros x Hx.
      unfold hit. destruct (named n x) eqn:E2; [|reflexivity]. exfalso.
      pose proof (find_none _ _ Fv x Hx) as Hc. congruence.
    + exact B.
Qed.

(* ---------- the device ---------- *)
Definition names_of (d : dev) : list str := map (fun gv => v_name (snd gv)) (all_vecs d).

Record dev_ok (d : dev) : Prop := {
  dk_names : NoDup (names_of d);
  dk_vecs : forall g v, In (g, v) (all_vecs d) -> vwf v /\ no_handlers v
}.

Record synced (mi : mirror) (d : dev) : Prop := {
  sy_wf : mirror_wf mi;
  sy_entries : forall g v, In (g, v) (all_vecs d) -> entry_ok mi d g v;
  sy_no_others : forall vn, get_vec mi (d_name d) vn <> None -> In vn (names_of d)
}.

Definition gsame (g g' : grp) : Prop := g_name g = g_name g' /\ g_enabled g = g_enabled g'.

Lemma def_msg_ext d d' g g' v : d_name d = d_name d' -> gsame g g' -> def_msg d g v = def_msg d' g' v.
Proof. intros Hd [Hn He]. unfold def_msg, vec_on. rewrite Hd, Hn, He. reflexivity. Qed.

Lemma entry_ok_ext mi d d' g g' v : d_name d = d_name d' -> gsame g g' -> entry_ok mi d g v -> entry_ok mi d' g' v.
Proof.
  intros Hd Hg. unfold entry_ok, target, shown. rewrite (def_msg_ext d d' g g' v Hd Hg), Hd.
  destruct Hg as [_ He]. unfold vec_on. rewrite He. auto.
Qed.

Definition regroup (n : str) (f : grp -> vec -> vec * list outev) (g : grp) : grp :=
  Driver.Model.with_vecs g (map (hit n f g) (g_vecs g)).

Lemma all_vecs_regroup d n f :
  all_vecs (with_groups d (map (regroup n f) (d_groups d))) =
  map (fun gv => (regroup n f (fst gv), hit n f (fst gv) (snd gv))) (all_vecs d).
Proof.
  unfold all_vecs. cbn [d_groups with_groups]. induction (d_groups d) as [|g gs IH]; [reflexivity|].
  cbn [map flat_map]. rewrite map_app, IH. f_equal. unfold regroup at 2. cbn [g_vecs Driver.Model.with_vecs]. rewrite !map_map. reflexivity.
Qed.

Lemma gsame_regroup n f g : gsame g (regroup n f g).
Proof. split; reflexivity. Qed.

Lemma names_unique d g v g' v' : NoDup (names_of d) -> In (g, v) (all_vecs d) -> In (g', v') (all_vecs d) -> v_name v = v_name v' -> (g, v) = (g', v').
Proof.
  unfold names_of. induction (all_vecs d) as [|x l IH]; intros Hnd H1 H2 Hn; [destruct H1|].
  cbn [map] in Hnd. inversion Hnd as [|? ? Hnot Hr]; subst.
  destruct H1 as [->|H1], H2 as [->|H2].
  - reflexivity.
  - exfalso. apply Hnot. cbn [snd]. rewrite Hn. apply (in_map (fun gv => v_name (snd gv)) l (g', v')). exact H2.
  - exfalso. apply Hnot. cbn [snd]. rewrite <- Hn. apply (in_map (fun gv => v_name (snd gv)) l (g, v)). exact H1.
  - exact (IH Hr H1 H2 Hn).
Qed.

Lemma find_gv_in n gs g v : find_gv n gs = Some (g, v) ->
  In (g, v) (flat_map (fun g => map (fun v => (g, v)) (g_vecs g)) gs) /\ v_name v = n.
Proof.
  unfold find_gv. intro H. apply find_some in H. destruct H as [H1 H2]. split; [exact H1|]. cbn in H2. unfold named in H2. apply str_eqb_spec in H2. exact H2.
Qed.

Lemma find_gv_none n gs : find_gv n gs = None -> forall g v, In (g, v) (flat_map (fun g => map (fun v => (g, v)) (g_vecs g)) gs) -> v_name v <> n.
Proof.
  unfold find_gv. intros H g v Hin Hn. pose proof (find_none _ _ H (g, v) Hin) as Hc. cbn in Hc. unfold named in Hc. rewrite Hn, str_eqb_refl in Hc. discriminate.
Qed.

(* an operation on one named property: in sync before, in sync after *)
Theorem on_vec_synced d n f mi :
  dev_ok d -> synced mi d ->
  (forall g v, v_name (fst (f g v)) = v_name v) ->
  (forall g v mi', In (g, v) (all_vecs d) -> v_name v = n -> mirror_wf mi' -> entry_ok mi' d g v -> step_ok d g mi' v (f g v)) ->
  dev_ok (fst (on_vec d n f)) /\ synced (feed mi (pubs (snd (on_vec d n f)))) (fst (on_vec d n f)) /\
  d_name (fst (on_vec d n f)) = d_name d /\ Forall (about (d_name d) n) (pubs (snd (on_vec d n f))).
Proof.
  intros [Dn Dv] [Sw Se So] Hname Hstep. unfold on_vec.
  pose proof (upd_vec_spec d (d_groups d) n f Hname Dn) as [A B].
  destruct (upd_vec d (d_groups d) n f) as [[gs' tr] ok]. cbn [fst snd] in *. subst gs' tr.
  fold (regroup n f). set (d' := with_groups d (map (regroup n f) (d_groups d))).
  assert (AV : all_vecs d' = map (fun gv => (regroup n f (fst gv), hit n f (fst gv) (snd gv))) (all_vecs d)) by apply all_vecs_regroup.
  assert (NM : names_of d' = names_of d).
  { unfold names_of. rewrite AV, map_map. apply map_ext. intros [g v]. cbn [fst snd]. unfold hit. destruct (named n v); [apply Hname|reflexivity]. }
  (* the trace and what it is about *)
  assert (TR : exists ms, pubs (match find_gv n (d_groups d) with Some (g, v) => snd (f g v) | None => [] end) = ms /\
               (find_gv n (d_groups d) = None -> ms = []) /\
               Forall (about (d_name d) n) ms /\
               (forall g v, In (g, v) (all_vecs d) -> v_name v = n -> entry_ok (feed mi ms) d g (fst (f g v)) /\ vwf (fst (f g v)) /\ no_handlers (fst (f g v)))).
  { destruct (find_gv n (d_groups d)) as [[g0 v0]|] eqn:Fg.
    - destruct (find_gv_in _ _ _ _ Fg) as [Hin Hn0]. fold (all_vecs d) in Hin.
      pose proof (Hstep g0 v0 mi Hin Hn0 Sw (Se g0 v0 Hin)) as S.
      eexists. split; [reflexivity|]. split; [discriminate|]. split; [rewrite <- Hn0; exact (so_about _ _ _ _ _ S)|].
      intros g v Hgv Hn. assert ((g, v) = (g0, v0)) as E by (apply (names_unique d); try assumption; congruence). injection E as -> ->.
      split; [exact (so_entry _ _ _ _ _ S)|]. split; [exact (so_wf _ _ _ _ _ S)|exact (so_nh _ _ _ _ _ S)].
    - exists []. split; [reflexivity|]. split; [reflexivity|]. split; [constructor|]. intros g v Hgv Hn. exfalso. exact (find_gv_none _ _ Fg g v Hgv Hn). }
  destruct TR as (ms & -> & Hnone & Hab & Hhit).
  split; [|split; [|split; [reflexivity|exact Hab]]].
  - constructor; [rewrite NM; exact Dn|]. intros g' v' Hin. rewrite AV in Hin. apply in_map_iff in Hin. destruct Hin as ([g v] & E & Hin).
    cbn [fst snd] in E. injection E as <- <-. unfold hit. destruct (named n v) eqn:En; [|exact (Dv g v Hin)].
    unfold named in En. apply str_eqb_spec in En. exact (proj2 (Hhit g v Hin En)).
  - constructor.
    + apply feed_wf, Sw.
    + intros g' v' Hin. rewrite AV in Hin. apply in_map_iff in Hin. destruct Hin as ([g v] & E & Hin). cbn [fst snd] in E. injection E as <- <-.
      apply (entry_ok_ext _ d d' g (regroup n f g)); [reflexivity|apply gsame_regroup|].
      unfold hit. destruct (named n v) eqn:En.
      * unfold named in En. apply str_eqb_spec in En. exact (proj1 (Hhit g v Hin En)).
      * unfold entry_ok. rewrite (feed_frame ms (d_name d) n (d_name d) (v_name v) mi Hab Sw); [exact (Se g v Hin)|].
        right. unfold named in En. apply str_eqb_neq in En. exact En.
    + intros vn Hne. rewrite NM. cbn [d_name d' with_groups] in Hne.
      destruct (list_eq_dec N.eq_dec vn n) as [->|Hvn].
      * destruct (find_gv n (d_groups d)) as [[g0 v0]|] eqn:Fg.
        -- destruct (find_gv_in _ _ _ _ Fg) as [Hin Hn0]. unfold names_of. rewrite <- Hn0.
           apply (in_map (fun gv => v_name (snd gv)) (all_vecs d) (g0, v0)). exact Hin.
        -- apply So. rewrite (Hnone eq_refl) in Hne. exact Hne.
      * apply So. rewrite (feed_frame ms (d_name d) n (d_name d) vn mi Hab Sw) in Hne; [exact Hne|right; exact Hvn].
Qed.

(* ---------- operations on one named property ---------- *)
Lemma publish_def_name d g v : v_name (fst (publish_def d g v)) = v_name v.
Proof.
  unfold publish_def. destruct (vec_on g v); [|reflexivity]. destruct (v_kind v); try reflexivity;
    destruct (read_elems (v_elems v)); reflexivity.
Qed.

Lemma selected_loop_name d g v sel : v_name (fst (selected_loop d g v sel)) = v_name v.
Proof.
  unfold selected_loop. generalize (seq 0 (List.length (v_elems v))). intro l.
  assert (G : forall acc, v_name (fst (fold_left (fun acc j =>
              let '(v', tr) := acc in
              let want := existsb (Nat.eqb j) sel in
              match nth_error (v_elems v') j with
              | Some e => if Bool.eqb (sw_of e) want then acc else let (v'', tr') := assign d g v' j (VSw want) in (v'', tr ++ tr')
              | None => acc
              end) l acc)) = v_name (fst acc)).
  { induction l as [|j l IH]; intro acc; [reflexivity|]. cbn [fold_left]. rewrite IH. destruct acc as [v' tr]. cbn [fst].
    destruct (nth_error (v_elems v') j); [|reflexivity]. destruct (Bool.eqb _ _); [reflexivity|].
    pose proof (assign_name d g v' j (VSw (existsb (Nat.eqb j) sel))) as H. destruct (assign d g v' j _). exact H. }
  apply (G (v, [])).
Qed.

Definition enable_vec_action (d : dev) (b : bool) (g : grp) (v : vec) : vec * list outev :=
  let v0 := with_venabled v b in
  let (v1, t1) := publish_def d g v0 in
  let (v2, t2) := publish_set d g v1 in (v2, t1 ++ t2).

Lemma enable_vec_name d b g v : v_name (fst (enable_vec_action d b g v)) = v_name v.
Proof.
  unfold enable_vec_action. pose proof (publish_def_name d g (with_venabled v b)) as H1.
  destruct (publish_def d g (with_venabled v b)) as [v1 t1]. pose proof (publish_set_name d g v1) as H2.
  destruct (publish_set d g v1) as [v2 t2]. cbn [fst] in *. rewrite H2, H1. reflexivity.
Qed.

Lemma enable_vec_ok d b g mi v :
  mirror_wf mi -> vwf v -> no_handlers v -> step_ok d g mi v (enable_vec_action d b g v).
Proof.
  intros W [Wn Wt] Nh. unfold enable_vec_action.
  assert (Nh0 : no_handlers (with_venabled v b)) by exact Nh.
  rewrite (publish_def_nh d g _ Nh0).
  assert (W0 : vwf (with_venabled v b)) by (constructor; [exact Wn|exact Wt]).
  pose proof (redefine_ok d g mi v (with_venabled v b) W W0 Nh0 eq_refl eq_refl) as R.
  destruct (publish_set d g (with_venabled v b)) as [v2 t2] eqn:Ep.
  rewrite (publish_set_nh d g _ Nh0) in Ep. injection Ep as <- <-. exact R.
Qed.

(* the operations the property speaks of, and client writes; values assigned from the driver's side must be of the property's kind *)
Definition op_typed (d : dev) (o : dop) : Prop :=
  match o with
  | OAssign vn i x | OSetValue vn i x => forall g v, In (g, v) (all_vecs d) -> v_name v = vn -> typed (v_kind v) x
  | OEnableElem _ _ _ => False          (* not among the property's operations: an element that appears or disappears is not re-announced *)
  | _ => True
  end.

(* ---------- (re)defining several properties in a row ---------- *)
Definition seg (with_set : bool) (d : dev) (gv : grp * vec) : list msg :=
  def_msg d (fst gv) (snd gv) :: (if with_set then match set_msg d (fst gv) (snd gv) with Some m => [m] | None => [] end else []).

Lemma seg_about ws d gv : Forall (about (d_name d) (v_name (snd gv))) (seg ws d gv).
Proof.
  unfold seg. constructor; [apply def_msg_about|]. destruct ws; [|constructor].
  destruct (set_msg d (fst gv) (snd gv)) as [m|] eqn:E; [|constructor]. constructor; [exact (set_msg_about _ _ _ _ E)|constructor].
Qed.

Lemma seg_entry ws d mi gv :
  mirror_wf mi -> vwf (snd gv) -> no_handlers (snd gv) -> entry_ok (feed mi (seg ws d gv)) d (fst gv) (snd gv).
Proof.
  intros W Wv Nh. destruct gv as [g v]. cbn [fst snd] in *. unfold seg. cbn [fst snd].
  pose proof (entry_by_definition mi d g v W) as E1. destruct ws.
  - change (def_msg d g v :: match set_msg d g v with Some m => [m] | None => [] end)
      with ([def_msg d g v] ++ match set_msg d g v with Some m => [m] | None => [] end).
    rewrite feed_app.
    change (feed mi [def_msg d g v]) with (mirror_of (apply mi (def_msg d g v))).
    apply (entry_by_update _ d g v v (apply_wf _ _ W) Wv Wv (same_frame_refl v) eq_refl E1).
  - exact E1.
Qed.

Lemma redefine_many ws d : forall (L : list (grp * vec)) mi,
  mirror_wf mi -> NoDup (map (fun gv => v_name (snd gv)) L) ->
  (forall gv, In gv L -> vwf (snd gv) /\ no_handlers (snd gv)) ->
  mirror_wf (feed mi (flat_map (seg ws d) L)) /\
  (forall gv, In gv L -> entry_ok (feed mi (flat_map (seg ws d) L)) d (fst gv) (snd gv)) /\
  (forall vn, ~ In vn (map (fun gv => v_name (snd gv)) L) ->
              get_vec (feed mi (flat_map (seg ws d) L)) (d_name d) vn = get_vec mi (d_name d) vn).
Proof.
  induction L as [|gv L IH]; intros mi W Hnd Hv.
  - cbn. repeat split; auto. intros gv [].
  - cbn [flat_map map] in *. inversion Hnd as [|? ? Hnot Hr]; subst. rewrite feed_app.
    set (mi1 := feed mi (seg ws d gv)).
    assert (W1 : mirror_wf mi1) by (apply feed_wf, W).
    destruct (IH mi1 W1 Hr (fun x Hx => Hv x (or_intror Hx))) as (A & B & C).
    split; [exact A|]. split.
    + intros x [<-|Hx]; [|exact (B x Hx)].
      unfold entry_ok. rewrite (C (v_name (snd gv)) Hnot).
      destruct (Hv gv (or_introl eq_refl)) as [Wv Nh]. exact (seg_entry ws d mi gv W Wv Nh).
    + intros vn Hn. rewrite C by (intro H; apply Hn; now right).
      unfold mi1. apply (feed_frame (seg ws d gv) (d_name d) (v_name (snd gv))); [apply seg_about|exact W|].
      right. intro E. apply Hn. left. symmetry. exact E.
Qed.

Lemma enable_group_vecs_nh d g0 vs :
  Forall no_handlers vs ->
  enable_group_vecs d g0 vs =
  (vs, flat_map (fun v => Publish (def_msg d g0 v) :: match set_msg d g0 v with Some m => [Publish m] | None => [] end) vs).
Proof.
  induction vs as [|v vs IH]; intro H; cbn [enable_group_vecs flat_map]; [reflexivity|]. inversion H as [|? ? Hv Hr]; subst.
  rewrite (publish_def_nh d g0 v Hv), (publish_set_nh d g0 v Hv), (IH Hr). reflexivity.
Qed.

Definition set_enabled (b : bool) (g : grp) : grp := {| g_key := g_key g; g_name := g_name g; g_enabled := b; g_vecs := g_vecs g |}.
Definition switch_group (gk : str) (b : bool) (g : grp) : grp := if str_eqb (g_key g) gk then set_enabled b g else g.

Definition grp_step (d : dev) (gk : str) (b : bool) (g : grp) (acc : list grp * list outev) : list grp * list outev :=
  let '(gs, tr) := acc in
  if str_eqb (g_key g) gk then
    let g0 := {| g_key := g_key g; g_name := g_name g; g_enabled := b; g_vecs := g_vecs g |} in
    let (vs, t) := enable_group_vecs d g0 (g_vecs g0) in
    (Driver.Model.with_vecs g0 vs :: gs, t ++ tr)
  else (g :: gs, tr).

Lemma enable_group_spec d gk b :
  (forall g v, In (g, v) (all_vecs d) -> no_handlers v) ->
  step d (OEnableGrp gk b) =
  (with_groups d (map (switch_group gk b) (d_groups d)),
   flat_map (fun g => if str_eqb (g_key g) gk
                      then flat_map (fun v => Publish (def_msg d (set_enabled b g) v) ::
                                              match set_msg d (set_enabled b g) v with Some m => [Publish m] | None => [] end) (g_vecs g)
                      else []) (d_groups d)).
Proof.
  intro Nh. unfold all_vecs in Nh.
  assert (S0 : step d (OEnableGrp gk b) =
               (let '(gs, tr) := fold_right (grp_step d gk b) ([], []) (d_groups d) in (with_groups d gs, tr))) by reflexivity.
  rewrite S0. clear S0.
  assert (G : fold_right (grp_step d gk b) ([], []) (d_groups d) =
              (map (switch_group gk b) (d_groups d),
               flat_map (fun g => if str_eqb (g_key g) gk
                      then flat_map (fun v => Publish (def_msg d (set_enabled b g) v) ::
                                              match set_msg d (set_enabled b g) v with Some m => [Publish m] | None => [] end) (g_vecs g)
                      else []) (d_groups d))).
  { induction (d_groups d) as [|g gs IH]; [reflexivity|]. cbn [fold_right map flat_map].
    rewrite IH by (intros g1 v1 H1; apply (Nh g1 v1); cbn [flat_map]; apply in_or_app; now right).
    unfold grp_step. assert (SG : switch_group gk b g = if str_eqb (g_key g) gk then set_enabled b g else g) by reflexivity.
    rewrite SG. destruct (str_eqb (g_key g) gk); [|reflexivity].
    fold (set_enabled b g). cbn [g_vecs set_enabled].
    rewrite enable_group_vecs_nh.
    - cbn [g_vecs]. first [reflexivity | (f_equal; reflexivity) | (f_equal; f_equal; destruct g; reflexivity)].
    - apply Forall_forall. intros v Hv. apply (Nh g v). cbn [flat_map]. apply in_or_app. left. apply in_map. exact Hv. }
  rewrite G. reflexivity.
Qed.

(* ---------- every operation ---------- *)
Lemma define_only_ok d g mi v : mirror_wf mi -> vwf v -> no_handlers v -> step_ok d g mi v (publish_def d g v).
Proof.
  intros W Wv Nh. rewrite (publish_def_nh d g v Nh). constructor; cbn [fst snd pubs flat_map app]; auto.
  - cbn [feed fold_left]. apply entry_by_definition, W.
  - constructor; [apply def_msg_about|constructor].
Qed.

Lemma pubs_flat_map {A} (f : A -> list outev) l : pubs (flat_map f l) = flat_map (fun x => pubs (f x)) l.
Proof. induction l as [|x l IH]; [reflexivity|]. cbn [flat_map]. rewrite pubs_app, IH. reflexivity. Qed.

Lemma all_vecs_switch d gk b :
  all_vecs (with_groups d (map (switch_group gk b) (d_groups d))) =
  map (fun gv => (switch_group gk b (fst gv), snd gv)) (all_vecs d).
Proof.
  unfold all_vecs. cbn [d_groups with_groups]. induction (d_groups d) as [|g gs IH]; [reflexivity|].
  cbn [map flat_map]. rewrite map_app, IH. f_equal. rewrite map_map. cbn [fst snd].
  unfold switch_group. destruct (str_eqb (g_key g) gk); reflexivity.
Qed.

Lemma group_trace d gk b :
  pubs (flat_map (fun g => if str_eqb (g_key g) gk
                           then flat_map (fun v => Publish (def_msg d (set_enabled b g) v) ::
                                                   match set_msg d (set_enabled b g) v with Some m => [Publish m] | None => [] end) (g_vecs g)
                           else []) (d_groups d)) =
  flat_map (seg true d) (map (fun gv => (set_enabled b (fst gv), snd gv)) (filter (fun gv => str_eqb (g_key (fst gv)) gk) (all_vecs d))).
Proof.
  unfold all_vecs. induction (d_groups d) as [|g gs IH]; [reflexivity|]. cbn [flat_map]. rewrite pubs_app, IH.
  rewrite filter_app, map_app, flat_map_app. f_equal.
  destruct (str_eqb (g_key g) gk) eqn:E.
  - induction (g_vecs g) as [|v vs IHv]; [reflexivity|]. cbn [flat_map map filter fst]. rewrite E. cbn [map flat_map].
    rewrite pubs_app, IHv. unfold seg at 2. cbn [fst snd]. destruct (set_msg d (set_enabled b g) v); reflexivity.
  - assert (filter (fun gv : grp * vec => str_eqb (g_key (fst gv)) gk) (map (fun v => (g, v)) (g_vecs g)) = []) as ->.
    { induction (g_vecs g) as [|v vs IHv]; [reflexivity|]. cbn [map filter fst]. rewrite E. exact IHv. }
    reflexivity.
Qed.

Lemma in_names d g v : In (g, v) (all_vecs d) -> In (v_name v) (names_of d).
Proof. intro H. unfold names_of. apply (in_map (fun gv => v_name (snd gv)) (all_vecs d) (g, v)). exact H. Qed.

Lemma pubs_defs d l : pubs (map (fun gv => Publish (def_msg d (fst gv) (snd gv))) l) = flat_map (seg false d) l.
Proof.
  induction l as [|x l IH]; [reflexivity|]. unfold pubs in *. cbn [map flat_map]. rewrite IH. reflexivity.
Qed.

Theorem step_synced d o mi :
  dev_ok d -> synced mi d -> op_typed d o ->
  dev_ok (fst (step d o)) /\ synced (feed mi (pubs (snd (step d o)))) (fst (step d o)) /\ d_name (fst (step d o)) = d_name d /\
  Forall (fun m => exists vn, about (d_name d) vn m) (pubs (snd (step d o))).
Proof.
  intros D S T. pose proof D as [Dn Dv]. pose proof S as [Sw Se So].
  assert (OV : forall n f, (dev_ok (fst (on_vec d n f)) /\ synced (feed mi (pubs (snd (on_vec d n f)))) (fst (on_vec d n f)) /\
                            d_name (fst (on_vec d n f)) = d_name d /\ Forall (about (d_name d) n) (pubs (snd (on_vec d n f)))) ->
                           dev_ok (fst (on_vec d n f)) /\ synced (feed mi (pubs (snd (on_vec d n f)))) (fst (on_vec d n f)) /\
                           d_name (fst (on_vec d n f)) = d_name d /\ Forall (fun m => exists vn, about (d_name d) vn m) (pubs (snd (on_vec d n f)))).
  { intros n f (A & B & C & E). split; [exact A|]. split; [exact B|]. split; [exact C|]. eapply Forall_impl; [|exact E]. intros m Hm. exists n. exact Hm. }
  destruct o as [vn i x|vn i x|vn sel|vn st|vn b|gk b|vn i b|m]; cbn [step].
  - apply OV. apply on_vec_synced; try assumption; [intros; apply assign_name|].
    intros g v mi' Hin Hn W' E'. destruct (Dv g v Hin). apply assign_ok; auto. exact (T g v Hin Hn).
  - apply OV. apply on_vec_synced; try assumption; [intros; apply set_value_name|].
    intros g v mi' Hin Hn W' E'. destruct (Dv g v Hin). apply set_value_ok; auto. exact (T g v Hin Hn).
  - apply OV. apply on_vec_synced; try assumption; [intros; apply selected_loop_name|].
    intros g v mi' Hin Hn W' E'. destruct (Dv g v Hin). apply selected_ok; auto.
  - apply OV. apply on_vec_synced; try assumption; [intros g v; rewrite publish_set_name; reflexivity|].
    intros g v mi' Hin Hn W' E'. destruct (Dv g v Hin). apply with_state_ok; auto.
  - apply (OV vn (enable_vec_action d b)). apply (on_vec_synced d vn (enable_vec_action d b) mi); try assumption; [intros; apply enable_vec_name|].
    intros g v mi' Hin Hn W' E'. destruct (Dv g v Hin). apply enable_vec_ok; auto.
  - (* a whole group *)
    assert (Nh : forall g v, In (g, v) (all_vecs d) -> no_handlers v) by (intros g v H; exact (proj2 (Dv g v H))).
    pose proof (enable_group_spec d gk b Nh) as Sp. cbn [step] in Sp. rewrite Sp. cbn [fst snd]. rewrite group_trace.
    set (d' := with_groups d (map (switch_group gk b) (d_groups d))).
    set (L := map (fun gv => (set_enabled b (fst gv), snd gv)) (filter (fun gv => str_eqb (g_key (fst gv)) gk) (all_vecs d))).
    assert (AV : all_vecs d' = map (fun gv => (switch_group gk b (fst gv), snd gv)) (all_vecs d)) by apply all_vecs_switch.
    assert (NM : names_of d' = names_of d) by (unfold names_of; rewrite AV, map_map; reflexivity).
    assert (LN : map (fun gv => v_name (snd gv)) L = map (fun gv => v_name (snd gv)) (filter (fun gv => str_eqb (g_key (fst gv)) gk) (all_vecs d)))
      by (unfold L; rewrite map_map; reflexivity).
    assert (LNd : NoDup (map (fun gv => v_name (snd gv)) L)).
    { rewrite LN. clear -Dn. unfold names_of in Dn. induction (all_vecs d) as [|x l IH]; [constructor|]. cbn [map] in Dn. inversion Dn as [|? ? Hnot Hr]; subst.
      cbn [filter]. destruct (str_eqb (g_key (fst x)) gk); [|apply IH, Hr]. cbn [map]. constructor; [|apply IH, Hr].
      intro Hin. apply Hnot. apply in_map_iff in Hin. destruct Hin as (y & Hy & Hi). apply filter_In in Hi. destruct Hi as [Hi _].
      rewrite <- Hy. apply (in_map (fun gv => v_name (snd gv)) l y). exact Hi. }
    assert (LV : forall gv, In gv L -> vwf (snd gv) /\ no_handlers (snd gv)).
    { intros gv Hin. unfold L in Hin. apply in_map_iff in Hin. destruct Hin as ([g v] & <- & Hi). apply filter_In in Hi. destruct Hi as [Hi _]. exact (Dv g v Hi). }
    destruct (redefine_many true d L mi Sw LNd LV) as (A & B & C).
    assert (AB : Forall (fun m => exists vn, about (d_name d) vn m) (flat_map (seg true d) L)).
    { apply Forall_forall. intros m Hm. apply in_flat_map in Hm. destruct Hm as (gv & _ & Hm). exists (v_name (snd gv)).
      pose proof (seg_about true d gv) as SA. rewrite Forall_forall in SA. exact (SA m Hm). }
    split; [|split; [|split; [reflexivity|exact AB]]].
    + constructor; [rewrite NM; exact Dn|]. intros g' v Hin. rewrite AV in Hin. apply in_map_iff in Hin. destruct Hin as ([g v0] & E & Hi).
      cbn [fst snd] in E. injection E as <- <-. exact (Dv g v0 Hi).
    + constructor; [exact A| |].
      * intros g' v Hin. rewrite AV in Hin. apply in_map_iff in Hin. destruct Hin as ([g v0] & E & Hi). cbn [fst snd] in E. injection E as <- <-.
        unfold switch_group. destruct (str_eqb (g_key g) gk) eqn:Ek.
        -- apply (entry_ok_ext _ d d' (set_enabled b g) (set_enabled b g)); [reflexivity|split; reflexivity|].
           apply (B (set_enabled b g, v0)). unfold L. apply in_map_iff. exists (g, v0). split; [reflexivity|]. apply filter_In. split; [exact Hi|exact Ek].
        -- apply (entry_ok_ext _ d d' g g); [reflexivity|split; reflexivity|]. unfold entry_ok. rewrite C; [exact (Se g v0 Hi)|].
           rewrite LN. intro Hin. apply in_map_iff in Hin. destruct Hin as ([g1 v1] & Hn1 & Hf). apply filter_In in Hf. destruct Hf as [Hf1 Hf2].
           cbn [fst snd] in *. assert ((g1, v1) = (g, v0)) as E by (apply (names_unique d); assumption). injection E as -> ->. congruence.
      * intros vn Hne. rewrite NM. cbn [d_name d' with_groups] in Hne.
        destruct (in_dec (list_eq_dec N.eq_dec) vn (map (fun gv => v_name (snd gv)) L)) as [Hin|Hnin].
        -- rewrite LN in Hin. apply in_map_iff in Hin. destruct Hin as ([g1 v1] & <- & Hf). apply filter_In in Hf. exact (in_names d g1 v1 (proj1 Hf)).
        -- apply So. rewrite C in Hne; assumption.
  - destruct T.
  - (* a message from a client *)
    unfold from_client. destruct (str_eqb (mk m) (s2l "getProperties")) eqn:Gp.
    + assert (Q : quiet d).
      { unfold quiet. apply Forall_forall. intros g Hg. apply Forall_forall. intros v Hv. apply nh_quiet.
        assert (Hin : In (g, v) (all_vecs d)) by (unfold all_vecs; apply in_flat_map; exists g; split; [exact Hg|apply in_map; exact Hv]).
        exact (proj2 (Dv g v Hin)). }
      assert (All : dev_ok (fst (def_all d (map (fun gv => v_name (snd gv)) (all_vecs d)) d [])) /\
                    synced (feed mi (pubs (snd (def_all d (map (fun gv => v_name (snd gv)) (all_vecs d)) d [])))) (fst (def_all d (map (fun gv => v_name (snd gv)) (all_vecs d)) d [])) /\
                    d_name (fst (def_all d (map (fun gv => v_name (snd gv)) (all_vecs d)) d [])) = d_name d /\
                    Forall (fun m => exists vn, about (d_name d) vn m) (pubs (snd (def_all d (map (fun gv => v_name (snd gv)) (all_vecs d)) d [])))).
      { pose proof (getprops_all d None Q Dn) as GA. unfold from_client in GA.
        assert (str_eqb (mk (getprops None None)) (s2l "getProperties") = true) as E1 by reflexivity. rewrite E1 in GA.
        rewrite lookup_name_getprops in GA. rewrite GA. cbn [fst snd].
        rewrite pubs_defs.
        destruct (redefine_many false d (all_vecs d) mi Sw Dn (fun gv H => Dv (fst gv) (snd gv) ltac:(destruct gv; exact H))) as (A & B & C).
        split; [exact D|]. split; [|split; [reflexivity|]].
        - constructor; [exact A| |].
          + intros g v Hin. exact (B (g, v) Hin).
          + intros vn Hne. destruct (in_dec (list_eq_dec N.eq_dec) vn (names_of d)) as [Hin|Hnin]; [exact Hin|].
            apply So. rewrite C in Hne; assumption.
        - apply Forall_forall. intros m0 Hm. apply in_flat_map in Hm. destruct Hm as (gv & _ & Hm). exists (v_name (snd gv)).
          pose proof (seg_about false d gv) as SA. rewrite Forall_forall in SA. exact (SA m0 Hm). }
      destruct (lookup (s2l "name") (ma m)) as [n|]; [|exact All].
      destruct n as [|c0 n0]; [exact All|].
      apply OV. apply on_vec_synced; try assumption; [intros; apply publish_def_name|].
      intros g v mi' Hin Hn W' E'. destruct (Dv g v Hin). apply define_only_ok; auto.
    + destruct (kind_of_new (mk m)) as [k|]; [|cbn [fst snd pubs flat_map feed fold_left]; split; [exact D|split; [exact S|split; [reflexivity|constructor]]]].
      destruct (lookup (s2l "name") (ma m)) as [n|]; [|cbn [fst snd pubs flat_map feed fold_left]; split; [exact D|split; [exact S|split; [reflexivity|constructor]]]].
      apply OV. apply on_vec_synced; try assumption.
      * intros g v. destruct (vkind_eqb k (v_kind v)); [apply apply_children_name|reflexivity].
      * intros g v mi' Hin Hn W' E'. destruct (Dv g v Hin). destruct (vkind_eqb k (v_kind v)); [apply apply_children_ok; auto|apply noop_ok; auto].
Qed.

(* ---------- whole histories ---------- *)
Fixpoint ops_typed (d : dev) (ops : list dop) : Prop :=
  match ops with
  | [] => True
  | o :: r => op_typed d o /\ ops_typed (fst (step d o)) r
  end.

Theorem history_synced ops : forall d mi,
  dev_ok d -> synced mi d -> ops_typed d ops ->
  dev_ok (fst (run d ops)) /\ synced (feed mi (pubs (List.concat (snd (run d ops))))) (fst (run d ops)) /\
  d_name (fst (run d ops)) = d_name d.
Proof.
  induction ops as [|o r IH]; intros d mi D S T.
  - cbn. auto.
  - destruct T as [T1 T2]. cbn [run]. destruct (step_synced d o mi D S T1) as (D1 & S1 & N1 & _).
    destruct (step d o) as [d1 tr] eqn:Es. cbn [fst snd] in *.
    destruct (IH d1 (feed mi (pubs tr)) D1 S1 T2) as (D2 & S2 & N2).
    destruct (run d1 r) as [d2 trs]. cbn [fst snd List.concat] in *.
    rewrite pubs_app, feed_app. split; [exact D2|]. split; [exact S2|congruence].
Qed.

(* the handshake: a mirror that knows nothing of the device is in sync after the answer to getProperties *)
Theorem handshake_synced d mi :
  dev_ok d -> mirror_wf mi -> (forall vn, get_vec mi (d_name d) vn = None) ->
  synced (feed mi (pubs (snd (from_client d (getprops None None))))) d.
Proof.
  intros [Dn Dv] W Hnone.
  assert (Q : quiet d).
  { unfold quiet. apply Forall_forall. intros g Hg. apply Forall_forall. intros v Hv. apply nh_quiet.
    assert (Hin : In (g, v) (all_vecs d)) by (unfold all_vecs; apply in_flat_map; exists g; split; [exact Hg|apply in_map; exact Hv]).
    exact (proj2 (Dv g v Hin)). }
  rewrite (getprops_all d None Q Dn). cbn [snd]. rewrite pubs_defs.
  destruct (redefine_many false d (all_vecs d) mi W Dn (fun gv H => Dv (fst gv) (snd gv) ltac:(destruct gv; exact H))) as (A & B & C).
  constructor; [exact A| |].
  - intros g v Hin. exact (B (g, v) Hin).
  - intros vn Hne. destruct (in_dec (list_eq_dec N.eq_dec) vn (names_of d)) as [Hin|Hnin]; [exact Hin|].
    exfalso. apply Hne. rewrite C; [apply Hnone|exact Hnin].
Qed.

(* what "in sync" says, property by property *)
Theorem synced_means mi d :
  synced mi d -> dev_ok d ->
  forall vn,
    match find_gv vn (d_groups d) with
    | Some (g, v) => option_map blind (get_vec mi (d_name d) vn) = if vec_on g v then Some (blind (shown d g v)) else None
    | None => get_vec mi (d_name d) vn = None
    end.
Proof.
  intros [Sw Se So] [Dn Dv] vn. destruct (find_gv vn (d_groups d)) as [[g v]|] eqn:F.
  - destruct (find_gv_in _ _ _ _ F) as [Hin Hn]. fold (all_vecs d) in Hin. rewrite <- Hn. exact (Se g v Hin).
  - destruct (get_vec mi (d_name d) vn) as [c|] eqn:E; [|reflexivity]. exfalso.
    assert (Hin : In vn (names_of d)) by (apply So; rewrite E; discriminate).
    unfold names_of in Hin. apply in_map_iff in Hin. destruct Hin as ([g v] & Hn & Hi). exact (find_gv_none _ _ F g v Hi Hn).
Qed.
