(* C01/C06: the hypotheses of connect_then_any_history are met by a concrete deployment and a concrete history
   of driver operations and client writes; the model, run on it, ends with the written value on the device
   and in the client's mirror. *)
From Coq Require Import List NArith Bool String.
Import ListNotations.
From Indi Require Import Base.Sx Msg.Equality Msg.Codec Router.Model Driver.Model Driver.Props Client.Model Client.Props Client.Norm
  System.Model System.Converge System.Ops System.Deliver System.Handshake System.WriteE2E System.Reorder System.Orderly System.Mixed
  System.OpsExamples.

Definition cl0 : client :=
  {| cl_net := true; cl_ctl := 1%N; cl_blob := 2%N; cl_up := false; cl_mirror := []; cl_in_ctl := []; cl_in_blob := [] |}.
Definition s0 : sys :=
  {| sy_r := {| devices := [(10%N, AccNamed (d_name d0))]; clients := []; blob := [] |};
     sy_devs := [(10%N, d0)]; sy_cls := [cl0]; sy_oof := false |}.

Example s0_fresh : fresh s0 cl0 10%N d0.
Proof. constructor; try reflexivity; discriminate. Qed.

Definition evs0 : list event :=
  [EDrv (OAssign (s2l "T") 0 (VText (Some (s2l "hello"))));
   EWrite (s2l "T") [(s2l "b", WText (s2l "from the client"))];
   EDrv (OState (s2l "T") (s2l "Busy"));
   EWrite (s2l "T") [(s2l "a", WText (s2l "again"))];
   EDrv (OEnableGrp (s2l "g") false); EDrv (OEnableGrp (s2l "g") true)].

Ltac one_state :=
  let c := fresh "c" in let d := fresh "d" in let Hc := fresh "Hc" in let Hd := fresh "Hd" in
  intros c d Hc Hd; vm_compute in Hc; vm_compute in Hd; injection Hc as <-; injection Hd as <-.

Example evs0_admissible : admissible 10%N (sstep s0 (SHandshake 0)) evs0.
Proof.
  unfold evs0. cbn [admissible].
  repeat match goal with
         | |- _ /\ _ => split
         | |- True => exact I
         | |- forall d : dev, find_dev _ _ = Some d -> _ =>
             let d := fresh "d" in let Hd := fresh "Hd" in intros d Hd; vm_compute in Hd; injection Hd as <-; cbn [sop_of]
         end.
  all: one_state.
  all: try (cbn; exact I).
  all: try (intros g v Hin Hn; destruct (v_kind v); exact I).
  all: try (intros m Hm; vm_compute in Hm; injection Hm as <-; vm_compute; repeat split; reflexivity).
Qed.

Example the_history_ends_in_sync :
  exists c' d', connected (fold_left (fun s ev => sstep s (sop_of 10%N (d_name d0) ev)) evs0 (sstep s0 (SHandshake 0))) c' 10%N d' /\
                d_name d' = d_name d0.
Proof.
  apply (connect_then_any_history s0 cl0 10%N d0 evs0 s0_fresh d0_ok); [|exact evs0_admissible].
  eexists _, _. split; [left; reflexivity|reflexivity].
Qed.
