(* C01: the order in which the client takes an operation's messages from its two connections
   does not matter, as long as no ordinary message about a property follows a BLOB update about
   the same property within the operation.  A message about one property acts on that entry
   alone (frame) and as a function of that entry alone (locality); hence messages about
   different properties commute as far as the view (get_vec) is concerned, and being in sync
   is a statement about the view. *)
From Coq Require Import List NArith Bool String Lia.
Import ListNotations.
From Indi Require Import Base.Sx Msg.Equality Msg.Model Driver.Model Client.Model Client.Props Client.Update Client.Norm
  System.Converge System.Ops System.Model System.Deliver.

Definition same_view (a b : mirror) : Prop := forall d v, get_vec a d v = get_vec b d v.

Lemma same_view_refl a : same_view a a. Proof. intros d v. reflexivity. Qed.
Lemma same_view_sym a b : same_view a b -> same_view b a. Proof. intros H d v. symmetry. apply H. Qed.
Lemma same_view_trans a b c : same_view a b -> same_view b c -> same_view a c.
Proof. intros H1 H2 d v. rewrite H1. apply H2. Qed.

Lemma synced_ext a b d : mirror_wf b -> same_view a b -> synced a d -> synced b d.
Proof.
  intros W V [Sw Se So]. constructor; [exact W| |].
  - intros g v Hin. unfold entry_ok. rewrite <- V. exact (Se g v Hin).
  - intros vn H. apply So. rewrite V. exact H.
Qed.

(* what a message about (dn, vn) leaves at (dn, vn) depends on what was there, and on nothing else *)
Lemma apply_local m dn vn a b :
  about dn vn m -> mirror_wf a -> mirror_wf b -> get_vec a dn vn = get_vec b dn vn ->
  get_vec (mirror_of (apply a m)) dn vn = get_vec (mirror_of (apply b m)) dn vn.
Proof.
  intros (Hd & Hn & _) Wa Wb E.
  destruct (def_kind (mk m)) as [k|] eqn:Dk.
  - pose proof (def_effect a m k dn Dk Hd) as Ea. pose proof (def_effect b m k dn Dk Hd) as Eb.
    assert (Hname : cv_name (vec_of_def k m) = vn) by (unfold vec_of_def; cbn [cv_name]; now rewrite Hn).
    rewrite Hname in Ea, Eb. now rewrite Ea, Eb.
  - destruct (set_kind (mk m)) as [k|] eqn:Sk.
    + assert (G : forall mi, get_vec (mirror_of (apply mi m)) dn vn =
                    match get_vec mi dn vn with
                    | Some v => if vkind_eqb k (cv_kind v)
                                then Some (with_celems v (match attr_of "state" (ma m) with Some s => s | None => [] end)
                                             (fst (upd_elems dn vn k (match mc m with Some l => l | None => [] end) (cv_elems v))))
                                else Some v
                    | None => None
                    end).
      { intro mi. unfold get_vec at 2. unfold apply, mirror_of. rewrite Hd, Dk, Sk, Hn.
        destruct (dget cd_name dn mi) as [cd|] eqn:Ed; cbn [fst]; [|unfold get_vec; now rewrite Ed].
        destruct (dget cv_name vn (cd_vecs cd)) as [v|] eqn:Ev; cbn [fst]; [|unfold get_vec; now rewrite Ed, Ev].
        destruct (vkind_eqb k (cv_kind v)) eqn:Ek; cbn [fst]; [|unfold get_vec; now rewrite Ed, Ev].
        destruct (upd_elems dn vn k _ (cv_elems v)) as [es ev2]. cbn [fst].
        unfold get_vec. rewrite (dget_dset_eq cd_name) by (cbn; exact (dget_key cd_name _ _ _ Ed)).
        cbn [cd_vecs Client.Model.with_vecs]. apply (dget_dset_eq cv_name). exact (dget_key cv_name _ _ _ Ev). }
      rewrite (G a), (G b), E. reflexivity.
    + destruct (str_eqb (mk m) (s2l "delProperty")) eqn:Dl.
      * assert (G : forall mi, mirror_wf mi -> get_vec (mirror_of (apply mi m)) dn vn = None).
        { intros mi W. destruct (dget cd_name dn mi) as [cd|] eqn:Ed.
          - apply (del_named mi m dn vn cd Dk Sk Dl Hd Hn Ed). apply W. exact (dget_In cd_name _ _ _ Ed).
          - unfold apply, mirror_of. rewrite Hd, Dk, Sk, Dl, Hn, Ed. cbn [fst]. unfold get_vec. now rewrite Ed. }
        now rewrite (G a Wa), (G b Wb).
      * rewrite !(other_messages_ignored _ m Dk Sk Dl). exact E.
Qed.

Lemma apply_same_view m dn vn a b :
  about dn vn m -> mirror_wf a -> mirror_wf b -> same_view a b ->
  same_view (mirror_of (apply a m)) (mirror_of (apply b m)).
Proof.
  intros Ab Wa Wb V d v.
  destruct (list_eq_dec N.eq_dec d dn) as [->|Hd]; [destruct (list_eq_dec N.eq_dec v vn) as [->|Hv]|].
  - apply (apply_local m dn vn a b Ab Wa Wb (V dn vn)).
  - rewrite !(apply_frame _ m dn vn dn v Ab) by (assumption || (right; exact Hv)). apply V.
  - rewrite !(apply_frame _ m dn vn d v Ab) by (assumption || (left; exact Hd)). apply V.
Qed.

Definition all_about (dn : str) (ms : list msg) : Prop := Forall (fun m => exists vn, about dn vn m) ms.

Lemma feed_same_view dn ms : forall a b,
  all_about dn ms -> mirror_wf a -> mirror_wf b -> same_view a b -> same_view (feed a ms) (feed b ms).
Proof.
  induction ms as [|m ms IH]; intros a b Ab Wa Wb V; [exact V|].
  inversion Ab as [|? ? [vn Hm] Hr]; subst. cbn [feed fold_left].
  apply IH; [exact Hr|apply apply_wf, Wa|apply apply_wf, Wb|]. exact (apply_same_view m dn vn a b Hm Wa Wb V).
Qed.

(* two messages about different properties commute *)
Lemma apply_commute m1 m2 dn v1 v2 a :
  about dn v1 m1 -> about dn v2 m2 -> v1 <> v2 -> mirror_wf a ->
  same_view (mirror_of (apply (mirror_of (apply a m1)) m2)) (mirror_of (apply (mirror_of (apply a m2)) m1)).
Proof.
  intros A1 A2 Hne W d v.
  pose proof (apply_wf a m1 W) as W1. pose proof (apply_wf a m2 W) as W2.
  destruct (list_eq_dec N.eq_dec d dn) as [->|Hd].
  - destruct (list_eq_dec N.eq_dec v v1) as [->|H1].
    + (* at v1: m2 is a bystander on both sides *)
      rewrite (apply_frame _ m2 dn v2 dn v1 A2 W1) by (right; exact Hne).
      apply (apply_local m1 dn v1 a (mirror_of (apply a m2)) A1 W W2).
      symmetry. apply (apply_frame a m2 dn v2 dn v1 A2 W). right. exact Hne.
    + destruct (list_eq_dec N.eq_dec v v2) as [->|H2].
      * rewrite (apply_frame (mirror_of (apply a m2)) m1 dn v1 dn v2 A1 W2) by (right; congruence).
        apply (apply_local m2 dn v2 (mirror_of (apply a m1)) a A2 W1 W).
        apply (apply_frame a m1 dn v1 dn v2 A1 W). right. congruence.
      * rewrite (apply_frame _ m2 dn v2 dn v A2 W1), (apply_frame _ m1 dn v1 dn v A1 W) by (right; assumption).
        rewrite (apply_frame _ m1 dn v1 dn v A1 W2), (apply_frame _ m2 dn v2 dn v A2 W) by (right; assumption). reflexivity.
  - rewrite (apply_frame _ m2 dn v2 d v A2 W1), (apply_frame _ m1 dn v1 d v A1 W) by (left; assumption).
    rewrite (apply_frame _ m1 dn v1 d v A1 W2), (apply_frame _ m2 dn v2 d v A2 W) by (left; assumption). reflexivity.
Qed.

(* none of ms is about (dn, vn) *)
Definition none_about (dn vn : str) (ms : list msg) : Prop :=
  Forall (fun m => exists v, about dn v m /\ v <> vn) ms.

(* a message may be moved behind any run of messages about other properties *)
Lemma move_behind m dn vn ms : forall a,
  about dn vn m -> none_about dn vn ms -> mirror_wf a ->
  same_view (feed (mirror_of (apply a m)) ms) (mirror_of (apply (feed a ms) m)).
Proof.
  induction ms as [|x ms IH]; intros a Am Hn W; [apply same_view_refl|].
  inversion Hn as [|? ? (v & Ax & Hv) Hr]; subst. cbn [feed fold_left].
  (* swap m and x, then go on *)
  eapply same_view_trans; [|apply (IH (mirror_of (apply a x)) Am Hr (apply_wf a x W))].
  apply (feed_same_view dn ms).
  - eapply Forall_impl; [|exact Hr]. intros y (v' & Ay & _). eauto.
  - apply apply_wf, apply_wf, W.
  - apply apply_wf, apply_wf, W.
  - apply (apply_commute m x dn vn v a Am Ax (fun E => Hv (eq_sym E)) W).
Qed.

(* within the operation, nothing ordinary about a property follows a BLOB update about it *)
Fixpoint blob_updates_last (dn : str) (ms : list msg) : Prop :=
  match ms with
  | [] => True
  | m :: r => (if is_blob_msg m then exists vn, about dn vn m /\ none_about dn vn (filter (fun x => negb (is_blob_msg x)) r)
               else exists vn, about dn vn m) /\ blob_updates_last dn r
  end.

Lemma blob_updates_last_about dn ms : blob_updates_last dn ms -> all_about dn ms.
Proof.
  induction ms as [|m r IH]; intro H; [constructor|]. destruct H as [Hm Hr]. constructor; [|exact (IH Hr)].
  destruct (is_blob_msg m); destruct Hm as [vn Hm]; [exists vn; apply Hm|exists vn; exact Hm].
Qed.

Lemma all_about_filter dn p ms : all_about dn ms -> all_about dn (filter p ms).
Proof. unfold all_about. intro H. apply Forall_forall. intros x Hx. apply filter_In in Hx as [Hx _]. rewrite Forall_forall in H. exact (H x Hx). Qed.

Definition two_connections (ms : list msg) : list msg :=
  filter (fun m => negb (is_blob_msg m)) ms ++ filter is_blob_msg ms.

(* taking the ordinary messages first and the BLOB updates afterwards gives the same view as taking
   them in the order of publication *)
Theorem two_connections_same_view dn ms : forall a,
  blob_updates_last dn ms -> mirror_wf a -> same_view (feed a (two_connections ms)) (feed a ms).
Proof.
  induction ms as [|m r IH]; intros a H W; [apply same_view_refl|].
  destruct H as [Hm Hr]. unfold two_connections in *. cbn [filter].
  destruct (is_blob_msg m) eqn:Eb; cbn [negb].
  - destruct Hm as (vn & Am & Hn).
    (* a; nb r; m; bl r   ~   a; m; nb r; bl r   ~   a; m; r *)
    rewrite feed_app. cbn [feed fold_left]. fold (feed (mirror_of (apply (feed a (filter (fun x => negb (is_blob_msg x)) r)) m)) (filter is_blob_msg r)).
    eapply same_view_trans; [|apply (IH (mirror_of (apply a m)) Hr (apply_wf a m W))].
    rewrite feed_app.
    apply (feed_same_view dn); [apply all_about_filter, blob_updates_last_about, Hr|apply apply_wf, feed_wf, W|apply feed_wf, apply_wf, W|].
    apply same_view_sym. exact (move_behind m dn vn _ a Am Hn W).
  - cbn [app feed fold_left]. exact (IH (mirror_of (apply a m)) Hr (apply_wf a m W)).
Qed.

Lemma delivered_is_two_connections ms : delivered_stream ms = map wire (two_connections ms).
Proof. unfold delivered_stream, two_connections. now rewrite map_app. Qed.

Lemma all_about_two_connections dn ms : all_about dn ms -> all_about dn (two_connections ms).
Proof. intro H. unfold two_connections. apply Forall_app. split; apply all_about_filter; exact H. Qed.

(* the composed system model, one driver-side operation, whatever it publishes on either connection *)
Theorem network_client_stays_in_sync_two_connections s c e d o :
  one_client s c (d_name d) -> cl_in_ctl c = [] -> cl_in_blob c = [] ->
  find_dev s e = Some d -> e <> cl_ctl c -> e <> cl_blob c ->
  dev_ok d -> op_typed d o -> net_synced (cl_mirror c) d ->
  blob_updates_last (d_name d) (pubs (snd (step d o))) ->
  exists c',
    sy_cls (sstep s (SDrv e o)) = [c'] /\
    net_synced (cl_mirror c') (fst (step d o)) /\ dev_ok (fst (step d o)) /\
    find_dev (sstep s (SDrv e o)) e = Some (fst (step d o)) /\
    one_client (sstep s (SDrv e o)) c' (d_name (fst (step d o))) /\ cl_in_ctl c' = [] /\ cl_in_blob c' = [] /\
    cl_ctl c' = cl_ctl c /\ cl_blob c' = cl_blob c.
Proof.
  intros O I1 I2 Fd He1 He2 D T (mi0 & S0 & Em & K0) Bl.
  destruct (step_synced d o mi0 D S0 T) as (D1 & S1 & N1 & Ab).
  assert (Kc : dget cd_name (d_name d) (cl_mirror c) <> None).
  { rewrite Em. unfold nm. rewrite (dget_map cd_name nm_dev (fun _ => eq_refl)). destruct (dget cd_name (d_name d) mi0); [discriminate|contradiction]. }
  destruct (driver_operation_is_delivered s c (d_name d) e d o O I1 I2 Kc Fd eq_refl He1 He2 Ab)
    as (c' & Cls & Mir & J1 & J2 & Fd' & Sr & F1 & F2 & F3).
  pose proof (sy_wf _ _ S0) as W0.
  exists c'. split; [exact Cls|]. split; [|split; [exact D1|split; [exact Fd'|split; [|repeat split; assumption]]]].
  - exists (feed mi0 (two_connections (pubs (snd (step d o))))). split; [|split].
    + apply (synced_ext (feed mi0 (pubs (snd (step d o))))); [apply feed_wf, W0| |exact S1].
      apply same_view_sym. exact (two_connections_same_view (d_name d) _ mi0 Bl W0).
    + rewrite Mir, Em, delivered_is_two_connections. unfold feed, wire. apply feed_norm.
    + rewrite N1. apply feed_known; [exact K0|]. apply all_about_two_connections. exact Ab.
  - rewrite N1. destruct O as [A B C0 Dd E F]. constructor; rewrite ?Sr, ?F1, ?F2, ?F3; auto.
Qed.

(* any number of operations *)
Fixpoint orderly_ops (d : dev) (ops : list dop) : Prop :=
  match ops with
  | [] => True
  | o :: r => op_typed d o /\ blob_updates_last (d_name d) (pubs (snd (step d o))) /\ orderly_ops (fst (step d o)) r
  end.

Theorem network_client_history_two_connections ops : forall s c e d,
  one_client s c (d_name d) -> cl_in_ctl c = [] -> cl_in_blob c = [] ->
  find_dev s e = Some d -> e <> cl_ctl c -> e <> cl_blob c ->
  dev_ok d -> net_synced (cl_mirror c) d -> orderly_ops d ops ->
  exists c',
    sy_cls (fold_left (fun s o => sstep s (SDrv e o)) ops s) = [c'] /\
    net_synced (cl_mirror c') (fst (run d ops)) /\
    find_dev (fold_left (fun s o => sstep s (SDrv e o)) ops s) e = Some (fst (run d ops)) /\
    cl_in_ctl c' = [] /\ cl_in_blob c' = [].
Proof.
  induction ops as [|o r IH]; intros s c e d O I1 I2 Fd H1 H2 D S Q.
  - cbn [fold_left run fst]. exists c. destruct O as [Cls _ _ _ _ _]. auto.
  - destruct Q as (T & Nb & Qr). cbn [fold_left run].
    destruct (network_client_stays_in_sync_two_connections s c e d o O I1 I2 Fd H1 H2 D T S Nb) as (c1 & Cls1 & S1 & D1 & Fd1 & O1 & J1 & J2 & F2 & F3).
    destruct (step d o) as [d1 tr] eqn:Es. cbn [fst snd] in *.
    destruct (IH (sstep s (SDrv e o)) c1 e d1 O1 J1 J2 Fd1 ltac:(rewrite F2; exact H1) ltac:(rewrite F3; exact H2) D1 S1 Qr)
      as (c' & A & B & C & E1 & E2).
    exists c'. destruct (run d1 r) as [d2 trs]. cbn [fst] in *. auto.
Qed.

(* ---------- the condition, decidable ---------- *)
Definition about_name (dn : str) (m : msg) : option str :=
  match attr_of "device" (ma m), attr_of "name" (ma m), Msg.RegOk.spec_flag_of (mk m) with
  | Some d, Some vn, Some (false, true) => if str_eqb d dn then Some vn else None
  | _, _, _ => None
  end.

Lemma about_name_ok dn m vn : about_name dn m = Some vn -> about dn vn m.
Proof.
  unfold about_name, about.
  destruct (attr_of "device" (ma m)) as [d|]; [|discriminate].
  destruct (attr_of "name" (ma m)) as [v|]; [|discriminate].
  destruct (Msg.RegOk.spec_flag_of (mk m)) as [[[|] [|]]|]; try discriminate.
  destruct (str_eqb d dn) eqn:E; [|discriminate]. apply str_eqb_spec in E. intros [= <-]. subst. auto.
Qed.

Definition none_aboutb (dn vn : str) (ms : list msg) : bool :=
  forallb (fun m => match about_name dn m with Some v => negb (str_eqb v vn) | None => false end) ms.

Lemma none_aboutb_ok dn vn ms : none_aboutb dn vn ms = true -> none_about dn vn ms.
Proof.
  unfold none_aboutb, none_about. rewrite forallb_forall, Forall_forall. intros H m Hm. specialize (H m Hm).
  destruct (about_name dn m) as [v|] eqn:E; [|discriminate]. exists v. split; [exact (about_name_ok dn m v E)|].
  intros ->. rewrite str_eqb_refl in H. discriminate.
Qed.

Fixpoint blob_updates_lastb (dn : str) (ms : list msg) : bool :=
  match ms with
  | [] => true
  | m :: r => match about_name dn m with
              | Some vn => (if is_blob_msg m then none_aboutb dn vn (filter (fun x => negb (is_blob_msg x)) r) else true) &&
                           blob_updates_lastb dn r
              | None => false
              end
  end.

Lemma blob_updates_lastb_ok dn ms : blob_updates_lastb dn ms = true -> blob_updates_last dn ms.
Proof.
  induction ms as [|m r IH]; cbn [blob_updates_lastb blob_updates_last]; [auto|].
  destruct (about_name dn m) as [vn|] eqn:E; [|discriminate]. intro H. apply andb_prop in H as [H1 H2].
  split; [|exact (IH H2)]. pose proof (about_name_ok dn m vn E) as Am.
  destruct (is_blob_msg m); [exists vn; split; [exact Am|exact (none_aboutb_ok _ _ _ H1)]|exists vn; exact Am].
Qed.
