(* C01, delivery: in the composed system model, what a driver publishes during one
   operation reaches the connected network client exactly - each message once, ordinary
   messages on the control connection in order, BLOB updates on the BLOB connection in
   order - and the client's mirror afterwards is the old mirror fed with these (after the wire). *)
From Coq Require Import List NArith Bool String Lia.
Import ListNotations.
From Indi Require Import Base.Sx Msg.Equality Msg.RegOk Msg.Codec Router.Model Router.Props Driver.Model
     Client.Model Client.Props Client.Norm System.Model System.Converge System.Ops.

Definition is_blob_msg (m : msg) : bool := str_eqb (mk m) (s2l "setBLOBVector").

(* one network client, connected, with the library's policies for device dn *)
Record one_client (s : sys) (c : client) (dn : str) : Prop := {
  oc_cls : sy_cls s = [c];
  oc_net : cl_net c = true;
  oc_clients : clients (sy_r s) = [cl_ctl c; cl_blob c];
  oc_diff : cl_ctl c <> cl_blob c;
  oc_ctl : policy_of (sy_r s) (cl_ctl c) (Some dn) = Never;
  oc_blob : policy_of (sy_r s) (cl_blob c) (Some dn) = Only
}.

Definition enq (c : client) (m : msg) : client :=
  if is_blob_msg m then with_inboxes c (cl_in_ctl c) (cl_in_blob c ++ [wire m])
  else with_inboxes c (cl_in_ctl c ++ [wire m]) (cl_in_blob c).

Definition set_client (s : sys) (c : client) : sys :=
  {| sy_r := sy_r s; sy_devs := sy_devs s; sy_cls := [c]; sy_oof := sy_oof s |}.

Lemma rmsg_of_dev m dn vn :
  about dn vn m ->
  rmsg_of m = {| r_from_client := false; r_from_device := true; r_enable := None; r_blob := is_blob_msg m; r_dev := Some dn |}.
Proof.
  intros (Hd & _ & Hf). unfold rmsg_of. rewrite Hf.
  assert (str_eqb (mk m) (s2l "enableBLOB") = false) as ->.
  { destruct (str_eqb (mk m) (s2l "enableBLOB")) eqn:E; [|reflexivity]. apply str_eqb_spec in E. rewrite E in Hf. discriminate. }
  unfold attr_of in Hd. rewrite Hd. reflexivity.
Qed.

Lemma with_r_same s : with_r s (sy_r s) = s.
Proof. destruct s; reflexivity. Qed.

Lemma one_client_set s c dn c' :
  one_client s c dn -> cl_net c' = cl_net c -> cl_ctl c' = cl_ctl c -> cl_blob c' = cl_blob c ->
  one_client (set_client s c') c' dn.
Proof.
  intros [A B C D E F] H1 H2 H3. constructor; cbn [sy_cls sy_r set_client]; try rewrite H1; try rewrite H2; try rewrite H3; auto.
Qed.

(* the server hands one device message to the client's connections *)
Lemma cascade_dev_msg f s c dn vn m e :
  one_client s c dn -> about dn vn m -> e <> cl_ctl c -> e <> cl_blob c ->
  cascade (S f) s m (Some e) = set_client s (enq c m).
Proof.
  intros [Cls Net Clients Diff Pc Pb] Ab He1 He2. cbn [cascade]. rewrite (rmsg_of_dev m dn vn Ab).
  unfold process. cbn [r_from_client r_from_device r_blob r_dev]. unfold dev_outs, cl_outs. cbn [r_from_client r_from_device r_blob r_dev app].
  rewrite Clients. cbn [filter is_sender].
  assert (N.eqb (cl_ctl c) e = false) as -> by (apply N.eqb_neq; congruence).
  assert (N.eqb (cl_blob c) e = false) as -> by (apply N.eqb_neq; congruence).
  cbn [negb andb]. rewrite Pc, Pb. unfold allow, enq.
  assert (SN : forall s0 e0, sy_cls s0 = [c] -> snoop_at s0 e0 = None).
  { intros s0 e0 H0. unfold snoop_at. rewrite H0. cbn [find]. rewrite Net. reflexivity. }
  destruct (is_blob_msg m) eqn:Eb; cbn [negb map fold_left]; rewrite with_r_same; rewrite (SN s _ Cls).
  - unfold map_cls, set_client. rewrite Cls. cbn [map]. f_equal. f_equal. unfold enqueue. rewrite Net.
    assert (N.eqb (cl_ctl c) (cl_blob c) = false) as -> by (apply N.eqb_neq; exact Diff). rewrite N.eqb_refl. reflexivity.
  - unfold map_cls, set_client. rewrite Cls. cbn [map]. f_equal. f_equal. unfold enqueue. rewrite Net, N.eqb_refl. reflexivity.
Qed.

Definition enq_all (c : client) (ms : list msg) : client := fold_left enq ms c.

Lemma enq_fields c m : cl_net (enq c m) = cl_net c /\ cl_ctl (enq c m) = cl_ctl c /\ cl_blob (enq c m) = cl_blob c /\
                       cl_mirror (enq c m) = cl_mirror c /\ cl_up (enq c m) = cl_up c.
Proof. unfold enq. destruct (is_blob_msg m); repeat split; reflexivity. Qed.

Lemma cascade_dev_msgs f ms : forall s c dn e,
  one_client s c dn -> Forall (fun m => exists vn, about dn vn m) ms -> e <> cl_ctl c -> e <> cl_blob c ->
  fold_left (fun s m => cascade (S f) s m (Some e)) ms s = (if ms then s else set_client s (enq_all c ms)) /\
  one_client (fold_left (fun s m => cascade (S f) s m (Some e)) ms s) (enq_all c ms) dn.
Proof.
  induction ms as [|m ms IH]; intros s c dn e O Ha H1 H2; [split; [reflexivity|exact O]|].
  inversion Ha as [|? ? [vn Hm] Hr]; subst. cbn [fold_left enq_all].
  rewrite (cascade_dev_msg f s c dn vn m e O Hm H1 H2).
  destruct (enq_fields c m) as (F1 & F2 & F3 & _).
  assert (O1 : one_client (set_client s (enq c m)) (enq c m) dn) by (apply (one_client_set s c dn); auto).
  destruct (IH (set_client s (enq c m)) (enq c m) dn e O1 Hr ltac:(rewrite F2; exact H1) ltac:(rewrite F3; exact H2)) as [A B].
  split; [|exact B]. rewrite A. destruct ms; reflexivity.
Qed.

Lemma enq_all_inboxes ms : forall c,
  cl_in_ctl (enq_all c ms) = cl_in_ctl c ++ map wire (filter (fun m => negb (is_blob_msg m)) ms) /\
  cl_in_blob (enq_all c ms) = cl_in_blob c ++ map wire (filter is_blob_msg ms) /\
  cl_mirror (enq_all c ms) = cl_mirror c /\ cl_net (enq_all c ms) = cl_net c /\
  cl_ctl (enq_all c ms) = cl_ctl c /\ cl_blob (enq_all c ms) = cl_blob c.
Proof.
  induction ms as [|m ms IH]; intro c; cbn [enq_all fold_left filter map]; [rewrite !app_nil_r; repeat split; reflexivity|].
  destruct (IH (enq c m)) as (A & B & C & D & E & F). fold (enq_all (enq c m) ms). rewrite A, B, C, D, E, F.
  unfold enq. destruct (is_blob_msg m); cbn [negb map cl_in_ctl cl_in_blob cl_mirror cl_net cl_ctl cl_blob with_inboxes];
    rewrite <- ?app_assoc; repeat split; reflexivity.
Qed.

(* the client reads what its connections delivered *)
Lemma about_wire dn vn m : about dn vn m -> about dn vn (wire m).
Proof. intros (A & B & C). repeat split; assumption. Qed.

Lemma apply_known mi m dn vn :
  dget cd_name dn mi <> None -> about dn vn m ->
  snd (apply mi m) = [] /\ dget cd_name dn (mirror_of (apply mi m)) <> None.
Proof.
  intros Hk (Hd & Hn & _). unfold apply, mirror_of. rewrite Hd.
  destruct (dget cd_name dn mi) as [d|] eqn:Ed; [|contradiction]. pose proof (dget_key cd_name _ _ _ Ed) as Hkey.
  destruct (def_kind (mk m)) as [k|].
  - cbn [fst snd]. split; [reflexivity|]. rewrite (dget_dset_eq cd_name); [discriminate|exact Hkey].
  - destruct (set_kind (mk m)) as [k|].
    + rewrite Hn. destruct (dget cv_name vn (cd_vecs d)) as [v|]; [|cbn; split; [reflexivity|rewrite Ed; discriminate]].
      destruct (vkind_eqb k (cv_kind v)); [|cbn; split; [reflexivity|rewrite Ed; discriminate]].
      destruct (upd_elems dn vn k _ (cv_elems v)) as [es ev2]. cbn [fst snd]. split; [reflexivity|].
      rewrite (dget_dset_eq cd_name); [discriminate|exact Hkey].
    + destruct (str_eqb (mk m) (s2l "delProperty")); [|cbn; split; [reflexivity|rewrite Ed; discriminate]].
      rewrite Hn. cbn [fst snd]. split; [reflexivity|]. rewrite (dget_dset_eq cd_name); [discriminate|exact Hkey].
Qed.

Lemma consume_known ms : forall c dn,
  dget cd_name dn (cl_mirror c) <> None -> Forall (fun m => exists vn, about dn vn m) ms ->
  consume c ms = (with_mirror c (feed (cl_mirror c) ms), []) /\ dget cd_name dn (feed (cl_mirror c) ms) <> None.
Proof.
  unfold consume. 
  assert (G : forall ms c dn out, dget cd_name dn (cl_mirror c) <> None -> Forall (fun m => exists vn, about dn vn m) ms ->
     fold_left (fun acc m => let '(c', out) := acc in let '(mi, _, sent) := apply (cl_mirror c') m in
                 (with_mirror c' mi, out ++ flat_map (fun x => match lookup (s2l "device") (ma x) with
                                          | Some dn => [(x, cl_ctl c'); (enable_only dn, cl_blob c')]
                                          | None => [(x, cl_ctl c')] end) sent)) ms (c, out)
     = (with_mirror c (feed (cl_mirror c) ms), out) /\ dget cd_name dn (feed (cl_mirror c) ms) <> None).
  { induction ms0 as [|m ms0 IH]; intros c0 dn0 out Hk Ha; cbn [fold_left feed].
    - split; [destruct c0; reflexivity|exact Hk].
    - inversion Ha as [|? ? [vn Hm] Hr]; subst. destruct (apply_known (cl_mirror c0) m dn0 vn Hk Hm) as [S1 S2].
      destruct (apply (cl_mirror c0) m) as [[mi evs] sent] eqn:Ea. cbn [snd mirror_of fst] in S1, S2. subst sent. cbn [flat_map]. rewrite app_nil_r.
      destruct (IH (with_mirror c0 mi) dn0 out S2 Hr) as [A B]. cbn [cl_mirror with_mirror] in A, B.
      unfold mirror_of. cbn [fst]. fold (feed mi ms0).
      split; [rewrite A; destruct c0; reflexivity|exact B]. }
  intros c dn. apply G.
Qed.

Lemma forall_filter {A} (P : A -> Prop) (p : A -> bool) l : Forall P l -> Forall P (filter p l).
Proof. induction 1 as [|x l Hx _ IH]; cbn [filter]; [constructor|]. destruct (p x); [constructor; assumption|assumption]. Qed.

Lemma forall_map_wire dn ms : Forall (fun m => exists vn, about dn vn m) ms -> Forall (fun m => exists vn, about dn vn m) (map wire ms).
Proof. induction 1 as [|x l [vn Hx] _ IH]; cbn [map]; constructor; [exists vn; apply about_wire; exact Hx|exact IH]. Qed.

(* the client empties both inboxes; with the device known to it, it sends nothing back and the system is quiet *)
Lemma settle_one f s c dn :
  sy_cls s = [c] -> cl_net c = true -> dget cd_name dn (cl_mirror c) <> None ->
  Forall (fun m => exists vn, about dn vn m) (cl_in_ctl c) -> Forall (fun m => exists vn, about dn vn m) (cl_in_blob c) ->
  settle (S f) s =
  {| sy_r := sy_r s; sy_devs := sy_devs s;
     sy_cls := [with_mirror (with_inboxes c [] []) (feed (feed (cl_mirror c) (cl_in_ctl c)) (filter taken_from_blob_connection (cl_in_blob c)))];
     sy_oof := sy_oof s |} \/
  (cl_in_ctl c = [] /\ cl_in_blob c = [] /\ settle (S f) s = s).
Proof.
  intros Cls Net Hk Hc Hb. cbn [settle]. unfold quiet. rewrite Cls. cbn [forallb].
  destruct (cl_in_ctl c) as [|m1 r1] eqn:E1; [destruct (cl_in_blob c) as [|m2 r2] eqn:E2; [right; repeat split; reflexivity|]|]; left.
  - cbn [andb fold_left]. unfold drain_client. rewrite Net, E1, E2.
    destruct (consume_known [] (with_inboxes c [] []) dn Hk ltac:(constructor)) as [A1 K1]. rewrite A1. cbn [feed fold_left cl_mirror with_inboxes with_mirror] in *.
    destruct (consume_known (filter taken_from_blob_connection (m2 :: r2)) (with_mirror (with_inboxes c [] []) (cl_mirror c)) dn Hk (forall_filter _ _ _ Hb)) as [A2 K2]. rewrite A2.
    cbn [app fold_left]. cbn [cl_mirror with_mirror with_inboxes]. 
    set (c2 := with_mirror _ _).
    assert (Q : settle f {| sy_r := sy_r s; sy_devs := sy_devs s; sy_cls := [c2]; sy_oof := sy_oof s |} = {| sy_r := sy_r s; sy_devs := sy_devs s; sy_cls := [c2]; sy_oof := sy_oof s |}).
    { destruct f; cbn [settle quiet sy_cls forallb]; reflexivity. }
    rewrite Q. reflexivity.
  - cbn [andb fold_left]. unfold drain_client. rewrite Net, E1.
    destruct (consume_known (m1 :: r1) (with_inboxes c [] []) dn Hk Hc) as [A1 K1]. rewrite A1. cbn [cl_mirror with_inboxes with_mirror] in *.
    destruct (consume_known (filter taken_from_blob_connection (cl_in_blob c)) (with_mirror (with_inboxes c [] []) (feed (cl_mirror c) (m1 :: r1))) dn K1 (forall_filter _ _ _ Hb)) as [A2 K2]. rewrite A2.
    cbn [app fold_left]. cbn [cl_mirror with_mirror with_inboxes].
    set (c2 := with_mirror _ _).
    assert (Q : settle f {| sy_r := sy_r s; sy_devs := sy_devs s; sy_cls := [c2]; sy_oof := sy_oof s |} = {| sy_r := sy_r s; sy_devs := sy_devs s; sy_cls := [c2]; sy_oof := sy_oof s |}).
    { destruct f; cbn [settle quiet sy_cls forallb]; reflexivity. }
    rewrite Q. reflexivity.
Qed.

Lemma find_set_dev (l : list (N * dev)) (e : N) d d' :
  option_map snd (find (fun p : N * dev => N.eqb (fst p) e) l) = Some d ->
  option_map snd (find (fun p : N * dev => N.eqb (fst p) e) (map (fun p : N * dev => if N.eqb (fst p) e then (e, d') else p) l)) = Some d'.
Proof.
  induction l as [|p l IH]; [discriminate|]. cbn [map find]. destruct (N.eqb (fst p) e) eqn:E.
  - intros _. cbn [fst]. rewrite N.eqb_refl. reflexivity.
  - rewrite E. exact IH.
Qed.

Lemma filter_taken_blob ms :
  filter taken_from_blob_connection (map wire (filter is_blob_msg ms)) = map wire (filter is_blob_msg ms).
Proof.
  induction ms as [|m ms IH]; [reflexivity|]. cbn [filter]. destruct (is_blob_msg m) eqn:E; [|exact IH].
  cbn [map filter]. assert (taken_from_blob_connection (wire m) = true) as -> by exact E. now rewrite IH.
Qed.

(* ---------- one driver-side operation, end to end in the system model ---------- *)
Definition delivered_stream (ms : list msg) : list msg :=
  map wire (filter (fun m => negb (is_blob_msg m)) ms) ++ map wire (filter is_blob_msg ms).

(* the ordinary messages of the operation come before its BLOB updates: then the order in which the client
   takes them from its two connections is the order in which they were published *)
Definition ctl_then_blob (ms : list msg) : Prop :=
  exists a b, ms = a ++ b /\ Forall (fun m => is_blob_msg m = false) a /\ Forall (fun m => is_blob_msg m = true) b.

Lemma filter_all_true {A} (p : A -> bool) l : Forall (fun x => p x = true) l -> filter p l = l.
Proof. induction 1 as [|x l Hx _ IH]; [reflexivity|]. cbn [filter]. now rewrite Hx, IH. Qed.
Lemma filter_all_false {A} (p : A -> bool) l : Forall (fun x => p x = false) l -> filter p l = [].
Proof. induction 1 as [|x l Hx _ IH]; [reflexivity|]. cbn [filter]. now rewrite Hx, IH. Qed.

Lemma delivered_stream_ordered ms : ctl_then_blob ms -> delivered_stream ms = map wire ms.
Proof.
  intros (a & b & -> & Ha & Hb). unfold delivered_stream. rewrite !filter_app.
  rewrite (filter_all_true (fun m => negb (is_blob_msg m)) a) by (eapply Forall_impl; [|exact Ha]; intros m Hm; cbn; now rewrite Hm).
  rewrite (filter_all_false (fun m => negb (is_blob_msg m)) b) by (eapply Forall_impl; [|exact Hb]; intros m Hm; cbn; now rewrite Hm).
  rewrite (filter_all_false is_blob_msg a Ha), (filter_all_true is_blob_msg b Hb). rewrite app_nil_r. cbn [app]. now rewrite map_app.
Qed.

Lemma no_blob_is_ordered ms : Forall (fun m => is_blob_msg m = false) ms -> ctl_then_blob ms.
Proof. intro H. exists ms, []. rewrite app_nil_r. auto. Qed.
Lemma only_blob_is_ordered ms : Forall (fun m => is_blob_msg m = true) ms -> ctl_then_blob ms.
Proof. intro H. exists [], ms. auto. Qed.

Theorem driver_operation_is_delivered s c dn e d o :
  one_client s c dn -> cl_in_ctl c = [] -> cl_in_blob c = [] ->
  dget cd_name dn (cl_mirror c) <> None ->
  find_dev s e = Some d -> d_name d = dn -> e <> cl_ctl c -> e <> cl_blob c ->
  Forall (fun m => exists vn, about dn vn m) (pubs (snd (step d o))) ->
  exists c',
    sy_cls (sstep s (SDrv e o)) = [c'] /\
    cl_mirror c' = feed (cl_mirror c) (delivered_stream (pubs (snd (step d o)))) /\
    cl_in_ctl c' = [] /\ cl_in_blob c' = [] /\
    find_dev (sstep s (SDrv e o)) e = Some (fst (step d o)) /\
    sy_r (sstep s (SDrv e o)) = sy_r s /\
    cl_net c' = cl_net c /\ cl_ctl c' = cl_ctl c /\ cl_blob c' = cl_blob c.
Proof.
  intros O I1 I2 Hk Fd Hn He1 He2 Hab. cbn [sstep]. rewrite Fd. destruct (step d o) as [d' tr] eqn:Es. cbn [fst snd] in *.
  change (publishes tr) with (pubs tr).
  set (s0 := set_dev s e d').
  assert (O0 : one_client s0 c dn) by (destruct O; constructor; assumption).
  destruct (cascade_dev_msgs (pred FUEL) (pubs tr) s0 c dn e O0 Hab He1 He2) as [A B].
  change (S (pred FUEL)) with FUEL in A, B. 
  destruct (enq_all_inboxes (pubs tr) c) as (Ic & Ib & Im & In_ & Ictl & Iblob). rewrite I1 in Ic. rewrite I2 in Ib. cbn [app] in Ic, Ib.
  set (s1 := fold_left (fun s m => cascade FUEL s m (Some e)) (pubs tr) s0) in *.
  assert (Cls1 : sy_cls s1 = [enq_all c (pubs tr)]) by (destruct B; assumption).
  assert (Fd0 : find_dev s0 e = Some d') by (unfold s0, find_dev, set_dev; cbn [sy_devs]; eapply find_set_dev; exact Fd).
  assert (Same : sy_r s1 = sy_r s /\ sy_devs s1 = sy_devs s0).
  { rewrite A. destruct (pubs tr); [split; reflexivity|]. split; reflexivity. }
  destruct Same as [Sr Sd].
  change (S (pred FUEL)) with FUEL.
  destruct (settle_one (pred FUEL) s1 (enq_all c (pubs tr)) dn Cls1 ltac:(rewrite In_; destruct O; assumption) ltac:(rewrite Im; exact Hk)
              ltac:(rewrite Ic; apply forall_map_wire, forall_filter, Hab) ltac:(rewrite Ib; apply forall_map_wire, forall_filter, Hab)) as [R|(E1 & E2 & R)];
    change (S (pred FUEL)) with FUEL in R; rewrite R.
  - eexists. split; [reflexivity|]. cbn [cl_mirror with_mirror cl_in_ctl cl_in_blob with_inboxes sy_r].
    rewrite Im, Ic, Ib. rewrite filter_taken_blob. unfold delivered_stream. rewrite feed_app.
    split; [reflexivity|]. split; [reflexivity|]. split; [reflexivity|]. split; [|split; [exact Sr|]].
    + unfold find_dev. cbn [sy_devs]. rewrite Sd. exact Fd0.
    + cbn [cl_net cl_ctl cl_blob with_mirror with_inboxes]. auto.
  - exists (enq_all c (pubs tr)). split; [exact Cls1|]. rewrite Im. rewrite Ic in E1. rewrite Ib in E2.
    unfold delivered_stream. rewrite E1, E2. cbn [app feed fold_left].
    split; [reflexivity|]. split; [rewrite Ic; exact E1|]. split; [rewrite Ib; exact E2|]. split; [|split; [exact Sr|auto]].
    unfold find_dev. rewrite Sd. exact Fd0.
Qed.

(* ... and the server's table of devices changes at that driver's entry only *)
Lemma driver_operation_devs s c dn e d o :
  one_client s c dn -> cl_in_ctl c = [] -> cl_in_blob c = [] ->
  dget cd_name dn (cl_mirror c) <> None ->
  find_dev s e = Some d -> d_name d = dn -> e <> cl_ctl c -> e <> cl_blob c ->
  Forall (fun m => exists vn, about dn vn m) (pubs (snd (step d o))) ->
  sy_devs (sstep s (SDrv e o)) = sy_devs (set_dev s e (fst (step d o))).
Proof.
  intros O I1 I2 Hk Fd Hn He1 He2 Hab. cbn [sstep]. rewrite Fd. destruct (step d o) as [d' tr] eqn:Es. cbn [fst snd] in *.
  change (publishes tr) with (pubs tr).
  set (s0 := set_dev s e d').
  assert (O0 : one_client s0 c dn) by (destruct O; constructor; assumption).
  destruct (cascade_dev_msgs (pred FUEL) (pubs tr) s0 c dn e O0 Hab He1 He2) as [A B].
  change (S (pred FUEL)) with FUEL in A, B.
  destruct (enq_all_inboxes (pubs tr) c) as (Ic & Ib & Im & In_ & Ictl & Iblob). rewrite I1 in Ic. rewrite I2 in Ib. cbn [app] in Ic, Ib.
  set (s1 := fold_left (fun s m => cascade FUEL s m (Some e)) (pubs tr) s0) in *.
  assert (Cls1 : sy_cls s1 = [enq_all c (pubs tr)]) by (destruct B; assumption).
  assert (Sd : sy_devs s1 = sy_devs s0) by (rewrite A; destruct (pubs tr); reflexivity).
  change (S (pred FUEL)) with FUEL.
  destruct (settle_one (pred FUEL) s1 (enq_all c (pubs tr)) dn Cls1 ltac:(rewrite In_; destruct O; assumption) ltac:(rewrite Im; exact Hk)
              ltac:(rewrite Ic; apply forall_map_wire, forall_filter, Hab) ltac:(rewrite Ib; apply forall_map_wire, forall_filter, Hab)) as [R|(E1 & E2 & R)];
    change (S (pred FUEL)) with FUEL in R; rewrite R; [cbn [sy_devs]|]; exact Sd.
Qed.

(* ---------- the connected network client stays in sync (operations that publish no BLOB update) ---------- *)
(* the client's mirror is the normalisation (what the wire does to empty texts) of a mirror in sync with the device *)
Definition net_synced (mi : mirror) (d : dev) : Prop :=
  exists mi0, synced mi0 d /\ mi = nm mi0 /\ dget cd_name (d_name d) mi0 <> None.

Lemma filter_all {A} (p : A -> bool) l : Forall (fun x => p x = true) l -> filter p l = l.
Proof. induction 1 as [|x l Hx _ IH]; cbn [filter]; [reflexivity|]. rewrite Hx, IH. reflexivity. Qed.
Lemma filter_none {A} (p : A -> bool) l : Forall (fun x => p x = false) l -> filter p l = [].
Proof. induction 1 as [|x l Hx _ IH]; cbn [filter]; [reflexivity|]. rewrite Hx. exact IH. Qed.

Lemma feed_known ms : forall mi dn,
  dget cd_name dn mi <> None -> Forall (fun m => exists vn, about dn vn m) ms -> dget cd_name dn (feed mi ms) <> None.
Proof.
  induction ms as [|m ms IH]; intros mi dn Hk Ha; [exact Hk|]. inversion Ha as [|? ? [vn Hm] Hr]; subst. cbn [feed fold_left].
  apply (IH _ dn); [|exact Hr]. exact (proj2 (apply_known mi m dn vn Hk Hm)).
Qed.

Theorem network_client_stays_in_sync s c e d o :
  one_client s c (d_name d) -> cl_in_ctl c = [] -> cl_in_blob c = [] ->
  find_dev s e = Some d -> e <> cl_ctl c -> e <> cl_blob c ->
  dev_ok d -> op_typed d o -> net_synced (cl_mirror c) d ->
  ctl_then_blob (pubs (snd (step d o))) ->
  exists c',
    sy_cls (sstep s (SDrv e o)) = [c'] /\
    net_synced (cl_mirror c') (fst (step d o)) /\ dev_ok (fst (step d o)) /\
    find_dev (sstep s (SDrv e o)) e = Some (fst (step d o)) /\
    one_client (sstep s (SDrv e o)) c' (d_name (fst (step d o))) /\ cl_in_ctl c' = [] /\ cl_in_blob c' = [] /\
    cl_ctl c' = cl_ctl c /\ cl_blob c' = cl_blob c.
Proof.
  intros O I1 I2 Fd He1 He2 D T (mi0 & S0 & Em & K0) Nb.
  destruct (step_synced d o mi0 D S0 T) as (D1 & S1 & N1 & Ab).
  assert (Kc : dget cd_name (d_name d) (cl_mirror c) <> None).
  { rewrite Em. unfold nm. rewrite (dget_map cd_name nm_dev (fun _ => eq_refl)). destruct (dget cd_name (d_name d) mi0); [discriminate|contradiction]. }
  destruct (driver_operation_is_delivered s c (d_name d) e d o O I1 I2 Kc Fd eq_refl He1 He2 Ab)
    as (c' & Cls & Mir & J1 & J2 & Fd' & Sr & F1 & F2 & F3).
  exists c'. split; [exact Cls|]. split; [|split; [exact D1|split; [exact Fd'|split; [|repeat split; assumption]]]].
  - exists (feed mi0 (pubs (snd (step d o)))). split; [exact S1|]. split.
    + rewrite Mir, Em, (delivered_stream_ordered _ Nb). unfold feed, wire. apply feed_norm.
    + rewrite N1. apply feed_known; [exact K0|exact Ab].
  - rewrite N1. destruct O as [A B C0 Dd E F]. constructor; rewrite ?Sr, ?F1, ?F2, ?F3; auto.
Qed.

(* any number of such operations *)
Fixpoint quiet_ops (d : dev) (ops : list dop) : Prop :=
  match ops with
  | [] => True
  | o :: r => op_typed d o /\ ctl_then_blob (pubs (snd (step d o))) /\ quiet_ops (fst (step d o)) r
  end.

Theorem network_client_history ops : forall s c e d,
  one_client s c (d_name d) -> cl_in_ctl c = [] -> cl_in_blob c = [] ->
  find_dev s e = Some d -> e <> cl_ctl c -> e <> cl_blob c ->
  dev_ok d -> net_synced (cl_mirror c) d -> quiet_ops d ops ->
  exists c',
    sy_cls (fold_left (fun s o => sstep s (SDrv e o)) ops s) = [c'] /\
    net_synced (cl_mirror c') (fst (run d ops)) /\
    find_dev (fold_left (fun s o => sstep s (SDrv e o)) ops s) e = Some (fst (run d ops)) /\
    cl_in_ctl c' = [] /\ cl_in_blob c' = [].
Proof.
  induction ops as [|o r IH]; intros s c e d O I1 I2 Fd H1 H2 D S Q.
  - cbn [fold_left run fst]. exists c. destruct O as [Cls _ _ _ _ _]. auto.
  - destruct Q as (T & Nb & Qr). cbn [fold_left run].
    destruct (network_client_stays_in_sync s c e d o O I1 I2 Fd H1 H2 D T S Nb) as (c1 & Cls1 & S1 & D1 & Fd1 & O1 & J1 & J2 & F2 & F3).
    destruct (step d o) as [d1 tr] eqn:Es. cbn [fst snd] in *.
    destruct (IH (sstep s (SDrv e o)) c1 e d1 O1 J1 J2 Fd1 ltac:(rewrite F2; exact H1) ltac:(rewrite F3; exact H2) D1 S1 Qr)
      as (c' & A & B & C & E1 & E2).
    exists c'. destruct (run d1 r) as [d2 trs]. cbn [fst] in *. auto.
Qed.
