(* The composed system: drivers, the router, network clients (a control and a BLOB
   connection feeding one mirror) and in-process snooping clients.
   The wire (serialisation, fragmentation, framing) is the identity on messages here:
   that it is, for the messages that travel, is what C02/C03 establish; the system-level
   correspondence runs the real byte streams with fragmentation against this model.
   What the server does in reaction to one message happens synchronously and depth
   first (driver handlers and snooping clients call back into the router); what a
   network client does happens later, when its connection tasks run: its inboxes. *)
From Coq Require Import List NArith ZArith Bool Arith String.
Import ListNotations.
From Indi Require Import Base.Sx Msg.Equality Msg.RegOk Msg.Codec Router.Model Driver.Model B64.Model Num.Model Client.Model.
Local Open Scope N_scope.

(* ---------- what the router sees of a message ---------- *)
Definition policy_of_text (s : option str) : option policy :=
  match s with
  | Some v => if str_eqb v (s2l "Never") then Some Never else if str_eqb v (s2l "Also") then Some Also
              else if str_eqb v (s2l "Only") then Some Only else None
  | None => None
  end.

Definition rmsg_of (m : msg) : rmsg :=
  let '(fc, fd) := match spec_flag_of (mk m) with Some p => p | None => (false, false) end in
  {| r_from_client := fc; r_from_device := fd;
     r_enable := if str_eqb (mk m) (s2l "enableBLOB") then policy_of_text (mv m) else None;
     r_blob := str_eqb (mk m) (s2l "setBLOBVector");
     r_dev := lookup (s2l "device") (ma m) |}.

(* ---------- clients ---------- *)
Record client := {
  cl_net : bool;                     (* network client (two connections) or snooping client (one endpoint) *)
  cl_ctl : ep;
  cl_blob : ep;                      (* network clients only *)
  cl_up : bool;                      (* connected / registered *)
  cl_mirror : mirror;
  cl_in_ctl : list msg;              (* delivered to the connection, not yet processed by the client *)
  cl_in_blob : list msg
}.

Record sys := {
  sy_r : rstate;
  sy_devs : list (ep * dev);
  sy_cls : list client;
  sy_oof : bool                      (* the fuel ran out somewhere: the result is not meaningful *)
}.

Definition with_r (s : sys) (r : rstate) : sys := {| sy_r := r; sy_devs := sy_devs s; sy_cls := sy_cls s; sy_oof := sy_oof s |}.
Definition set_dev (s : sys) (e : ep) (d : dev) : sys :=
  {| sy_r := sy_r s; sy_devs := map (fun p => if N.eqb (fst p) e then (e, d) else p) (sy_devs s); sy_cls := sy_cls s; sy_oof := sy_oof s |}.
Definition map_cls (s : sys) (f : client -> client) : sys :=
  {| sy_r := sy_r s; sy_devs := sy_devs s; sy_cls := map f (sy_cls s); sy_oof := sy_oof s |}.
Definition out_of_fuel (s : sys) : sys := {| sy_r := sy_r s; sy_devs := sy_devs s; sy_cls := sy_cls s; sy_oof := true |}.

Definition with_mirror (c : client) (m : mirror) : client :=
  {| cl_net := cl_net c; cl_ctl := cl_ctl c; cl_blob := cl_blob c; cl_up := cl_up c; cl_mirror := m;
     cl_in_ctl := cl_in_ctl c; cl_in_blob := cl_in_blob c |}.
Definition with_inboxes (c : client) (a b : list msg) : client :=
  {| cl_net := cl_net c; cl_ctl := cl_ctl c; cl_blob := cl_blob c; cl_up := cl_up c; cl_mirror := cl_mirror c;
     cl_in_ctl := a; cl_in_blob := b |}.
Definition with_up (c : client) : client :=
  {| cl_net := cl_net c; cl_ctl := cl_ctl c; cl_blob := cl_blob c; cl_up := true; cl_mirror := cl_mirror c;
     cl_in_ctl := cl_in_ctl c; cl_in_blob := cl_in_blob c |}.

Definition find_dev (s : sys) (e : ep) : option dev := option_map snd (find (fun p => N.eqb (fst p) e) (sy_devs s)).
Definition snoop_at (s : sys) (e : ep) : option client :=
  find (fun c => negb (cl_net c) && N.eqb (cl_ctl c) e) (sy_cls s).

Definition publishes (tr : list outev) : list msg :=
  flat_map (fun o => match o with Publish m => [m] | _ => [] end) tr.

(* what serialising and parsing does to a message that can be serialised (C03: roundtrip_tree):
   an empty text becomes an absent one *)
Definition wire (m : msg) : msg := norm_msg m.

(* a network connection receives a message: it is queued for the client *)
Definition enqueue (e : ep) (m : msg) (c : client) : client :=
  if cl_net c then
    if N.eqb (cl_ctl c) e then with_inboxes c (cl_in_ctl c ++ [wire m]) (cl_in_blob c)
    else if N.eqb (cl_blob c) e then with_inboxes c (cl_in_ctl c) (cl_in_blob c ++ [wire m])
    else c
  else c.

(* ---------- the server's synchronous reaction to one message ---------- *)
Fixpoint cascade (fuel : nat) (s : sys) (m : msg) (sender : option ep) : sys :=
  match fuel with
  | O => out_of_fuel s
  | S f =>
      let (r', outs) := process (sy_r s) (rmsg_of m) sender in
      fold_left
        (fun s o =>
           match o with
           | ToDev e =>
               match find_dev s e with
               | Some d => let (d', tr) := from_client d m in
                           fold_left (fun s m' => cascade f s m' (Some e)) (publishes tr) (set_dev s e d')
               | None => s
               end
           | ToCl e =>
               match snoop_at s e with
               | Some c =>
                   let '(mi, _, sent) := apply (cl_mirror c) m in
                   let s1 := map_cls s (fun c' => if negb (cl_net c') && N.eqb (cl_ctl c') e then with_mirror c' mi else c') in
                   fold_left (fun s m' => cascade f s m' (Some e)) sent s1
               | None => map_cls s (enqueue e m)
               end
           end) outs (with_r s r')
  end.

(* ---------- a network client processes what its connections delivered ---------- *)
Definition enable_only (dn : str) : msg :=
  {| mk := s2l "enableBLOB"; ma := [(s2l "device", dn)]; mv := Some (s2l "Only"); mc := None |}.

(* the messages of one inbox, in order; what the client sends in reaction (Client.blob_handshake:
   Never on the control connection, Only on the BLOB connection) *)
Definition consume (c : client) (inbox : list msg) : client * list (msg * ep) :=
  fold_left (fun acc m =>
               let '(c', out) := acc in
               let '(mi, _, sent) := apply (cl_mirror c') m in
               (with_mirror c' mi,
                out ++ flat_map (fun x => match lookup (s2l "device") (ma x) with
                                          | Some dn => [(x, cl_ctl c'); (enable_only dn, cl_blob c')]
                                          | None => [(x, cl_ctl c')]
                                          end) sent)) inbox (c, []).

(* Client.process_blob_message: from the BLOB connection only BLOB updates are taken; whatever else it
   carries (until the server has processed "Only" it mirrors the control connection, possibly later) is
   the control connection's business *)
Definition taken_from_blob_connection (m : msg) : bool := str_eqb (mk m) (s2l "setBLOBVector").

Definition drain_client (c : client) : client * list (msg * ep) :=
  if cl_net c then
    let (c1, o1) := consume (with_inboxes c [] []) (cl_in_ctl c) in
    let (c2, o2) := consume c1 (filter taken_from_blob_connection (cl_in_blob c)) in (c2, o1 ++ o2)
  else (c, []).

Definition quiet (s : sys) : bool :=
  forallb (fun c => match cl_in_ctl c, cl_in_blob c with [], [] => true | _, _ => false end) (sy_cls s).

(* rounds until nothing is in flight *)
Fixpoint settle (fuel : nat) (s : sys) : sys :=
  match fuel with
  | O => if quiet s then s else out_of_fuel s
  | S f =>
      if quiet s then s
      else
        let '(cls, outs) := fold_left (fun acc c => let '(cs, os) := acc in
                                                    let (c', o) := drain_client c in (cs ++ [c'], os ++ o))
                                      (sy_cls s) ([], []) in
        let s1 := {| sy_r := sy_r s; sy_devs := sy_devs s; sy_cls := cls; sy_oof := sy_oof s |} in
        settle f (fold_left (fun s p => cascade (S f) s (wire (fst p)) (Some (snd p))) outs s1)
  end.

(* ---------- operations on the system ---------- *)
Inductive wval := WText (s : str) | WBlob (b : list N) (f : str).

Inductive sop :=
| SDrv (e : ep) (o : dop)                                     (* something happens inside a driver *)
| SHandshake (i : nat)                                        (* client i connects (first time) and asks for the properties *)
| SEnable (i : nat) (on_blob : bool) (dn : str) (p : str)     (* client i sends enableBLOB on one of its connections *)
| SWrite (i : nat) (dn vn : str) (a : list (str * wval)).     (* client i assigns and submits *)

Definition getprops_all : msg :=
  {| mk := s2l "getProperties"; ma := [(s2l "version", s2l "1.7")]; mv := None; mc := None |}.

(* Element.to_new_message for each element with a pending value, in the property's element order *)
Definition new_part (k : vkind) (en : str) (x : wval) : part :=
  match x with
  | WText s => {| pk := tagk "one" k ""; pa := [attr "name" en]; pv := Some s |}
  | WBlob b f => {| pk := tagk "one" k "";
                    pa := [attr "name" en; attr "size" (print_dec (N.of_nat (List.length b))); attr "format" f];
                    pv := Some (encode b) |}
  end.

Definition alookup_str {A} (k : str) (l : list (str * A)) : option A :=
  option_map snd (find (fun p => str_eqb (fst p) k) l).

(* the last assignment to an element before submit is the pending one *)
Definition submit_msg (mi : mirror) (dn vn : str) (a : list (str * wval)) : option msg :=
  match dget cd_name dn mi with
  | Some d =>
      match dget cv_name vn (cd_vecs d) with
      | Some v =>
          Some {| mk := tagk "new" (cv_kind v) "Vector";
                  ma := [attr "device" dn; attr "name" vn];
                  mv := None;
                  mc := Some (flat_map (fun e => match alookup_str (ce_name e) (rev a) with
                                                 | Some x => [new_part (cv_kind v) (ce_name e) x]
                                                 | None => []
                                                 end) (cv_elems v)) |}
      | None => None
      end
  | None => None
  end.

Definition FUEL : nat := 64.

Definition sstep (s : sys) (o : sop) : sys :=
  match o with
  | SDrv e op =>
      match find_dev s e with
      | Some d => let (d', tr) := step d op in
                  settle FUEL (fold_left (fun s m => cascade FUEL s m (Some e)) (publishes tr) (set_dev s e d'))
      | None => s
      end
  | SHandshake i =>
      match nth_error (sy_cls s) i with
      | Some c =>
          let s1 := if cl_up c then s
                    else let r1 := fst (Router.Model.step (sy_r s) (RegCl (cl_ctl c))) in
                         let r2 := if cl_net c then fst (Router.Model.step r1 (RegCl (cl_blob c))) else r1 in
                         map_cls (with_r s r2) (fun c' => if N.eqb (cl_ctl c') (cl_ctl c) then with_up c' else c') in
          settle FUEL (cascade FUEL s1 getprops_all (Some (cl_ctl c)))
      | None => s
      end
  | SEnable i on_blob dn p =>
      match nth_error (sy_cls s) i with
      | Some c =>
          let m := {| mk := s2l "enableBLOB"; ma := [(s2l "device", dn)]; mv := Some p; mc := None |} in
          settle FUEL (cascade FUEL s m (Some (if on_blob then cl_blob c else cl_ctl c)))
      | None => s
      end
  | SWrite i dn vn a =>
      match nth_error (sy_cls s) i with
      | Some c =>
          match submit_msg (cl_mirror c) dn vn a with
          | Some m => settle FUEL (cascade FUEL s (if cl_net c then wire m else m) (Some (cl_ctl c)))
          | None => s
          end
      | None => s
      end
  end.

(* devices are registered with the router when they are constructed; clients when they connect *)
Definition boot (devs : list (ep * dev)) (cls : list client) : sys :=
  {| sy_r := fold_left (fun r p => fst (Router.Model.step r (RegDev (fst p) (AccNamed (d_name (snd p)))))) devs Router.Model.init;
     sy_devs := devs; sy_cls := cls; sy_oof := false |}.

Fixpoint srun (s : sys) (ops : list sop) : list sys :=
  match ops with
  | [] => []
  | o :: r => let s' := sstep s o in s' :: srun s' r
  end.
