(* C06, end to end in the composed system model: a network client submits a write; the
   server hands it to the driver of the named device; what the driver then publishes
   reaches the client; afterwards the device holds the written values (Driver/Write.v)
   and the client's mirror is in sync with the device again. *)
From Coq Require Import List NArith Bool String Lia.
Import ListNotations.
From Indi Require Import Base.Sx Msg.Equality Msg.RegOk Msg.Codec Router.Model Router.Props Driver.Model Driver.Props
     Client.Model Client.Props Client.Norm System.Model System.Converge System.Ops System.Deliver System.Handshake.

(* a message only clients send, addressed to device dn *)
Definition client_msg (dn : str) (m : msg) : Prop :=
  spec_flag_of (mk m) = Some (true, false) /\ lookup (s2l "device") (ma m) = Some dn /\
  str_eqb (mk m) (s2l "enableBLOB") = false.

Lemma rmsg_of_client m dn :
  client_msg dn m ->
  rmsg_of m = {| r_from_client := true; r_from_device := false; r_enable := None; r_blob := str_eqb (mk m) (s2l "setBLOBVector"); r_dev := Some dn |}.
Proof. intros (Hf & Hd & He). unfold rmsg_of. rewrite Hf, He, Hd. reflexivity. Qed.

(* the server's reaction to a client's message: the driver of the named device handles it, and what it publishes is handed to the connections *)
Lemma cascade_client_msg f s c e d m :
  one_client s c (d_name d) -> one_device s e d -> client_msg (d_name d) m ->
  e <> cl_ctl c -> e <> cl_blob c ->
  Forall (fun m' => exists vn, about (d_name d) vn m') (pubs (snd (from_client d m))) ->
  cascade (S (S f)) s m (Some (cl_ctl c)) =
  (let s0 := set_dev s e (fst (from_client d m)) in
   if pubs (snd (from_client d m)) then s0 else set_client s0 (enq_all c (pubs (snd (from_client d m))))).
Proof.
  intros O [Or Od] Cm H1 H2 Ab. rewrite cascade_S. rewrite (rmsg_of_client m (d_name d) Cm).
  unfold process. cbn [r_from_client r_from_device]. unfold enable_step. cbn [r_enable].
  unfold dev_outs, cl_outs. cbn [r_from_client r_from_device r_dev]. rewrite Or. cbn [filter fst snd is_sender Router.Model.accepts].
  assert (N.eqb e (cl_ctl c) = false) as -> by (apply N.eqb_neq; exact H1). rewrite str_eqb_refl. cbn [negb andb map app fold_left fst].
  rewrite with_r_same. rewrite (find_dev_one s e d Od).
  destruct (from_client d m) as [d' tr] eqn:Ef. cbn [fst snd] in *.
  change (publishes tr) with (pubs tr).
  set (s0 := set_dev s e d').
  assert (O0 : one_client s0 c (d_name d)) by (destruct O; constructor; assumption).
  exact (proj1 (cascade_dev_msgs f (pubs tr) s0 c (d_name d) e O0 Ab H1 H2)).
Qed.

Lemma submit_is_client_msg mi dn vn a m :
  submit_msg mi dn vn a = Some m ->
  (forall d v, dget cd_name dn mi = Some d -> dget cv_name vn (cd_vecs d) = Some v -> cv_kind v <> KLight) ->
  client_msg dn (wire m) /\ lookup (s2l "name") (ma (wire m)) = Some vn.
Proof.
  unfold submit_msg. intros H Hk. destruct (dget cd_name dn mi) as [d|] eqn:Ed; [|discriminate].
  destruct (dget cv_name vn (cd_vecs d)) as [v|] eqn:Ev; [|discriminate]. injection H as <-.
  specialize (Hk d v eq_refl Ev). unfold client_msg, wire. cbn [mk ma norm_msg].
  destruct (cv_kind v); try contradiction; repeat split; reflexivity.
Qed.

(* ---------- the write, end to end ---------- *)
(* the submitted message reaches the driver, what the driver publishes reaches the client's two connections, the
   client takes it in and the system is quiet again *)
Lemma client_write_delivered s c e d vn a m :
  one_client s c (d_name d) -> one_device s e d -> sy_cls s = [c] ->
  cl_in_ctl c = [] -> cl_in_blob c = [] -> e <> cl_ctl c -> e <> cl_blob c ->
  dget cd_name (d_name d) (cl_mirror c) <> None ->
  submit_msg (cl_mirror c) (d_name d) vn a = Some m -> client_msg (d_name d) (wire m) ->
  Forall (fun m' => exists vn', about (d_name d) vn' m') (pubs (snd (from_client d (wire m)))) ->
  exists c',
    sy_cls (sstep s (SWrite 0 (d_name d) vn a)) = [c'] /\
    sy_devs (sstep s (SWrite 0 (d_name d) vn a)) = sy_devs (set_dev s e (fst (from_client d (wire m)))) /\
    sy_r (sstep s (SWrite 0 (d_name d) vn a)) = sy_r s /\
    cl_mirror c' = feed (cl_mirror c) (delivered_stream (pubs (snd (from_client d (wire m))))) /\
    cl_in_ctl c' = [] /\ cl_in_blob c' = [] /\
    cl_net c' = cl_net c /\ cl_ctl c' = cl_ctl c /\ cl_blob c' = cl_blob c.
Proof.
  intros O Od Cls I1 I2 H1 H2 Kc Sm Cm Ab.
  destruct (from_client d (wire m)) as [d' tr] eqn:Ef. cbn [fst snd] in *.
  set (s0 := set_dev s e d').
  destruct (enq_all_inboxes (pubs tr) c) as (Ic & Ib & Im & In_ & Ictl & Iblob). rewrite I1 in Ic. rewrite I2 in Ib. cbn [app] in Ic, Ib.
  pose proof O as [Cls' Net Clients Diff Pc Pb].
  cbn [sstep]. rewrite Cls. cbn [nth_error]. rewrite Sm, Net.
  change (cascade FUEL s (wire m) (Some (cl_ctl c))) with (cascade (S (S 62)) s (wire m) (Some (cl_ctl c))).
  rewrite (cascade_client_msg 62 s c e d (wire m) O Od Cm H1 H2 ltac:(rewrite Ef; exact Ab)). rewrite Ef. cbn [fst snd]. cbv zeta. fold s0.
  remember (if pubs tr then s0 else set_client s0 (enq_all c (pubs tr))) as s1 eqn:Es1.
  assert (Cls1 : sy_cls s1 = [enq_all c (pubs tr)]).
  { rewrite Es1. destruct (pubs tr) eqn:Ep; [cbn [enq_all fold_left]; unfold s0, set_dev; cbn [sy_cls]; exact Cls|reflexivity]. }
  assert (Sd1 : sy_devs s1 = sy_devs s0) by (rewrite Es1; destruct (pubs tr); reflexivity).
  assert (Sr1 : sy_r s1 = sy_r s) by (rewrite Es1; destruct (pubs tr); reflexivity).
  change FUEL with (S 63).
  destruct (settle_one 63 s1 (enq_all c (pubs tr)) (d_name d) Cls1 ltac:(rewrite In_; exact Net) ltac:(rewrite Im; exact Kc)
              ltac:(rewrite Ic; apply forall_map_wire, forall_filter, Ab) ltac:(rewrite Ib; apply forall_map_wire, forall_filter, Ab)) as [R|(E1 & E2 & R)];
    rewrite R.
  - eexists. split; [reflexivity|]. split; [exact Sd1|]. split; [exact Sr1|]. cbn [cl_mirror with_mirror cl_in_ctl cl_in_blob with_inboxes cl_net cl_ctl cl_blob].
    split; [|split; [reflexivity|split; [reflexivity|split; [congruence|split; [exact Ictl|exact Iblob]]]]].
    rewrite Im, Ic, Ib. rewrite filter_taken_blob. unfold delivered_stream. rewrite feed_app. reflexivity.
  - exists (enq_all c (pubs tr)). split; [exact Cls1|]. split; [exact Sd1|]. split; [exact Sr1|]. rewrite Im. rewrite Ic in E1. rewrite Ib in E2.
    split; [|split; [rewrite Ic; exact E1|split; [rewrite Ib; exact E2|split; [congruence|split; [exact Ictl|exact Iblob]]]]]. unfold delivered_stream. rewrite E1, E2. reflexivity.
Qed.

Theorem client_write_end_to_end s c e d dn vn a m :
  one_client s c dn -> one_device s e d -> d_name d = dn -> sy_cls s = [c] ->
  cl_in_ctl c = [] -> cl_in_blob c = [] -> e <> cl_ctl c -> e <> cl_blob c ->
  dev_ok d -> net_synced (cl_mirror c) d ->
  submit_msg (cl_mirror c) dn vn a = Some m -> client_msg dn (wire m) ->
  Forall (fun m' => is_blob_msg m' = false) (pubs (snd (from_client d (wire m)))) ->
  exists c',
    sy_cls (sstep s (SWrite 0 dn vn a)) = [c'] /\
    find_dev (sstep s (SWrite 0 dn vn a)) e = Some (fst (from_client d (wire m))) /\
    net_synced (cl_mirror c') (fst (from_client d (wire m))) /\
    cl_in_ctl c' = [] /\ cl_in_blob c' = [].
Proof.
  intros O Od Hn Cls I1 I2 H1 H2 D (mi0 & S0 & Em & K0) Sm Cm Nb. subst dn.
  destruct (step_synced d (OFromClient (wire m)) mi0 D S0 I) as (D1 & S1 & N1 & Ab). cbn [step] in *.
  assert (Kc : dget cd_name (d_name d) (cl_mirror c) <> None).
  { rewrite Em. unfold nm. rewrite (dget_map cd_name nm_dev (fun _ => eq_refl)). destruct (dget cd_name (d_name d) mi0); [discriminate|contradiction]. }
  destruct (client_write_delivered s c e d vn a m O Od Cls I1 I2 H1 H2 Kc Sm Cm Ab) as (c' & F1 & F2 & _ & F3 & F4 & F5 & _).
  destruct (from_client d (wire m)) as [d' tr] eqn:Ef. cbn [fst snd] in *.
  assert (Fd0 : find_dev (set_dev s e d') e = Some d').
  { unfold find_dev, set_dev. cbn [sy_devs]. destruct Od as [_ Od]. rewrite Od. cbn [map find fst]. rewrite N.eqb_refl. cbn [fst find]. rewrite N.eqb_refl. reflexivity. }
  exists c'. split; [exact F1|]. split; [unfold find_dev; rewrite F2; exact Fd0|]. split; [|split; assumption].
  exists (feed mi0 (pubs tr)). split; [exact S1|]. split.
  - rewrite F3, Em. unfold delivered_stream.
    rewrite (filter_all (fun m0 => negb (is_blob_msg m0))) by (eapply Forall_impl; [|exact Nb]; intros x Hx; cbn; now rewrite Hx).
    rewrite (filter_none is_blob_msg _ Nb). cbn [map]. rewrite app_nil_r. unfold feed. change wire with norm_msg. apply feed_norm.
  - rewrite N1. apply feed_known; [exact K0|exact Ab].
Qed.
