(* C01: an operation that publishes a BLOB update BEFORE ordinary messages - enabling a group whose first
   property is a BLOB property - meets the hypothesis of the two-connection theorem, and is not covered by
   the simpler "ordinary messages first" case. *)
From Coq Require Import List NArith Bool String.
Import ListNotations.
From Indi Require Import Base.Sx Msg.Equality Driver.Model Driver.Props Client.Model Client.Props System.Converge System.Ops
  System.Deliver System.Reorder System.OpsExamples.

Definition d1 : dev :=
  {| d_name := s2l "CAM";
     d_groups := [ {| g_key := s2l "g"; g_name := s2l "Main"; g_enabled := false;
                      g_vecs := [vc "B" KBlob true [el "img" (VBlob (Some ([1; 2; 3]%N, s2l ".bin")))];
                                 vc "T" KText true [el "a" (VText (Some (s2l "v0")))]] |} ] |}.

Definition enable_g : dop := OEnableGrp (s2l "g") true.

Example the_group_publishes_blob_then_text :
  map mk (pubs (snd (step d1 enable_g))) =
  [s2l "defBLOBVector"; s2l "setBLOBVector"; s2l "defTextVector"; s2l "setTextVector"].
Proof. vm_compute. reflexivity. Qed.

Example it_is_orderly : blob_updates_last (d_name d1) (pubs (snd (step d1 enable_g))).
Proof. apply blob_updates_lastb_ok. vm_compute. reflexivity. Qed.

Example and_the_client_takes_it_in_another_order :
  two_connections (pubs (snd (step d1 enable_g))) <> pubs (snd (step d1 enable_g)).
Proof. vm_compute. intro H. discriminate H. Qed.
