(* C01: the messages a driver publishes keep a client's mirror equal to what the
   driver currently exposes.
   shown d g v   = the client-side property a definition of v creates;
   a definition (or the delProperty a disabled property yields) puts the mirror's
   entry for that property in that state from ANY previous state (sync_by_definition);
   an update does, from the in-sync state of a property that differs only in state and
   element values (sync_by_update); neither touches any other entry (frames in C15). *)
From Coq Require Import List NArith Bool String Lia.
Import ListNotations.
From Indi Require Import Base.Sx Msg.Equality Driver.Model Driver.Props Client.Model Client.Props Client.Update.

Definition shown (d : dev) (g : grp) (v : vec) : cvec := vec_of_def (v_kind v) (def_msg d g v).

(* the text an element's value has on the wire, in definitions and updates alike *)
Definition wire_value (e : elem) : option str :=
  match e_value e with
  | VText s => s
  | VNum v => render_num (e_fmt e) v
  | VSw b => Some (sw_text b)
  | VLight s => Some s
  | VBlob _ => None
  end.

Definition celem_of (e : elem) : celem := {| ce_name := e_name e; ce_label := Some (e_label e); ce_value := CRaw (wire_value e) |}.

Definition no_blob (e : elem) : Prop := match e_value e with VBlob _ => False | _ => True end.

(* ---------- kinds and attributes of the driver's messages ---------- *)
Lemma def_kind_def k : def_kind (tagk "def" k "Vector") = Some k.
Proof. destruct k; reflexivity. Qed.
Lemma set_kind_set k : set_kind (tagk "set" k "Vector") = Some k.
Proof. destruct k; reflexivity. Qed.
Lemma def_kind_set k : def_kind (tagk "set" k "Vector") = None.
Proof. destruct k; reflexivity. Qed.
Lemma one_kind_tag k : tagk "one" k "" = one_kind k.
Proof. destruct k; reflexivity. Qed.

Lemma elem_of_def_part k e : elem_of_def (def_part k e) = celem_of e.
Proof. unfold def_part, celem_of, wire_value, elem_of_def, part_name, attr_of. destruct (e_value e); reflexivity. Qed.

Lemma elems_of_def_nodup (ps : list part) :
  NoDup (map part_name ps) -> elems_of_def ps = map elem_of_def ps.
Proof.
  unfold elems_of_def. intro Hnd.
  assert (G : forall acc, (forall c, In c acc -> ~ In (ce_name c) (map part_name ps)) ->
            fold_left (fun acc p => dset ce_name (elem_of_def p) acc) ps acc = acc ++ map elem_of_def ps).
  { induction ps as [|p r IH]; intros acc Hd; cbn [fold_left map]; [now rewrite app_nil_r|].
    inversion Hnd as [|? ? Hnot Hr]; subst.
    assert (dset ce_name (elem_of_def p) acc = acc ++ [elem_of_def p]) as ->.
    { clear -Hd. induction acc as [|a acc IHa]; [reflexivity|]. cbn [dset app].
      destruct (str_eqb (ce_name a) (ce_name (elem_of_def p))) eqn:E.
      - apply str_eqb_spec in E. exfalso. apply (Hd a (or_introl eq_refl)). left. cbn. symmetry. exact E.
      - f_equal. apply IHa. intros c Hc. apply Hd. now right. }
    rewrite IH; [now rewrite <- app_assoc|exact Hr|].
    intros c Hc. apply in_app_or in Hc. destruct Hc as [Hc|[<-|[]]].
    - intro H. apply (Hd c Hc). now right.
    - exact Hnot. }
  apply (G []). intros c [].
Qed.

Lemma shown_fields d g v :
  vec_on g v = true -> NoDup (map e_name (v_elems v)) ->
  shown d g v = {| cv_name := v_name v; cv_kind := v_kind v; cv_group := Some (g_name g); cv_label := Some (v_label v);
                   cv_message := None; cv_state := v_state v;
                   cv_elems := map celem_of (filter e_enabled (v_elems v)) |}.
Proof.
  intros Hon Hnd. unfold shown, vec_of_def, def_msg. rewrite Hon. cbn [ma mc].
  assert (Hel : elems_of_def (map (def_part (v_kind v)) (filter e_enabled (v_elems v))) = map celem_of (filter e_enabled (v_elems v))).
  { rewrite elems_of_def_nodup.
    - rewrite map_map. apply map_ext. intro e. apply elem_of_def_part.
    - rewrite map_map.
      assert (map (fun e => part_name (def_part (v_kind v) e)) (filter e_enabled (v_elems v)) = map e_name (filter e_enabled (v_elems v))) as E.
      { apply map_ext. intro e. unfold def_part, part_name, attr_of. destruct (e_value e); reflexivity. }
      rewrite E. clear -Hnd. induction (v_elems v) as [|e r IH]; [constructor|]. inversion Hnd; subst. cbn [filter].
      destruct (e_enabled e); [|apply IH; assumption]. cbn [map]. constructor; [|apply IH; assumption].
      intro H. apply in_map_iff in H. destruct H as (x & Hx & Hin). apply filter_In in Hin. destruct Hin as [Hin _].
      match goal with Hn : ~ In _ _ |- _ => apply Hn end. rewrite <- Hx. apply in_map. exact Hin. }
  rewrite Hel. destruct (v_kind v); reflexivity.
Qed.

Lemma def_msg_attrs d g v :
  vec_on g v = true ->
  attr_of "device" (ma (def_msg d g v)) = Some (d_name d) /\ attr_of "name" (ma (def_msg d g v)) = Some (v_name v) /\
  mk (def_msg d g v) = tagk "def" (v_kind v) "Vector".
Proof. intro H. unfold def_msg, attr_of. rewrite H. repeat split; reflexivity. Qed.

Lemma del_msg_attrs d g v :
  vec_on g v = false ->
  attr_of "device" (ma (def_msg d g v)) = Some (d_name d) /\ attr_of "name" (ma (def_msg d g v)) = Some (v_name v) /\
  mk (def_msg d g v) = s2l "delProperty".
Proof. intro H. unfold def_msg, attr_of. rewrite H. repeat split; reflexivity. Qed.

Lemma cv_name_shown d g v : vec_on g v = true -> cv_name (shown d g v) = v_name v.
Proof. intro H. unfold shown, vec_of_def. destruct (def_msg_attrs d g v H) as (_ & -> & _). reflexivity. Qed.

(* A: a definition puts the mirror's entry for the property in the state "shown", whatever was there before *)
Theorem sync_by_definition mi d g v :
  vec_on g v = true ->
  get_vec (mirror_of (apply mi (def_msg d g v))) (d_name d) (v_name v) = Some (shown d g v).
Proof.
  intro Hon. destruct (def_msg_attrs d g v Hon) as (Hd & Hn & Hk).
  pose proof (def_effect mi (def_msg d g v) (v_kind v) (d_name d)) as E.
  rewrite Hk, def_kind_def in E. specialize (E eq_refl Hd). fold (shown d g v) in E. rewrite (cv_name_shown d g v Hon) in E. exact E.
Qed.

(* A': the message a disabled property yields removes the entry *)
Theorem sync_by_removal mi d g v :
  vec_on g v = false ->
  (forall cd, dget cd_name (d_name d) mi = Some cd -> NoDup (map cv_name (cd_vecs cd))) ->
  get_vec (mirror_of (apply mi (def_msg d g v))) (d_name d) (v_name v) = None.
Proof.
  intros Hoff Hnd. destruct (del_msg_attrs d g v Hoff) as (Hd & Hn & Hk).
  destruct (dget cd_name (d_name d) mi) as [cd|] eqn:Ed.
  - assert (K1 : def_kind (mk (def_msg d g v)) = None) by (rewrite Hk; reflexivity).
    assert (K2 : set_kind (mk (def_msg d g v)) = None) by (rewrite Hk; reflexivity).
    assert (K3 : str_eqb (mk (def_msg d g v)) (s2l "delProperty") = true) by (rewrite Hk; reflexivity).
    exact (proj1 (del_named mi _ _ _ cd K1 K2 K3 Hd Hn Ed (Hnd cd eq_refl))).
  - unfold apply, mirror_of, get_vec. rewrite Hd. rewrite Hk. cbn [def_kind set_kind].
    assert (def_kind (s2l "delProperty") = None) as -> by reflexivity.
    assert (set_kind (s2l "delProperty") = None) as -> by reflexivity.
    assert (str_eqb (s2l "delProperty") (s2l "delProperty") = true) as -> by reflexivity.
    rewrite Hn, Ed. cbn [fst]. rewrite Ed. reflexivity.
Qed.

(* ---------- updates ---------- *)
Definition one_of (k : vkind) (e : elem) : part := {| pk := tagk "one" k ""; pa := [attr "name" (e_name e)]; pv := wire_value e |}.

Lemma one_part_no_blob k e : no_blob e -> one_part k e = Some (one_of k e).
Proof. unfold no_blob, one_part, one_of, wire_value. destruct (e_value e); try reflexivity. contradiction. Qed.

Lemma filter_map_all {A B} (f : A -> option B) (g : A -> B) l : (forall x, In x l -> f x = Some (g x)) -> filter_map f l = map g l.
Proof.
  unfold filter_map. induction l as [|x l IH]; intro H; [reflexivity|]. cbn [flat_map map].
  rewrite (H x (or_introl eq_refl)). cbn [app]. f_equal. apply IH. intros y Hy. apply H. now right.
Qed.

Lemma fold_maps {A B} (f : B -> A -> A) ch : forall es,
  fold_left (fun es p => map (f p) es) ch es = map (fun c => fold_left (fun c p => f p c) ch c) es.
Proof.
  induction ch as [|p ch IH]; intro es; cbn [fold_left]; [symmetry; apply map_id|]. rewrite IH, map_map. reflexivity.
Qed.

Lemma part_name_one_of k e : part_name (one_of k e) = e_name e.
Proof. reflexivity. Qed.

Lemma upd_by_own_child k e c :
  k <> KBlob -> ce_name c = e_name e -> upd_celem k (one_of k e) c = with_cvalue c (CRaw (wire_value e)).
Proof.
  intros Hk Hn. unfold upd_celem. rewrite part_name_one_of, Hn, str_eqb_refl.
  assert (str_eqb (pk (one_of k e)) (one_kind k) = true) as ->.
  { cbn [pk one_of]. rewrite one_kind_tag. apply str_eqb_refl. }
  cbn [andb]. destruct k; try contradiction; reflexivity.
Qed.

Lemma upd_by_other_child k e c : ce_name c <> e_name e -> upd_celem k (one_of k e) c = c.
Proof.
  intro Hn. unfold upd_celem. rewrite part_name_one_of.
  assert (str_eqb (ce_name c) (e_name e) = false) as -> by (apply str_eqb_neq; exact Hn). rewrite andb_false_r. reflexivity.
Qed.

Lemma fold_children_miss k E c :
  (forall e, In e E -> ce_name c <> e_name e) -> fold_left (fun c p => upd_celem k p c) (map (one_of k) E) c = c.
Proof.
  induction E as [|e E IH]; intro H; [reflexivity|]. cbn [map fold_left].
  rewrite (upd_by_other_child k e c (H e (or_introl eq_refl))). apply IH. intros e0 H0. apply H. now right.
Qed.

Lemma fold_children_hit k E : k <> KBlob -> NoDup (map e_name E) ->
  forall e, In e E -> forall c, ce_name c = e_name e ->
  fold_left (fun c p => upd_celem k p c) (map (one_of k) E) c = with_cvalue c (CRaw (wire_value e)).
Proof.
  intros Hk. induction E as [|e0 E IH]; intros Hnd e Hin c Hn; [destruct Hin|]. cbn [map fold_left].
  inversion Hnd as [|? ? Hnot Hr]; subst. destruct Hin as [->|Hin].
  - rewrite (upd_by_own_child k e c Hk Hn). apply fold_children_miss. intros e1 H1. cbn [ce_name with_cvalue]. rewrite Hn.
    intro Heq. apply Hnot. rewrite Heq. apply in_map. exact H1.
  - rewrite upd_by_other_child; [apply IH; assumption|]. rewrite Hn. intro Heq. apply Hnot. rewrite <- Heq. apply in_map. exact Hin.
Qed.

(* two versions of a property that differ in state and element values only *)
Record same_frame (v v' : vec) : Prop := {
  sf_name : v_name v = v_name v';
  sf_kind : v_kind v = v_kind v';
  sf_label : v_label v = v_label v';
  sf_enabled : v_enabled v = v_enabled v';
  sf_elems : Forall2 (fun e e' => e_name e = e_name e' /\ e_label e = e_label e' /\ e_enabled e = e_enabled e') (v_elems v) (v_elems v')
}.

Lemma forall2_filter es es' :
  Forall2 (fun e e' => e_name e = e_name e' /\ e_label e = e_label e' /\ e_enabled e = e_enabled e') es es' ->
  Forall2 (fun e e' => e_name e = e_name e' /\ e_label e = e_label e') (filter e_enabled es) (filter e_enabled es').
Proof.
  induction 1 as [|e e' r r' (Hn & Hl & He) Hr IH]; [constructor|]. cbn [filter]. rewrite <- He.
  destruct (e_enabled e); [constructor; auto|exact IH].
Qed.

Lemma forall2_names es es' :
  Forall2 (fun e e' => e_name e = e_name e' /\ e_label e = e_label e' /\ e_enabled e = e_enabled e') es es' ->
  map e_name es = map e_name es'.
Proof. induction 1 as [|e e' r r' (Hn & _) Hr IH]; [reflexivity|]. cbn [map]. now rewrite Hn, IH. Qed.

Lemma nodup_filter_names es : NoDup (map e_name es) -> NoDup (map e_name (filter e_enabled es)).
Proof.
  induction es as [|e r IH]; intro H; [constructor|]. inversion H as [|? ? Hnot Hr]; subst. cbn [filter].
  destruct (e_enabled e); [|apply IH, Hr]. cbn [map]. constructor; [|apply IH, Hr].
  intro Hin. apply in_map_iff in Hin. destruct Hin as (x & Hx & Hi). apply filter_In in Hi. destruct Hi as [Hi _].
  apply Hnot. rewrite <- Hx. apply in_map. exact Hi.
Qed.

(* B: from the in-sync state, the update of a property that changed in state and values only leads to the in-sync state *)
Theorem sync_by_update mi d g v v' m :
  v_kind v <> KBlob -> same_frame v v' -> vec_on g v = true -> vec_on g v' = true ->
  NoDup (map e_name (v_elems v)) -> Forall no_blob (v_elems v') ->
  get_vec mi (d_name d) (v_name v) = Some (shown d g v) ->
  set_msg d g v' = Some m ->
  get_vec (mirror_of (apply mi m)) (d_name d) (v_name v) = Some (shown d g v').
Proof.
  intros Hk [Sn Sk Sl Se Sel] Hon Hon' Hnd Hnb Hg Hm.
  assert (Hnd' : NoDup (map e_name (v_elems v'))) by (rewrite <- (forall2_names _ _ Sel); exact Hnd).
  unfold set_msg in Hm. rewrite Hon' in Hm. injection Hm as <-.
  set (E' := filter e_enabled (v_elems v')).
  assert (Hch : filter_map (one_part (v_kind v')) E' = map (one_of (v_kind v')) E').
  { apply filter_map_all. intros e He. apply one_part_no_blob. unfold E' in He. apply filter_In in He. destruct He as [He _].
    rewrite Forall_forall in Hnb. exact (Hnb e He). }
  rewrite (shown_fields d g v Hon Hnd) in Hg.
  match type of Hg with _ = Some ?c => set (c0 := c) in * end.
  pose proof (update_effect mi
                {| mk := tagk "set" (v_kind v') "Vector";
                   ma := [attr "device" (d_name d); attr "name" (v_name v'); attr "state" (v_state v')] ++
                         match v_kind v' with KLight => [] | _ => [attr "timeout" (v_timeout v')] end;
                   mv := None; mc := Some (filter_map (one_part (v_kind v')) E') |}
                (v_kind v') (d_name d) (v_name v) c0) as U.
  cbn [mk ma mc] in U. rewrite def_kind_set, set_kind_set in U.
  assert (A1 : attr_of "device" ([attr "device" (d_name d); attr "name" (v_name v'); attr "state" (v_state v')] ++
                                 match v_kind v' with KLight => [] | _ => [attr "timeout" (v_timeout v')] end) = Some (d_name d)) by reflexivity.
  assert (A2 : attr_of "name" ([attr "device" (d_name d); attr "name" (v_name v'); attr "state" (v_state v')] ++
                               match v_kind v' with KLight => [] | _ => [attr "timeout" (v_timeout v')] end) = Some (v_name v)) by (rewrite Sn; reflexivity).
  assert (A3 : attr_of "state" ([attr "device" (d_name d); attr "name" (v_name v'); attr "state" (v_state v')] ++
                                match v_kind v' with KLight => [] | _ => [attr "timeout" (v_timeout v')] end) = Some (v_state v')) by reflexivity.
  rewrite A3 in U. specialize (U eq_refl eq_refl A1 A2 Hg).
  assert (Kk : vkind_eqb (v_kind v') (cv_kind c0) = true) by (unfold c0; cbn [cv_kind]; rewrite Sk; destruct (v_kind v'); reflexivity).
  assert (Nc : NoDup (map ce_name (cv_elems c0))).
  { unfold c0. cbn [cv_elems]. rewrite map_map. cbn [celem_of ce_name]. apply nodup_filter_names, Hnd. }
  specialize (U Kk Nc). cbn [app] in U. rewrite U. f_equal.
  rewrite (shown_fields d g v' Hon' Hnd'). unfold with_celems, c0. cbn [cv_name cv_kind cv_group cv_label cv_message cv_elems].
  rewrite Sn, Sk, Sl. f_equal.
  (* the elements *)
  rewrite Hch, fold_maps. fold E'.
  pose proof (forall2_filter _ _ Sel) as F2. fold E' in F2.
  assert (Hk' : v_kind v' <> KBlob) by (rewrite <- Sk; exact Hk).
  pose proof (nodup_filter_names _ Hnd') as NdE. fold E' in NdE.
  assert (G : forall E1, Forall2 (fun e e' => e_name e = e_name e' /\ e_label e = e_label e') E1 E' ->
              map (fun c => fold_left (fun c p => upd_celem (v_kind v') p c) (map (one_of (v_kind v')) E') c) (map celem_of E1) = map celem_of E').
  { intros E1 HF. rewrite map_map.
    assert (Hin : forall e', In e' E' -> In e' E') by auto. revert Hin HF. generalize E' at 1 3 5. intros L Hin HF.
    induction HF as [|e e' r r' (Hn & Hl) Hr IH]; [reflexivity|]. cbn [map]. f_equal.
    - rewrite (fold_children_hit (v_kind v') E' Hk' NdE e' (Hin e' (or_introl eq_refl)) (celem_of e) Hn).
      unfold with_cvalue, celem_of. cbn. rewrite Hn, Hl. reflexivity.
    - apply IH. intros x Hx. apply Hin. now right. }
  apply G. exact F2.
Qed.

(* K2 in the model: a definition shows no payload for a BLOB element, whatever the device holds *)
Lemma definition_shows_no_blob_payload e b f :
  e_value e = VBlob (Some (b, f)) -> ce_value (celem_of e) = CRaw None /\ ce_value (celem_of e) <> CBlob b f.
Proof. intro H. unfold celem_of, wire_value. rewrite H. split; [reflexivity|discriminate]. Qed.
