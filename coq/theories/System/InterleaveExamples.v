(* C01, several drivers: the hypotheses of several_drivers_at_once are met by two concrete drivers whose
   streams reach the client alternating message by message. *)
From Coq Require Import List NArith Bool String.
Import ListNotations.
From Indi Require Import Base.Sx Msg.Equality Msg.Model Driver.Model Driver.Props Client.Model Client.Props System.Converge System.Ops
  System.Deliver System.Reorder System.Interleave System.OpsExamples.

Definition d0' : dev := {| d_name := s2l "FOC"; d_groups := d_groups d0 |}.

Lemma d0'_ok : dev_ok d0'.
Proof. destruct d0_ok as [A B]. constructor; [exact A|exact B]. Qed.

Definition ops0' : list dop := [OState (s2l "T") (s2l "Alert"); OAssign (s2l "T") 1 (VText (Some (s2l "there")))].

Lemma ops0'_typed : ops_typed d0' ops0'.
Proof. cbn. repeat split; try exact I. intros g v Hin Hn. destruct (v_kind v); exact I. Qed.

Fixpoint alternate (a b : list msg) : list msg :=
  match a with
  | [] => b
  | x :: a' => x :: match b with [] => a' | y :: b' => y :: alternate a' b' end
  end.

Definition both : list msg := alternate (stream_of d0 ops0) (stream_of d0' ops0').

Example two_drivers_alternating :
  synced (feed [] both) (fst (run d0 ops0)) /\ synced (feed [] both) (fst (run d0' ops0')).
Proof.
  assert (H : forall d ops, In (d, ops) [(d0, ops0); (d0', ops0')] -> synced (feed [] both) (fst (run d ops))).
  { apply several_drivers_at_once.
    - intros d ops [E|[E|[]]]; injection E as <- <-; [exact (conj d0_ok ops0_typed)|exact (conj d0'_ok ops0'_typed)].
    - unfold both.
      assert (G : forall a b, Forall (fun m => exists d v, about d v m) a -> Forall (fun m => exists d v, about d v m) b ->
                               Forall (fun m => exists d v, about d v m) (alternate a b)).
      { induction a as [|x a IH]; intros b Ha Hb; [exact Hb|]. inversion Ha; subst. cbn [alternate]. constructor; [assumption|].
        destruct b as [|y b]; [assumption|]. inversion Hb; subst. constructor; [assumption|]. now apply IH. }
      apply G.
      + destruct (stream_about d0 ops0 d0_ok ops0_typed) as [A _]. eapply Forall_impl; [|exact A]. intros m [v Hv]. eauto.
      + destruct (stream_about d0' ops0' d0'_ok ops0'_typed) as [A _]. eapply Forall_impl; [|exact A]. intros m [v Hv]. eauto.
    - intros d ops [E|[E|[]]]; injection E as <- <-; vm_compute; reflexivity. }
  split; apply H; [now left|right; now left].
Qed.

Example the_streams_really_interleave : both <> stream_of d0 ops0 ++ stream_of d0' ops0' /\ (10 <= List.length both)%nat.
Proof. split; [vm_compute; intro H; discriminate H|vm_compute; repeat constructor]. Qed.
