(* C01: the hypotheses of the operation-level theorems are met by a concrete device *)
From Coq Require Import List NArith Bool String.
Import ListNotations.
From Indi Require Import Base.Sx Msg.Equality Driver.Model Driver.Props Client.Model Client.Props System.Converge System.Ops.

Definition el (n : string) (x : value) : elem :=
  {| e_key := s2l n; e_name := s2l n; e_label := s2l n; e_enabled := true; e_value := x;
     e_fmt := s2l "%.2f"; e_min := s2l "0"; e_max := s2l "0"; e_step := s2l "0"; e_handlers := [] |}.
Definition vc (n : string) (k : vkind) (on : bool) (es : list elem) : vec :=
  {| v_key := s2l n; v_name := s2l n; v_label := s2l n; v_kind := k; v_state := s2l "Ok"; v_perm := s2l "rw";
     v_rule := s2l "OneOfMany"; v_timeout := s2l "0"; v_enabled := on; v_elems := es |}.
Definition d0 : dev :=
  {| d_name := s2l "CAM";
     d_groups := [ {| g_key := s2l "g"; g_name := s2l "Main"; g_enabled := true;
                      g_vecs := [vc "T" KText true [el "a" (VText (Some (s2l "v0"))); el "b" (VText None)];
                                 vc "S" KSwitch false [el "x" (VSw true); el "y" (VSw false)]] |} ] |}.

Example d0_ok : dev_ok d0.
Proof.
  constructor.
  - unfold names_of. cbn. constructor; [intros [H|[]]; discriminate H|]. constructor; [intros []|constructor].
  - intros g v Hin. cbn in Hin. destruct Hin as [E|[E|[]]]; injection E as <- <-; (split; [constructor|]).
    + cbn. constructor; [intros [H|[]]; discriminate H|]. constructor; [intros []|constructor].
    + intros _. cbn. repeat constructor.
    + repeat constructor.
    + cbn. constructor; [intros [H|[]]; discriminate H|]. constructor; [intros []|constructor].
    + intros _. cbn. repeat constructor.
    + repeat constructor.
Qed.

Definition ops0 : list dop :=
  [OAssign (s2l "T") 0 (VText (Some (s2l "hello"))); OEnableVec (s2l "S") true; OSelected (s2l "S") [1%nat];
   OState (s2l "T") (s2l "Busy"); OEnableGrp (s2l "g") false; OEnableGrp (s2l "g") true].

Example ops0_typed : ops_typed d0 ops0.
Proof. cbn. repeat split; try exact I. intros g v Hin Hn. destruct (v_kind v); exact I. Qed.

(* a fresh mirror, the handshake, then the history: in sync with the device as it ends up *)
Example a_concrete_history_converges :
  let mi1 := feed [] (pubs (snd (from_client d0 (getprops None None)))) in
  synced (feed mi1 (pubs (List.concat (snd (run d0 ops0))))) (fst (run d0 ops0)).
Proof.
  cbv zeta. refine (proj1 (proj2 (history_synced ops0 d0 _ d0_ok _ ops0_typed))).
  apply handshake_synced; [exact d0_ok|intros cd []|reflexivity].
Qed.
