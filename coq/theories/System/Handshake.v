(* C01, the network client's handshake in the composed system model: one device, one
   network client that connects (both connections are registered) and asks for the
   properties.  Afterwards the connection has the library's policies (control Never,
   BLOB connection Only), nothing is in flight, and the client's mirror is the
   normalisation of a mirror in sync with the device. *)
From Coq Require Import List NArith Bool String Lia.
Import ListNotations.
From Indi Require Import Base.Sx Msg.Equality Msg.RegOk Msg.Codec Router.Model Router.Props Driver.Model Driver.Props
     Client.Model Client.Props Client.Norm System.Model System.Converge System.Ops System.Deliver.

(* a network client whose two connections are the router's clients *)
Record wired (s : sys) (c : client) : Prop := {
  wi_cls : sy_cls s = [c];
  wi_net : cl_net c = true;
  wi_clients : clients (sy_r s) = [cl_ctl c; cl_blob c];
  wi_diff : cl_ctl c <> cl_blob c
}.

Definition add_ctl (c : client) (m : msg) : client := with_inboxes c (cl_in_ctl c ++ [wire m]) (cl_in_blob c).
Definition add_blob (c : client) (m : msg) : client := with_inboxes c (cl_in_ctl c) (cl_in_blob c ++ [wire m]).

(* what the router's policies let through to the two connections *)
Definition enq2 (r : rstate) (dn : str) (c : client) (m : msg) : client :=
  let c1 := if allow (policy_of r (cl_ctl c) (Some dn)) (is_blob_msg m) then add_ctl c m else c in
  if allow (policy_of r (cl_blob c) (Some dn)) (is_blob_msg m) then add_blob c1 m else c1.

Lemma snoop_none s c e0 : sy_cls s = [c] -> cl_net c = true -> snoop_at s e0 = None.
Proof. intros H N. unfold snoop_at. rewrite H. cbn [find]. rewrite N. reflexivity. Qed.

Lemma enqueue_ctl c m : cl_net c = true -> enqueue (cl_ctl c) m c = add_ctl c m.
Proof. intro N. unfold enqueue. rewrite N, N.eqb_refl. reflexivity. Qed.

Lemma enqueue_blob c m : cl_net c = true -> cl_ctl c <> cl_blob c -> enqueue (cl_blob c) m c = add_blob c m.
Proof.
  intros N D. unfold enqueue. rewrite N. assert (N.eqb (cl_ctl c) (cl_blob c) = false) as -> by (apply N.eqb_neq; exact D).
  rewrite N.eqb_refl. reflexivity.
Qed.

Lemma cascade_dev_msg_gen f s c dn vn m e :
  wired s c -> about dn vn m -> e <> cl_ctl c -> e <> cl_blob c ->
  cascade (S f) s m (Some e) = set_client s (enq2 (sy_r s) dn c m).
Proof.
  intros [Cls Net Clients Diff] Ab He1 He2. cbn [cascade]. rewrite (rmsg_of_dev m dn vn Ab).
  unfold process. cbn [r_from_client r_from_device r_blob r_dev]. unfold dev_outs, cl_outs. cbn [r_from_client r_from_device r_blob r_dev app].
  rewrite Clients. cbn [filter is_sender].
  assert (N.eqb (cl_ctl c) e = false) as -> by (apply N.eqb_neq; congruence).
  assert (N.eqb (cl_blob c) e = false) as -> by (apply N.eqb_neq; congruence).
  cbn [negb andb]. unfold enq2. rewrite with_r_same.
  destruct (allow (policy_of (sy_r s) (cl_ctl c) (Some dn)) (is_blob_msg m)) eqn:A1;
    destruct (allow (policy_of (sy_r s) (cl_blob c) (Some dn)) (is_blob_msg m)) eqn:A2; cbn [map fold_left].
  - rewrite (snoop_none s c _ Cls Net).
    set (s1 := map_cls s (enqueue (cl_ctl c) m)).
    assert (Cls1 : sy_cls s1 = [add_ctl c m]) by (unfold s1, map_cls; cbn [sy_cls]; rewrite Cls; cbn [map]; rewrite (enqueue_ctl c m Net); reflexivity).
    rewrite (snoop_none s1 (add_ctl c m) _ Cls1 Net). unfold map_cls at 1, set_client. rewrite Cls1. cbn [map].
    change (enqueue (cl_blob c) m (add_ctl c m)) with (enqueue (cl_blob (add_ctl c m)) m (add_ctl c m)).
    rewrite (enqueue_blob (add_ctl c m) m Net Diff). unfold s1, map_cls. cbn [sy_r sy_devs sy_oof]. reflexivity.
  - rewrite (snoop_none s c _ Cls Net). unfold map_cls, set_client. rewrite Cls. cbn [map]. rewrite (enqueue_ctl c m Net). reflexivity.
  - rewrite (snoop_none s c _ Cls Net). unfold map_cls, set_client. rewrite Cls. cbn [map]. rewrite (enqueue_blob c m Net Diff). reflexivity.
  - destruct s; cbn in *. subst. reflexivity.
Qed.

(* ---------- messages from the client's connections ---------- *)
Definition enable_msg (dn : str) (p : string) : msg :=
  {| mk := s2l "enableBLOB"; ma := [(s2l "device", dn)]; mv := Some (s2l p); mc := None |}.

(* one driver named dn at endpoint e *)
Record one_device (s : sys) (e : ep) (d : dev) : Prop := {
  od_router : devices (sy_r s) = [(e, AccNamed (d_name d))];
  od_devs : sy_devs s = [(e, d)]
}.

Lemma set_dev_same s e d : sy_devs s = [(e, d)] -> set_dev s e d = s.
Proof. intro H. unfold set_dev. rewrite H. cbn [map fst]. rewrite N.eqb_refl. destruct s; cbn in *; subst; reflexivity. Qed.

Lemma find_dev_one s e d : sy_devs s = [(e, d)] -> find_dev s e = Some d.
Proof. intro H. unfold find_dev. rewrite H. cbn [find fst]. rewrite N.eqb_refl. reflexivity. Qed.

Definition pol (p : string) : option policy := policy_of_text (Some (s2l p)).

(* enableBLOB from one of the client's connections: the policy of that connection for the device is set,
   the driver ignores the message, nothing is delivered *)
Lemma cascade_enable f s e d x p pv t :
  one_device s e d -> e <> x -> pol p = Some pv -> alookup N.eqb x (blob (sy_r s)) = Some t ->
  cascade (S f) s (enable_msg (d_name d) p) (Some x) =
  with_r s {| devices := devices (sy_r s); clients := clients (sy_r s);
              blob := aset N.eqb x (aset dname_eqb (Some (d_name d)) pv t) (blob (sy_r s)) |}.
Proof.
  intros [Or Od] Hex Hp Ht. cbn [cascade].
  assert (R : rmsg_of (enable_msg (d_name d) p) =
              {| r_from_client := true; r_from_device := false; r_enable := Some pv; r_blob := false; r_dev := Some (d_name d) |}).
  { unfold rmsg_of, enable_msg. cbn [mk ma mv]. unfold pol in Hp.
    assert (spec_flag_of (s2l "enableBLOB") = Some (true, false)) as -> by reflexivity.
    assert (str_eqb (s2l "enableBLOB") (s2l "enableBLOB") = true) as -> by reflexivity.
    assert (str_eqb (s2l "enableBLOB") (s2l "setBLOBVector") = false) as -> by reflexivity.
    rewrite Hp. reflexivity. }
  rewrite R. unfold process. cbn [r_from_client r_from_device]. unfold enable_step. cbn [r_enable r_dev]. rewrite Ht.
  unfold dev_outs, cl_outs. cbn [r_from_client r_from_device r_dev devices]. rewrite Or. cbn [filter fst snd is_sender Router.Model.accepts].
  assert (N.eqb e x = false) as -> by (apply N.eqb_neq; exact Hex). rewrite str_eqb_refl. cbn [negb andb map app fold_left].
  set (r' := {| devices := _; clients := _; blob := _ |}).
  assert (Fd : find_dev (with_r s r') e = Some d) by (apply find_dev_one; exact Od).
  cbn [fst]. rewrite Fd. unfold from_client.
  assert (str_eqb (mk (enable_msg (d_name d) p)) (s2l "getProperties") = false) as -> by reflexivity.
  assert (kind_of_new (mk (enable_msg (d_name d) p)) = None) as -> by reflexivity.
  cbn [publishes flat_map fold_left]. apply set_dev_same. exact Od.
Qed.

(* ---------- definitions delivered while no policy is set yet: both connections get them ---------- *)
Definition both (c : client) (ms : list msg) : client :=
  with_inboxes c (cl_in_ctl c ++ map wire ms) (cl_in_blob c ++ map wire ms).

Lemma wired_set s c c' : wired s c -> cl_net c' = cl_net c -> cl_ctl c' = cl_ctl c -> cl_blob c' = cl_blob c -> wired (set_client s c') c'.
Proof. intros [A B C D] H1 H2 H3. constructor; cbn [sy_cls sy_r set_client]; rewrite ?H1, ?H2, ?H3; auto. Qed.

Lemma cascade_defs_both f ms : forall s c dn e,
  wired s c -> e <> cl_ctl c -> e <> cl_blob c ->
  policy_of (sy_r s) (cl_ctl c) (Some dn) = Never -> policy_of (sy_r s) (cl_blob c) (Some dn) = Never ->
  Forall (fun m => (exists vn, about dn vn m) /\ is_blob_msg m = false) ms ->
  fold_left (fun s m => cascade (S f) s m (Some e)) ms s = (if ms then s else set_client s (both c ms)).
Proof.
  induction ms as [|m ms IH]; intros s c dn e W H1 H2 Pc Pb Ha; [reflexivity|].
  inversion Ha as [|? ? [[vn Hm] Hb] Hr]; subst. cbn [fold_left].
  rewrite (cascade_dev_msg_gen f s c dn vn m e W Hm H1 H2). unfold enq2. rewrite Pc, Pb, Hb. cbn [allow negb].
  set (c1 := add_blob (add_ctl c m) m).
  assert (W1 : wired (set_client s c1) c1) by (apply (wired_set s c); auto).
  rewrite (IH (set_client s c1) c1 dn e W1 H1 H2 Pc Pb Hr).
  destruct ms as [|m2 ms2].
  - unfold both, c1, add_blob, add_ctl. cbn [map cl_in_ctl cl_in_blob with_inboxes]. reflexivity.
  - unfold set_client, both, c1, add_blob, add_ctl. cbn [sy_r sy_devs sy_oof map cl_in_ctl cl_in_blob with_inboxes].
    rewrite <- !app_assoc. reflexivity.
Qed.

Lemma def_msg_not_blob d g v : is_blob_msg (def_msg d g v) = false.
Proof. unfold is_blob_msg, def_msg. destruct (vec_on g v); [destruct (v_kind v)|]; reflexivity. Qed.

(* ---------- the client reads definitions of a device it does not know yet ---------- *)
Definition is_def_msg (m : msg) : bool := match def_kind (mk m) with Some _ => true | None => false end.

Definition greetings (c : client) (dn : str) : list (msg * ep) :=
  [(enable_never dn, cl_ctl c); (enable_only dn, cl_blob c)].

(* messages that are about the device, or that carry no device at all (a relayed getProperties) *)
Definition harmless (dn : str) (m : msg) : Prop := (exists vn, about dn vn m) \/ attr_of "device" (ma m) = None.

Lemma apply_harmless_known mi m dn :
  dget cd_name dn mi <> None -> harmless dn m ->
  snd (apply mi m) = [] /\ dget cd_name dn (mirror_of (apply mi m)) <> None.
Proof.
  intros Hk [[vn Ha]|Hn]; [exact (apply_known mi m dn vn Hk Ha)|].
  unfold apply, mirror_of. rewrite Hn. cbn. auto.
Qed.

Lemma apply_unknown mi m dn vn :
  dget cd_name dn mi = None -> about dn vn m ->
  (is_def_msg m = true /\ snd (apply mi m) = [enable_never dn] /\ dget cd_name dn (mirror_of (apply mi m)) <> None) \/
  (is_def_msg m = false /\ apply mi m = (mi, [], [])).
Proof.
  intros Hu (Hd & Hn & _). unfold apply, mirror_of, is_def_msg. rewrite Hd, Hu.
  destruct (def_kind (mk m)) as [k|].
  - left. cbn [fst snd]. repeat split. rewrite (dget_dset_eq cd_name); [discriminate|reflexivity].
  - right. split; [reflexivity|]. destruct (set_kind (mk m)); [reflexivity|].
    destruct (str_eqb (mk m) (s2l "delProperty")); [|reflexivity]. rewrite Hn. reflexivity.
Qed.

Definition consume_step (acc : client * list (msg * ep)) (m : msg) : client * list (msg * ep) :=
  let '(c', out) := acc in
  let '(mi, _, sent) := apply (cl_mirror c') m in
  (with_mirror c' mi,
   out ++ flat_map (fun x => match lookup (s2l "device") (ma x) with
                             | Some dn => [(x, cl_ctl c'); (enable_only dn, cl_blob c')]
                             | None => [(x, cl_ctl c')]
                             end) sent).

Lemma consume_fold c ms : consume c ms = fold_left consume_step ms (c, []).
Proof. reflexivity. Qed.

Lemma with_mirror_fields c mi : cl_ctl (with_mirror c mi) = cl_ctl c /\ cl_blob (with_mirror c mi) = cl_blob c /\ cl_net (with_mirror c mi) = cl_net c.
Proof. repeat split; reflexivity. Qed.

Lemma consume_harmless ms : forall c out dn,
  dget cd_name dn (cl_mirror c) <> None -> Forall (harmless dn) ms ->
  fold_left consume_step ms (c, out) = (with_mirror c (feed (cl_mirror c) ms), out) /\ dget cd_name dn (feed (cl_mirror c) ms) <> None.
Proof.
  induction ms as [|m ms IH]; intros c out dn Hk Ha; cbn [fold_left feed].
  - split; [destruct c; reflexivity|exact Hk].
  - inversion Ha as [|? ? Hm Hr]; subst. destruct (apply_harmless_known (cl_mirror c) m dn Hk Hm) as [S1 S2].
    unfold consume_step at 2. destruct (apply (cl_mirror c) m) as [[mi evs] sent] eqn:Ea. cbn [snd mirror_of fst] in S1, S2. subst sent.
    cbn [flat_map]. rewrite app_nil_r.
    destruct (IH (with_mirror c mi) out dn S2 Hr) as [A B]. cbn [cl_mirror with_mirror] in A, B.
    unfold mirror_of. cbn [fst]. fold (feed mi ms). split; [rewrite A; destruct c; reflexivity|exact B].
Qed.

Lemma consume_unknown ms : forall c out dn,
  dget cd_name dn (cl_mirror c) = None -> Forall (fun m => exists vn, about dn vn m) ms ->
  fold_left consume_step ms (c, out) =
  (with_mirror c (feed (cl_mirror c) ms), out ++ (if existsb is_def_msg ms then greetings c dn else [])) /\
  (existsb is_def_msg ms = true -> dget cd_name dn (feed (cl_mirror c) ms) <> None).
Proof.
  induction ms as [|m ms IH]; intros c out dn Hu Ha; cbn [fold_left feed existsb].
  - rewrite app_nil_r. split; [destruct c; reflexivity|discriminate].
  - inversion Ha as [|? ? [vn Hm] Hr]; subst.
    destruct (apply_unknown (cl_mirror c) m dn vn Hu Hm) as [(D1 & D2 & D3)|(D1 & D2)].
    + rewrite D1. cbn [orb]. unfold consume_step at 2. destruct (apply (cl_mirror c) m) as [[mi evs] sent] eqn:Ea.
      cbn [snd mirror_of fst] in D2, D3. subst sent. cbn [flat_map]. 
      assert (L : lookup (s2l "device") (ma (enable_never dn)) = Some dn) by reflexivity. rewrite L. cbn [app].
      assert (Hh : Forall (harmless dn) ms) by (eapply Forall_impl; [|exact Hr]; intros x Hx; left; exact Hx).
      destruct (consume_harmless ms (with_mirror c mi) (out ++ [(enable_never dn, cl_ctl c); (enable_only dn, cl_blob c)]) dn D3 Hh) as [A B].
      cbn [cl_mirror with_mirror] in A, B. unfold mirror_of. cbn [fst]. fold (feed mi ms).
      split; [rewrite A; destruct c; reflexivity|intros _; exact B].
    + rewrite D1. cbn [orb]. unfold consume_step at 2. rewrite D2. cbn [flat_map]. rewrite app_nil_r.
      assert (with_mirror c (cl_mirror c) = c) as -> by (destruct c; reflexivity).
      unfold mirror_of. cbn [fst]. fold (feed (cl_mirror c) ms). exact (IH c out dn Hu Hr).
Qed.

(* ---------- getProperties from the control connection ---------- *)
Definition defs_of (d : dev) : list msg := map (fun gv => def_msg d (fst gv) (snd gv)) (all_vecs d).

Lemma publishes_defs d : publishes (map (fun gv => Publish (def_msg d (fst gv) (snd gv))) (all_vecs d)) = defs_of d.
Proof. unfold publishes, defs_of. induction (all_vecs d) as [|x l IH]; [reflexivity|]. cbn [map flat_map app]. now rewrite IH. Qed.

Lemma defs_about d : Forall (fun m => (exists vn, about (d_name d) vn m) /\ is_blob_msg m = false) (defs_of d).
Proof.
  unfold defs_of. apply Forall_forall. intros m Hm. apply in_map_iff in Hm. destruct Hm as ([g v] & <- & _). cbn [fst snd].
  split; [exists (v_name v); apply def_msg_about|apply def_msg_not_blob].
Qed.

Lemma dev_ok_quiet d : dev_ok d -> Driver.Props.quiet d.
Proof.
  intros [Dn Dv]. unfold Driver.Props.quiet. apply Forall_forall. intros g Hg. apply Forall_forall. intros v Hv. apply nh_quiet.
  assert (Hin : In (g, v) (all_vecs d)) by (unfold all_vecs; apply in_flat_map; exists g; split; [exact Hg|apply in_map; exact Hv]).
  exact (proj2 (Dv g v Hin)).
Qed.

Lemma cascade_S f s m sender :
  cascade (S f) s m sender =
  (let (r', outs) := process (sy_r s) (rmsg_of m) sender in
   fold_left
     (fun s o =>
        match o with
        | ToDev e =>
            match find_dev s e with
            | Some d => let (d', tr) := from_client d m in
                        fold_left (fun s m' => cascade f s m' (Some e)) (publishes tr) (set_dev s e d')
            | None => s
            end
        | ToCl e =>
            match snoop_at s e with
            | Some c =>
                let '(mi, _, sent) := apply (cl_mirror c) m in
                let s1 := map_cls s (fun c' => if negb (cl_net c') && N.eqb (cl_ctl c') e then with_mirror c' mi else c') in
                fold_left (fun s m' => cascade f s m' (Some e)) sent s1
            | None => map_cls s (enqueue e m)
            end
        end) outs (with_r s r')).
Proof. reflexivity. Qed.

Lemma cascade_getprops f s c e d :
  wired s c -> one_device s e d -> dev_ok d -> e <> cl_ctl c -> e <> cl_blob c ->
  policy_of (sy_r s) (cl_ctl c) (Some (d_name d)) = Never -> policy_of (sy_r s) (cl_blob c) (Some (d_name d)) = Never ->
  policy_of (sy_r s) (cl_blob c) None = Never ->
  cascade (S (S f)) s getprops_all (Some (cl_ctl c)) = set_client s (add_blob (both c (defs_of d)) getprops_all).
Proof.
  intros W [Or Od] D H1 H2 Pc Pb Pn. pose proof W as [Cls Net Clients Diff]. rewrite cascade_S.
  assert (R : rmsg_of getprops_all = {| r_from_client := true; r_from_device := true; r_enable := None; r_blob := false; r_dev := None |}) by reflexivity.
  rewrite R. unfold process. cbn [r_from_client r_from_device]. unfold enable_step. cbn [r_enable].
  unfold dev_outs, cl_outs. cbn [r_from_client r_from_device r_dev r_blob]. rewrite Or, Clients. cbn [filter fst snd is_sender Router.Model.accepts].
  assert (N.eqb e (cl_ctl c) = false) as -> by (apply N.eqb_neq; exact H1).
  rewrite N.eqb_refl. assert (N.eqb (cl_blob c) (cl_ctl c) = false) as -> by (apply N.eqb_neq; congruence).
  rewrite Pn. cbn [negb andb allow map app fold_left fst]. rewrite with_r_same.
  rewrite (find_dev_one s e d Od).
  pose proof (Driver.Props.getprops_all d None (dev_ok_quiet d D) (dk_names d D)) as GA.
  change (getprops None None) with getprops_all in GA. rewrite GA. rewrite publishes_defs. rewrite (set_dev_same s e d Od).
  rewrite (cascade_defs_both f (defs_of d) s c (d_name d) e W H1 H2 Pc Pb (defs_about d)).
  destruct (defs_of d) as [|m0 ms0] eqn:Ed.
  - rewrite (snoop_none s c _ Cls Net). unfold map_cls, set_client. rewrite Cls. cbn [map]. rewrite (enqueue_blob c _ Net Diff).
    unfold both. cbn [map]. rewrite !app_nil_r. destruct c; reflexivity.
  - set (c1 := both c (m0 :: ms0)).
    assert (W1 : wired (set_client s c1) c1) by (apply (wired_set s c); auto).
    destruct W1 as [Cls1 Net1 _ Diff1].
    rewrite (snoop_none (set_client s c1) c1 _ Cls1 Net1). unfold map_cls. rewrite Cls1. cbn [map].
    change (enqueue (cl_blob c) getprops_all c1) with (enqueue (cl_blob c1) getprops_all c1).
    rewrite (enqueue_blob c1 _ Net1 Diff1). reflexivity.
Qed.

(* ---------- the handshake ---------- *)
Record fresh (s : sys) (c : client) (e : ep) (d : dev) : Prop := {
  fr_cls : sy_cls s = [c];
  fr_net : cl_net c = true;
  fr_up : cl_up c = false;
  fr_mirror : cl_mirror c = [];
  fr_in1 : cl_in_ctl c = [];
  fr_in2 : cl_in_blob c = [];
  fr_router : sy_r s = {| devices := [(e, AccNamed (d_name d))]; clients := []; blob := [] |};
  fr_devs : sy_devs s = [(e, d)];
  fr_oof : sy_oof s = false;
  fr_diff : cl_ctl c <> cl_blob c;
  fr_e1 : e <> cl_ctl c;
  fr_e2 : e <> cl_blob c
}.

Lemma wire_enable dn p : wire (enable_msg dn p) = enable_msg dn p.
Proof. reflexivity. Qed.

Lemma settle_S f s :
  settle (S f) s =
  (if quiet s then s
   else
     let '(cls, outs) := fold_left (fun acc c => let '(cs, os) := acc in
                                                 let (c', o) := drain_client c in (cs ++ [c'], os ++ o))
                                   (sy_cls s) ([], []) in
     let s1 := {| sy_r := sy_r s; sy_devs := sy_devs s; sy_cls := cls; sy_oof := sy_oof s |} in
     settle f (fold_left (fun s p => cascade (S f) s (wire (fst p)) (Some (snd p))) outs s1)).
Proof. reflexivity. Qed.

Lemma settle_quiet f s : quiet s = true -> settle f s = s.
Proof. intro Q. destruct f; cbn [settle]; rewrite Q; reflexivity. Qed.

Lemma existsb_def_defs d :
  (exists g v, In (g, v) (all_vecs d) /\ vec_on g v = true) -> existsb is_def_msg (map wire (defs_of d)) = true.
Proof.
  intros (g & v & Hin & Hon). apply existsb_exists. exists (wire (def_msg d g v)). split.
  - apply in_map. unfold defs_of. apply (in_map (fun gv => def_msg d (fst gv) (snd gv)) (all_vecs d) (g, v)). exact Hin.
  - unfold is_def_msg, wire. cbn [mk norm_msg]. destruct (def_msg_attrs d g v Hon) as (_ & _ & ->). rewrite def_kind_def. reflexivity.
Qed.

Lemma filter_taken_nonblob ms :
  Forall (fun m => is_blob_msg m = false) ms -> filter taken_from_blob_connection (map wire ms) = [].
Proof.
  induction 1 as [|m0 l Hb _ IH]; [reflexivity|]. cbn [map filter].
  assert (taken_from_blob_connection (wire m0) = false) as -> by exact Hb. exact IH.
Qed.

Theorem handshake_connects_and_syncs s c e d :
  fresh s c e d -> dev_ok d -> (exists g v, In (g, v) (all_vecs d) /\ vec_on g v = true) ->
  exists c',
    sy_cls (sstep s (SHandshake 0)) = [c'] /\
    one_client (sstep s (SHandshake 0)) c' (d_name d) /\ cl_in_ctl c' = [] /\ cl_in_blob c' = [] /\
    net_synced (cl_mirror c') d /\ find_dev (sstep s (SHandshake 0)) e = Some d /\
    cl_ctl c' = cl_ctl c /\ cl_blob c' = cl_blob c /\ one_device (sstep s (SHandshake 0)) e d.
Proof.
  intros [Cls Net Up Mir I1 I2 Rt Dv Oof Diff He1 He2] D Vis.
  set (dn := d_name d).
  assert (Nbc : N.eqb (cl_blob c) (cl_ctl c) = false) by (apply N.eqb_neq; congruence).
  assert (Ncb : N.eqb (cl_ctl c) (cl_blob c) = false) by (apply N.eqb_neq; congruence).
  set (r2 := {| devices := [(e, AccNamed dn)]; clients := [cl_ctl c; cl_blob c]; blob := [(cl_blob c, []); (cl_ctl c, [])] |}).
  set (c1 := with_up c).
  set (s1 := {| sy_r := r2; sy_devs := [(e, d)]; sy_cls := [c1]; sy_oof := false |}).
  set (c2 := add_blob (both c1 (defs_of d)) getprops_all).
  set (s2 := set_client s1 c2).
  set (c3 := with_inboxes c2 [] []).
  set (cA := with_mirror c3 (feed (cl_mirror c3) (map wire (defs_of d)))).
  set (cB := with_mirror cA (cl_mirror cA)).
  set (s3 := {| sy_r := sy_r s2; sy_devs := sy_devs s2; sy_cls := [cB]; sy_oof := sy_oof s2 |}).
  set (r3 := {| devices := devices (sy_r s3); clients := clients (sy_r s3);
                blob := aset N.eqb (cl_ctl c) (aset dname_eqb (Some (d_name d)) Never []) (blob (sy_r s3)) |}).
  set (r4 := {| devices := devices (sy_r (with_r s3 r3)); clients := clients (sy_r (with_r s3 r3));
                blob := aset N.eqb (cl_blob c) (aset dname_eqb (Some (d_name d)) Only []) (blob (sy_r (with_r s3 r3))) |}).
  assert (Ab : Forall (fun m => exists vn, about dn vn m) (map wire (defs_of d))).
  { apply forall_map_wire. eapply Forall_impl; [|exact (defs_about d)]. intros m [H _]. exact H. }
  assert (U3 : dget cd_name dn (cl_mirror c3) = None) by (unfold c3, c2, add_blob, both, c1; cbn [cl_mirror with_inboxes with_up]; rewrite Mir; reflexivity).
  destruct (consume_unknown (map wire (defs_of d)) c3 [] dn U3 Ab) as [CA KA].
  rewrite (existsb_def_defs d Vis) in CA. specialize (KA (existsb_def_defs d Vis)). cbn [app] in CA. fold cA in CA.
  assert (KA' : dget cd_name dn (cl_mirror cA) <> None) by exact KA.
  assert (Fl : filter taken_from_blob_connection (map wire (defs_of d) ++ [wire getprops_all]) = []).
  { rewrite filter_app. cbn [filter]. assert (taken_from_blob_connection (wire getprops_all) = false) as -> by reflexivity. rewrite app_nil_r.
    apply filter_taken_nonblob. eapply Forall_impl; [|exact (defs_about d)]. intros m0 [_ Hb]. exact Hb. }
  assert (CB : fold_left consume_step (filter taken_from_blob_connection (map wire (defs_of d) ++ [wire getprops_all])) (cA, []) = (cB, [])).
  { rewrite Fl. cbn [fold_left]. unfold cB. destruct cA; reflexivity. }
  assert (KB : dget cd_name dn (cl_mirror cB) <> None) by exact KA'.
  (* the whole operation, as one equation *)
  assert (FIN : sstep s (SHandshake 0) = with_r (with_r s3 r3) r4).
  { assert (S1 : sstep s (SHandshake 0) = settle FUEL (cascade FUEL s1 getprops_all (Some (cl_ctl c1)))).
    { cbn [sstep]. rewrite Cls. cbn [nth_error]. rewrite Up, Net. f_equal. f_equal.
      unfold s1, map_cls, with_r. cbn [sy_r sy_devs sy_cls sy_oof]. rewrite Rt, Dv, Oof, Cls. cbn [Router.Model.step fst clients devices blob app map].
      rewrite N.eqb_refl. unfold aset. cbn [aremove]. rewrite Nbc. reflexivity. }
    rewrite S1. clear S1.
    assert (W1 : wired s1 c1) by (constructor; [reflexivity|exact Net|reflexivity|exact Diff]).
    assert (O1 : one_device s1 e d) by (constructor; reflexivity).
    assert (P1 : policy_of r2 (cl_ctl c) (Some dn) = Never) by (unfold policy_of, r2; cbn [blob alookup]; rewrite Ncb, N.eqb_refl; reflexivity).
    assert (P2 : policy_of r2 (cl_blob c) (Some dn) = Never) by (unfold policy_of, r2; cbn [blob alookup]; rewrite N.eqb_refl; reflexivity).
    assert (P3 : policy_of r2 (cl_blob c) None = Never) by (unfold policy_of, r2; cbn [blob alookup]; rewrite N.eqb_refl; reflexivity).
    change (cascade FUEL s1 getprops_all (Some (cl_ctl c1))) with (cascade (S (S 62)) s1 getprops_all (Some (cl_ctl c1))).
    rewrite (cascade_getprops 62 s1 c1 e d W1 O1 D He1 He2 P1 P2 P3). fold c2. fold s2.
    assert (Ic : cl_in_ctl c2 = map wire (defs_of d)) by (unfold c2, add_blob, both; cbn [cl_in_ctl with_inboxes with_up c1]; rewrite I1; reflexivity).
    assert (Ib : cl_in_blob c2 = map wire (defs_of d) ++ [wire getprops_all]) by (unfold c2, add_blob, both; cbn [cl_in_blob with_inboxes with_up c1]; rewrite I2; reflexivity).
    change FUEL with (S 63). rewrite settle_S.
    assert (Qn : quiet s2 = false).
    { unfold quiet. cbn [sy_cls s2 set_client forallb]. rewrite Ib. destruct (cl_in_ctl c2); [destruct (map wire (defs_of d)); reflexivity|reflexivity]. }
    rewrite Qn. cbn [sy_cls s2 set_client fold_left]. unfold drain_client.
    assert (Net2 : cl_net c2 = true) by exact Net. rewrite Net2, Ic, Ib. fold c3. rewrite consume_fold, CA. cbv beta iota.
    rewrite consume_fold, CB. cbv beta iota. cbn [app]. unfold greetings. cbn [fold_left fst snd].
    rewrite app_nil_r. cbn [fold_left fst snd]. change (enable_never dn) with (enable_msg dn "Never"). change (enable_only dn) with (enable_msg dn "Only"). rewrite !wire_enable.
    fold s3.
    assert (O3 : one_device s3 e d) by (constructor; reflexivity).
    assert (T1 : alookup N.eqb (cl_ctl c) (blob (sy_r s3)) = Some []) by (cbn [sy_r s3 s2 set_client s1 r2 blob alookup]; rewrite Ncb, N.eqb_refl; reflexivity).
    change (cl_ctl c3) with (cl_ctl c). change (cl_blob c3) with (cl_blob c).
    pose proof (cascade_enable (S 62) s3 e d (cl_ctl c) "Never" Never [] O3 He1 eq_refl T1) as CE1. fold r3 in CE1. fold dn in CE1.
    change (S (S 62)) with 64%nat in CE1. rewrite CE1.
    assert (O4 : one_device (with_r s3 r3) e d) by (constructor; reflexivity).
    assert (T2 : alookup N.eqb (cl_blob c) (blob (sy_r (with_r s3 r3))) = Some []).
    { cbn [sy_r with_r r3 blob s3 s2 set_client s1 r2 alookup]. unfold aset. cbn [aremove alookup]. rewrite ?Nbc, ?Ncb, ?N.eqb_refl. cbn [alookup]. rewrite ?Nbc, ?N.eqb_refl. reflexivity. }
    pose proof (cascade_enable (S 62) (with_r s3 r3) e d (cl_blob c) "Only" Only [] O4 He2 eq_refl T2) as CE2. fold r4 in CE2. fold dn in CE2.
    change (S (S 62)) with 64%nat in CE2. rewrite CE2.
    apply settle_quiet. reflexivity. }
  rewrite FIN.
  exists cB.
  assert (Mc : cl_mirror cB = feed [] (map wire (defs_of d))).
  { unfold cB, cA. cbn [cl_mirror with_mirror]. unfold c3, c2, add_blob, both, c1. cbn [cl_mirror with_inboxes with_up]. rewrite Mir. reflexivity. }
  split; [reflexivity|]. split; [|split; [reflexivity|split; [reflexivity|split; [|split; [apply find_dev_one; reflexivity|split; [reflexivity|split; [reflexivity|constructor; reflexivity]]]]]]].
  - constructor; cbn [sy_cls sy_r with_r]; try reflexivity; try exact Net; try exact Diff.
    + unfold policy_of, r4. cbn [blob sy_r with_r r3 s3 s2 set_client s1 r2 alookup devices clients]. unfold aset. cbn [aremove alookup].
      rewrite ?Nbc, ?Ncb, ?N.eqb_refl. cbn [alookup aremove]. rewrite ?Nbc, ?Ncb, ?N.eqb_refl. cbn [alookup].
      change (cl_ctl cB) with (cl_ctl c). change (cl_blob cB) with (cl_blob c). rewrite ?Nbc, ?Ncb, ?N.eqb_refl. cbn [alookup].
      unfold dn, dname_eqb. cbn [opt_eqb]. rewrite str_eqb_refl. reflexivity.
    + unfold policy_of, r4. cbn [blob sy_r with_r r3 s3 s2 set_client s1 r2 alookup devices clients]. unfold aset. cbn [aremove alookup].
      rewrite ?Nbc, ?Ncb, ?N.eqb_refl. cbn [alookup aremove]. rewrite ?Nbc, ?Ncb, ?N.eqb_refl. cbn [alookup].
      change (cl_ctl cB) with (cl_ctl c). change (cl_blob cB) with (cl_blob c). rewrite ?Nbc, ?Ncb, ?N.eqb_refl. cbn [alookup].
      unfold dn, dname_eqb. cbn [opt_eqb]. rewrite str_eqb_refl. reflexivity.
  - (* in sync *)
    assert (E1 : pubs (snd (from_client d (getprops None None))) = defs_of d).
    { rewrite (Driver.Props.getprops_all d None (dev_ok_quiet d D) (dk_names d D)). cbn [snd]. apply publishes_defs. }
    assert (Sy1 : synced (feed [] (defs_of d)) d).
    { rewrite <- E1. apply handshake_synced; [exact D|intros cd []|reflexivity]. }
    pose proof (feed_norm (defs_of d) []) as FN. change (nm []) with (@nil cdev) in FN.
    exists (feed [] (defs_of d)). split; [exact Sy1|]. split.
    + rewrite Mc. unfold feed. change wire with norm_msg. exact FN.
    + intro Hn. apply KB. rewrite Mc. unfold feed. change wire with norm_msg. rewrite FN. unfold nm.
      rewrite (dget_map cd_name nm_dev (fun _ => eq_refl)). unfold feed in Hn. fold dn in Hn. rewrite Hn. reflexivity.
Qed.
