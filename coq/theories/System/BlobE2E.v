(* C08, end to end in the composed system model: a payload the driver publishes is shown
   by the connected network client with identical bytes and format; a payload the client
   uploads is held by the driver identically. *)
From Coq Require Import List NArith Bool String Arith Lia.
Import ListNotations.
From Indi Require Import Base.Sx Msg.Equality Msg.RegOk Msg.Codec B64.Model Num.Model Router.Model Driver.Model Driver.Props Driver.Events Driver.Write
     Client.Model Client.Props Client.Update Client.Norm System.Model System.Converge System.Ops System.Deliver System.Handshake System.WriteE2E System.Blob.

(* ---------- the property an operation names, afterwards ---------- *)
Lemma find_gv_regroup d n f :
  NoDup (names_of d) -> (forall g v, v_name (fst (f g v)) = v_name v) ->
  forall g v, find_gv n (d_groups d) = Some (g, v) ->
  find_vec n (with_groups d (map (regroup n f) (d_groups d))) = Some (fst (f g v)).
Proof.
  intros Hnd Hname g v Hf. unfold find_vec, find_gv.
  change (flat_map (fun g0 => map (fun v0 => (g0, v0)) (g_vecs g0)) (d_groups (with_groups d (map (regroup n f) (d_groups d)))))
    with (all_vecs (with_groups d (map (regroup n f) (d_groups d)))).
  rewrite all_vecs_regroup. unfold find_gv in Hf. fold (all_vecs d) in Hf.
  clear Hnd. induction (all_vecs d) as [|[g0 v0] l IH]; [discriminate|]. cbn [map find fst snd] in *.
  assert (Hh : named n (hit n f g0 v0) = named n v0).
  { unfold hit. destruct (named n v0) eqn:En; [|exact En]. unfold named in *. rewrite Hname. exact En. }
  rewrite Hh. destruct (named n v0) eqn:En.
  - injection Hf as <- <-. cbn [option_map snd]. unfold hit. rewrite En. reflexivity.
  - exact (IH Hf).
Qed.

Lemma on_vec_result d n f :
  NoDup (names_of d) -> (forall g v, v_name (fst (f g v)) = v_name v) ->
  forall g v, find_gv n (d_groups d) = Some (g, v) ->
  find_vec n (fst (on_vec d n f)) = Some (fst (f g v)) /\ snd (on_vec d n f) = snd (f g v).
Proof.
  intros Hnd Hname g v Hf. unfold on_vec.
  pose proof (upd_vec_spec d (d_groups d) n f Hname Hnd) as [A B].
  destruct (upd_vec d (d_groups d) n f) as [[gs tr] ok]. cbn [fst snd] in *. subst gs tr. rewrite Hf.
  split; [|reflexivity]. fold (regroup n f). exact (find_gv_regroup d n f Hnd Hname g v Hf).
Qed.

(* ---------- element-wise rewriting by a list of children with distinct names ---------- *)
Lemma fold_parts_miss k ps c :
  (forall p, In p ps -> part_name p <> ce_name c) -> fold_left (fun c p => upd_celem k p c) ps c = c.
Proof.
  induction ps as [|p ps IH]; intro H; [reflexivity|]. cbn [fold_left].
  assert (upd_celem k p c = c) as ->.
  { unfold upd_celem. assert (str_eqb (ce_name c) (part_name p) = false) as ->; [|now rewrite andb_false_r].
    apply str_eqb_neq. intro E. apply (H p (or_introl eq_refl)). now symmetry. }
  apply IH. intros q Hq. apply H. now right.
Qed.

Lemma fold_parts_hit k ps : NoDup (map part_name ps) ->
  forall p c x, In p ps -> part_name p = ce_name c -> str_eqb (pk p) (one_kind k) = true -> new_cval k p = Some x ->
  fold_left (fun c p => upd_celem k p c) ps c = with_cvalue c x.
Proof.
  induction ps as [|q ps IH]; intros Hnd p c x Hin Hn Hk Hx; [destruct Hin|]. cbn [fold_left]. cbn [map] in Hnd.
  inversion Hnd as [|? ? Hnot Hr]; subst. destruct Hin as [->|Hin].
  - assert (upd_celem k p c = with_cvalue c x) as ->.
    { unfold upd_celem. rewrite Hk, Hn, str_eqb_refl. cbn [andb]. rewrite Hx. reflexivity. }
    apply fold_parts_miss. intros r Hr0 E. apply Hnot. cbn [ce_name with_cvalue] in E. rewrite Hn, <- E. apply in_map. exact Hr0.
  - assert (upd_celem k q c = c) as ->.
    { unfold upd_celem. assert (str_eqb (ce_name c) (part_name q) = false) as ->; [|now rewrite andb_false_r].
      apply str_eqb_neq. intro E. apply Hnot. rewrite <- E, <- Hn. apply in_map. exact Hin. }
    exact (IH Hr p c x Hin Hn Hk Hx).
Qed.

Lemma fold_upd_name k ps : forall c, ce_name (fold_left (fun c p => upd_celem k p c) ps c) = ce_name c.
Proof. induction ps as [|p ps IH]; intro c; [reflexivity|]. cbn [fold_left]. rewrite IH. apply upd_celem_name. Qed.

Lemma nth_put_at es : forall k i x e, nth_error es (i - k) = Some e -> k <= i ->
  nth_error (put_at es k i x) (i - k) = Some (set_value_of e x).
Proof.
  induction es as [|a r IH]; intros k i x e H Hle; [destruct (i - k); discriminate|]. cbn [put_at].
  destruct (Nat.eqb k i) eqn:E.
  - apply Nat.eqb_eq in E. subst. rewrite Nat.sub_diag in *. cbn in *. injection H as ->. reflexivity.
  - apply Nat.eqb_neq in E. assert (i - k = S (i - S k)) as Hs by lia. rewrite Hs in *. cbn [nth_error] in *.
    apply IH; [exact H|lia].
Qed.

Lemma in_filter_map {A B} (f : A -> option B) l x y : In x l -> f x = Some y -> In y (filter_map f l).
Proof.
  unfold filter_map. intros Hin Hf. apply in_flat_map. exists x. split; [exact Hin|]. rewrite Hf. now left.
Qed.

Lemma one_part_name k e p : one_part k e = Some p -> part_name p = e_name e /\ pk p = tagk "one" k "".
Proof. unfold one_part. destruct (e_value e) as [s|n|b|s|[[b f]|]]; intro H; try discriminate; injection H as <-; split; reflexivity. Qed.

Lemma filter_map_names k es :
  NoDup (map e_name es) -> NoDup (map part_name (filter_map (one_part k) es)).
Proof.
  unfold filter_map. induction es as [|e r IH]; intro H; [constructor|]. inversion H as [|? ? Hnot Hr]; subst. cbn [flat_map].
  destruct (one_part k e) as [p|] eqn:Ep; [|exact (IH Hr)]. cbn [app map]. constructor; [|exact (IH Hr)].
  destruct (one_part_name k e p Ep) as [Hn _]. rewrite Hn. intro Hin. apply Hnot.
  apply in_map_iff in Hin. destruct Hin as (q & Hq & Hi). apply in_flat_map in Hi. destruct Hi as (e' & He' & Hq').
  destruct (one_part k e') as [q'|] eqn:Eq'; [|destruct Hq']. destruct Hq' as [<-|[]].
  destruct (one_part_name k e' q' Eq') as [Hn' _]. rewrite <- Hq, Hn'. apply in_map. exact He'.
Qed.

(* ---------- a published payload, end to end ---------- *)
Theorem published_blob_end_to_end s c e d vn i b f g v el :
  one_client s c (d_name d) -> cl_in_ctl c = [] -> cl_in_blob c = [] ->
  find_dev s e = Some d -> e <> cl_ctl c -> e <> cl_blob c ->
  dev_ok d -> net_synced (cl_mirror c) d ->
  find_gv vn (d_groups d) = Some (g, v) -> v_kind v = KBlob -> vec_on g v = true ->
  nth_error (v_elems v) i = Some el -> e_enabled el = true -> forallb is_byte b = true ->
  exists c' cv ce,
    sy_cls (sstep s (SDrv e (OAssign vn i (VBlob (Some (b, f)))))) = [c'] /\
    get_vec (cl_mirror c') (d_name d) vn = Some cv /\
    dget ce_name (e_name el) (cv_elems cv) = Some ce /\ ce_value ce = CBlob b f.
Proof.
  intros O I1 I2 Fd H1 H2 D (mi0 & S0 & Em & K0) Fg Kb Hon Hel Hen Hb.
  pose proof D as [Dn Dv]. destruct (find_gv_in _ _ _ _ Fg) as [Hin Hvn]. fold (all_vecs d) in Hin.
  destruct (Dv g v Hin) as [[Wn Wt] Nh].
  set (x := VBlob (Some (b, f))).
  (* what the driver publishes: one update of the property *)
  set (v1 := with_elems v (store v i x)).
  assert (Nh1 : no_handlers v1) by (unfold no_handlers, v1; cbn [v_elems with_elems]; exact (proj2 (store_frame v i x) Nh)).
  assert (Hon1 : vec_on g v1 = true) by exact Hon.
  set (m := {| mk := tagk "set" (v_kind v1) "Vector";
               ma := [attr "device" (d_name d); attr "name" (v_name v1); attr "state" (v_state v1)] ++
                     match v_kind v1 with KLight => [] | _ => [attr "timeout" (v_timeout v1)] end;
               mv := None; mc := Some (filter_map (one_part (v_kind v1)) (filter e_enabled (v_elems v1))) |}).
  assert (Sm : set_msg d g v1 = Some m) by (unfold set_msg; rewrite Hon1; reflexivity).
  assert (St : step d (OAssign vn i x) = on_vec d vn (fun g v => assign d g v i x)) by reflexivity.
  destruct (on_vec_result d vn (fun g v => assign d g v i x) Dn (fun g0 v0 => assign_name d g0 v0 i x) g v Fg) as [_ Tr].
  assert (Pb : pubs (snd (step d (OAssign vn i x))) = [m]).
  { rewrite St, Tr, (assign_nh d g v i x el Nh Hel). fold v1. rewrite (publish_set_nh d g v1 Nh1), Sm. reflexivity. }
  assert (Ab : about (d_name d) vn m) by (rewrite <- Hvn; exact (set_msg_about d g v1 m Sm)).
  assert (Kc : dget cd_name (d_name d) (cl_mirror c) <> None).
  { rewrite Em. unfold nm. rewrite (dget_map cd_name nm_dev (fun _ => eq_refl)). destruct (dget cd_name (d_name d) mi0); [discriminate|contradiction]. }
  destruct (driver_operation_is_delivered s c (d_name d) e d (OAssign vn i x) O I1 I2 Kc Fd eq_refl H1 H2
              ltac:(rewrite Pb; constructor; [exists vn; exact Ab|constructor])) as (c' & Cls & Mir & _).
  rewrite Pb in Mir. unfold delivered_stream in Mir.
  assert (Bm : is_blob_msg m = true) by (unfold is_blob_msg, m; cbn [mk v_kind v1 with_elems]; rewrite Kb; reflexivity).
  cbn [filter map] in Mir. rewrite Bm in Mir. cbn [negb filter map app] in Mir. cbn [feed fold_left] in Mir.
  (* the entry the client has for the property *)
  pose proof (sy_entries _ _ S0 g v Hin) as E0. unfold entry_ok, target in E0. rewrite Hon in E0.
  destruct (get_vec mi0 (d_name d) (v_name v)) as [c0|] eqn:Eg; [|discriminate]. cbn [option_map] in E0. injection E0 as E0.
  assert (Kc0 : cv_kind c0 = KBlob) by (rewrite <- blind_kind, E0, blind_kind, (shown_kind d g v Hon Wn); exact Kb).
  rewrite (shown_fields d g v Hon Wn) in E0. unfold blind in E0. cbn [cv_kind] in E0. rewrite Kb, Kc0 in E0.
  injection E0 as E1 _ _ _ _ E7.
  assert (Names : map ce_name (cv_elems c0) = map e_name (filter e_enabled (v_elems v))).
  { rewrite <- erase_names, E7, erase_names, map_map. reflexivity. }
  assert (Gv : get_vec (cl_mirror c) (d_name d) vn = Some (nm_vec c0)) by (rewrite Em, get_vec_nm, <- Hvn, Eg; reflexivity).
  assert (Nd0 : NoDup (map ce_name (cv_elems (nm_vec c0)))).
  { cbn [cv_elems nm_vec]. rewrite map_map. cbn [ce_name nm_elem]. change (map (fun x0 => ce_name x0) (cv_elems c0)) with (map ce_name (cv_elems c0)).
    rewrite Names. apply nodup_filter_names, Wn. }
  pose proof (update_effect (cl_mirror c) (wire m) KBlob (d_name d) vn (nm_vec c0)) as U.
  assert (M1 : def_kind (mk (wire m)) = None) by (cbn [mk wire norm_msg m v_kind v1 with_elems]; rewrite Kb; reflexivity).
  assert (M2 : set_kind (mk (wire m)) = Some KBlob) by (cbn [mk wire norm_msg m v_kind v1 with_elems]; rewrite Kb; reflexivity).
  assert (M3 : attr_of "device" (ma (wire m)) = Some (d_name d)) by reflexivity.
  assert (M4 : attr_of "name" (ma (wire m)) = Some vn) by (destruct Ab as (_ & A2 & _); exact A2).
  specialize (U M1 M2 M3 M4 Gv ltac:(cbn [cv_kind nm_vec]; rewrite Kc0; reflexivity) Nd0).
  rewrite <- Mir in U.
  (* the element *)
  assert (Hel1 : exists el1, In el1 (filter e_enabled (v_elems v1)) /\ e_name el1 = e_name el /\ e_value el1 = x).
  { exists (set_value_of el x). split; [|split; [destruct el; reflexivity|destruct el; reflexivity]].
    apply filter_In. split; [|destruct el; exact Hen]. unfold v1. cbn [v_elems with_elems]. rewrite (store_put v i x I).
    pose proof (nth_put_at (v_elems v) 0 i x el) as Np. rewrite Nat.sub_0_r in Np. exact (nth_error_In _ _ (Np Hel ltac:(lia))). }
  destruct Hel1 as (el1 & In1 & Nm1 & Vl1).
  destruct (published_blob_is_received KBlob el1 b f Hb Vl1) as (p & Hp & Hc & Hpn).
  set (ch := match mc (wire m) with Some l => l | None => [] end) in *.
  assert (Hch : ch = map norm_part (filter_map (one_part KBlob) (filter e_enabled (v_elems v1)))) by (unfold ch, m; cbn [mc wire norm_msg v_kind v1 with_elems]; rewrite Kb; reflexivity).
  assert (Inp : In (norm_part p) ch) by (rewrite Hch; apply in_map; exact (in_filter_map _ _ el1 p In1 Hp)).
  assert (Ndp : NoDup (map part_name ch)).
  { rewrite Hch, map_map. change (map (fun x0 => part_name (norm_part x0)) _) with (map part_name (filter_map (one_part KBlob) (filter e_enabled (v_elems v1)))).
    apply filter_map_names, nodup_filter_names. unfold v1. cbn [v_elems with_elems]. exact (forall2_nodup _ _ (proj1 (store_frame v i x)) Wn). }
  (* the client's element of that name *)
  assert (Hce : exists ce0, dget ce_name (e_name el) (cv_elems (nm_vec c0)) = Some ce0).
  { assert (In (e_name el) (map ce_name (cv_elems (nm_vec c0)))).
    { cbn [cv_elems nm_vec]. rewrite map_map. change (map (fun x0 => ce_name (nm_elem x0)) (cv_elems c0)) with (map ce_name (cv_elems c0)).
      rewrite Names. apply in_map. apply filter_In. split; [exact (nth_error_In _ _ Hel)|exact Hen]. }
    clear -H. induction (cv_elems (nm_vec c0)) as [|a l IH]; [destruct H|]. cbn [dget]. destruct (str_eqb (ce_name a) (e_name el)) eqn:E; [eauto|].
    apply IH. destruct H as [H|H]; [apply str_eqb_neq in E; congruence|exact H]. }
  destruct Hce as (ce0 & Hce0). pose proof (dget_key ce_name _ _ _ Hce0) as Hn0.
  exists c'. eexists. eexists. split; [exact Cls|]. split; [exact U|].
  cbn [cv_elems with_celems]. rewrite fold_maps.
  rewrite (dget_map ce_name (fun c1 => fold_left (fun c2 p0 => upd_celem KBlob p0 c2) ch c1) (fold_upd_name KBlob ch)).
  rewrite Hce0. cbn [option_map]. split; [reflexivity|].
  rewrite (fold_parts_hit KBlob ch Ndp (norm_part p) ce0 (CBlob b f) Inp).
  - reflexivity.
  - rewrite part_name_norm, Hpn, Nm1, Hn0. reflexivity.
  - cbn [pk norm_part]. destruct (one_part_name KBlob el1 p Hp) as [_ ->]. reflexivity.
  - rewrite new_cval_norm, Hc. reflexivity.
Qed.

(* ---------- an uploaded payload, end to end ---------- *)
Lemma value_of_child_blob_norm p : value_of_child KBlob (norm_part p) = value_of_child KBlob p.
Proof.
  cbn [value_of_child norm_part pv pa].
  assert (E : match norm_value (pv p) with Some s => s | None => [] end = match pv p with Some s => s | None => [] end)
    by (destruct (pv p) as [[|c0 r]|]; reflexivity).
  rewrite E. reflexivity.
Qed.

Lemma nh_calm v : no_handlers v -> calm v.
Proof.
  unfold no_handlers, calm. intro H. eapply Forall_impl; [|exact H]. intros e0 He. unfold calm_elem, quiet_elem. rewrite He. split; reflexivity.
Qed.

(* the server side of a submitted write, whatever it makes the driver publish *)
Theorem client_write_reaches_driver s c e d vn a m :
  one_client s c (d_name d) -> one_device s e d -> sy_cls s = [c] ->
  cl_in_ctl c = [] -> cl_in_blob c = [] -> e <> cl_ctl c -> e <> cl_blob c ->
  dev_ok d -> net_synced (cl_mirror c) d ->
  submit_msg (cl_mirror c) (d_name d) vn a = Some m -> client_msg (d_name d) (wire m) ->
  exists c',
    sy_cls (sstep s (SWrite 0 (d_name d) vn a)) = [c'] /\
    find_dev (sstep s (SWrite 0 (d_name d) vn a)) e = Some (fst (from_client d (wire m))) /\
    cl_in_ctl c' = [] /\ cl_in_blob c' = [].
Proof.
  intros O Od Cls I1 I2 H1 H2 D (mi0 & S0 & Em & K0) Sm Cm.
  destruct (step_synced d (OFromClient (wire m)) mi0 D S0 I) as (D1 & S1 & N1 & Ab). cbn [step] in *.
  destruct (from_client d (wire m)) as [d' tr] eqn:Ef. cbn [fst snd] in *.
  set (s0 := set_dev s e d').
  assert (Fd0 : find_dev s0 e = Some d').
  { unfold s0, find_dev, set_dev. cbn [sy_devs]. destruct Od as [_ Od]. rewrite Od. cbn [map find fst]. rewrite N.eqb_refl. cbn [fst find]. rewrite N.eqb_refl. reflexivity. }
  assert (Kc : dget cd_name (d_name d) (cl_mirror c) <> None).
  { rewrite Em. unfold nm. rewrite (dget_map cd_name nm_dev (fun _ => eq_refl)). destruct (dget cd_name (d_name d) mi0); [discriminate|contradiction]. }
  destruct (enq_all_inboxes (pubs tr) c) as (Ic & Ib & Im & In_ & Ictl & Iblob). rewrite I1 in Ic. rewrite I2 in Ib. cbn [app] in Ic, Ib.
  pose proof O as [Cls' Net Clients Diff Pc Pb].
  cbn [sstep]. rewrite Cls. cbn [nth_error]. rewrite Sm, Net.
  change (cascade FUEL s (wire m) (Some (cl_ctl c))) with (cascade (S (S 62)) s (wire m) (Some (cl_ctl c))).
  rewrite (cascade_client_msg 62 s c e d (wire m) O Od Cm H1 H2 ltac:(rewrite Ef; exact Ab)). rewrite Ef. cbn [fst snd]. cbv zeta. fold s0.
  remember (if pubs tr then s0 else set_client s0 (enq_all c (pubs tr))) as s1 eqn:Es1.
  assert (Cls1 : sy_cls s1 = [enq_all c (pubs tr)]).
  { rewrite Es1. destruct (pubs tr) eqn:Ep; [cbn [enq_all fold_left]; unfold s0, set_dev; cbn [sy_cls]; exact Cls|reflexivity]. }
  assert (Sd1 : sy_devs s1 = sy_devs s0) by (rewrite Es1; destruct (pubs tr); reflexivity).
  change FUEL with (S 63).
  destruct (settle_one 63 s1 (enq_all c (pubs tr)) (d_name d) Cls1 ltac:(rewrite In_; exact Net) ltac:(rewrite Im; exact Kc)
              ltac:(rewrite Ic; apply forall_map_wire, forall_filter, Ab) ltac:(rewrite Ib; apply forall_map_wire, forall_filter, Ab)) as [R|(E1 & E2 & R)];
    rewrite R.
  - eexists. split; [reflexivity|]. split; [unfold find_dev; cbn [sy_devs]; rewrite Sd1; exact Fd0|]. split; reflexivity.
  - exists (enq_all c (pubs tr)). split; [exact Cls1|]. split; [unfold find_dev; rewrite Sd1; exact Fd0|]. split; assumption.
Qed.

(* what the driver holds after a client's message that names a BLOB property and one of its elements *)
Theorem uploaded_blob_is_held d vn en b f g v el i :
  dev_ok d -> find_gv vn (d_groups d) = Some (g, v) -> v_kind v = KBlob ->
  nth_error (v_elems v) i = Some el -> e_name el = en -> forallb is_byte b = true ->
  forall m, mk m = s2l "newBLOBVector" -> lookup (s2l "name") (ma m) = Some vn ->
            mc m = Some [norm_part (new_part KBlob en (WBlob b f))] ->
  exists v', find_vec vn (fst (from_client d m)) = Some v' /\
             exists el', nth_error (v_elems v') i = Some el' /\ e_name el' = en /\ e_value el' = VBlob (Some (b, f)).
Proof.
  intros [Dn Dv] Fg Kb Hel Hen Hb m Hk Hn Hc.
  destruct (find_gv_in _ _ _ _ Fg) as [Hin Hvn]. fold (all_vecs d) in Hin. destruct (Dv g v Hin) as [[Wn Wt] Nh].
  unfold from_client. rewrite Hk.
  assert (str_eqb (s2l "newBLOBVector") (s2l "getProperties") = false) as -> by reflexivity.
  assert (kind_of_new (s2l "newBLOBVector") = Some KBlob) as -> by reflexivity. rewrite Hn, Hc.
  set (F := fun g0 v0 => if vkind_eqb KBlob (v_kind v0) then apply_children d g0 v0 [norm_part (new_part KBlob en (WBlob b f))] else (v0, [])).
  assert (Hname : forall g0 v0, v_name (fst (F g0 v0)) = v_name v0).
  { intros g0 v0. unfold F. destruct (vkind_eqb KBlob (v_kind v0)); [apply apply_children_name|reflexivity]. }
  destruct (on_vec_result d vn F Dn Hname g v Fg) as [R _]. rewrite R. eexists. split; [reflexivity|].
  unfold F. rewrite Kb. cbn [vkind_eqb].
  rewrite (write_effect d g v _ (nh_calm v Nh) Wn ltac:(rewrite Kb; discriminate)). cbn [v_elems with_elems].
  rewrite nth_error_map, Hel. cbn [option_map]. eexists. split; [reflexivity|]. split; [destruct el; exact Hen|].
  destruct el as [ek enm elb een ev ef emin emax est eh]. cbn [e_value set_value_of e_name] in *. subst enm.
  rewrite Kb. unfold final_value. cbn [fold_left e_name e_value]. unfold child_value.
  assert (lookup (s2l "name") (pa (norm_part (new_part KBlob en (WBlob b f)))) = Some en) as -> by reflexivity.
  rewrite str_eqb_refl, value_of_child_blob_norm.
  change (value_of_child KBlob (new_part KBlob en (WBlob b f))) with
    (value_of_child KBlob {| pk := tagk "one" KBlob ""; pa := [attr "name" en; attr "size" (print_dec (N.of_nat (List.length b))); attr "format" f]; pv := Some (encode b) |}).
  rewrite (uploaded_blob_arrives_intact en b f Hb). reflexivity.
Qed.
