(* C01 + C06 in the composed system model: ANY history in which the driver performs operations and the
   connected client writes, in any order, keeps the connection invariant - one client with the library's
   policies, one driver, nothing in flight, the client's mirror in sync with the device. *)
From Coq Require Import List NArith Bool String Lia.
Import ListNotations.
From Indi Require Import Base.Sx Msg.Equality Msg.RegOk Msg.Codec Router.Model Router.Props Driver.Model Driver.Props
     Client.Model Client.Props Client.Norm System.Model System.Converge System.Ops System.Deliver System.Handshake
     System.WriteE2E System.Reorder System.Orderly.

Record connected (s : sys) (c : client) (e : ep) (d : dev) : Prop := {
  cn_client : one_client s c (d_name d);
  cn_device : one_device s e d;
  cn_ctl : cl_in_ctl c = [];
  cn_blob : cl_in_blob c = [];
  cn_e1 : e <> cl_ctl c;
  cn_e2 : e <> cl_blob c;
  cn_dev : dev_ok d;
  cn_sync : net_synced (cl_mirror c) d
}.

Lemma known_of_synced mi d : net_synced mi d -> dget cd_name (d_name d) mi <> None.
Proof.
  intros (mi0 & _ & -> & K0). unfold nm. rewrite (dget_map cd_name nm_dev (fun _ => eq_refl)).
  destruct (dget cd_name (d_name d) mi0); [discriminate|contradiction].
Qed.

Lemma set_dev_one s e d d' : sy_devs s = [(e, d)] -> sy_devs (set_dev s e d') = [(e, d')].
Proof. intro H. unfold set_dev. cbn [sy_devs]. rewrite H. cbn [map fst]. now rewrite N.eqb_refl. Qed.

(* what the client takes in from its two connections leaves it in sync, whatever the operation published *)
Lemma sync_after mi0 c c' d d' pubs0 :
  synced mi0 d -> cl_mirror c = nm mi0 -> dget cd_name (d_name d) mi0 <> None ->
  synced (feed mi0 pubs0) d' -> d_name d' = d_name d ->
  Forall (fun m => exists vn, about (d_name d) vn m) pubs0 -> blob_updates_last (d_name d) pubs0 ->
  cl_mirror c' = feed (cl_mirror c) (delivered_stream pubs0) ->
  net_synced (cl_mirror c') d'.
Proof.
  intros S0 Em K0 S1 N1 Ab Bl Mir. pose proof (sy_wf _ _ S0) as W0.
  exists (feed mi0 (two_connections pubs0)). split; [|split].
  - apply (synced_ext (feed mi0 pubs0)); [apply feed_wf, W0| |exact S1].
    apply same_view_sym. exact (two_connections_same_view (d_name d) _ mi0 Bl W0).
  - rewrite Mir, Em, delivered_is_two_connections. unfold feed, wire. apply feed_norm.
  - rewrite N1. apply feed_known; [exact K0|]. apply all_about_two_connections. exact Ab.
Qed.

(* a driver-side operation *)
Theorem driver_step_keeps_connected s c e d o :
  connected s c e d -> op_typed d o ->
  exists c', connected (sstep s (SDrv e o)) c' e (fst (step d o)).
Proof.
  intros [O Od I1 I2 H1 H2 D S] T.
  pose proof (find_dev_one s e d (od_devs _ _ _ Od)) as Fd.
  destruct (network_client_stays_in_sync_two_connections s c e d o O I1 I2 Fd H1 H2 D T S (step_orderly d o D T))
    as (c' & Cls & S1 & D1 & Fd' & O1 & J1 & J2 & F2 & F3).
  destruct S as (mi0 & S0 & Em & K0).
  destruct (step_synced d o mi0 D S0 T) as (_ & _ & N1 & Ab).
  pose proof (driver_operation_devs s c (d_name d) e d o O I1 I2 (known_of_synced _ _ (ex_intro _ mi0 (conj S0 (conj Em K0)))) Fd eq_refl H1 H2 Ab) as Dv.
  destruct (driver_operation_is_delivered s c (d_name d) e d o O I1 I2 (known_of_synced _ _ (ex_intro _ mi0 (conj S0 (conj Em K0)))) Fd eq_refl H1 H2 Ab)
    as (c2 & Cls2 & _ & _ & _ & _ & Sr & _).
  exists c'. constructor; try assumption.
  - constructor.
    + rewrite Sr, N1. exact (od_router _ _ _ Od).
    + rewrite Dv. exact (set_dev_one s e d _ (od_devs _ _ _ Od)).
  - rewrite F2. exact H1.
  - rewrite F3. exact H2.
Qed.

(* a write by the client: assign and submit *)
Theorem client_write_keeps_connected s c e d vn a :
  connected s c e d ->
  (forall m, submit_msg (cl_mirror c) (d_name d) vn a = Some m -> client_msg (d_name d) (wire m)) ->
  exists c' d', connected (sstep s (SWrite 0 (d_name d) vn a)) c' e d' /\
    match submit_msg (cl_mirror c) (d_name d) vn a with
    | Some m => d' = fst (from_client d (wire m))
    | None => d' = d
    end.
Proof.
  intros Cn Hc. pose proof Cn as [O Od I1 I2 H1 H2 D S].
  pose proof (oc_cls _ _ _ O) as Cls.
  destruct (submit_msg (cl_mirror c) (d_name d) vn a) as [m|] eqn:Sm.
  - specialize (Hc m eq_refl).
    destruct S as (mi0 & S0 & Em & K0).
    assert (T : op_typed d (OFromClient (wire m))) by exact I.
    destruct (step_synced d (OFromClient (wire m)) mi0 D S0 T) as (D1 & S1 & N1 & Ab). cbn [step] in *.
    pose proof (step_orderly d (OFromClient (wire m)) D T) as Bl. cbn [step] in Bl.
    pose proof (known_of_synced _ _ (ex_intro _ mi0 (conj S0 (conj Em K0)))) as Kc.
    destruct (client_write_delivered s c e d vn a m O Od Cls I1 I2 H1 H2 Kc Sm Hc Ab)
      as (c' & F1 & F2 & F3 & F4 & F5 & F6 & G1 & G2 & G3).
    exists c', (fst (from_client d (wire m))). split; [|reflexivity].
    pose proof O as [_ Net Clients Diff Pc Pb].
    constructor.
    + constructor; rewrite ?F3, ?G1, ?G2, ?G3, ?N1; assumption.
    + constructor; [rewrite F3, N1; exact (od_router _ _ _ Od)|rewrite F2; exact (set_dev_one s e d _ (od_devs _ _ _ Od))].
    + exact F5.
    + exact F6.
    + rewrite G2. exact H1.
    + rewrite G3. exact H2.
    + exact D1.
    + exact (sync_after mi0 c c' d _ _ S0 Em K0 S1 N1 Ab Bl F4).
  - exists c, d. split; [|reflexivity]. cbn [sstep]. rewrite Cls. cbn [nth_error]. rewrite Sm. exact Cn.
Qed.

(* ---------- any history ---------- *)
Inductive event := EDrv (o : dop) | EWrite (vn : str) (a : list (str * wval)).

Definition sop_of (e : ep) (dn : str) (ev : event) : sop :=
  match ev with EDrv o => SDrv e o | EWrite vn a => SWrite 0 dn vn a end.

(* what is asked of the events, as the system stands when each of them happens: driver-side values are of
   the property's kind; the client writes only properties that can be written (not lights) *)
Fixpoint admissible (e : ep) (s : sys) (evs : list event) : Prop :=
  match evs with
  | [] => True
  | ev :: r =>
      (forall c d, sy_cls s = [c] -> find_dev s e = Some d ->
         match ev with
         | EDrv o => op_typed d o
         | EWrite vn a => forall m, submit_msg (cl_mirror c) (d_name d) vn a = Some m -> client_msg (d_name d) (wire m)
         end) /\
      (forall d, find_dev s e = Some d -> admissible e (sstep s (sop_of e (d_name d) ev)) r)
  end.

Theorem every_history_keeps_connected evs : forall s c e d,
  connected s c e d -> admissible e s evs ->
  exists c' d', connected (fold_left (fun s ev => sstep s (sop_of e (d_name d) ev)) evs s) c' e d' /\ d_name d' = d_name d.
Proof.
  induction evs as [|ev r IH]; intros s c e d Cn Ad; [exists c, d; split; [exact Cn|reflexivity]|].
  destruct Ad as [A1 A2]. cbn [fold_left].
  pose proof (oc_cls _ _ _ (cn_client _ _ _ _ Cn)) as Cls.
  pose proof (find_dev_one s e d (od_devs _ _ _ (cn_device _ _ _ _ Cn))) as Fd.
  specialize (A1 c d Cls Fd). specialize (A2 d Fd).
  destruct ev as [o|vn a]; cbn [sop_of] in *.
  - destruct (driver_step_keeps_connected s c e d o Cn A1) as (c1 & Cn1).
    assert (N1 : d_name (fst (step d o)) = d_name d).
    { destruct (cn_sync _ _ _ _ Cn) as (mi0 & S0 & _). exact (proj1 (proj2 (proj2 (step_synced d o mi0 (cn_dev _ _ _ _ Cn) S0 A1)))). }
    destruct (IH _ c1 e _ Cn1 A2) as (c' & d' & Cn' & Nm).
    exists c', d'. rewrite N1 in Cn', Nm. split; [exact Cn'|exact Nm].
  - destruct (client_write_keeps_connected s c e d vn a Cn A1) as (c1 & d1 & Cn1 & Hd).
    assert (N1 : d_name d1 = d_name d).
    { destruct (submit_msg (cl_mirror c) (d_name d) vn a) as [m|]; subst d1; [|reflexivity].
      destruct (cn_sync _ _ _ _ Cn) as (mi0 & S0 & _).
      exact (proj1 (proj2 (proj2 (step_synced d (OFromClient (wire m)) mi0 (cn_dev _ _ _ _ Cn) S0 I)))). }
    destruct (IH _ c1 e d1 Cn1 A2) as (c' & d' & Cn' & Nm).
    exists c', d'. rewrite N1 in Cn', Nm. split; [exact Cn'|exact Nm].
Qed.

(* ---------- from the moment the client connects ---------- *)
Theorem connect_then_any_history s c e d evs :
  fresh s c e d -> dev_ok d -> (exists g v, In (g, v) (all_vecs d) /\ vec_on g v = true) ->
  admissible e (sstep s (SHandshake 0)) evs ->
  exists c' d',
    connected (fold_left (fun s ev => sstep s (sop_of e (d_name d) ev)) evs (sstep s (SHandshake 0))) c' e d' /\
    d_name d' = d_name d.
Proof.
  intros F D Vis Ad.
  destruct (handshake_connects_and_syncs s c e d F D Vis) as (c1 & Cls & O1 & I1 & I2 & S1 & Fd & E1 & E2 & Od).
  assert (Cn : connected (sstep s (SHandshake 0)) c1 e d).
  { constructor; try assumption; [rewrite E1; exact (fr_e1 _ _ _ _ F)|rewrite E2; exact (fr_e2 _ _ _ _ F)]. }
  exact (every_history_keeps_connected evs _ c1 e d Cn Ad).
Qed.
