(* C08: BLOB payloads through the models of driver, router, wire and client *)
From Coq Require Import List NArith ZArith Bool String.
Import ListNotations.
From Indi Require Import Base.Sx Msg.Equality Msg.Registry Msg.Model B64.Model Num.Model Num.Props Router.Model Router.Props
     Driver.Model Client.Model Buffer.Model Buffer.Run Generated.RegistryData.

(* what the driver publishes for a BLOB element decodes, at the client, to the same bytes and format *)
Lemma published_blob_is_received k e b f :
  forallb is_byte b = true -> e_value e = VBlob (Some (b, f)) ->
  exists p, one_part k e = Some p /\ new_cval KBlob p = Some (CBlob b f) /\ part_name p = e_name e.
Proof.
  intros Hb Hv. unfold one_part. rewrite Hv. eexists. split; [reflexivity|]. split; [|reflexivity].
  unfold new_cval. cbn [pv pa]. rewrite (b64_roundtrip b Hb).
  assert (L1 : attr_of "size" [attr "name" (e_name e); attr "size" (print_dec (N.of_nat (List.length b))); attr "format" f]
               = Some (print_dec (N.of_nat (List.length b)))) by reflexivity.
  assert (L2 : attr_of "format" [attr "name" (e_name e); attr "size" (print_dec (N.of_nat (List.length b))); attr "format" f] = Some f) by reflexivity.
  rewrite L1, L2, print_dec_val.
  pose proof (print_dec_nonempty (N.of_nat (List.length b))) as Hne.
  destruct (print_dec (N.of_nat (List.length b))) as [|c0 r]; [contradiction|]. cbn [negb andb]. rewrite N.eqb_refl. reflexivity.
Qed.

(* an unset BLOB is left out of the update: nothing to decode, nothing to stall on *)
Lemma unset_blob_is_left_out k e : e_value e = VBlob None -> one_part k e = None.
Proof. intro H. unfold one_part. rewrite H. reflexivity. Qed.

(* the router hands a BLOB update to a client only if its policy for the device is Also or Only,
   and anything else only if it is Never (or unset) or Also *)
Lemma blob_update_needs_enabled_policy s m sender c :
  r_blob m = true -> In (ToCl c) (snd (Router.Model.process s m sender)) ->
  policy_of (fst (Router.Model.process s m sender)) c (r_dev m) <> Never.
Proof.
  intros Hb H. apply to_client_iff in H. destruct H as (_ & _ & _ & Ha). rewrite Hb in Ha.
  intro E. rewrite E in Ha. discriminate.
Qed.

Lemma only_policy_gets_nothing_but_blobs s m sender c :
  r_blob m = false -> In (ToCl c) (snd (Router.Model.process s m sender)) ->
  policy_of (fst (Router.Model.process s m sender)) c (r_dev m) <> Only.
Proof.
  intros Hb H. apply to_client_iff in H. destruct H as (_ & _ & _ & Ha). rewrite Hb in Ha.
  intro E. rewrite E in Ha. discriminate.
Qed.

(* K1 in the model: a message longer than the threshold that arrives in two reads is destroyed by a
   threshold-enabled buffer and delivered by one without threshold (concrete XML and message models, live tags) *)
Definition k1_message : str := s2l "<getProperties version=""1.7"" device=""CAMERA"" name=""CCD_EXPOSURE""/>".
Definition k1_pieces : list str := [firstn 40 k1_message; skipn 40 k1_message].

Definition delivered (thr : option nat) (pieces : list str) : nat :=
  List.length (flat_map (fun om => snd om) (fst (feed msg concrete_parse (rbuffer_tags live_registry) thr [] pieces))).

Lemma long_message_on_a_threshold_link :
  delivered (Some 32%nat) k1_pieces = 0%nat /\ delivered None k1_pieces = 1%nat /\ delivered (Some 32%nat) [k1_message] = 1%nat.
Proof. vm_compute. repeat split; reflexivity. Qed.
