(* C01, several drivers at once: a client's view of one device depends on the messages about that
   device alone, in their order - however the streams of several drivers are interleaved on the way
   to the client.  Hence, if each driver's own stream is its handshake answer followed by what its
   history of operations publishes, the client ends in sync with every one of them. *)
From Coq Require Import List NArith Bool String Lia.
Import ListNotations.
From Indi Require Import Base.Sx Msg.Equality Msg.Model Driver.Model Driver.Props Client.Model Client.Props
  System.Converge System.Ops System.Model System.Deliver System.Reorder.

Definition device_of (m : msg) : option str := attr_of "device" (ma m).
Definition from_device (dn : str) (m : msg) : bool :=
  match device_of m with Some d => str_eqb d dn | None => false end.

Definition same_device_view (dn : str) (a b : mirror) : Prop := forall v, get_vec a dn v = get_vec b dn v.

Lemma about_device dn vn m : about dn vn m -> device_of m = Some dn.
Proof. intros (H & _). exact H. Qed.

(* a message about device dn: both mirrors take it, and still agree on dn *)
Lemma step_both dn vn m a b :
  about dn vn m -> mirror_wf a -> mirror_wf b -> same_device_view dn a b ->
  same_device_view dn (mirror_of (apply a m)) (mirror_of (apply b m)).
Proof.
  intros Ab Wa Wb V v. destruct (list_eq_dec N.eq_dec v vn) as [->|Hv].
  - exact (apply_local m dn vn a b Ab Wa Wb (V vn)).
  - rewrite !(apply_frame _ m dn vn dn v Ab) by (assumption || (right; exact Hv)). apply V.
Qed.

(* a message about another device: the left mirror takes it, the right one does not; they still agree on dn *)
Lemma step_left dn d' vn m a b :
  about d' vn m -> d' <> dn -> mirror_wf a -> same_device_view dn a b -> same_device_view dn (mirror_of (apply a m)) b.
Proof.
  intros Ab Hd Wa V v. rewrite (apply_frame a m d' vn dn v Ab Wa) by (left; congruence). apply V.
Qed.

Theorem view_of_a_device_is_its_own_stream dn ms : forall a b,
  Forall (fun m => exists d v, about d v m) ms -> mirror_wf a -> mirror_wf b -> same_device_view dn a b ->
  same_device_view dn (feed a ms) (feed b (filter (from_device dn) ms)).
Proof.
  induction ms as [|m ms IH]; intros a b Hall Wa Wb V; [exact V|].
  inversion Hall as [|? ? (d' & vn & Ab) Hr]; subst. cbn [feed fold_left filter].
  unfold from_device at 1. rewrite (about_device d' vn m Ab).
  destruct (str_eqb d' dn) eqn:E.
  - apply str_eqb_spec in E. subst d'. cbn [feed fold_left].
    apply (IH (mirror_of (apply a m)) (mirror_of (apply b m)) Hr (apply_wf a m Wa) (apply_wf b m Wb)).
    exact (step_both dn vn m a b Ab Wa Wb V).
  - apply str_eqb_neq in E. apply (IH (mirror_of (apply a m)) b Hr (apply_wf a m Wa) Wb).
    exact (step_left dn d' vn m a b Ab E Wa V).
Qed.

Lemma synced_ext_device a b d :
  mirror_wf b -> same_device_view (d_name d) a b -> synced a d -> synced b d.
Proof.
  intros W V [Sw Se So]. constructor; [exact W| |].
  - intros g v Hin. unfold entry_ok. rewrite <- V. exact (Se g v Hin).
  - intros vn H. apply So. rewrite V. exact H.
Qed.

(* what one driver sends to a client that connects and then watches: the answer to its handshake, then
   everything its history of operations publishes *)
Definition stream_of (d : dev) (ops : list dop) : list msg :=
  pubs (snd (from_client d (getprops None None))) ++ pubs (List.concat (snd (run d ops))).

Lemma history_about ops : forall d mi,
  dev_ok d -> synced mi d -> ops_typed d ops ->
  Forall (fun m => exists vn, about (d_name d) vn m) (pubs (List.concat (snd (run d ops)))).
Proof.
  induction ops as [|o r IH]; intros d mi D S T; [constructor|].
  destruct T as [T1 T2]. cbn [run]. destruct (step_synced d o mi D S T1) as (D1 & S1 & N1 & Ab).
  destruct (step d o) as [d1 tr] eqn:Es. cbn [fst snd] in *.
  specialize (IH d1 _ D1 S1 T2). destruct (run d1 r) as [d2 trs]. cbn [fst snd List.concat] in *.
  rewrite pubs_app. apply Forall_app. split; [exact Ab|]. rewrite <- N1. exact IH.
Qed.

Lemma stream_about d ops : dev_ok d -> ops_typed d ops ->
  Forall (fun m => exists vn, about (d_name d) vn m) (stream_of d ops) /\
  synced (feed [] (stream_of d ops)) (fst (run d ops)).
Proof.
  intros D T.
  assert (S0 : synced (feed [] (pubs (snd (from_client d (getprops None None))))) d).
  { apply handshake_synced; [exact D|intros cd []|reflexivity]. }
  assert (A0 : Forall (fun m => exists vn, about (d_name d) vn m) (pubs (snd (from_client d (getprops None None))))).
  { assert (Tg : op_typed d (OFromClient (getprops None None))) by exact I.
    exact (proj2 (proj2 (proj2 (step_synced d (OFromClient (getprops None None)) _ D S0 Tg)))). }
  destruct (history_synced ops d _ D S0 T) as (D1 & S1 & R).
  unfold stream_of. split.
  - apply Forall_app. split; [exact A0|]. exact (history_about ops d _ D S0 T).
  - rewrite feed_app. exact S1.
Qed.

(* SEVERAL DRIVERS.  ds: the drivers with their histories, names pairwise different.  ms: anything the client
   receives such that, for every driver, the messages naming it are - in order - exactly that driver's stream
   (an arbitrary interleaving of the streams).  Then the client, starting with nothing, ends in sync with every
   driver as its history leaves it. *)
Theorem several_drivers_at_once (ds : list (dev * list dop)) (ms : list msg) :
  (forall d ops, In (d, ops) ds -> dev_ok d /\ ops_typed d ops) ->
  Forall (fun m => exists d v, about d v m) ms ->
  (forall d ops, In (d, ops) ds -> filter (from_device (d_name d)) ms = stream_of d ops) ->
  forall d ops, In (d, ops) ds -> synced (feed [] ms) (fst (run d ops)).
Proof.
  intros Hok Hall Hint d ops Hin. destruct (Hok d ops Hin) as [D T].
  destruct (stream_about d ops D T) as [_ S].
  destruct (history_synced ops d (feed [] (pubs (snd (from_client d (getprops None None))))) D
              ltac:(apply handshake_synced; [exact D|intros cd []|reflexivity]) T) as (_ & _ & Nm).
  apply (synced_ext_device (feed [] (stream_of d ops))); [apply feed_wf; intros cd []| |exact S].
  rewrite Nm. rewrite <- (Hint d ops Hin).
  intro v. symmetry. revert v.
  exact (view_of_a_device_is_its_own_stream (d_name d) ms [] [] Hall ltac:(intros cd []) ltac:(intros cd []) (fun v => eq_refl)).
Qed.
