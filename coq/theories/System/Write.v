(* C06, system side: where a submitted write goes and what it contains *)
From Coq Require Import List NArith Bool String.
Import ListNotations.
From Indi Require Import Base.Sx Msg.Equality Router.Model Router.Props Driver.Model Client.Model System.Model.

(* a message that names a device reaches only drivers of that name *)
Lemma named_message_reaches_only_that_device s m sender e n dn :
  (forall a, In (e, a) (devices s) -> a = AccNamed n) ->
  r_dev m = Some dn ->
  In (ToDev e) (snd (process s m sender)) -> n = dn.
Proof.
  intros U Hd H. apply to_device_iff in H. destruct H as (_ & _ & a & Hin & Hacc).
  rewrite (U a Hin) in Hacc. rewrite Hd in Hacc. cbn in Hacc. apply str_eqb_spec in Hacc. congruence.
Qed.

(* submit: one child per element that has a pending value, in the property's element order,
   carrying the value last assigned; nothing for the others *)
Lemma submit_children mi dn vn a d v :
  dget cd_name dn mi = Some d -> dget cv_name vn (cd_vecs d) = Some v ->
  exists m, submit_msg mi dn vn a = Some m /\
            lookup (s2l "device") (ma m) = Some dn /\ lookup (s2l "name") (ma m) = Some vn /\
            mc m = Some (flat_map (fun e => match alookup_str (ce_name e) (rev a) with
                                            | Some x => [new_part (cv_kind v) (ce_name e) x]
                                            | None => []
                                            end) (cv_elems v)).
Proof.
  intros Hd Hv. unfold submit_msg. rewrite Hd, Hv. eexists. split; [reflexivity|]. cbn [ma mc].
  assert (str_eqb (s2l "name") (s2l "device") = false) as E by reflexivity.
  split; [|split]; reflexivity.
Qed.

(* a write to a property the client does not show is refused locally: nothing is sent *)
Lemma unknown_target_sends_nothing mi dn vn a :
  (dget cd_name dn mi = None \/ exists d, dget cd_name dn mi = Some d /\ dget cv_name vn (cd_vecs d) = None) ->
  submit_msg mi dn vn a = None.
Proof. unfold submit_msg. intros [->|(d & -> & ->)]; reflexivity. Qed.
