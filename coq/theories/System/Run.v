(* runner entry for the composed system *)
From Coq Require Import List NArith ZArith Bool String.
Import ListNotations.
From Indi Require Import Base.Sx Msg.Equality Msg.Model Msg.Run Router.Model Driver.Model Driver.Run Client.Model Client.Run System.Model.

Definition dec_wval (x : sx) : option wval :=
  match x with
  | SL [t; a] => if is_tag "t" t then option_map WText (as_str a) else None
  | SL [t; b; f] => if is_tag "b" t then match as_str b, as_str f with Some b, Some f => Some (WBlob b f) | _, _ => None end else None
  | _ => None
  end.

Definition dec_asg (x : sx) : option (str * wval) :=
  match x with
  | SL [SA n; v] => option_map (fun v => (n, v)) (dec_wval v)
  | _ => None
  end.

Definition dec_sop (x : sx) : option sop :=
  match x with
  | SL [t; e; o] => if is_tag "drv" t then match as_N e, dec_dop o with Some e, Some o => Some (SDrv e o) | _, _ => None end else None
  | SL [t; i] => if is_tag "handshake" t then option_map SHandshake (as_nat i) else None
  | SL [t; i; x; y; z] =>
      if is_tag "enable" t then
        match as_nat i, as_bool x, as_str y, as_str z with
        | Some i, Some b, Some dn, Some p => Some (SEnable i b dn p)
        | _, _, _, _ => None
        end
      else if is_tag "write" t then
        match as_nat i, as_str x, as_str y, as_list_of dec_asg z with
        | Some i, Some dn, Some vn, Some a => Some (SWrite i dn vn a)
        | _, _, _, _ => None
        end
      else None
  | _ => None
  end.

Definition dec_client (x : sx) : option client :=
  match x with
  | SL [n; c; b] =>
      match as_bool n, as_N c, as_N b with
      | Some n, Some c, Some b =>
          Some {| cl_net := n; cl_ctl := c; cl_blob := b; cl_up := negb n; cl_mirror := []; cl_in_ctl := []; cl_in_blob := [] |}
      | _, _, _ => None
      end
  | _ => None
  end.

Definition dec_sdev (x : sx) : option (ep * dev) :=
  match x with
  | SL [e; d] => match as_N e, dec_dev d with Some e, Some d => Some (e, d) | _, _ => None end
  | _ => None
  end.

Definition enc_sys (s : sys) : sx :=
  SL [of_list (fun p => enc_dev_state (snd p)) (sy_devs s);
      of_list (fun c => enc_mirror (cl_mirror c)) (sy_cls s);
      of_bool (sy_oof s)].

(* snooping clients are registered with the router when they are created *)
Definition boot_all (devs : list (ep * dev)) (cls : list client) : sys :=
  let s := boot devs cls in
  with_r s (fold_left (fun r c => if cl_net c then r else fst (Router.Model.step r (RegCl (cl_ctl c)))) cls (sy_r s)).

(* [devices; clients; ops] -> state after each op *)
Definition run_system (x : sx) : sx :=
  match x with
  | SL [ds; cs; ops] =>
      match as_list_of dec_sdev ds, as_list_of dec_client cs, as_list_of dec_sop ops with
      | Some ds, Some cs, Some ops => of_list enc_sys (srun (boot_all ds cs) ops)
      | _, _, _ => bad_input
      end
  | _ => bad_input
  end.
