(* Single entry point of the extracted model runner: (tag arg) -> result. *)
From Coq Require Import List NArith ZArith Bool String.
Import ListNotations.
From Indi Require Import Base.Sx Msg.Equality Router.Run Driver.SwitchRun.

Definition dispatch (x : sx) : sx :=
  match x with
  | SL [SA t; arg] =>
      if str_eqb t (s2l "eq") then run_eq arg
      else if str_eqb t (s2l "router") then run_router arg
      else if str_eqb t (s2l "switch") then run_switch arg
      else tag "UNKNOWN-ENTRY"
  | _ => bad_input
  end.
