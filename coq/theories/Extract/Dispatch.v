(* Single entry point of the extracted model runner: (tag arg) -> result. *)
From Coq Require Import List NArith ZArith Bool String.
Import ListNotations.
From Indi Require Import Base.Sx Msg.Equality Router.Run Driver.SwitchRun Xml.Lex Msg.Run Num.Run Buffer.Run Driver.Run Client.Run Async.Run Async.WaitRun System.Run.

Definition dispatch (x : sx) : sx :=
  match x with
  | SL [SA t; arg] =>
      if str_eqb t (s2l "eq") then run_eq arg
      else if str_eqb t (s2l "router") then run_router arg
      else if str_eqb t (s2l "switch") then run_switch arg
      else if str_eqb t (s2l "xml") then run_xml arg
      else if str_eqb t (s2l "fromxml") then run_fromxml arg
      else if str_eqb t (s2l "fromstring") then run_fromstring arg
      else if str_eqb t (s2l "tostring") then run_tostring arg
      else if str_eqb t (s2l "print") then run_print arg
      else if str_eqb t (s2l "codec") then run_codec arg
      else if str_eqb t (s2l "num") then run_num arg
      else if str_eqb t (s2l "buffer") then run_buffer arg
      else if str_eqb t (s2l "driver") then run_driver arg
      else if str_eqb t (s2l "drivers") then run_drivers arg
      else if str_eqb t (s2l "client") then run_client arg
      else if str_eqb t (s2l "send") then run_send arg
      else if str_eqb t (s2l "wait") then run_wait arg
      else if str_eqb t (s2l "system") then run_system arg
      else tag "UNKNOWN-ENTRY"
  | _ => bad_input
  end.
