(* Extraction of the executable models.  ExtrOcamlBasic only: bool, option,
   unit, list, prod, sumbool, sumor mapped to OCaml's; andb/orb inlined.
   N, Z, positive, nat stay the extracted inductive types. *)
From Coq Require Import ExtrOcamlBasic.
From Indi Require Import Extract.Dispatch.
Extraction "../runner/model.ml" dispatch.
