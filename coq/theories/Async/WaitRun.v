(* runner entry for the wait model: messages are turned into events by the client
   model (Client.Model.apply), so the events the waits see are the ones the mirror
   produces *)
From Coq Require Import List NArith ZArith Bool String.
Import ListNotations.
From Indi Require Import Base.Sx Msg.Equality Msg.Model Msg.Run Driver.Model Client.Model Client.Run Async.Wait.

Definition dec_cval (x : sx) : option cval :=
  match x with
  | SL [t; a] => if is_tag "r" t then option_map CRaw (as_opt as_str a) else None
  | SL [t; b; f] => if is_tag "b" t then match as_str b, as_str f with Some b, Some f => Some (CBlob b f) | _, _ => None end else None
  | _ => None
  end.

Definition new_in (l : list cval) (e : cevent) : bool :=
  match ev_new e with Some n => existsb (cval_eqb n) l | None => false end.

Definition dec_cond (x : sx) : option cond :=
  match x with
  | SL [t; a] =>
      if is_tag "expect" t then option_map CExpect (dec_cval a)
      else if is_tag "initial" t then option_map CInitial (dec_cval a)
      else if is_tag "check" t then option_map (fun l => CCheck (new_in l)) (as_list_of dec_cval a)
      else None
  | _ => None
  end.

Definition dec_poll (x : sx) : option (N * N) :=
  match x with
  | SL [a; b] => match as_N a, as_N b with Some a, Some b => Some (a, b) | _, _ => None end
  | _ => None
  end.

Definition dec_wspec (x : sx) : option wspec :=
  match x with
  | SL [cb; c; to; p] =>
      match dec_cb cb, dec_cond c, as_opt as_N to, as_opt dec_poll p with
      | Some cb, Some c, Some to, Some p =>
          Some {| ws_id := cb_id cb; ws_cb := cb; ws_cond := c; ws_timeout := to; ws_poll := p |}
      | _, _, _, _ => None
      end
  | _ => None
  end.

Inductive xitem := XMsg (m : msg) | XItem (it : item).

Definition dec_xitem (x : sx) : option xitem :=
  match x with
  | SL [t; a] =>
      if is_tag "msg" t then option_map XMsg (dec_msg a)
      else if is_tag "timeout" t then option_map (fun i => XItem (ITimeout i)) (as_N a)
      else if is_tag "poll" t then option_map (fun i => XItem (IPoll i)) (as_N a)
      else if is_tag "resume" t then option_map (fun i => XItem (IResume i)) (as_N a)
      else if is_tag "start" t then option_map (fun s => XItem (IStart s)) (dec_wspec a)
      else None
  | _ => None
  end.

(* thread the mirror through the whole schedule, replacing each message by the events it raises *)
Fixpoint expand_order (m : mirror) (o : list xitem) : mirror * list item :=
  match o with
  | [] => (m, [])
  | XItem it :: r => let (m', l) := expand_order m r in (m', it :: l)
  | XMsg mg :: r => let '(m1, evs, _) := apply m mg in
                    let (m', l) := expand_order m1 r in (m', map IEv evs ++ l)
  end.

Fixpoint expand (m : mirror) (s : list (list xitem)) : list (list item) :=
  match s with
  | [] => []
  | o :: r => let (m', l) := expand_order m o in l :: expand m' r
  end.

Definition enc_outcome (o : outcome) : sx :=
  match o with
  | OEvent e => SL [tag "event"; enc_cevent e]
  | OTimeout => SL [tag "timeout"]
  | ONothing => SL [tag "nothing"]
  end.

Definition enc_wait (w : wait) : sx :=
  SL [of_N (ws_id (w_spec w)); of_N (w_start w);
      of_opt (fun p => SL [of_N (fst p); enc_outcome (snd p)]) (outcome_of w);
      of_list of_N (polls_ (w_dyn w));
      of_bool (reg_ (w_dyn w))].

(* the registered callbacks after each instant *)
Fixpoint run_trace (t : N) (ws : list wait) (sched : list (list item)) : list (list N) * list wait :=
  match sched with
  | [] => ([], ws)
  | o :: r => let ws' := instant t ws o in
              let (tr, fin) := run_trace (t + 1) ws' r in (registered ws' :: tr, fin)
  end.

(* [defs; schedule] -> [waits; registered-after-each-instant] *)
Definition run_wait (x : sx) : sx :=
  match x with
  | SL [defs; sched] =>
      match as_list_of dec_msg defs, as_list_of (as_list_of dec_xitem) sched with
      | Some ds, Some sc =>
          let m0 := fold_left (fun m d => fst (fst (apply m d))) ds [] in
          let (tr, fin) := run_trace 0 [] (expand m0 sc) in
          SL [of_list enc_wait fin; of_list (of_list of_N) tr]
      | _, _ => bad_input
      end
  | _ => bad_input
  end.
