(* runner entry for the send model *)
From Coq Require Import List NArith ZArith Bool String.
Import ListNotations.
From Indi Require Import Base.Sx Async.Send.

Definition dec_move (x : sx) : option move :=
  match x with
  | SL [t; c; m] => if is_tag "route" t then match as_N c, as_N m with Some c, Some m => Some (Route c m) | _, _ => None end else None
  | SL [t; c] => if is_tag "complete" t then option_map Complete (as_N c) else None
  | SL [t] => if is_tag "run" t then Some Run else None
  | _ => None
  end.

Fixpoint trace (n : nat) (s : sched) (mvs : list move) : list sx :=
  match mvs with
  | [] => []
  | mv :: r => let s' := step s mv in
               SL [of_list (fun c => of_list of_N (out (cs s' (N.of_nat c)))) (seq 0 n); of_nat (List.length (ready s'));
                   of_list (fun c => of_bool (pending (cs s' (N.of_nat c)))) (seq 0 n)] :: trace n s' r
  end.

(* (ttyflags moves) -> per move: outputs per connection, ready-queue length, pending flags *)
Definition run_send (x : sx) : sx :=
  match x with
  | SL [flags; mvs] =>
      match as_list_of as_bool flags, as_list_of dec_move mvs with
      | Some flags, Some mvs =>
          SL (trace (List.length flags) (init (fun c => nth (N.to_nat c) flags false)) mvs)
      | _, _ => bad_input
      end
  | _ => bad_input
  end.
