(* C17: BaseClient.waitforevent under asyncio on a virtual clock.
   One wait is the mechanism the code has: an asyncio.Event ("set"), the result
   holder (event / timeout flag), the temporary callback ("reg"), the timeout task
   (one timer) and the polling task (a chain of timers).  Time is a grid of
   instants; in each instant the environment decides in which order the things
   that are due happen (items); whatever is due and was not ordered explicitly
   still happens before the instant ends (flush), as in the real loop, where a due
   timer always runs in the iteration in which it is due and a task woken by
   Event.set runs in the next iteration, at the same instant.
   Ghost fields (all_, fired_) record history; the mechanism never reads them.
   This file models the runtime; it is validated against the real event loop on a
   virtual clock, not verified (see DESIGN). *)
From Coq Require Import List NArith Bool Arith Lia.
Import ListNotations.
From Indi Require Import Base.Sx Msg.Equality Client.Model.
Local Open Scope N_scope.

Inductive cond :=
| CExpect (x : cval)
| CInitial (x : cval)
| CCheck (f : cevent -> bool).

Definition ev_new (e : cevent) : option cval :=
  match e with
  | EvValue _ _ _ _ n => Some n
  | EvState _ _ _ n => Some (CRaw (Some n))
  | EvDef _ _ => None
  end.

(* waitforevent.cb: does this event release the wait *)
Definition release (c : cond) (e : cevent) : bool :=
  match c with
  | CCheck f => f e
  | CExpect x => match ev_new e with Some n => cval_eqb n x | None => false end
  | CInitial x => match ev_new e with Some n => negb (cval_eqb n x) | None => false end
  end.

Record wspec := {
  ws_id : N;
  ws_cb : callback;                  (* device / vector / element / event type filter *)
  ws_cond : cond;
  ws_timeout : option N;             (* None, or a duration; 0 means no timeout task, as in the code *)
  ws_poll : option (N * N)           (* polling delay and interval *)
}.

Record wdyn := {
  set_ : bool;                       (* lock.is_set() *)
  event_ : option cevent;            (* result.event *)
  timed_ : bool;                     (* result.timeout *)
  reg_ : bool;                       (* the temporary callback is in client.callbacks *)
  timer_ : bool;                     (* the timeout task is still sleeping *)
  next_ : option N;                  (* the polling task's next wake-up *)
  polls_ : list N;                   (* instants at which getProperties was sent *)
  done_ : option N;                  (* the instant waitforevent returned / raised *)
  all_ : list (N * cevent);          (* ghost: every event that passed trigger_event since the wait began *)
  fired_ : option N;                 (* ghost: the instant the timeout task woke up *)
  setat_ : option N                  (* ghost: the instant the lock was set *)
}.

Record wait := { w_spec : wspec; w_start : N; w_dyn : wdyn }.

Definition matches (s : wspec) (e : cevent) : bool := accepts (ws_cb s) e && release (ws_cond s) e.

Definition deadline (s : wspec) (start : N) : option N :=
  match ws_timeout s with
  | Some d => if 0 <? d then Some (start + d) else None
  | None => None
  end.

(* a polling interval of 0 makes the real poller spin without ever letting the clock advance:
   such a wait is outside the model, and the model refuses to start it *)
Definition spec_ok (s : wspec) : bool :=
  match ws_poll s with Some (_, i) => 0 <? i | None => true end.

Definition begin (s : wspec) (t : N) : wait :=
  {| w_spec := s; w_start := t;
     w_dyn := {| set_ := false; event_ := None; timed_ := false; reg_ := true;
                 timer_ := match deadline s t with Some _ => true | None => false end;
                 next_ := match ws_poll s with Some (d, _) => Some (t + d) | None => None end;
                 polls_ := []; done_ := None; all_ := []; fired_ := None; setat_ := None |} |}.

(* trigger_event reaches the temporary callback *)
Definition on_event (t : N) (e : cevent) (w : wait) : wait :=
  let d := w_dyn w in
  let hit := reg_ d && matches (w_spec w) e && negb (set_ d) in
  {| w_spec := w_spec w; w_start := w_start w;
     w_dyn := {| set_ := if hit then true else set_ d;
                 event_ := if hit then Some e else event_ d;
                 timed_ := timed_ d; reg_ := reg_ d; timer_ := timer_ d; next_ := next_ d; polls_ := polls_ d;
                 done_ := done_ d; all_ := all_ d ++ [(t, e)]; fired_ := fired_ d;
                 setat_ := if hit then Some t else setat_ d |} |}.

(* timeout_check wakes up *)
Definition on_timeout (t : N) (w : wait) : wait :=
  let d := w_dyn w in
  if timer_ d && opt_eqb N.eqb (deadline (w_spec w) (w_start w)) (Some t) then
    {| w_spec := w_spec w; w_start := w_start w;
       w_dyn := {| set_ := true; event_ := event_ d;
                   timed_ := if set_ d then timed_ d else true;
                   reg_ := reg_ d; timer_ := false; next_ := next_ d; polls_ := polls_ d;
                   done_ := done_ d; all_ := all_ d; fired_ := Some t;
                   setat_ := if set_ d then setat_ d else Some t |} |}
  else w.

(* poll wakes up *)
Definition on_poll (t : N) (w : wait) : wait :=
  let d := w_dyn w in
  if opt_eqb N.eqb (next_ d) (Some t) then
    {| w_spec := w_spec w; w_start := w_start w;
       w_dyn := {| set_ := set_ d; event_ := event_ d; timed_ := timed_ d; reg_ := reg_ d; timer_ := timer_ d;
                   next_ := if set_ d then None
                            else match ws_poll (w_spec w) with Some (_, i) => Some (t + i) | None => None end;
                   polls_ := if set_ d then polls_ d else polls_ d ++ [t];
                   done_ := done_ d; all_ := all_ d; fired_ := fired_ d; setat_ := setat_ d |} |}
  else w.

(* the waiter resumes after lock.wait(): rmonevent(uuid), then return / raise *)
Definition on_resume (t : N) (w : wait) : wait :=
  let d := w_dyn w in
  if set_ d && reg_ d then
    {| w_spec := w_spec w; w_start := w_start w;
       w_dyn := {| set_ := set_ d; event_ := event_ d; timed_ := timed_ d; reg_ := false; timer_ := timer_ d;
                   next_ := next_ d; polls_ := polls_ d; done_ := Some t; all_ := all_ d; fired_ := fired_ d;
                   setat_ := setat_ d |} |}
  else w.

Inductive outcome := OEvent (e : cevent) | OTimeout | ONothing.
(* what waitforevent did: raise if result.timeout, else return result.event *)
Definition outcome_of (w : wait) : option (N * outcome) :=
  match done_ (w_dyn w) with
  | Some t => Some (t, if timed_ (w_dyn w) then OTimeout
                       else match event_ (w_dyn w) with Some e => OEvent e | None => ONothing end)
  | None => None
  end.

(* ---------- the client: several waits, one clock ---------- *)
Inductive item :=
| IEv (e : cevent)                   (* an event passes through trigger_event *)
| ITimeout (i : N)                   (* wait i's timeout task runs now (if due) *)
| IPoll (i : N)                      (* wait i's polling task runs now (if due) *)
| IResume (i : N)                    (* wait i's caller runs now (if woken) *)
| IStart (s : wspec).                (* somebody calls waitforevent *)

Definition only (i : N) (f : wait -> wait) (w : wait) : wait := if ws_id (w_spec w) =? i then f w else w.

(* what an item does to one wait: nothing in it looks at any other wait *)
Definition act (t : N) (it : item) (w : wait) : wait :=
  match it with
  | IEv e => on_event t e w
  | ITimeout i => only i (on_timeout t) w
  | IPoll i => only i (on_poll t) w
  | IResume i => only i (on_resume t) w
  | IStart _ => w
  end.

Definition do_item (t : N) (ws : list wait) (it : item) : list wait :=
  match it with
  | IStart s => if spec_ok s then ws ++ [begin s t] else ws
  | _ => map (act t it) ws
  end.

(* what is still due at the end of an instant happens then *)
Definition flush (t : N) (w : wait) : wait := on_resume t (on_poll t (on_timeout t w)).

Definition instant (t : N) (ws : list wait) (order : list item) : list wait :=
  map (flush t) (fold_left (do_item t) order ws).

(* instants t, t+1, ... with the given orders *)
Fixpoint run_from (t : N) (ws : list wait) (sched : list (list item)) : list wait :=
  match sched with
  | [] => ws
  | o :: r => run_from (t + 1) (instant t ws o) r
  end.

Definition run (sched : list (list item)) : list wait := run_from 0 [] sched.

(* client.callbacks holds exactly the temporary callbacks of the waits not yet resumed *)
Definition registered (ws : list wait) : list N :=
  map (fun w => ws_id (w_spec w)) (filter (fun w => reg_ (w_dyn w)) ws).
