(* C17: the invariants of a wait, preserved by everything that can happen in an
   instant in any order, and what they give when an instant ends. *)
From Coq Require Import List NArith Bool Arith Lia.
Import ListNotations.
From Indi Require Import Base.Sx Msg.Equality Client.Model Async.Wait.
Local Open Scope N_scope.

Definition fm (w : wait) : option (N * cevent) :=
  find (fun p => matches (w_spec w) (snd p)) (all_ (w_dyn w)).
Definition dl (w : wait) : option N := deadline (w_spec w) (w_start w).

Lemma find_snoc {A} (f : A -> bool) l x :
  find f (l ++ [x]) = match find f l with Some y => Some y | None => if f x then Some x else None end.
Proof. induction l as [|a l IH]; cbn [find app]; [reflexivity|]. destruct (f a); [reflexivity|exact IH]. Qed.

Lemma find_In_le {A} (f : A -> bool) (g : A -> N) l t y :
  Forall (fun p => g p <= t) l -> find f l = Some y -> g y <= t.
Proof. intros HF Hf. apply find_some in Hf. destruct Hf as [Hin _]. rewrite Forall_forall in HF. exact (HF _ Hin). Qed.

Lemma opt_eqb_N_true a b : opt_eqb N.eqb a (Some b) = true -> a = Some b.
Proof. destruct a as [a|]; cbn; [|discriminate]. intro H. apply N.eqb_eq in H. congruence. Qed.

(* ---------- the core invariant, during instant t ---------- *)
Record core (t : N) (w : wait) : Prop := {
  c_unset : set_ (w_dyn w) = false ->
            event_ (w_dyn w) = None /\ timed_ (w_dyn w) = false /\ reg_ (w_dyn w) = true /\ done_ (w_dyn w) = None /\
            fm w = None /\ fired_ (w_dyn w) = None;
  c_event : set_ (w_dyn w) = true -> timed_ (w_dyn w) = false ->
            exists te e, fm w = Some (te, e) /\ event_ (w_dyn w) = Some e /\ (forall tf, fired_ (w_dyn w) = Some tf -> te <= tf);
  c_timed : timed_ (w_dyn w) = true ->
            set_ (w_dyn w) = true /\ event_ (w_dyn w) = None /\
            exists tf, fired_ (w_dyn w) = Some tf /\ (forall te e, fm w = Some (te, e) -> tf <= te);
  c_fired : forall tf, fired_ (w_dyn w) = Some tf -> dl w = Some tf /\ tf <= t /\ timer_ (w_dyn w) = false;
  c_timer : timer_ (w_dyn w) = true -> exists x, dl w = Some x /\ t <= x;
  c_notimer : timer_ (w_dyn w) = false -> fired_ (w_dyn w) = None -> dl w = None;
  c_done : forall td, done_ (w_dyn w) = Some td ->
           set_ (w_dyn w) = true /\ reg_ (w_dyn w) = false /\ td <= t /\
           (timed_ (w_dyn w) = true -> fired_ (w_dyn w) = Some td) /\
           (timed_ (w_dyn w) = false -> exists e, fm w = Some (td, e));
  c_reg : done_ (w_dyn w) = None -> reg_ (w_dyn w) = true;
  c_fresh : set_ (w_dyn w) = true -> done_ (w_dyn w) = None ->
            (timed_ (w_dyn w) = true -> fired_ (w_dyn w) = Some t) /\
            (timed_ (w_dyn w) = false -> exists e, fm w = Some (t, e));
  c_times : Forall (fun p => fst p <= t) (all_ (w_dyn w))
}.

Ltac wopen w :=
  let s := fresh "s" in let st := fresh "st" in let d := fresh "d" in
  destruct w as [s st d];
  let a := fresh "vset" in let b := fresh "vev" in let c := fresh "vtimed" in let e := fresh "vreg" in
  let f := fresh "vtimer" in let g := fresh "vnext" in let h := fresh "vpolls" in let i := fresh "vdone" in
  let j := fresh "vall" in let k := fresh "vfired" in let l := fresh "vsetat" in
  destruct d as [a b c e f g h i j k l].

Lemma deadline_after s t x : deadline s t = Some x -> t < x.
Proof.
  unfold deadline. destruct (ws_timeout s) as [dd|]; [|discriminate].
  destruct (N.ltb_spec 0 dd) as [H|H]; [|discriminate]. intro E. inversion E. lia.
Qed.

Lemma begin_core s t : core t (begin s t).
Proof.
  unfold begin. constructor; unfold fm, dl; cbn [w_dyn w_spec w_start set_ event_ timed_ reg_ timer_ next_ polls_ done_ all_ fired_ setat_ find];
    try discriminate; auto.
  - intros _. repeat split; reflexivity.
  - destruct (deadline s t) as [x|] eqn:E; [|discriminate]. intros _. exists x. split; [reflexivity|].
    apply deadline_after in E. lia.
  - destruct (deadline s t); [discriminate|reflexivity].
Qed.

Ltac simp_w := cbn [w_dyn w_spec w_start set_ event_ timed_ reg_ timer_ next_ polls_ done_ all_ fired_ setat_] in *.

Ltac triv := solve [intros; try discriminate; try congruence; auto].

Lemma on_event_core t e w : core t w -> core t (on_event t e w).
Proof.
  intros [U E T F TM NT D R FR TS]. wopen w. unfold on_event, fm, dl in *. simp_w.
  assert (HT : Forall (fun p : N * cevent => fst p <= t) (vall ++ [(t, e)])).
  { apply Forall_app. split; [exact TS|]. constructor; [cbn; lia|constructor]. }
  pose proof (find_snoc (fun p : N * cevent => matches s (snd p)) vall (t, e)) as FS. cbn [snd] in FS.
  destruct vset.
  - (* already set: the callback ignores the event *)
    rewrite andb_false_r. constructor; simp_w; unfold fm, dl; simp_w.
    + triv.
    + intros _ Ht. destruct (E eq_refl Ht) as (te & e0 & H1 & H2 & H3). exists te, e0. rewrite FS, H1. auto.
    + intros Ht. destruct (T Ht) as (_ & H2 & tf & H3 & H4). split; [reflexivity|]. split; [exact H2|].
      exists tf. split; [exact H3|]. intros te e0. rewrite FS.
      destruct (find _ vall) as [[te' e']|] eqn:Ef.
      * intro X. injection X as X1 X2. rewrite <- X1. eapply H4. reflexivity.
      * destruct (matches s e); [|discriminate]. intro X. injection X as X1 X2. rewrite <- X1. destruct (F _ H3) as (_ & H5 & _). exact H5.
    + triv.
    + triv.
    + triv.
    + intros td Hd. destruct (D _ Hd) as (H1 & H2 & H3 & H4 & H5). repeat split; auto.
      intro Ht. destruct (H5 Ht) as [e0 H6]. exists e0. rewrite FS, H6. reflexivity.
    + triv.
    + intros _ Hd. destruct (FR eq_refl Hd) as [H1 H2]. split; [exact H1|].
      intro Ht. destruct (H2 Ht) as [e0 H6]. exists e0. rewrite FS, H6. reflexivity.
    + exact HT.
  - destruct (U eq_refl) as (H1 & H2 & H3 & H4 & H5 & H6). subst. rewrite andb_true_r. cbn [andb].
    destruct (matches s e) eqn:M.
    + (* the first matching event: it is taken *)
      constructor; simp_w; unfold fm, dl; simp_w.
      * triv.
      * intros _ _. exists t, e. rewrite FS, H5. split; [reflexivity|]. split; [reflexivity|]. intros tf X; discriminate.
      * triv.
      * triv.
      * triv.
      * triv.
      * triv.
      * triv.
      * intros _ _. split; [discriminate|]. intros _. exists e. rewrite FS, H5. reflexivity.
      * exact HT.
    + constructor; simp_w; unfold fm, dl; simp_w.
      * intros _. rewrite FS, H5. repeat split; reflexivity.
      * triv.
      * triv.
      * triv.
      * triv.
      * triv.
      * triv.
      * triv.
      * triv.
      * exact HT.
Qed.

Lemma on_timeout_core t w : core t w -> core t (on_timeout t w).
Proof.
  intros C. unfold on_timeout.
  destruct (timer_ (w_dyn w) && opt_eqb N.eqb (deadline (w_spec w) (w_start w)) (Some t)) eqn:G; [|exact C].
  apply andb_true_iff in G. destruct G as [G1 G2]. apply opt_eqb_N_true in G2.
  destruct C as [U E T F TM NT D R FR TS]. wopen w. unfold fm, dl in *. simp_w. subst vtimer.
  assert (NF : vfired = None).
  { destruct vfired as [tf|]; [|reflexivity]. destruct (F _ eq_refl) as (_ & _ & X). discriminate. }
  subst vfired.
  constructor; simp_w; unfold fm, dl; simp_w.
  - triv.
  - intros _ Ht. destruct vset; [|discriminate]. destruct (E eq_refl Ht) as (te & e0 & H1 & H2 & _).
    exists te, e0. split; [exact H1|]. split; [exact H2|]. intros tf X. injection X as <-.
    exact (find_In_le _ (fun p : N * cevent => fst p) _ _ _ TS H1).
  - intros Ht. destruct vset.
    + destruct (T Ht) as (_ & _ & tf & X & _). discriminate.
    + destruct (U eq_refl) as (H1 & _ & _ & _ & H5 & _). split; [reflexivity|]. split; [exact H1|].
      exists t. split; [reflexivity|]. intros te e0 X. rewrite H5 in X. discriminate.
  - intros tf X. injection X as <-. split; [exact G2|]. split; [lia|reflexivity].
  - triv.
  - triv.
  - intros td Hd. destruct (D _ Hd) as (H1 & H2 & H3 & H4 & H5). subst vset. repeat split; auto.
    intro Ht. specialize (H4 Ht). discriminate.
  - triv.
  - intros _ Hd. split; [reflexivity|]. intro Ht. destruct vset; [|discriminate]. destruct (FR eq_refl Hd) as [_ H2]. exact (H2 Ht).
  - exact TS.
Qed.

Lemma on_poll_core t w : core t w -> core t (on_poll t w).
Proof.
  intros C. unfold on_poll. destruct (opt_eqb N.eqb (next_ (w_dyn w)) (Some t)); [|exact C].
  destruct C as [U E T F TM NT D R FR TS]. wopen w. unfold fm, dl in *. simp_w.
  constructor; simp_w; unfold fm, dl; simp_w; assumption.
Qed.

Lemma on_resume_core t w : core t w -> core t (on_resume t w).
Proof.
  intros C. unfold on_resume. destruct (set_ (w_dyn w) && reg_ (w_dyn w)) eqn:G; [|exact C].
  apply andb_true_iff in G. destruct G as [G1 G2].
  destruct C as [U E T F TM NT D R FR TS]. wopen w. unfold fm, dl in *. simp_w. subst vset vreg.
  assert (ND : vdone = None).
  { destruct vdone as [td|]; [|reflexivity]. destruct (D _ eq_refl) as (_ & X & _). discriminate. }
  subst vdone. destruct (FR eq_refl eq_refl) as [FR1 FR2].
  constructor; simp_w; unfold fm, dl; simp_w.
  - triv.
  - exact (E).
  - exact T.
  - exact F.
  - exact TM.
  - exact NT.
  - intros td X. injection X as <-. repeat split; auto. lia.
  - triv.
  - triv.
  - exact TS.
Qed.

Lemma flush_core t w : core t w -> core t (flush t w).
Proof. intro C. unfold flush. apply on_resume_core, on_poll_core, on_timeout_core, C. Qed.

(* ---------- when an instant ends ---------- *)
Record settled (t : N) (w : wait) : Prop := {
  s_timer : timer_ (w_dyn w) = true -> exists x, dl w = Some x /\ t < x;
  s_done : set_ (w_dyn w) = true -> done_ (w_dyn w) <> None
}.

Lemma flush_settled t w : core t w -> settled t (flush t w).
Proof.
  intro C. pose proof (on_timeout_core t w C) as C1.
  assert (S1 : timer_ (w_dyn (on_timeout t w)) = true -> exists x, dl (on_timeout t w) = Some x /\ t < x).
  { unfold on_timeout. destruct (timer_ (w_dyn w) && opt_eqb N.eqb (deadline (w_spec w) (w_start w)) (Some t)) eqn:G.
    - cbn. discriminate.
    - intro Ht. destruct (c_timer _ _ C Ht) as (x & Hx & Hle). exists x. split; [exact Hx|].
      rewrite Ht in G. cbn [andb] in G. unfold dl in Hx. rewrite Hx in G. cbn in G. apply N.eqb_neq in G. lia. }
  constructor.
  - unfold flush. intro Ht.
    assert (X : forall v, timer_ (w_dyn (on_resume t v)) = timer_ (w_dyn v) /\ dl (on_resume t v) = dl v).
    { intro v. unfold on_resume, dl. destruct (set_ (w_dyn v) && reg_ (w_dyn v)); split; reflexivity. }
    assert (Y : forall v, timer_ (w_dyn (on_poll t v)) = timer_ (w_dyn v) /\ dl (on_poll t v) = dl v).
    { intro v. unfold on_poll, dl. destruct (opt_eqb N.eqb (next_ (w_dyn v)) (Some t)); split; reflexivity. }
    destruct (X (on_poll t (on_timeout t w))) as [X1 X2]. destruct (Y (on_timeout t w)) as [Y1 Y2].
    rewrite X1, Y1 in Ht. rewrite X2, Y2. exact (S1 Ht).
  - unfold flush. set (v := on_poll t (on_timeout t w)).
    assert (Cv : core t v) by (apply on_poll_core, C1).
    unfold on_resume. destruct (set_ (w_dyn v)) eqn:Es; cbn [andb].
    + destruct (reg_ (w_dyn v)) eqn:Er.
      * cbn. intros _. discriminate.
      * intros _ Hd. rewrite (c_reg _ _ Cv Hd) in Er. discriminate.
    + rewrite Es. discriminate.
Qed.

Lemma core_next t w : core t w -> settled t w -> core (t + 1) w.
Proof.
  intros [U E T F TM NT D R FR TS] [ST SD]. constructor; auto.
  - intros tf Hf. destruct (F _ Hf) as (H1 & H2 & H3). repeat split; auto. lia.
  - intro Ht. destruct (ST Ht) as (x & Hx & Hlt). exists x. split; [exact Hx|lia].
  - intros td Hd. destruct (D _ Hd) as (H1 & H2 & H3 & H4 & H5). repeat split; auto. lia.
  - intros Hs Hd. destruct (SD Hs Hd).
  - eapply Forall_impl; [|exact TS]. cbn. intros a Ha. lia.
Qed.

(* ---------- polling ---------- *)
Definition ticks (base i : N) (n : nat) : list N := map (fun k => base + N.of_nat k * i) (seq 0 n).

Lemma ticks_snoc base i n : ticks base i (S n) = ticks base i n ++ [base + N.of_nat n * i].
Proof. unfold ticks. rewrite seq_S, map_app. reflexivity. Qed.
Lemma ticks_length base i n : List.length (ticks base i n) = n.
Proof. unfold ticks. rewrite map_length, seq_length. reflexivity. Qed.

Definition tick_at (w : wait) (dly i : N) : N := w_start w + dly + N.of_nat (List.length (polls_ (w_dyn w))) * i.

Record pinv (t : N) (w : wait) : Prop := {
  p_ok : spec_ok (w_spec w) = true;
  p_none : ws_poll (w_spec w) = None -> next_ (w_dyn w) = None /\ polls_ (w_dyn w) = [];
  p_some : forall dly i, ws_poll (w_spec w) = Some (dly, i) ->
           polls_ (w_dyn w) = ticks (w_start w + dly) i (List.length (polls_ (w_dyn w))) /\
           (next_ (w_dyn w) = Some (tick_at w dly i) \/ (next_ (w_dyn w) = None /\ set_ (w_dyn w) = true));
  p_le : Forall (fun p => p <= t) (polls_ (w_dyn w));
  p_next : forall np, next_ (w_dyn w) = Some np -> t <= np;
  p_done : forall td, done_ (w_dyn w) = Some td -> Forall (fun p => p <= td) (polls_ (w_dyn w));
  p_unset : set_ (w_dyn w) = false -> setat_ (w_dyn w) = None;
  p_isset : set_ (w_dyn w) = true -> setat_ (w_dyn w) <> None;
  p_setat : forall ts, setat_ (w_dyn w) = Some ts ->
            set_ (w_dyn w) = true /\ (forall td, done_ (w_dyn w) = Some td -> td = ts) /\ (done_ (w_dyn w) = None -> ts = t);
  p_cover : forall ts dly i, setat_ (w_dyn w) = Some ts -> ws_poll (w_spec w) = Some (dly, i) -> ts <= tick_at w dly i
}.

Lemma begin_pinv s t : spec_ok s = true -> pinv t (begin s t).
Proof.
  intro OK. unfold begin. constructor; unfold tick_at; simp_w.
  - exact OK.
  - intro H. rewrite H. split; reflexivity.
  - intros dly i H. rewrite H. cbn [List.length]. split; [reflexivity|]. left. f_equal. cbn. lia.
  - constructor.
  - intros np. destruct (ws_poll s) as [[dly i]|]; [|discriminate]. intro X. injection X as <-. lia.
  - triv.
  - triv.
  - triv.
  - triv.
  - triv.
Qed.

Lemma on_event_pinv t e w : core t w -> pinv t w -> pinv t (on_event t e w).
Proof.
  intros C [OK PN PS PL PX PD PU PI PA PC]. pose proof (c_unset _ _ C) as U. wopen w. unfold on_event, tick_at in *. simp_w.
  destruct vset.
  - rewrite andb_false_r. constructor; unfold tick_at; simp_w; assumption.
  - destruct (U eq_refl) as (H1 & H2 & H3 & H4 & H5 & H6). subst. rewrite andb_true_r. cbn [andb].
    specialize (PU eq_refl). subst vsetat.
    destruct (matches s e).
    + constructor; unfold tick_at; simp_w; try assumption.
      * intros dly i H. destruct (PS _ _ H) as [A [B|[B B']]]; [|discriminate]. split; [exact A|]. left; exact B.
      * triv.
      * triv.
      * intros ts X. injection X as <-. split; [reflexivity|]. split; [intros td X; discriminate|reflexivity].
      * intros ts dly i X H. injection X as <-. destruct (PS _ _ H) as [_ [B|[B B']]]; [|discriminate]. exact (PX _ B).
    + constructor; unfold tick_at; simp_w; try assumption; triv.
Qed.

Lemma on_timeout_pinv t w : core t w -> pinv t w -> pinv t (on_timeout t w).
Proof.
  intros C P. unfold on_timeout.
  destruct (timer_ (w_dyn w) && opt_eqb N.eqb (deadline (w_spec w) (w_start w)) (Some t)) eqn:G; [|exact P].
  destruct P as [OK PN PS PL PX PD PU PI PA PC]. pose proof (c_unset _ _ C) as U. wopen w. unfold tick_at in *. simp_w.
  destruct vset.
  - constructor; unfold tick_at; simp_w; try assumption; triv.
  - destruct (U eq_refl) as (H1 & H2 & H3 & H4 & H5 & H6). subst. specialize (PU eq_refl). subst vsetat.
    constructor; unfold tick_at; simp_w; try assumption.
    + intros dly i H. destruct (PS _ _ H) as [A [B|[B B']]]; [|discriminate]. split; [exact A|]. left; exact B.
    + triv.
    + triv.
    + intros ts X. injection X as <-. split; [reflexivity|]. split; [intros td X; discriminate|reflexivity].
    + intros ts dly i X H. injection X as <-. destruct (PS _ _ H) as [_ [B|[B B']]]; [|discriminate]. exact (PX _ B).
Qed.

Lemma on_poll_pinv t w : core t w -> pinv t w -> pinv t (on_poll t w).
Proof.
  intros C P. unfold on_poll. destruct (opt_eqb N.eqb (next_ (w_dyn w)) (Some t)) eqn:G; [|exact P].
  apply opt_eqb_N_true in G.
  destruct P as [OK PN PS PL PX PD PU PI PA PC]. pose proof (c_done _ _ C) as D. wopen w. unfold tick_at in *. simp_w. subst vnext.
  destruct vset.
  - constructor; unfold tick_at; simp_w; try assumption.
    + intro H. destruct (PN H) as [X _]. discriminate.
    + intros dly i H. destruct (PS _ _ H) as [A _]. split; [exact A|]. right. split; reflexivity.
    + triv.
  - specialize (PU eq_refl). subst vsetat.
    constructor; unfold tick_at; simp_w; try assumption.
    + intro H. destruct (PN H) as [X _]. discriminate.
    + intros dly i H. rewrite H. destruct (PS _ _ H) as [A [B|[B B']]]; [|discriminate]. injection B as B.
      rewrite app_length. cbn [List.length]. rewrite Nat.add_1_r. split.
      * rewrite ticks_snoc. rewrite <- A. rewrite <- B. reflexivity.
      * left. f_equal. unfold spec_ok in OK. rewrite H in OK. lia.
    + apply Forall_app. split; [exact PL|]. constructor; [lia|constructor].
    + intros np. destruct (ws_poll s) as [[dly i]|] eqn:H; [|discriminate]. intro X. injection X as <-. lia.
    + intros td Hd. destruct (D _ Hd) as [X _]. discriminate.
    + triv.
    + triv.
Qed.

Lemma on_resume_pinv t w : core t w -> pinv t w -> pinv t (on_resume t w).
Proof.
  intros C P. unfold on_resume. destruct (set_ (w_dyn w) && reg_ (w_dyn w)) eqn:G; [|exact P].
  apply andb_true_iff in G. destruct G as [G1 G2].
  destruct P as [OK PN PS PL PX PD PU PI PA PC]. pose proof (c_done _ _ C) as D. wopen w. unfold tick_at in *. simp_w. subst vset vreg.
  assert (ND : vdone = None).
  { destruct vdone as [td|]; [|reflexivity]. destruct (D _ eq_refl) as (_ & X & _). discriminate. }
  subst vdone.
  constructor; unfold tick_at; simp_w; try assumption.
  - intros td X. injection X as <-. exact PL.
  - intros ts X. destruct (PA _ X) as (A1 & A2 & A3). split; [reflexivity|]. split; [|discriminate].
    intros td Y. injection Y as <-. symmetry. exact (A3 eq_refl).
Qed.

Lemma flush_pinv t w : core t w -> pinv t w -> pinv t (flush t w).
Proof.
  intros C P. unfold flush.
  apply on_resume_pinv; [apply on_poll_core, on_timeout_core, C|].
  apply on_poll_pinv; [apply on_timeout_core, C|]. apply on_timeout_pinv; assumption.
Qed.

Lemma flush_next t w : pinv t w -> forall np, next_ (w_dyn (flush t w)) = Some np -> t < np.
Proof.
  intros P np. unfold flush.
  assert (X : forall v, next_ (w_dyn (on_resume t v)) = next_ (w_dyn v)).
  { intro v. unfold on_resume. destruct (set_ (w_dyn v) && reg_ (w_dyn v)); reflexivity. }
  rewrite X.
  assert (Y : next_ (w_dyn (on_timeout t w)) = next_ (w_dyn w) /\ w_spec (on_timeout t w) = w_spec w).
  { unfold on_timeout. destruct (timer_ (w_dyn w) && _); split; reflexivity. }
  destruct Y as [Y1 Y2].
  unfold on_poll. rewrite Y1. destruct (opt_eqb N.eqb (next_ (w_dyn w)) (Some t)) eqn:G.
  - simp_w. destruct (set_ (w_dyn (on_timeout t w))); [discriminate|]. rewrite Y2.
    pose proof (p_ok _ _ P) as OK. unfold spec_ok in OK.
    destruct (ws_poll (w_spec w)) as [[dly i]|]; [|discriminate]. apply N.ltb_lt in OK. intro Z. injection Z as <-. lia.
  - rewrite Y1. intro H. pose proof (p_next _ _ P _ H) as Hle. rewrite H in G. cbn in G. apply N.eqb_neq in G. lia.
Qed.

Lemma pinv_next t w : pinv t w -> settled t w -> (forall np, next_ (w_dyn w) = Some np -> t < np) -> pinv (t + 1) w.
Proof.
  intros [OK PN PS PL PX PD PU PI PA PC] [ST SD] NX. constructor; auto.
  - eapply Forall_impl; [|exact PL]. cbn. intros a Ha. lia.
  - intros np H. specialize (NX _ H). lia.
  - intros ts X. destruct (PA _ X) as (A1 & A2 & A3). split; [exact A1|]. split; [exact A2|].
    intro Hd. destruct (SD A1 Hd).
Qed.

(* ---------- every wait, every schedule ---------- *)
Definition ok (t : N) (w : wait) : Prop := core t w /\ pinv t w.

Lemma only_ok t i f w : (forall v, ok t v -> ok t (f v)) -> ok t w -> ok t (only i f w).
Proof. intros H O. unfold only. destruct (ws_id (w_spec w) =? i); auto. Qed.

Lemma act_ok t it w : ok t w -> ok t (act t it w).
Proof.
  intro O. destruct it as [e|i|i|i|s]; cbn [act]; try (apply only_ok; [|exact O]; clear w O; intros w O); destruct O as [C P].
  - split; [apply on_event_core, C|apply on_event_pinv; assumption].
  - split; [apply on_timeout_core, C|apply on_timeout_pinv; assumption].
  - split; [apply on_poll_core, C|apply on_poll_pinv; assumption].
  - split; [apply on_resume_core, C|apply on_resume_pinv; assumption].
  - split; assumption.
Qed.

Lemma do_item_ok t ws it : Forall (ok t) ws -> Forall (ok t) (do_item t ws it).
Proof.
  intro H.
  assert (M : Forall (ok t) (map (act t it) ws)).
  { apply Forall_forall. intros x Hx. apply in_map_iff in Hx. destruct Hx as (w & <- & Hw).
    apply act_ok. rewrite Forall_forall in H. exact (H _ Hw). }
  destruct it as [e|i|i|i|s]; cbn [do_item]; try exact M.
  destruct (spec_ok s) eqn:OK; [|exact H]. apply Forall_app. split; [exact H|].
  constructor; [|constructor]. split; [apply begin_core|apply begin_pinv, OK].
Qed.

Lemma fold_ok t order : forall ws, Forall (ok t) ws -> Forall (ok t) (fold_left (do_item t) order ws).
Proof. induction order as [|it r IH]; intros ws H; cbn [fold_left]; [exact H|]. apply IH, do_item_ok, H. Qed.

(* the state of a wait when instant t has ended *)
Record ended (t : N) (w : wait) : Prop := {
  e_core : core t w;
  e_pinv : pinv t w;
  e_settled : settled t w;
  e_next : forall np, next_ (w_dyn w) = Some np -> t < np
}.

Lemma instant_ended t ws order : Forall (ok t) ws -> Forall (ended t) (instant t ws order).
Proof.
  intro H. unfold instant. pose proof (fold_ok t order ws H) as H1.
  apply Forall_forall. intros x Hx. apply in_map_iff in Hx. destruct Hx as (w & <- & Hw).
  rewrite Forall_forall in H1. destruct (H1 _ Hw) as [C P]. constructor.
  - apply flush_core, C.
  - apply flush_pinv; assumption.
  - apply flush_settled, C.
  - apply flush_next, P.
Qed.

Lemma ended_ok_next t w : ended t w -> ok (t + 1) w.
Proof. intros [C P S X]. split; [apply core_next; assumption|apply pinv_next; assumption]. Qed.

Lemma run_from_ended sched : forall t ws o,
  Forall (ok t) ws -> Forall (ended (t + N.of_nat (List.length sched))) (run_from t ws (sched ++ [o])).
Proof.
  induction sched as [|a r IH]; intros t ws o H.
  - cbn [app run_from List.length]. replace (t + N.of_nat 0) with t by lia. apply instant_ended, H.
  - cbn [app run_from List.length]. replace (t + N.of_nat (S (List.length r))) with (t + 1 + N.of_nat (List.length r)) by lia.
    apply IH. eapply Forall_impl; [|apply instant_ended, H]. intros w. apply ended_ok_next.
Qed.

Theorem run_ended sched o : Forall (ended (N.of_nat (List.length sched))) (run (sched ++ [o])).
Proof. unfold run. apply (run_from_ended sched 0 [] o). constructor. Qed.

(* ---------- what the invariants say about one wait ---------- *)
Definition spec_outcome (n : N) (w : wait) : option (N * outcome) :=
  match fm w, dl w with
  | Some (te, e), Some x => if te <? x then Some (te, OEvent e) else Some (x, OTimeout)
  | Some (te, e), None => Some (te, OEvent e)
  | None, Some x => if x <=? n then Some (x, OTimeout) else None
  | None, None => None
  end.

Lemma outcome_is_spec n w :
  ended n w -> (forall te e x, fm w = Some (te, e) -> dl w = Some x -> te <> x) -> outcome_of w = spec_outcome n w.
Proof.
  intros [[U E T F TM NT D R FR TS] _ [ST SD] _] TIE. unfold outcome_of, spec_outcome.
  destruct (set_ (w_dyn w)) eqn:Es.
  - destruct (done_ (w_dyn w)) as [td|] eqn:Ed; [|destruct (SD eq_refl eq_refl)].
    destruct (D _ eq_refl) as (_ & D2 & D3 & D4 & D5).
    destruct (timed_ (w_dyn w)) eqn:Et.
    + destruct (T eq_refl) as (_ & T2 & tf & T3 & T4). specialize (D4 eq_refl). rewrite T3 in D4. injection D4 as ->.
      destruct (F _ T3) as (F1 & F2 & F3). rewrite F1.
      destruct (fm w) as [[te e]|].
      * specialize (T4 _ _ eq_refl). destruct (N.ltb_spec te td); [lia|reflexivity].
      * destruct (N.leb_spec td n); [reflexivity|lia].
    + destruct (E eq_refl eq_refl) as (te & e & E1 & E2 & E3). destruct (D5 eq_refl) as [e' D6].
      rewrite E1 in D6. injection D6 as -> ->. rewrite E1, E2.
      remember (dl w) as o eqn:Edl in |- *. symmetry in Edl. destruct o as [x|]; [|reflexivity].
      destruct (N.ltb_spec td x) as [|Hge]; [reflexivity|exfalso].
      destruct (timer_ (w_dyn w)) eqn:Etm.
      * destruct (ST eq_refl) as (x' & X1 & X2). rewrite X1 in Edl. injection Edl as ->. lia.
      * destruct (fired_ (w_dyn w)) as [tf|] eqn:Ef.
        -- destruct (F _ eq_refl) as (F1 & _ & _). rewrite F1 in Edl. injection Edl as ->.
           specialize (E3 _ eq_refl). apply (TIE _ _ _ E1 F1). lia.
        -- rewrite (NT eq_refl eq_refl) in Edl. discriminate.
  - destruct (U eq_refl) as (U1 & U2 & U3 & U4 & U5 & U6). rewrite U4, U5.
    remember (dl w) as o eqn:Edl in |- *. symmetry in Edl. destruct o as [x|]; [|reflexivity].
    destruct (N.leb_spec x n) as [Hle|]; [exfalso|reflexivity].
    destruct (timer_ (w_dyn w)) eqn:Etm.
    + destruct (ST eq_refl) as (x' & X1 & X2). rewrite X1 in Edl. injection Edl as ->. lia.
    + rewrite (NT eq_refl U6) in Edl. discriminate.
Qed.

(* without the tie exclusion: still exactly one of the two, and each only for its reason *)
Lemma outcome_exclusive n w td o :
  ended n w -> outcome_of w = Some (td, o) ->
  match o with
  | OEvent e => fm w = Some (td, e) /\ timed_ (w_dyn w) = false /\ (forall x, dl w = Some x -> td <= x)
  | OTimeout => dl w = Some td /\ event_ (w_dyn w) = None /\ (forall te e, fm w = Some (te, e) -> td <= te)
  | ONothing => False
  end.
Proof.
  intros [[U E T F TM NT D R FR TS] _ [ST SD] _]. unfold outcome_of.
  destruct (done_ (w_dyn w)) as [td'|] eqn:Ed; [|discriminate].
  destruct (D _ eq_refl) as (D1 & D2 & D3 & D4 & D5).
  destruct (timed_ (w_dyn w)) eqn:Et.
  - intro X. injection X as <- <-. destruct (T eq_refl) as (_ & T2 & tf & T3 & T4).
    specialize (D4 eq_refl). rewrite T3 in D4. injection D4 as ->. destruct (F _ T3) as (F1 & _ & _). auto.
  - destruct (E D1 eq_refl) as (te & e & E1 & E2 & E3). destruct (D5 eq_refl) as [e' D6].
    rewrite E1 in D6. injection D6 as -> ->. rewrite E2. intro X. injection X as <- <-.
    split; [exact E1|]. split; [reflexivity|]. intros x Hx.
    destruct (timer_ (w_dyn w)) eqn:Etm.
    + destruct (TM eq_refl) as (x' & X1 & X2). rewrite X1 in Hx. injection Hx as ->. lia.
    + destruct (fired_ (w_dyn w)) as [tf|] eqn:Ef.
      * destruct (F _ eq_refl) as (F1 & _ & _). rewrite F1 in Hx. injection Hx as ->. exact (E3 _ eq_refl).
      * rewrite (NT eq_refl eq_refl) in Hx. discriminate.
Qed.

Lemma callback_iff_pending n w : ended n w -> reg_ (w_dyn w) = match done_ (w_dyn w) with Some _ => false | None => true end.
Proof.
  intros [[U E T F TM NT D R FR TS] _ _ _]. destruct (done_ (w_dyn w)) as [td|] eqn:Ed.
  - destruct (D _ eq_refl) as (_ & D2 & _). exact D2.
  - exact (R eq_refl).
Qed.

Lemma polls_spec n w dly i :
  ended n w -> ws_poll (w_spec w) = Some (dly, i) ->
  exists k, polls_ (w_dyn w) = ticks (w_start w + dly) i k /\
            Forall (fun p => p <= n) (polls_ (w_dyn w)) /\
            (done_ (w_dyn w) = None -> n < w_start w + dly + N.of_nat k * i) /\
            (forall td, done_ (w_dyn w) = Some td ->
                        Forall (fun p => p <= td) (polls_ (w_dyn w)) /\ td <= w_start w + dly + N.of_nat k * i).
Proof.
  intros [C [OK PN PS PL PX PD PU PI PA PC] [ST SD] NX] H.
  exists (List.length (polls_ (w_dyn w))). destruct (PS _ _ H) as [A B]. split; [exact A|]. split; [exact PL|]. split.
  - intro Hd. destruct B as [B|[_ B]].
    + exact (NX _ B).
    + destruct (SD B Hd).
  - intros td Hd. split; [exact (PD _ Hd)|].
    destruct (c_done _ _ C _ Hd) as (D1 & _).
    destruct (setat_ (w_dyn w)) as [ts|] eqn:Ea; [|destruct (PI D1 eq_refl)].
    destruct (PA _ eq_refl) as (_ & A2 & _). rewrite (A2 _ Hd). exact (PC _ _ _ eq_refl H).
Qed.

Lemma no_polling_when_disabled n w : ended n w -> ws_poll (w_spec w) = None -> polls_ (w_dyn w) = [].
Proof. intros [_ P _ _] H. exact (proj2 (p_none _ _ P H)). Qed.

(* ---------- independence and the faithfulness of the recorded history ---------- *)
Lemma items_act_on_each_wait_alone t ws it : (forall s, it <> IStart s) -> do_item t ws it = map (act t it) ws.
Proof. intro H. destruct it; try reflexivity. destruct (H s eq_refl). Qed.

Lemma start_leaves_the_others t ws s : firstn (List.length ws) (do_item t ws (IStart s)) = ws.
Proof.
  cbn [do_item]. destruct (spec_ok s).
  - rewrite firstn_app, Nat.sub_diag, firstn_all. cbn. apply app_nil_r.
  - apply firstn_all.
Qed.

Lemma addressed_items_touch_one_wait i f w : ws_id (w_spec w) <> i -> only i f w = w.
Proof. intro H. unfold only. destruct (N.eqb_spec (ws_id (w_spec w)) i); [contradiction|reflexivity]. Qed.

Lemma history_recorded t it w :
  all_ (w_dyn (act t it w)) = all_ (w_dyn w) ++ match it with IEv e => [(t, e)] | _ => [] end.
Proof.
  assert (X : forall v, all_ (w_dyn (on_timeout t v)) = all_ (w_dyn v)).
  { intro v. unfold on_timeout. destruct (timer_ (w_dyn v) && _); reflexivity. }
  assert (Y : forall v, all_ (w_dyn (on_poll t v)) = all_ (w_dyn v)).
  { intro v. unfold on_poll. destruct (opt_eqb N.eqb (next_ (w_dyn v)) (Some t)); reflexivity. }
  assert (Z : forall v, all_ (w_dyn (on_resume t v)) = all_ (w_dyn v)).
  { intro v. unfold on_resume. destruct (set_ (w_dyn v) && reg_ (w_dyn v)); reflexivity. }
  destruct it as [e|i|i|i|s]; cbn [act]; unfold only; try destruct (ws_id (w_spec w) =? i);
    rewrite ?X, ?Y, ?Z, ?app_nil_r; reflexivity.
Qed.

Lemma history_untouched_by_flush t w : all_ (w_dyn (flush t w)) = all_ (w_dyn w).
Proof.
  unfold flush.
  assert (X : forall v, all_ (w_dyn (on_timeout t v)) = all_ (w_dyn v)).
  { intro v. unfold on_timeout. destruct (timer_ (w_dyn v) && _); reflexivity. }
  assert (Y : forall v, all_ (w_dyn (on_poll t v)) = all_ (w_dyn v)).
  { intro v. unfold on_poll. destruct (opt_eqb N.eqb (next_ (w_dyn v)) (Some t)); reflexivity. }
  assert (Z : forall v, all_ (w_dyn (on_resume t v)) = all_ (w_dyn v)).
  { intro v. unfold on_resume. destruct (set_ (w_dyn v) && reg_ (w_dyn v)); reflexivity. }
  rewrite Z, Y, X. reflexivity.
Qed.
