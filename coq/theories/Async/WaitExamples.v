(* C17: the hypotheses of the theorems are met by concrete, non-trivial schedules *)
From Coq Require Import List NArith Bool String.
Import ListNotations.
From Indi Require Import Base.Sx Msg.Equality Client.Model Async.Wait Async.WaitProof.
Local Open Scope N_scope.

Definition cb_any : callback := {| cb_id := 1; cb_dev := None; cb_vec := None; cb_elem := None; cb_type := TAny |}.
Definition sp : wspec :=
  {| ws_id := 1; ws_cb := cb_any; ws_cond := CExpect (CRaw (Some (s2l "hit"))); ws_timeout := Some 5; ws_poll := Some (1, 2) |}.
Definition ev (v : string) : cevent := EvValue (s2l "D") (s2l "T") (s2l "a") (CRaw None) (CRaw (Some (s2l v))).

Definition sched_event : list (list item) := [[IStart sp]; []; [IEv (ev "x")]; [IEv (ev "hit"); IEv (ev "late")]; []; []; []].
Definition sched_timeout : list (list item) := [[IStart sp]; []; [IEv (ev "x")]; []; []; []; [IEv (ev "hit")]].
Definition sched_tie_event_first : list (list item) := [[IStart sp]; []; []; []; []; [IEv (ev "hit"); ITimeout 1]; []].
Definition sched_tie_timeout_first : list (list item) := [[IStart sp]; []; []; []; []; [ITimeout 1; IEv (ev "hit")]; []].

Example first_match_wins :
  map outcome_of (run sched_event) = [Some (3, OEvent (ev "hit"))] /\ map (fun w => polls_ (w_dyn w)) (run sched_event) = [[1]] /\
  registered (run sched_event) = [].
Proof. vm_compute. repeat split; reflexivity. Qed.

Example times_out_at_the_deadline :
  map outcome_of (run sched_timeout) = [Some (5, OTimeout)] /\ map (fun w => polls_ (w_dyn w)) (run sched_timeout) = [[1; 3]] /\
  registered (run sched_timeout) = [].
Proof. vm_compute. repeat split; reflexivity. Qed.

Example at_a_tie_the_order_decides :
  map outcome_of (run sched_tie_event_first) = [Some (5, OEvent (ev "hit"))] /\
  map outcome_of (run sched_tie_timeout_first) = [Some (5, OTimeout)].
Proof. vm_compute. split; reflexivity. Qed.

(* the waits of these schedules are instances of the theorems' "ended n w" *)
Example ended_is_inhabited : Forall (ended 6) (run sched_event).
Proof. exact (run_ended (removelast sched_event) (last sched_event [])). Qed.
