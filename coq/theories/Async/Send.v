(* C19: a model of the sending side of the transports under asyncio:
   one task per routed message ("async with sender_lock: write; await drain" for
   TCP, "await write; await flush" for the TTY), the loop's FIFO ready queue, the
   FIFO-fair asyncio.Lock (a newcomer queues whenever somebody waits), and an
   adversarial environment that decides when each pending I/O completes.
   This file models the runtime; it is validated against the real event loop by
   exhaustive schedule exploration, not verified (see DESIGN). *)
From Coq Require Import List NArith Bool Arith Lia.
Import ListNotations.

Definition conn := N.
Definition mid := N.                 (* a routed message (identified by its number) *)

Record task := { t_conn : conn; t_msg : mid }.

Inductive pc :=
| PStart                             (* the task created by message_from_device, not yet run *)
| PWoken                             (* a lock waiter whose future was set *)
| PIo.                               (* the lock holder, resumed after an I/O completed *)

(* the lock holder of a connection *)
Record holder := { h_task : task; h_done : nat; h_written : bool }.

Record cstate := {
  lock : bool;
  waiters : list task;               (* asyncio.Lock._waiters, FIFO *)
  out : list mid;                    (* what has reached the stream *)
  hold : option holder;
  pending : bool                     (* the holder awaits an I/O the environment has not completed yet *)
}.

Record sched := {
  cs : conn -> cstate;
  ready : list (task * pc);          (* the loop's ready queue *)
  routed : conn -> list mid;
  tty : conn -> bool                 (* TTY-style connection: output happens when the first await completes *)
}.

Definition upd {A} (f : conn -> A) (c : conn) (x : A) : conn -> A := fun c' => if N.eqb c' c then x else f c'.

Definition idle : cstate := {| lock := false; waiters := []; out := []; hold := None; pending := false |}.
Definition init (is_tty : conn -> bool) : sched :=
  {| cs := fun _ => idle; ready := []; routed := fun _ => []; tty := is_tty |}.

Inductive move :=
| Route (c : conn) (m : mid)         (* the router hands message m to connection c: create_task(send(data)) *)
| Run                                (* the loop runs the next ready handle *)
| Complete (c : conn).               (* the environment completes c's pending I/O *)

(* taking the lock: TCP writes at once and then awaits drain; TTY awaits its write first *)
Definition acquire (s : sched) (t : task) (st : cstate) (ws : list task) : cstate :=
  if tty s (t_conn t)
  then {| lock := true; waiters := ws; out := out st;
          hold := Some {| h_task := t; h_done := 0; h_written := false |}; pending := true |}
  else {| lock := true; waiters := ws; out := out st ++ [t_msg t];
          hold := Some {| h_task := t; h_done := 0; h_written := true |}; pending := true |}.

Definition release (st : cstate) : cstate * list (task * pc) :=
  ({| lock := false; waiters := waiters st; out := out st; hold := None; pending := false |},
   match waiters st with w :: _ => [(w, PWoken)] | [] => [] end).

Definition run_task (s : sched) (t : task) (p : pc) (rest : list (task * pc)) : sched :=
  let c := t_conn t in
  let st := cs s c in
  match p with
  | PStart =>
      if negb (lock st) && (match waiters st with [] => true | _ => false end)
      then {| cs := upd (cs s) c (acquire s t st []); ready := rest; routed := routed s; tty := tty s |}
      else {| cs := upd (cs s) c {| lock := lock st; waiters := waiters st ++ [t]; out := out st; hold := hold st; pending := pending st |};
              ready := rest; routed := routed s; tty := tty s |}
  | PWoken =>
      {| cs := upd (cs s) c (acquire s t st (tl (waiters st))); ready := rest; routed := routed s; tty := tty s |}
  | PIo =>
      match hold st with
      | Some h =>
          if tty s c && Nat.eqb (h_done h) 0 then
            (* resumed after the write completed: now await flush *)
            {| cs := upd (cs s) c {| lock := true; waiters := waiters st; out := out st;
                                    hold := Some {| h_task := h_task h; h_done := 1; h_written := h_written h |}; pending := true |};
               ready := rest; routed := routed s; tty := tty s |}
          else
            let (st', woken) := release st in
            {| cs := upd (cs s) c st'; ready := rest ++ woken; routed := routed s; tty := tty s |}
      | None => {| cs := cs s; ready := rest; routed := routed s; tty := tty s |}
      end
  end.

Definition step (s : sched) (mv : move) : sched :=
  match mv with
  | Route c m =>
      {| cs := cs s; ready := ready s ++ [({| t_conn := c; t_msg := m |}, PStart)];
         routed := upd (routed s) c (routed s c ++ [m]); tty := tty s |}
  | Run =>
      match ready s with
      | [] => s
      | (t, p) :: rest => run_task s t p rest
      end
  | Complete c =>
      let st := cs s c in
      match hold st with
      | Some h =>
          if pending st then
            (* a TTY write reaches the stream when it completes *)
            let wrote := negb (h_written h) in
            {| cs := upd (cs s) c {| lock := lock st; waiters := waiters st;
                                    out := if wrote then out st ++ [t_msg (h_task h)] else out st;
                                    hold := Some {| h_task := h_task h; h_done := h_done h; h_written := true |}; pending := false |};
               ready := ready s ++ [(h_task h, PIo)]; routed := routed s; tty := tty s |}
          else s
      | None => s
      end
  end.

Definition run_moves (s : sched) (mvs : list move) : sched := fold_left step mvs s.

(* ---------- the ordering invariant ---------- *)
(* messages of connection c whose task is still in the ready queue and has not run yet *)
Definition starts_of (c : conn) (r : list (task * pc)) : list mid :=
  flat_map (fun tp => match snd tp with
                      | PStart => if N.eqb (t_conn (fst tp)) c then [t_msg (fst tp)] else []
                      | _ => []
                      end) r.

Definition unwritten_holder (st : cstate) : list mid :=
  match hold st with
  | Some h => if h_written h then [] else [t_msg (h_task h)]
  | None => []
  end.

Definition woken_of (c : conn) (r : list (task * pc)) : list task :=
  flat_map (fun tp => match snd tp with
                      | PWoken => if N.eqb (t_conn (fst tp)) c then [fst tp] else []
                      | _ => []
                      end) r.

Definition io_of (c : conn) (r : list (task * pc)) : list task :=
  flat_map (fun tp => match snd tp with
                      | PIo => if N.eqb (t_conn (fst tp)) c then [fst tp] else []
                      | _ => []
                      end) r.

Record inv (s : sched) (c : conn) : Prop := {
  (* everything routed is out, or held, or queued on the lock, or not started - in this order *)
  i_order : routed s c = out (cs s c) ++ unwritten_holder (cs s c) ++ map t_msg (waiters (cs s c)) ++ starts_of c (ready s);
  (* tasks are filed under their own connection *)
  i_waiters_conn : Forall (fun t => t_conn t = c) (waiters (cs s c));
  i_holder_conn : forall h, hold (cs s c) = Some h -> t_conn (h_task h) = c;
  (* the lock is held exactly by the holder *)
  i_lock : lock (cs s c) = match hold (cs s c) with Some _ => true | None => false end;
  (* a woken waiter is the head of the queue, the lock is free, and there is only one *)
  i_woken : match woken_of c (ready s) with
            | [] => True
            | [w] => lock (cs s c) = false /\ exists ws, waiters (cs s c) = w :: ws
            | _ => False
            end;
  (* a free lock with waiters always has its head on the way *)
  i_live : lock (cs s c) = false -> waiters (cs s c) <> [] -> woken_of c (ready s) <> [];
  (* a resumed holder, or a pending I/O, belongs to the holder *)
  i_io : match io_of c (ready s) with
         | [] => True
         | [t] => exists h, hold (cs s c) = Some h /\ h_task h = t /\ pending (cs s c) = false
         | _ => False
         end;
  i_pending : pending (cs s c) = true -> hold (cs s c) <> None /\ io_of c (ready s) = [];
  (* only a TTY holder whose first await is still pending has not written yet *)
  i_stage : forall h, hold (cs s c) = Some h -> h_written h = negb (tty s c && Nat.eqb (h_done h) 0 && pending (cs s c))
}.
