(* C18: a connection's life, seen from the router: it registers when it is opened,
   its messages are routed with it as sender, and however its receive loop ends
   (EOF, read error, an exception while one of its messages is handled - all end
   in the handler's close()) it is unregistered.  Histories are the router's
   (Router.Model), most recent operation first as in Router.Props. *)
From Coq Require Import List NArith Bool Lia.
Import ListNotations.
From Indi Require Import Base.Sx Router.Model Router.Props.

Inductive ending := Eof | ReadError | EofInsideMessage | JunkThenEof | HandlerException.

Inductive cevent :=
| Open (c : ep)
| FromPeer (c : ep) (m : rmsg)          (* a complete message read from c *)
| DeviceSends (d : ep) (m : rmsg)
| Ends (c : ep) (why : ending).         (* every ending runs close(): unregister *)

Definition to_op (e : cevent) : op :=
  match e with
  | Open c => RegCl c
  | FromPeer c m => Send (Some c) m
  | DeviceSends d m => Send (Some d) m
  | Ends c _ => UnregCl c
  end.

(* most recent first *)
Definition after (h : list cevent) : rstate := run_rev (map to_op h).
Definition wf (h : list cevent) : Prop := wf_rev (map to_op h).

(* however the connection ended, the router has forgotten it *)
Theorem ended_connection_is_forgotten h c why :
  wf h -> ~ In c (clients (after (Ends c why :: h))) /\ alookup N.eqb c (blob (after (Ends c why :: h))) = None.
Proof.
  intros W. unfold after. cbn [map to_op run_rev fold_right step fst clients blob].
  fold (run_rev (map to_op h)).
  split.
  - apply remove_first_NoDup. now apply clients_nodup.
  - apply (alookup_aremove_same N.eqb).
Qed.

(* ... and nothing about any other connection changed: still registered, same settings *)
Theorem other_connections_unaffected h c why c' d :
  c' <> c ->
  (In c' (clients (after (Ends c why :: h))) <-> In c' (clients (after h))) /\
  policy_of (after (Ends c why :: h)) c' d = policy_of (after h) c' d.
Proof.
  intros Hne. unfold after. cbn [map to_op run_rev fold_right step fst clients blob].
  fold (run_rev (map to_op h)). split.
  - split; [apply in_remove_first|apply remove_first_other; congruence].
  - unfold policy_of. cbn [blob]. now rewrite (alookup_aremove_other N.eqb Neqb_spec).
Qed.

(* a peer that connects again starts from the default policy *)
Theorem reconnecting_peer_starts_from_defaults h c d :
  policy_of (after (Open c :: h)) c d = Never.
Proof.
  unfold after. cbn [map to_op run_rev fold_right]. fold (run_rev (map to_op h)). apply reconnect_defaults.
Qed.

(* no delivery is attempted to it any more: it is not among the recipients of anything *)
Theorem no_delivery_to_an_ended_connection h c why m sender :
  wf h -> ~ In (ToCl c) (snd (process (after (Ends c why :: h)) m sender)).
Proof.
  intros W H. apply to_client_iff in H as [_ [_ [Hin _]]].
  now apply (ended_connection_is_forgotten h c why W).
Qed.
