(* C19: the ordering invariant holds along every schedule. *)
From Coq Require Import List NArith Bool Arith Lia.
Import ListNotations.
From Indi Require Import Async.Send.

Lemma upd_same {A} (f : conn -> A) c x : upd f c x c = x.
Proof. unfold upd. now rewrite N.eqb_refl. Qed.
Lemma upd_other {A} (f : conn -> A) c c' x : c' <> c -> upd f c x c' = f c'.
Proof. intros H. unfold upd. apply N.eqb_neq in H. now rewrite H. Qed.

(* ---------- the per-connection views of the ready queue ---------- *)
Lemma starts_app c a b : starts_of c (a ++ b) = starts_of c a ++ starts_of c b.
Proof. unfold starts_of. apply flat_map_app. Qed.
Lemma woken_app c a b : woken_of c (a ++ b) = woken_of c a ++ woken_of c b.
Proof. unfold woken_of. apply flat_map_app. Qed.
Lemma io_app c a b : io_of c (a ++ b) = io_of c a ++ io_of c b.
Proof. unfold io_of. apply flat_map_app. Qed.

Lemma views_other c t p r : t_conn t <> c ->
  starts_of c ((t, p) :: r) = starts_of c r /\ woken_of c ((t, p) :: r) = woken_of c r /\ io_of c ((t, p) :: r) = io_of c r.
Proof.
  intros H. apply N.eqb_neq in H. unfold starts_of, woken_of, io_of. simpl. rewrite H. destruct p; auto.
Qed.

Lemma views_single_other c t p : t_conn t <> c ->
  starts_of c [(t, p)] = [] /\ woken_of c [(t, p)] = [] /\ io_of c [(t, p)] = [].
Proof. intros H. destruct (views_other c t p [] H) as [A [B C]]. auto. Qed.

(* ---------- preservation ---------- *)
Definition Inv (s : sched) : Prop := forall c, inv s c.

Lemma inv_init f : Inv (init f).
Proof.
  intros c. constructor; simpl; auto; try discriminate; try contradiction;
    try (intros h H; discriminate); try (intros H; discriminate).
Qed.

Lemma inv_frame s s' c :
  inv s c -> cs s' c = cs s c -> routed s' c = routed s c -> tty s' c = tty s c ->
  starts_of c (ready s') = starts_of c (ready s) -> woken_of c (ready s') = woken_of c (ready s) ->
  io_of c (ready s') = io_of c (ready s) -> inv s' c.
Proof.
  intros I E1 E2 E3 E4 E5 E6. destruct I as [Ho Hwc Hhc Hlk Hwk Hlv Hio Hpd Hsg].
  constructor; rewrite ?E1, ?E2, ?E3, ?E4, ?E5, ?E6; assumption.
Qed.

Lemma step_route s c0 m : Inv s -> Inv (step s (Route c0 m)).
Proof.
  intros H c. specialize (H c). simpl.
  destruct (N.eq_dec c c0) as [->|Hne].
  - set (t0 := {| t_conn := c0; t_msg := m |}).
    assert (starts_of c0 (ready s ++ [(t0, PStart)]) = starts_of c0 (ready s) ++ [m]) as Es.
    { rewrite starts_app. f_equal. unfold starts_of. simpl. now rewrite N.eqb_refl. }
    assert (woken_of c0 (ready s ++ [(t0, PStart)]) = woken_of c0 (ready s)) as Ew.
    { rewrite woken_app. unfold woken_of at 2. simpl. apply app_nil_r. }
    assert (io_of c0 (ready s ++ [(t0, PStart)]) = io_of c0 (ready s)) as Ei.
    { rewrite io_app. unfold io_of at 2. simpl. apply app_nil_r. }
    destruct H as [Ho Hwc Hhc Hlk Hwk Hlv Hio Hpd Hsg]. constructor; cbn [cs ready routed tty]; fold t0; rewrite ?Es, ?Ew, ?Ei; auto.
    rewrite upd_same, Ho. now rewrite <- !app_assoc.
  - apply (inv_frame s); cbn [cs ready routed tty]; auto.
    + now rewrite upd_other.
    + rewrite starts_app. destruct (views_single_other c {| t_conn := c0; t_msg := m |} PStart) as [A _]; [simpl; congruence|]. now rewrite A, app_nil_r.
    + rewrite woken_app. destruct (views_single_other c {| t_conn := c0; t_msg := m |} PStart) as [_ [A _]]; [simpl; congruence|]. now rewrite A, app_nil_r.
    + rewrite io_app. destruct (views_single_other c {| t_conn := c0; t_msg := m |} PStart) as [_ [_ A]]; [simpl; congruence|]. now rewrite A, app_nil_r.
Qed.

Lemma step_complete s c0 : Inv s -> Inv (step s (Complete c0)).
Proof.
  intros H c. pose proof (H c0) as H0. specialize (H c). simpl.
  destruct (hold (cs s c0)) as [h|] eqn:Eh; [|exact H].
  destruct (pending (cs s c0)) eqn:Ep; [|exact H].
  pose proof (i_holder_conn _ _ H0 h Eh) as Hc.
  destruct (N.eq_dec c c0) as [->|Hne].
  - destruct H0 as [Ho Hwc Hhc Hlk Hwk Hlv Hio Hpd Hsg]. destruct (Hpd Ep) as [_ Hio0].
    constructor; cbn [cs ready routed tty]; rewrite ?upd_same; cbn [lock waiters out hold pending];
      rewrite ?starts_app, ?woken_app, ?io_app.
    + unfold starts_of at 2. simpl. rewrite app_nil_r. rewrite Ho. unfold unwritten_holder. rewrite Eh. cbn [hold h_written].
      destruct (h_written h); cbn [negb]; [reflexivity|]. now rewrite <- !app_assoc.
    + assumption.
    + intros h' [= <-]. exact Hc.
    + now rewrite Hlk, Eh.
    + unfold woken_of at 2. simpl. rewrite app_nil_r. exact Hwk.
    + unfold woken_of at 2. simpl. rewrite app_nil_r. exact Hlv.
    + rewrite Hio0. unfold io_of. simpl. rewrite Hc, N.eqb_refl. simpl. eexists. split; [reflexivity|]. split; reflexivity.
    + discriminate.
    + intros h' [= <-]. cbn [h_written h_done]. now rewrite andb_false_r.
  - apply (inv_frame s); cbn [cs ready routed tty]; auto.
    + now rewrite upd_other.
    + rewrite starts_app. destruct (views_single_other c (h_task h) PIo) as [A _]; [congruence|]. now rewrite A, app_nil_r.
    + rewrite woken_app. destruct (views_single_other c (h_task h) PIo) as [_ [A _]]; [congruence|]. now rewrite A, app_nil_r.
    + rewrite io_app. destruct (views_single_other c (h_task h) PIo) as [_ [_ A]]; [congruence|]. now rewrite A, app_nil_r.
Qed.

Ltac prep := constructor; cbn [cs ready routed tty]; rewrite ?upd_same; cbn [lock waiters out hold pending].

Lemma woken_singleton_head c t r :
  t_conn t = c -> woken_of c ((t, PWoken) :: r) = t :: woken_of c r.
Proof. intros H. unfold woken_of. simpl. now rewrite H, N.eqb_refl. Qed.

Lemma step_run s : Inv s -> Inv (step s Run).
Proof.
  intros H c. simpl. destruct (ready s) as [|[t p] rest] eqn:Er; [exact (H c)|].
  set (c0 := t_conn t). pose proof (H c0) as H0. specialize (H c).
  destruct (N.eq_dec c c0) as [Heq|Hne].
  2:{ (* another connection: nothing it can see changes *)
    assert (forall s', cs s' c = cs s c -> routed s' = routed s -> tty s' = tty s ->
              (ready s' = rest \/ exists w, ready s' = rest ++ [(w, PWoken)] /\ t_conn w = c0) -> inv s' c) as K.
    { intros s' E1 E2 E3 E4. apply (inv_frame s); auto; try (now rewrite E2); try (now rewrite E3);
        rewrite Er; destruct (views_other c t p rest) as [A [B C]]; try (fold c0; congruence);
        destruct E4 as [->|[w [-> Hw]]]; rewrite ?starts_app, ?woken_app, ?io_app;
        try (destruct (views_single_other c w PWoken) as [A' [B' C']]; [congruence|]; rewrite ?A', ?B', ?C', ?app_nil_r); auto. }
    unfold run_task. fold c0. destruct p.
    - destruct (negb (lock (cs s c0)) && match waiters (cs s c0) with [] => true | _ => false end);
        apply K; cbn [cs ready routed tty]; auto; now rewrite upd_other.
    - apply K; cbn [cs ready routed tty]; auto; now rewrite upd_other.
    - destruct (hold (cs s c0)) as [h|] eqn:Eh.
      + destruct (tty s c0 && Nat.eqb (h_done h) 0).
        * apply K; cbn [cs ready routed tty]; auto; now rewrite upd_other.
        * unfold release. apply K; cbn [cs ready routed tty]; auto; [now rewrite upd_other|].
          destruct (waiters (cs s c0)) as [|w ws] eqn:Ew; [left; now rewrite app_nil_r|].
          right. exists w. split; [reflexivity|].
          pose proof (i_waiters_conn _ _ H0) as Hw. rewrite Ew in Hw. now inversion Hw.
      + apply K; cbn [cs ready routed tty]; auto. }
  subst c. clear H. destruct H0 as [Ho Hwc Hhc Hlk Hwk Hlv Hio Hpd Hsg]. rewrite Er in *. unfold run_task. fold c0.
  destruct p.
  - (* a fresh send task *)
    assert (starts_of c0 ((t, PStart) :: rest) = t_msg t :: starts_of c0 rest) as Es by (unfold starts_of; simpl; unfold c0; now rewrite N.eqb_refl).
    assert (woken_of c0 ((t, PStart) :: rest) = woken_of c0 rest) as Ew by reflexivity.
    assert (io_of c0 ((t, PStart) :: rest) = io_of c0 rest) as Ei by reflexivity.
    rewrite Es, Ew, Ei in *.
    destruct (lock (cs s c0)) eqn:El; cbn [negb andb].
    + (* lock held: queue up *)
      prep.
      * rewrite Ho, map_app. cbn [map]. now rewrite <- !app_assoc.
      * apply Forall_app. split; [assumption|repeat constructor].
      * exact Hhc.
      * exact Hlk.
      * destruct (woken_of c0 rest) as [|w [|w2 r2]]; auto. destruct Hwk as [F _]. discriminate.
      * discriminate.
      * exact Hio.
      * exact Hpd.
      * exact Hsg.
    + destruct (waiters (cs s c0)) as [|w0 ws0] eqn:Ewt.
      * (* free and nobody waiting: take it *)
        assert (hold (cs s c0) = None) as Eh by (destruct (hold (cs s c0)); [discriminate|reflexivity]).
        assert (woken_of c0 rest = []) as Ew0.
        { destruct (woken_of c0 rest) as [|w [|w2 r2]]; [reflexivity| |contradiction]. destruct Hwk as [_ [ws F]]. discriminate. }
        assert (io_of c0 rest = []) as Ei0.
        { destruct (io_of c0 rest) as [|x [|x2 r2]]; [reflexivity| |contradiction]. destruct Hio as [h [F _]]. congruence. }
        unfold acquire. fold c0. destruct (tty s c0) eqn:Et; prep; rewrite ?Ew0, ?Ei0, ?Et.
        -- rewrite Ho. unfold unwritten_holder. rewrite Eh. cbn [hold h_written h_task map app]. reflexivity.
        -- constructor.
        -- intros h [= <-]. reflexivity.
        -- reflexivity.
        -- exact I.
        -- discriminate.
        -- exact I.
        -- intros _. split; [discriminate|reflexivity].
        -- intros h [= <-]. cbn [h_written h_done]. reflexivity.
        -- rewrite Ho. unfold unwritten_holder. rewrite Eh. cbn [hold h_written h_task map app]. now rewrite <- app_assoc.
        -- constructor.
        -- intros h [= <-]. reflexivity.
        -- reflexivity.
        -- exact I.
        -- discriminate.
        -- exact I.
        -- intros _. split; [discriminate|reflexivity].
        -- intros h [= <-]. cbn [h_written h_done]. reflexivity.
      * (* free, but somebody already waits: queue behind (fairness) *)
        prep.
        -- rewrite Ho, map_app. cbn [map]. now rewrite <- !app_assoc.
        -- apply Forall_app. split; [assumption|repeat constructor].
        -- exact Hhc.
        -- exact Hlk.
        -- destruct (woken_of c0 rest) as [|w [|w2 r2]]; auto.
           destruct Hwk as [F [ws Fw]]. split; [exact F|]. injection Fw as -> ->. eexists. reflexivity.
        -- intros _ _. apply Hlv; [reflexivity|discriminate].
        -- exact Hio.
        -- exact Hpd.
        -- exact Hsg.
  - (* a woken waiter takes the lock *)
    rewrite (woken_singleton_head c0 t rest eq_refl) in *.
    assert (starts_of c0 ((t, PWoken) :: rest) = starts_of c0 rest) as Es by reflexivity.
    assert (io_of c0 ((t, PWoken) :: rest) = io_of c0 rest) as Ei by reflexivity.
    rewrite Es, Ei in *.
    destruct (woken_of c0 rest) as [|w2 r2] eqn:Ew0; [|contradiction].
    destruct Hwk as [El [ws Ewt]].
    assert (hold (cs s c0) = None) as Eh by (rewrite El in Hlk; destruct (hold (cs s c0)); [discriminate|reflexivity]).
    assert (io_of c0 rest = []) as Ei0.
    { destruct (io_of c0 rest) as [|x [|x2 r3]]; [reflexivity| |contradiction]. destruct Hio as [h [F _]]. congruence. }
    rewrite Ewt in *. cbn [tl].
    assert (Forall (fun t0 => t_conn t0 = c0) ws) as Hws by (now inversion Hwc).
    unfold acquire. fold c0. destruct (tty s c0) eqn:Et; prep; rewrite ?Ew0, ?Ei0, ?Et.
    + rewrite Ho. unfold unwritten_holder. rewrite Eh. cbn [hold h_written h_task map app]. reflexivity.
    + exact Hws.
    + intros h [= <-]. reflexivity.
    + reflexivity.
    + exact I.
    + discriminate.
    + exact I.
    + intros _. split; [discriminate|reflexivity].
    + intros h [= <-]. cbn [h_written h_done]. reflexivity.
    + rewrite Ho. unfold unwritten_holder. rewrite Eh. cbn [hold h_written h_task map app]. now rewrite <- app_assoc.
    + exact Hws.
    + intros h [= <-]. reflexivity.
    + reflexivity.
    + exact I.
    + discriminate.
    + exact I.
    + intros _. split; [discriminate|reflexivity].
    + intros h [= <-]. cbn [h_written h_done]. reflexivity.
  - (* the holder resumes after an I/O completed *)
    assert (io_of c0 ((t, PIo) :: rest) = t :: io_of c0 rest) as Ei by (unfold io_of; simpl; unfold c0; now rewrite N.eqb_refl).
    assert (starts_of c0 ((t, PIo) :: rest) = starts_of c0 rest) as Es by reflexivity.
    assert (woken_of c0 ((t, PIo) :: rest) = woken_of c0 rest) as Ew by reflexivity.
    rewrite Ei, Es, Ew in *.
    destruct (io_of c0 rest) as [|x2 r2] eqn:Ei0; [|contradiction].
    destruct Hio as [h [Eh [Ht Ep]]]. rewrite Eh.
    assert (lock (cs s c0) = true) as El by (now rewrite Hlk, Eh).
    assert (woken_of c0 rest = []) as Ew0.
    { destruct (woken_of c0 rest) as [|w [|w2 r3]]; [reflexivity| |contradiction]. destruct Hwk as [F _]. congruence. }
    pose proof (Hsg h Eh) as Hst. rewrite Ep, andb_false_r in Hst. cbn [negb] in Hst.
    destruct (tty s c0 && Nat.eqb (h_done h) 0) eqn:Etd.
    + prep; rewrite ?Ew0, ?Ei0.
      * rewrite Ho. unfold unwritten_holder. rewrite Eh. cbn [hold h_written]. now rewrite Hst.
      * exact Hwc.
      * intros h' [= <-]. cbn [h_task]. exact (Hhc h Eh).
      * reflexivity.
      * exact I.
      * discriminate.
      * exact I.
      * intros _. split; [discriminate|reflexivity].
      * intros h' [= <-]. cbn [h_written h_done]. rewrite Hst. cbn [Nat.eqb]. now rewrite andb_false_r.
    + unfold release. destruct (waiters (cs s c0)) as [|w ws] eqn:Ewt.
      * rewrite app_nil_r. prep; rewrite ?Ew0, ?Ei0, ?Ewt.
        -- rewrite Ho. unfold unwritten_holder. rewrite Eh, ?Ewt. cbn [hold]. now rewrite Hst.
        -- constructor.
        -- intros h' F. discriminate.
        -- reflexivity.
        -- exact I.
        -- intros _ F. now contradiction F.
        -- exact I.
        -- discriminate.
        -- intros h' F. discriminate.
      * assert (t_conn w = c0) as Hw by (now inversion Hwc).
        assert (woken_of c0 (rest ++ [(w, PWoken)]) = [w]) as Ew1.
        { rewrite woken_app, Ew0. unfold woken_of. simpl. now rewrite Hw, N.eqb_refl. }
        assert (starts_of c0 (rest ++ [(w, PWoken)]) = starts_of c0 rest) as Es1.
        { rewrite starts_app. unfold starts_of at 2. simpl. apply app_nil_r. }
        assert (io_of c0 (rest ++ [(w, PWoken)]) = []) as Ei1.
        { rewrite io_app, Ei0. reflexivity. }
        prep; rewrite ?Ew1, ?Es1, ?Ei1, ?Ewt.
        -- rewrite Ho. unfold unwritten_holder. rewrite Eh, ?Ewt. cbn [hold]. now rewrite Hst.
        -- exact Hwc.
        -- intros h' F. discriminate.
        -- reflexivity.
        -- split; [reflexivity|eexists; reflexivity].
        -- intros _ _. discriminate.
        -- exact I.
        -- discriminate.
        -- intros h' F. discriminate.
Qed.

Theorem inv_all s mv : Inv s -> Inv (step s mv).
Proof. destruct mv; [apply step_route|apply step_run|apply step_complete]. Qed.

Theorem inv_run f mvs : Inv (run_moves (init f) mvs).
Proof.
  unfold run_moves. assert (forall s, Inv s -> Inv (fold_left step mvs s)) as G.
  { induction mvs as [|mv mvs IH]; intros s Hs; simpl; [exact Hs|]. apply IH. now apply inv_all. }
  apply G, inv_init.
Qed.

(* ---------- the property ---------- *)
(* whatever the schedule: what is on a connection's stream is a message-boundary prefix
   of what was routed to it, in routing order *)
Theorem out_is_prefix_of_routed f mvs c :
  exists rest, routed (run_moves (init f) mvs) c = out (cs (run_moves (init f) mvs) c) ++ rest.
Proof. destruct (inv_run f mvs c) as [Ho Hwc Hhc Hlk Hwk Hlv Hio Hpd Hsg]. eexists. exact Ho. Qed.

(* and once nothing is left to run and nobody holds the lock, everything routed is out *)
Theorem all_out_when_quiet f mvs c :
  let s := run_moves (init f) mvs in
  ready s = [] -> hold (cs s c) = None -> out (cs s c) = routed s c.
Proof.
  intros s Hr Hh. destruct (inv_run f mvs c) as [Ho Hwc Hhc Hlk Hwk Hlv Hio Hpd Hsg]. fold s in Ho, Hlk, Hlv.
  rewrite Hh in Hlk. rewrite Hr in *.
  assert (waiters (cs s c) = []) as Hw.
  { destruct (waiters (cs s c)) eqn:E; [reflexivity|]. exfalso. apply (Hlv Hlk); [discriminate|reflexivity]. }
  rewrite Ho. unfold unwritten_holder. rewrite Hh, Hw. simpl. now rewrite !app_nil_r.
Qed.

(* isolation: running a task touches only its own connection's state, and what it does
   there depends on nothing but that connection's state *)
Theorem task_touches_only_its_connection s t p rest c :
  c <> t_conn t -> cs (run_task s t p rest) c = cs s c.
Proof.
  intros H. unfold run_task. destruct p.
  - destruct (negb _ && _); cbn [cs]; now rewrite upd_other.
  - cbn [cs]. now rewrite upd_other.
  - destruct (hold (cs s (t_conn t))); [|reflexivity].
    destruct (tty s (t_conn t) && Nat.eqb (h_done h) 0); [cbn [cs]; now rewrite upd_other|].
    destruct (release (cs s (t_conn t))). cbn [cs]. now rewrite upd_other.
Qed.

Theorem task_outcome_is_local s1 s2 t p r1 r2 :
  cs s1 (t_conn t) = cs s2 (t_conn t) -> tty s1 (t_conn t) = tty s2 (t_conn t) ->
  cs (run_task s1 t p r1) (t_conn t) = cs (run_task s2 t p r2) (t_conn t).
Proof.
  intros E1 E2. unfold run_task, acquire. rewrite E1, E2. destruct p.
  - destruct (negb _ && _); cbn [cs]; now rewrite !upd_same.
  - cbn [cs]. now rewrite !upd_same.
  - destruct (hold (cs s2 (t_conn t))); [|exact E1].
    destruct (tty s2 (t_conn t) && Nat.eqb (h_done h) 0); [cbn [cs]; now rewrite !upd_same|].
    destruct (release (cs s2 (t_conn t))). cbn [cs]. now rewrite !upd_same.
Qed.

Theorem completion_touches_only_its_connection s c0 c : c <> c0 -> cs (step s (Complete c0)) c = cs s c.
Proof.
  intros H. simpl. destruct (hold (cs s c0)); [|reflexivity]. destruct (pending (cs s c0)); [|reflexivity].
  cbn [cs]. now rewrite upd_other.
Qed.
