(* Proof obligations on the regenerated registry; re-checked on every run. *)
From Coq Require Import List NArith Bool.
From Indi Require Import Base.Sx Msg.Registry Msg.RegOk Generated.RegistryData.

Lemma live_ok_c20 : reg_ok_c20 live_registry = true.
Proof. vm_compute. reflexivity. Qed.

Lemma live_ok_router : reg_ok_router live_registry = true.
Proof. vm_compute. reflexivity. Qed.

From Indi Require Import Msg.Model Msg.Conform.
Lemma live_ok_c13 : reg_ok_c13 live_registry = true.
Proof. vm_compute. reflexivity. Qed.

Lemma live_probes_ok : probes_ok live_registry = true.
Proof. vm_compute. reflexivity. Qed.
