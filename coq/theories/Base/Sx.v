(* Universal S-expression bridge between the harness and the models.
   Strings are lists of code points (N); no axioms, stdlib only. *)
From Coq Require Import List NArith ZArith Bool String Ascii Lia.
Import ListNotations.

Definition str := list N.

Fixpoint s2l (s : string) : str :=
  match s with
  | EmptyString => []
  | String a s' => N_of_ascii a :: s2l s'
  end.

Fixpoint list_eqb {A} (e : A -> A -> bool) (a b : list A) : bool :=
  match a, b with
  | [], [] => true
  | x :: a', y :: b' => e x y && list_eqb e a' b'
  | _, _ => false
  end.

Lemma list_eqb_spec {A} (e : A -> A -> bool) :
  (forall x y, e x y = true <-> x = y) ->
  forall a b, list_eqb e a b = true <-> a = b.
Proof.
  intros He a. induction a as [|x a IH]; intros [|y b]; simpl; split; intros H;
    try reflexivity; try discriminate.
  - apply andb_prop in H as [H1 H2]. apply He in H1. apply IH in H2. now subst.
  - injection H as -> ->. apply andb_true_intro. split; [now apply He | now apply IH].
Qed.

Definition str_eqb : str -> str -> bool := list_eqb N.eqb.

Lemma str_eqb_spec a b : str_eqb a b = true <-> a = b.
Proof. apply list_eqb_spec. intros x y. apply N.eqb_eq. Qed.

Lemma str_eqb_refl a : str_eqb a a = true.
Proof. now apply str_eqb_spec. Qed.

Lemma str_eqb_neq a b : str_eqb a b = false <-> a <> b.
Proof.
  split.
  - intros H E. apply str_eqb_spec in E. congruence.
  - intros H. destruct (str_eqb a b) eqn:E; [|reflexivity]. apply str_eqb_spec in E. contradiction.
Qed.

Definition opt_eqb {A} (e : A -> A -> bool) (a b : option A) : bool :=
  match a, b with
  | None, None => true
  | Some x, Some y => e x y
  | _, _ => false
  end.

Lemma opt_eqb_spec {A} (e : A -> A -> bool) :
  (forall x y, e x y = true <-> x = y) ->
  forall a b, opt_eqb e a b = true <-> a = b.
Proof.
  intros He [x|] [y|]; simpl; split; intros H; try reflexivity; try discriminate.
  - apply He in H. now subst.
  - injection H as ->. now apply He.
Qed.

Inductive sx : Type :=
| SA (a : str)
| SN (n : Z)
| SL (l : list sx).

Fixpoint sx_eqb (a b : sx) {struct a} : bool :=
  match a, b with
  | SA x, SA y => str_eqb x y
  | SN x, SN y => Z.eqb x y
  | SL x, SL y =>
      (fix go (x y : list sx) {struct x} : bool :=
         match x, y with
         | [], [] => true
         | u :: x', v :: y' => sx_eqb u v && go x' y'
         | _, _ => false
         end) x y
  | _, _ => false
  end.

(* decoders *)
Definition tag (s : string) : sx := SA (s2l s).
Definition is_tag (s : string) (x : sx) : bool :=
  match x with SA a => str_eqb a (s2l s) | _ => false end.

Definition as_str (x : sx) : option str := match x with SA a => Some a | _ => None end.
Definition as_Z (x : sx) : option Z := match x with SN n => Some n | _ => None end.
Definition as_N (x : sx) : option N :=
  match x with SN n => if (n <? 0)%Z then None else Some (Z.to_N n) | _ => None end.
Definition as_nat (x : sx) : option nat := option_map N.to_nat (as_N x).
Definition as_bool (x : sx) : option bool :=
  match x with SN 0%Z => Some false | SN 1%Z => Some true | _ => None end.
Definition as_list (x : sx) : option (list sx) := match x with SL l => Some l | _ => None end.

Fixpoint map_opt {A B} (f : A -> option B) (l : list A) : option (list B) :=
  match l with
  | [] => Some []
  | x :: l' => match f x, map_opt f l' with
               | Some y, Some r => Some (y :: r)
               | _, _ => None
               end
  end.

Definition as_list_of {A} (f : sx -> option A) (x : sx) : option (list A) :=
  match x with SL l => map_opt f l | _ => None end.

(* option: () = None, (x) = Some x *)
Definition as_opt {A} (f : sx -> option A) (x : sx) : option (option A) :=
  match x with
  | SL [] => Some None
  | SL [y] => option_map Some (f y)
  | _ => None
  end.

Definition as_pair {A B} (f : sx -> option A) (g : sx -> option B) (x : sx) : option (A * B) :=
  match x with
  | SL [a; b] => match f a, g b with Some u, Some v => Some (u, v) | _, _ => None end
  | _ => None
  end.

(* encoders *)
Definition of_bool (b : bool) : sx := SN (if b then 1 else 0)%Z.
Definition of_nat (n : nat) : sx := SN (Z.of_nat n).
Definition of_N (n : N) : sx := SN (Z.of_N n).
Definition of_opt {A} (f : A -> sx) (o : option A) : sx :=
  match o with None => SL [] | Some x => SL [f x] end.
Definition of_list {A} (f : A -> sx) (l : list A) : sx := SL (map f l).
Definition of_pair {A B} (f : A -> sx) (g : B -> sx) (p : A * B) : sx := SL [f (fst p); g (snd p)].

Definition bad_input : sx := tag "BAD-INPUT".

Notation "'do' x <- e ; f" := (match e with Some x => f | None => bad_input end)
  (at level 200, x pattern, e at level 100, f at level 200, right associativity).
