"""Comparison of model traces/states of the driver model with the implementation's."""
from harness import drvgen


def view_of_model_msg(mm):
    kind, attrs, value, children = mm
    return {"kind": kind, "attrs": {k: v for k, v in attrs}, "value": value[0] if value else None,
            "children": None if not children else [
                {"kind": p[0], "attrs": {k: v for k, v in p[1]}, "value": p[2][0] if p[2] else None} for p in children[0]]}


def model_trace(tr):
    """-> (synchronous entries in order, spawned set)"""
    sync, spawned = [], []
    for ev in tr:
        if ev[0] == "pub":
            sync.append(["pub", view_of_model_msg(ev[1])])
        elif ev[0] == "call":
            sync.append(["call", ev[1], drvgen.dec_value(ev[2][0]) if ev[2] else None, drvgen.dec_value(ev[3][0]) if ev[3] else None])
        else:
            spawned.append([ev[1], drvgen.dec_value(ev[2][0]) if ev[2] else None])
    return sync, spawned


def model_state(st):
    return [[g[0], bool(g[1]), [[v[0], bool(v[1]), v[2], [[e[0], bool(e[1]), drvgen.dec_value(e[2])] for e in v[3]]] for v in g[2]]] for g in st]


def norm_pub(entry):
    if entry[0] == "pub":
        v = dict(entry[1])
        v = {"kind": v["kind"], "attrs": v["attrs"], "value": v["value"], "children": v["children"]}
        return ["pub", v]
    return entry


def compare_ops(ops, impl_ops, model_traces, what=""):
    for k, (io, mt) in enumerate(zip(impl_ops, model_traces)):
        msync, mspawn = model_trace(mt)
        if io["raised"]:
            return "%sop %d %s raised %s; model trace has %d entries" % (what, k, ops[k][0], io["raised"], len(msync))
        isync = [norm_pub(e) for e in io["trace"] if e[0] != "ran"]
        early = [e for e in io["trace"] if e[0] == "ran"]
        if early:
            return "%sop %d: a coroutine handler ran synchronously" % (what, k)
        if isync != msync:
            for a, b in zip(isync, msync):
                if a != b:
                    return "%sop %d %s: trace differs: impl %s model %s" % (what, k, ops[k][0], str(a)[:300], str(b)[:300])
            return "%sop %d %s: trace length differs: impl %d model %d" % (what, k, ops[k][0], len(isync), len(msync))
        iran = sorted([e[1], e[3]] for e in io["after"] if e[0] == "ran")
        if iran != sorted(mspawn, key=lambda x: (x[0], str(x[1]))) and sorted(map(str, iran)) != sorted(map(str, mspawn)):
            return "%sop %d: coroutine handlers run afterwards %s, model spawns %s" % (what, k, iran, mspawn)
    return None
