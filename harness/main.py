import argparse
import importlib
import os
import sys

from . import core


def main():
    ap = argparse.ArgumentParser()
    ap.add_argument("prop")
    ap.add_argument("--tier", default=os.environ.get("VERIF_TIER", "quick"))
    ap.add_argument("--replay", default=None)
    a = ap.parse_args()
    tier = a.tier if a.tier in ("quick", "thorough") else "quick"
    try:
        seed = int(os.environ.get("VERIF_SEED", "0"))
    except ValueError:
        seed = 0
    mod = importlib.import_module("harness.props." + a.prop.lower())
    try:
        rc = core.run_prop(mod.PROP, tier, seed, a.replay)
    except Exception:  # noqa - the machinery itself failed: the property is not shown to hold on this run
        import json
        import traceback
        tb = traceback.format_exc()
        d = os.path.join(core.VERIF, "replays", mod.PROP.id)
        os.makedirs(d, exist_ok=True)
        path = os.path.join(d, "machinery-%d.json" % os.getpid())
        with open(path, "w") as f:
            json.dump({"property": mod.PROP.id, "status": "no-failing-input-found", "tier": tier, "seed": seed, "input": None,
                       "unchecked": "the check could not be completed: " + tb[-1500:]}, f, indent=1)
        print("VIOLATION property=%s replay=%s no-failing-input-found" % (mod.PROP.id, os.path.relpath(path, core.VERIF)))
        sys.stdout.flush()
        rc = 1
    sys.exit(rc)


if __name__ == "__main__":
    main()
