import argparse
import importlib
import os
import sys

from . import core


def main():
    ap = argparse.ArgumentParser()
    ap.add_argument("prop")
    ap.add_argument("--tier", default=os.environ.get("VERIF_TIER", "quick"))
    ap.add_argument("--replay", default=None)
    a = ap.parse_args()
    tier = a.tier if a.tier in ("quick", "thorough") else "quick"
    try:
        seed = int(os.environ.get("VERIF_SEED", "0"))
    except ValueError:
        seed = 0
    mod = importlib.import_module("harness.props." + a.prop.lower())
    sys.exit(core.run_prop(mod.PROP, tier, seed, a.replay))


if __name__ == "__main__":
    main()
