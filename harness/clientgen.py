"""Streams of server messages over a small universe of names (so that
redefinition, partial updates, kind mismatches, unknown targets, odd BLOB
payloads and whole-device deletion all occur), and an independent reference
interpreter of the INDI client rules."""
import base64
import binascii

from harness import msggen

DEVS = ["D1", "D2"]
VECS = ["A", "B", "C"]
ELS = ["x", "y", "z"]
KINDS = ["Text", "Number", "Switch", "Light", "BLOB"]
BLOB_PAYLOADS = [("QUJD", "3"), ("", "0"), (None, "0"), ("QUJD", "4"), ("!!!!", "3"), ("QUJ", "3"), ("AAEC/w==", "4"),
                 ("QUJD", "x"), ("QU JD\n", "3"), ("QUJD", "")]


def def_value(rng, kind):
    return {"Text": rng.choice(["", "hello", "a b", None]), "Number": rng.choice(["0", "1.5", "12:30"]),
            "Switch": rng.choice(["On", "Off"]), "Light": rng.choice(msggen.STATES), "BLOB": None}[kind]


def set_value(rng, kind):
    return {"Text": rng.choice(["", "new", "x<y", None]), "Number": rng.choice(["0", "2.5", "-0:30", "7"]),
            "Switch": rng.choice(["On", "Off"]), "Light": rng.choice(msggen.STATES)}[kind]


def gen_def(rng, dev=None, vec=None, kind=None):
    kind = kind or rng.choice(KINDS)
    names = rng.sample(ELS, rng.randint(1, 3))
    if rng.random() < 0.1:
        names.append(names[0])          # duplicate child name
    ch = []
    for n in names:
        attrs = {"name": n}
        if rng.random() < 0.6:
            attrs["label"] = "L" + n
        if kind == "Number":
            attrs.update(format="%f", min="0", max="0", step="0")
        ch.append({"kind": "def" + kind, "attrs": attrs, "value": def_value(rng, kind)})
    attrs = {"device": dev or rng.choice(DEVS), "name": vec or rng.choice(VECS), "state": rng.choice(msggen.STATES)}
    if kind != "Light":
        attrs["perm"] = rng.choice(msggen.PERMS)
    if kind == "Switch":
        attrs["rule"] = rng.choice(msggen.RULES)
    for k in ("label", "group", "message"):
        if rng.random() < 0.5:
            attrs[k] = k + "-" + rng.choice("abc")
    return {"kind": "def%sVector" % kind, "attrs": attrs, "value": None, "children": ch}


def gen_set(rng, dev=None, vec=None, kind=None):
    kind = kind or rng.choice(KINDS)
    ch = []
    for n in rng.sample(ELS + ["nope"], rng.randint(0, 3)):
        if kind == "BLOB":
            payload, size = rng.choice(BLOB_PAYLOADS)
            ch.append({"kind": "oneBLOB", "attrs": {"name": n, "size": size, "format": rng.choice([".fits", ".x"])}, "value": payload})
        else:
            ch.append({"kind": "one" + kind, "attrs": {"name": n}, "value": set_value(rng, kind)})
    if ch and rng.random() < 0.1:
        ch.append(dict(ch[0], value=ch[0]["value"]))
    attrs = {"device": dev or rng.choice(DEVS + ["D9"]), "name": vec or rng.choice(VECS + ["Z"]), "state": rng.choice(msggen.STATES)}
    return {"kind": "set%sVector" % kind, "attrs": attrs, "value": None, "children": ch}


def gen_stream(rng, n):
    out = []
    defined = {}
    for _ in range(n):
        r = rng.random()
        if r < 0.35 or not defined:
            m = gen_def(rng)
            defined[(m["attrs"]["device"], m["attrs"]["name"])] = m["kind"][3:-6]
            out.append(m)
        elif r < 0.75:
            if rng.random() < 0.75:
                (d, v), k = rng.choice(sorted(defined.items()))
                if rng.random() < 0.15:
                    k = rng.choice(KINDS)      # kind mismatch
                out.append(gen_set(rng, d, v, k))
            else:
                out.append(gen_set(rng))
        elif r < 0.9:
            attrs = {"device": rng.choice(DEVS + ["D9"])}
            if rng.random() < 0.7:
                attrs["name"] = rng.choice(VECS + ["Z"])
            out.append({"kind": "delProperty", "attrs": attrs, "value": None, "children": None})
            if "name" not in attrs:
                for key in [k for k in defined if k[0] == attrs["device"]]:
                    del defined[key]
            else:
                defined.pop((attrs["device"], attrs["name"]), None)
        elif r < 0.95:
            out.append({"kind": "message", "attrs": {"device": rng.choice(DEVS), "message": "note"}, "value": None, "children": None})
        else:
            out.append({"kind": "pingRequest", "attrs": {"uid": "u1"}, "value": None, "children": None})
    return out


# ---------- reference interpreter of the INDI client rules ----------

def blob_of(child):
    """decoded payload of a oneBLOB, or None when it cannot be taken"""
    try:
        data = base64.b64decode(child["value"] or "")
        size = int(child["attrs"].get("size"))
    except (ValueError, TypeError, binascii.Error):
        return None
    if size != len(data):
        return None
    return ["blob", list(data), child["attrs"].get("format")]


def ref_apply(view, m):
    """view: {device: {property: {"kind","state","label","group","elements": {name: {"label","value"}}}}} (ordered dicts)"""
    kind = m["kind"]
    dev = m["attrs"].get("device")
    if kind.startswith("def") and kind.endswith("Vector"):
        k = kind[3:-6]
        els = {}
        for c in m["children"] or []:
            els[c["attrs"]["name"]] = {"label": c["attrs"].get("label"), "value": ["raw", c["value"]]}
        view.setdefault(dev, {})[m["attrs"]["name"]] = {"kind": k, "state": m["attrs"]["state"], "label": m["attrs"].get("label"),
                                                          "group": m["attrs"].get("group"), "elements": els}
    elif kind.startswith("set") and kind.endswith("Vector"):
        k = kind[3:-6]
        prop = view.get(dev, {}).get(m["attrs"].get("name"))
        if prop is None or prop["kind"] != k:
            return
        prop["state"] = m["attrs"]["state"]
        for c in m["children"] or []:
            el = prop["elements"].get(c["attrs"]["name"])
            if el is None:
                continue
            if k == "BLOB":
                b = blob_of(c)
                if b is not None:
                    el["value"] = b
            else:
                el["value"] = ["raw", c["value"]]
    elif kind == "delProperty":
        if m["attrs"].get("name") is None:
            view.pop(dev, None)
        elif dev in view:
            view[dev].pop(m["attrs"]["name"], None)


def view_list(view):
    return [[d, [[v, p["kind"], p["group"], p["label"], p["state"],
                  [[e, x["label"], x["value"]] for e, x in p["elements"].items()]] for v, p in vs.items()]]
            for d, vs in view.items()]


def model_mirror(mm):
    """model mirror sx -> the same list form"""
    out = []
    for d in mm:
        vs = []
        for v in d[1]:
            es = []
            for e in v[5]:
                cv = e[2]
                val = ["raw", cv[1][0] if cv[1] else None] if cv[0] == "r" else ["blob", [ord(c) for c in cv[1]], cv[2]]
                es.append([e[0], e[1][0] if e[1] else None, val])
            vs.append([v[0], v[1], v[2][0] if v[2] else None, v[3][0] if v[3] else None, v[4], es])
        out.append([d[0], vs])
    return out
