"""S-expression wire format shared with runner/driver.ml and Base/Sx.v.

Python side: str = atom (code points), int/bool = number, list/tuple = list,
None = empty list (option None); use some(x) for option Some.
"""


def some(x):
    return [x]


def opt(x):
    return [] if x is None else [x]


def enc(x, out):
    if isinstance(x, bool):
        out.append("n1" if x else "n0")
    elif isinstance(x, int):
        out.append("n%d" % x)
    elif isinstance(x, str):
        out.append("a" + ",".join(str(ord(c)) for c in x))
    elif isinstance(x, bytes):
        out.append("a" + ",".join(str(c) for c in x))
    elif x is None:
        out.append("(")
        out.append(")")
    elif isinstance(x, (list, tuple)):
        out.append("(")
        for y in x:
            enc(y, out)
        out.append(")")
    else:
        raise TypeError("cannot encode %r" % (x,))


def dumps(x):
    out = []
    enc(x, out)
    return " ".join(out)


def loads(line):
    toks = line.split()
    pos = 0

    def one():
        nonlocal pos
        t = toks[pos]
        pos += 1
        if t == "(":
            items = []
            while toks[pos] != ")":
                items.append(one())
            pos += 1
            return items
        if t[0] == "a":
            body = t[1:]
            if body.startswith("ERR"):
                return "ERR"
            return "".join(chr(int(w)) for w in body.split(",")) if body else ""
        if t[0] == "n":
            return int(t[1:])
        raise ValueError("bad token %r" % t)

    if not toks:
        return None
    if toks[0].startswith("aERR"):
        return "ERR:" + line
    return one()


def coq_term(x):
    """the same value as a Gallina term of type sx (for the vm_compute cross-check)"""
    if isinstance(x, bool):
        return "(SN %d)" % (1 if x else 0)
    if isinstance(x, int):
        return "(SN (%d)%%Z)" % x
    if isinstance(x, str):
        return "(SA [%s]%%N)" % ";".join(str(ord(c)) for c in x) if x else "(SA [])"
    if isinstance(x, bytes):
        return "(SA [%s]%%N)" % ";".join(str(c) for c in x) if x else "(SA [])"
    if x is None:
        return "(SL [])"
    if isinstance(x, (list, tuple)):
        return "(SL [%s])" % ";".join(coq_term(y) for y in x)
    raise TypeError("cannot encode %r" % (x,))
