from harness import core, msggen


class C20(core.Prop):
    id = "C20"
    prop_file = "C20.v"
    impl_module = "c20"
    entry = "eq"
    correspondence = "IndiMessage.__eq__/__ne__ vs Msg.Equality.msg_eqb"
    uses_registry = True
    rule = ("pairs (a,b): a drawn from the grammar of all message kinds (0-5 children), b = every single-point "
            "perturbation of a (incl. one character changed far inside or at the end of a long child value or attribute), an independently rebuilt copy (list/tuple children, int-typed attributes, "
            "re-parsed from its own serialisation), or an unrelated message; non-trivial = pair with at least "
            "one child or attribute involved, distinct by (canonical a, canonical b, construction route)")
    assumptions = ["attribute values are compared after str(), as to_dict does",
                   "children of one message kind all have the part class the registry prescribes (checked per case by the constructors)"]

    def gen(self, rng, tier):
        n_base = 60 if tier == "quick" else 1500
        cases = []
        kinds = sorted(msggen.GRAMMAR)
        for i in range(n_base):
            m = msggen.gen_message(rng, kinds[i % len(kinds)])
            for pert in msggen.perturbations(rng, m):
                label, n = pert[0], pert[1]
                cases.append({"label": label, "a": pert[2] if len(pert) > 2 else m, "b": n, "how_a": "ctor-list", "how_b": rng.choice(["ctor-list", "ctor-tuple"])})
            for how in ("ctor-list", "ctor-tuple", "ctor-int", "parsed"):
                cases.append({"label": "rebuilt:" + how, "a": m, "b": msggen.clone(m), "how_a": "ctor-list", "how_b": how})
            cases.append({"label": "unrelated", "a": m, "b": msggen.gen_message(rng), "how_a": "ctor-list", "how_b": "ctor-list"})
        return cases

    def model_input(self, c):
        return [msggen.sx_msg(c["a"]), msggen.sx_msg(c["b"])]

    def model_input2(self, c, obs):
        # the two objects as they actually are (public attributes), so that a codec defect on the
        # re-parsed route is not mistaken for an equality defect
        if obs.get("status") == "ok":
            return [msggen.sx_msg(obs["view_a"]), msggen.sx_msg(obs["view_b"])]
        return self.model_input(c)

    def expected(self, c, obs):
        return msggen.canon(obs["view_a"]) == msggen.canon(obs["view_b"])

    def compare(self, c, obs, mout):
        if obs["status"] == "skipped":
            return None
        if not isinstance(mout, list):
            return "model rejected the input: %r" % (mout,)
        if obs["status"] != "ok":
            return "implementation %s, model says eq=%s" % (obs["status"], mout[0])
        if bool(mout[0]) != obs["eq"]:
            return "== is %s, model msg_eqb is %s (%s)" % (obs["eq"], bool(mout[0]), c["label"])
        return None

    def oracle(self, c, obs):
        if obs["status"] == "skipped":
            return None
        if obs["status"] != "ok":
            return "equality-raised: comparing two messages %s (%s)" % (obs["status"], obs.get("detail"))
        exp = self.expected(c, obs)
        kind = c["label"].split(":")[0]
        if obs["eq"] != exp:
            return "%s: == returned %s for messages that are structurally %s" % (kind, obs["eq"], "equal" if exp else "different")
        if obs["ne"] == obs["eq"] or obs["sym"] != obs["eq"]:
            return "inconsistent: ==, != and the symmetric comparison disagree (%s)" % kind
        return None

    def nontrivial(self, c, obs):
        if obs["status"] != "ok":
            return None
        return core.sha([msggen.canon(c["a"]), msggen.canon(c["b"]), c["how_b"]])

    def histogram(self, cases, obs):
        h = {}
        for c in cases:
            k = c["label"].split(":")[0]
            h[k] = h.get(k, 0) + 1
        h["skipped_unparsable"] = sum(1 for o in obs if o["status"] == "skipped")
        return h


PROP = C20()
